#!/bin/sh
# runs every thorough check (used through `vp run --with-repo -- tools/thorough_all.sh`)
export VERIF_REPO="${VP_RUN_REPO:-/repo}"
./setup.sh || exit 1
for p in "$@"; do
  s=$(date +%s)
  ./check $p thorough > .build/thorough-$p.out 2>&1; rc=$?
  echo "$p rc=$rc $(( $(date +%s) - s ))s $(grep -E 'VIOLATION|KNOWN' .build/thorough-$p.out | head -2)"
done
