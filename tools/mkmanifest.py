#!/usr/bin/env python3
"""Regenerates /verif/MANIFEST.json from the table below (kept here so the manifest stays valid and consistent)."""
import json, os
ROOT = os.path.dirname(os.path.dirname(os.path.abspath(__file__)))
TB = ("Trusted: Coq 8.16.1 kernel (vm_compute, no native_compute; no axioms: every property theorem reports "
      "'Closed under the global context'); the hand-written Gallina model and its Section hypotheses about vellum/roaring/snappy/"
      "sync.Pool/bufio; the translator tools/gotrans; extraction (ExtrOcamlBasic only) + ocaml/zmodel.ml; the Go harness and its "
      "blob-decoding co-process; for vectors the pure-Go stand-in engine fakefaiss. ")
CLAIMED = {
 "C14": ("Coq: declarative spec_search with soundness / at-most-k lemmas, vector-code round trip + translator tie (getVectorCode); correspondence (vectors build tag, stand-in engine fakefaiss): searches x exclusion x k x eligible sets x index classes vs the extracted specification with engine-computed scores, in memory and re-opened; num_vectors; engine accounting",
         "The specification and its lemmas hold for all inputs; the correspondence runs zapx compiled with -tags vectors against a deterministic pure-Go engine and requires every result to be the true score of an admissible vector of that document, at most k, and for exact indexes exactly the k best (ties at the cut tolerated), including filter-capable handles, wrong dimensions, fields without vectors and a clustered-class index (soundness only).",
         "real FAISS is not installable here: the engine is a stand-in satisfying the assumed contract; zapx's search logic is tied by correspondence, not by a refinement proof; eligible sets contain live documents only.", "6 C14"),
 "C15": ("Coq: merge_vfields specification over the C05 renumbering theorem; correspondence: merge chains over segments with vector fields (fields in some inputs only, fields fully deleted, built/opened/merged inputs) searched exhaustively against the extracted specification; engine accounting",
         "The merged, re-opened segment is searched (all k, exclusions, filters) against the extracted merge_vfields; fields whose vectors all died must have no index; num_vectors; every native index created during merges is released (stand-in engine accounting).",
         "stand-in engine; merge logic tied by correspondence; merge histories consume each segment once (as scorch does).", "6 C15"),
 "C16": ("Coq: C16_lifetime, C16_history_independent (all histories, idle oracle) + refutation of the pinned cache; correspondence: EVERY event sequence up to length 4 (quick) / 6 (thorough) of open/search/close/expiry-pass on an opened segment vs the extracted cache machine (live native indexes, cache entry, double close, use after close) with every search judged against the fresh-segment specification; concurrent searchers + expiry pass under the race detector",
         "The theorems cover all histories and all eviction oracles; the enumeration (with the verif hook running expiry passes synchronously and the 1 s monitor disabled) compares the number of live native indexes and the presence of the cache entry after every event with the extracted machine, judges every search against the specification of a fresh segment, and requires nothing to remain after handles and segment are closed.",
         "EWMA numerics are not modelled (observed idle bit as oracle); data races observed only; stand-in engine.", "6 C16"),
 "C19": ("Coq: C19_merge_faults_surface / C19_build_faults_surface (engine-call programs with every call allowed to fail, each native index tracked: error iff a made call failed, every index closed exactly once) + refutation of the pinned build path; correspondence = fault enumeration: the n-th call of every engine operation fails, for every n, in build and merge scenarios incl. clustered indexes, vs the extracted program model (error, calls made before returning) + file absence + live-index accounting",
         "The theorems hold for every failure oracle and every program shape; the enumeration makes each engine call of 6 scenarios fail in turn (quick strided on the large scenarios) and compares the error outcome AND the exact number of engine calls made before returning with the extracted model, requires a failed merge to leave no file and the live-index count to return to its baseline.",
         "stand-in engine fails exactly where injected; build-side field order is Go map order (scenarios use one index class per batch).", "6 C19"),
 "C17": ("Coq: C17_ok_is_complete / C17_fail_is_error (buffered writer with sticky error, arbitrary write sequences, any limit) + footer/CRC theorems; correspondence = fault enumeration: WriteTo failing at EVERY byte offset, Persist and Merge under RLIMIT_FSIZE at flush/footer boundaries and strides (thorough: every offset) vs the extracted writer model; file absence after errors; successful outputs decoded by the extracted parser",
         "The theorems hold for every capacity, write sequence and failure offset. The correspondence injects a write failure at every offset of WriteTo's output and at dense offsets of Persist/Merge (merge buffer shrunk to 16-100 bytes), compares error/no-error and bytes accepted with the extracted model fed with the recorded write sizes, requires the path to be absent after every error and the file to decode to the expected content after every success.",
         "fsync/close failures cannot be injected; cleanup-on-every-error-path is established by enumeration, not by a structural proof (skeleton stage, DESIGN.md 4.3).", "6 C17"),
 "C18": ("Coq: C18_cancel_outcomes (every event sequence, every close moment: closed error and no file, or success and complete file) ; correspondence: close channel closed at EVERY write boundary of each merge via the StatsReporter callback, plus pre-closed; outcomes and files checked, successful files decoded by the extracted parser against extracted spec_merge",
         "The theorem quantifies over all placements of polls and of the close. The correspondence closes the channel at every write boundary of merges with several segments, deletions, doc values and thesauri (quick: all boundaries of 5 merges; thorough 150) and checks the only two allowed outcomes, including that an ErrClosed return leaves no file and no maps.",
         "poll points are not observable without editing the merge (no hook); vectors' freeReconstructedIndexes under C19.", "6 C18"),
 "C10": ("Coq: C10_history_independent (pooled working memory with whole backing arrays; induction over build histories with the 'clear within capacity' invariant); correspondence: build histories with GC off vs extracted spec, extracted pooled-memory model and extracted parser; concurrent builds under the race detector",
         "The theorem covers every history (incl. failed builds) and every choice of pooled object; the correspondence replays histories (large-then-small, many-fields-then-few, synonyms-then-plain, empty, validator-rejected) in one process with the GC off so the pool really reuses, comparing every build with the spec of its batch alone, with the extracted reuse model on the abstracted history, and its bytes/CRC through the extracted parser; then 2-8 goroutines build concurrently under -race.",
         "the model covers the members that are read before written (IncludeDocValues, pooled postings bitmaps); the other reusable members are overwritten before use (DESIGN.md 6 C10) and are covered by the correspondence only; data races observed, not proved.", "6 C10"),
 "C11": ("Coq: C11_exclusive (any interleaving of disciplined pool operations keeps every scratch object with at most one owner) + refutation of the pinned early-stop path; correspondence: 2-16 reader goroutines + concurrent merges on one segment vs sequential answers under the race detector, byte-stability inside visitor callbacks, pool probe vs extracted pool model",
         "The ownership theorem holds for all schedules; concurrent executions are sampled (40 quick / 800 thorough schedules) with every call's answer compared with its sequential answer, visitor bytes checked for stability during the callback, merges running concurrently, and the pool probed for duplicate hand-outs after histories of early-stopped visits.",
         "'no data race' and 'answers equal sequential answers under all interleavings' are observed on sampled schedules only (partial, DESIGN.md 10).", "6 C11"),
 "C07": ("Coq: refinement theorems C07_clean / C07_filtered / C07_single_hit (iterator machine = specification for every call sequence, chunk size, flags, exclusion set) ; correspondence: bounded-exhaustive and random Next/Advance sequences, reuse histories and ReplaceActual against the extracted machine",
         "The theorems cover every postings list, chunk size > 0, flag combination, exclusion set and every sequence of Next/Advance targets (by induction with the `Ready` invariant over the two chunk streams). The extracted machine is run call by call against the real iterator: exhaustively for all P, E over N documents x chunk sizes x legal sequences (quick N=4,L=2 strided; thorough N=6,L=3), on random larger instances, through merges (single-hit encoding), with preallocated objects reused across terms / absent terms / absent fields / segments, and after ReplaceActual.",
         "ReplaceActual-with-subset and independence from leftovers of reused objects are decided by the correspondence only; the link from 'remaining entries of the chunk' to bytes is the codec lemmas of C01.", "6 C07, Appendix A"),
 "C08": ("Coq: C08_dictionary_enumeration (reused scratch list model of DictionaryIterator, all dictionaries/automata/ranges) + refutation of the pinned read function; correspondence: AutomatonIterator over built/opened/merged/re-merged segments vs the extracted model run on the dictionary the extracted parser reads from the segment's bytes; Gallina matchers for the automata",
         "The theorem holds for every mixture of single-hit and general entries, every automaton and range; the correspondence compares (term, count) sequences, Contains and Cardinality for match-all / never / exact / prefix / Levenshtein / random regular expressions x ranges x provenance, and cross-checks counts against the specification's postings.",
         "vellum's FST.Search abstracted as an ordered filter; Levenshtein/regexp on ASCII terms.", "6 C08"),
 "C04": ("Coq: footer + CRC-32 theorems (Footer.v), footer field order re-extracted from persistFooter/loadConfig and tied; correspondence: Persist bytes = WriteTo bytes, footer decoded and CRC recomputed by the Gallina CRC-32, opened dump = in-memory dump = extracted spec, incl. a >2 MiB segment",
         "footer_roundtrip and crc_update_app hold for all byte images; tie_footer_order re-proves on every run that the Go writer and reader use the frozen field order; every generated segment (many per process, so pooled builder state is reused) is persisted, its footer decoded by the model and its CRC recomputed by an independent implementation, and the re-opened segment's complete query surface compared with the in-memory one and the spec.",
         "mmap/open are OS behaviour; vectors under C14.", "6 C04"),
 "C09": ("Coq: frozen v16 reader parse_v16 (Layout.v) + codec round-trip theorems + translator ties of every shared constant/packing/chunk-size rule; correspondence: files of the current writer decoded by the frozen extracted parser; frozen corpus (written by the pinned commit) re-read by the current reader",
         "Two independent anchors make symmetric format changes visible: the frozen extracted parser decodes every file the current code writes (builds, merges, re-merges, synonyms, boundary cardinalities) and must obtain the content that went in; 21 files written by the pinned commit are re-opened by the current reader and must answer as recorded. Shared arithmetic (chunk size, single-hit packing, constants, footer order) is re-translated from Go and re-proved equal to the frozen definitions on every run.",
         "vellum/roaring/snappy blob formats are decoded by those libraries, not by Coq code; parse(emit c) = c is proved per codec layer, not yet composed.", "6 C09"),
 "C12": ("Coq: synonym-code and id-assignment theorems (Kernel.v, SynIds.v) + translator ties (encode/decodeSynonym); correspondence: thesaurus listings under all exclusion bitmaps vs extracted spec, in memory and re-opened, files through the extracted parser",
         "pair32_roundtrip and syn_ids_roundtrip hold for all ids / visiting orders; extracted spec_thes decides each thesaurus' term list and (synonym, document) pairs for every exclusion bitmap over the defining documents, with thesauri interleaved in the batch and pairs defined by several documents.",
         "W6 input domain; vellum/roaring64 abstract.", "6 C12"),
 "C13": ("Coq: id re-assignment theorem (SynIds.v) + synonym-code ties; correspondence: merge chains over segments with synonym documents vs extracted spec_merge, incl. thesauri in only some inputs, shared words across thesauri, emptied terms and thesauri",
         "syn_ids_roundtrip shows re-assignment by term string is invertible whatever ids the inputs used; extracted merge_thes decides the complete listing (and all exclusion bitmaps) of every merge output over chains of depth <= 3.",
         "the enumerator over FST iterators is tied by correspondence only.", "6 C13"),
 "C05": ("Coq: renumbering theorem (Renum.v) + declarative spec_merge; correspondence: merge chains with all bitmap classes vs extracted spec_merge (maps, size, Count, Fields, stored data, DocID, DocNumbers) and the extracted parser's reading of each merged file",
         "C05_renumber proves the numbering loop for all inputs; extracted spec_merge decides every stored-data observation of the re-opened merge output over chains (depth <= 3) of built / opened / merged inputs with nil, empty, random and full deletion bitmaps, empty inputs and zero survivors.",
         "copyStoredDocs / slow-path byte handling are covered by the correspondence only; snappy abstract.", "6 C05"),
 "C06": ("Coq: single-hit codec theorem + translator ties (enc/dec 1-hit, under32Bits, getChunkSize) + declarative spec_merge; correspondence: merge chains incl. single-hit and byte-copied entries and 1024-boundary cardinalities vs extracted spec_merge, files decoded by the extracted parser",
         "onehit_roundtrip and the codec lemmas hold for all values and are re-proved against the Go source each run; extracted spec_merge decides the complete dictionary/postings/doc-value surface of each merge output, including re-merged single-hit entries, byte-copy path and terms whose cardinality crosses a multiple of 1024 through deletions.",
         "the merge algorithm (enumerator, copy vs re-encode) is tied by correspondence, not by a refinement proof.", "6 C06"),
 "C01": ("Coq: declarative spec_of_batch + verified codec round-trips (uvarint, freq/norm, locations, chunk tables, chunkedIntCoder) + translator ties (getChunkSize, encodeFreqHasLocs, numUvarintBytes); correspondence: extracted spec and extracted v16 parser vs the built segment on generated and boundary batches",
         "The built segment's complete dictionary/postings surface (public API) and the bytes it writes (decoded by the extracted parser) are compared with the extracted specification on structured random batches, all chunk-mode classes and exact 1023/1024/1025/2048-posting boundaries; codec lemmas and chunk-size arithmetic are proved for all inputs and re-proved against the Go source on every run.",
         "The end-to-end theorem parse(emit(build b)) = spec b over the builder's backing-array model is partial (see DESIGN.md 6 C01: proved pieces listed in coq/props/C01.v); vellum/roaring/snappy abstract.", "6 C01"),
 "C02": ("Coq: stored-block codec round-trip (Stored.v) + spec_of_batch; correspondence: Count/Fields/stored visits with every early-stop prefix, DocID, DocNumbers vs the extracted spec; file bytes through the extracted parser",
         "stored_roundtrip / visit_prefix are proved for all documents; the extracted spec decides every stored-field observation on generated batches (repeated names, empty and >64KB values, long array positions, id lists with absent / duplicate / greater-than-max ids).",
         "snappy abstract; DocNumbers' FST shortcut modelled as ordered-map lookup.", "6 C02"),
 "C03": ("Coq: visit-state cache invariant for any visit order and segment switching (DvVisit.v) + spec_of_batch; correspondence: doc-value visits in ascending/descending/random order with a reused state across built/opened segments, all doc-value chunk sizes",
         "C03_any_order proves the cached chunk is coherent after any sequence of visits; the extracted spec decides each visit's term set, on sparse fields with empty chunks between populated ones, chunk sizes 1,2,3,7,1024.",
         "reuse with a different field list is outside the statement; snappy abstract.", "6 C03"),
 # id: (technique, level text, level_note extra, design_ref)
 "C20": ("Coq theorem by induction over AddRef/DecRef histories (Ref.v) + exhaustive sequential histories and race-detector runs against the model's step function",
         "Theorem C20_refcount: for every history keeping the count positive until the end, the segment stays mapped after each proper prefix and is released exactly once by the last operation (atomic steps => all interleavings). The extracted step function is run against the real Segment on every such sequence up to the bound, observing /proc/self/maps, /proc/self/fd and a full read-back.",
         "munmap/close are OS behaviour (observed, not modelled); data-race freedom only observed with -race.", "6 C20"),
}
NA_REASON = "check not yet built in this round (work in progress; see DESIGN.md section 11)"
ALL = ["C%02d" % i for i in range(1, 21)]
m = {
 "version": 1,
 "setup_cmd": "./setup.sh",
 "hooks": {"guard": "verif", "enable": "go build -tags verif (and -tags verif,vectors with go-faiss replaced by /verif/fakefaiss in the harness go.mod)",
           "baseline_off_cmd": "cd /repo && GOFLAGS=-mod=mod GOPROXY=off GOSUMDB=off go test -vet=off -count=1 ./...",
           "source_commits": [], "add_only": True},
 "engines": [
   {"name": "coq", "path": "coq/", "serves_properties": ALL, "kind_free_text": "Coq 8.16.1 development: hand-written executable model, proofs, per-property theorem files coq/props/Cxx.v, generated kernel coq/gen/"},
   {"name": "gotrans", "path": "tools/gotrans/", "serves_properties": ["C01","C03","C04","C06","C07","C08","C09","C12","C13","C14","C17"], "kind_free_text": "Go AST -> Gallina translator for the arithmetic kernel, constants and footer field order"},
   {"name": "zmodel", "path": "ocaml/", "serves_properties": ALL, "kind_free_text": "OCaml binary extracted from the Coq model + 60-line driver"},
   {"name": "zcheck", "path": "harness/", "serves_properties": ALL, "kind_free_text": "Go correspondence harness built against /repo's working tree (tags verif / verif,vectors)"},
   {"name": "fakefaiss", "path": "fakefaiss/", "serves_properties": ["C14","C15","C16","C19"], "kind_free_text": "pure-Go stand-in for go-faiss with live-index accounting and fault injection"},
 ],
 "checks": [], "not_applicable": [],
 "notes": "Every check = Coq proof obligations (property theorems + translator ties, re-checked each run) AND a correspondence run of the extracted model against the implementation. See DESIGN.md.",
}
try:
    import subprocess
    out = subprocess.run(["git", "-C", "/repo", "log", "--format=%H %s"], capture_output=True, text=True).stdout
    m["hooks"]["source_commits"] = [l.split()[0] for l in out.splitlines() if "verif hooks" in l]
except Exception:
    pass
for p in ALL:
    if p in CLAIMED:
        tech, text, note, ref = CLAIMED[p]
        m["checks"].append({
            "property_id": p, "quick_cmd": "./check %s quick" % p, "thorough_cmd": "./check %s thorough" % p,
            "evidence_file": "/verif/evidence/%s.json" % p, "replay_cmd_template": "./check %s quick --replay {path}" % p,
            "engine": "coq+zcheck", "level_claimed": {"category": "proof", "text": text, "design_ref": "DESIGN.md " + ref},
            "level_note": TB + note, "technique": tech})
    else:
        m["not_applicable"].append({"property_id": p, "reason": NA_REASON})
json.dump(m, open(os.path.join(ROOT, "MANIFEST.json"), "w"), indent=1)
print("MANIFEST.json: %d claimed, %d not claimed" % (len(m["checks"]), len(m["not_applicable"])))
