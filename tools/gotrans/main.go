// gotrans: Go-AST -> Gallina translator for the pure arithmetic kernel of zapx and for the
// control skeletons of its resource-handling functions.
// usage: gotrans kernel <repo dir> <out.v> | gotrans skel <repo dir> <out.v>
package main

import (
	"fmt"
	"go/ast"
	"go/parser"
	"go/token"
	"os"
	"path/filepath"
	"sort"
	"strconv"
	"strings"
)

var targets = []string{
	"getChunkSize", "FSTValEncode1Hit", "FSTValDecode1Hit", "under32Bits",
	"encodeFreqHasLocs", "decodeFreqHasLocs", "encodeSynonym", "decodeSynonym",
	"getVectorCode", "numUvarintBytes",
}
var constTargets = []string{
	"Version", "FooterSize", "fieldNotUninverted", "termNotEncoded", "docDropped", "mask31Bits",
	"FSTValEncodingMask", "FSTValEncodingGeneral", "FSTValEncoding1Hit", "DocNum1HitFinished",
	"LegacyChunkMode", "DefaultChunkMode", "termSeparator",
	"SectionInvertedTextIndex", "SectionFaissVectorIndex", "SectionSynonymIndex",
}

type env struct {
	consts map[string]ast.Expr // package-level const/var initialisers
	iota   map[string]int
	types  map[string]string // local variable types
	recur  string
	loops  []string          // auxiliary Fixpoints generated for `for` loops of the current function
	fname  string
}

var width = map[string]int{"uint64": 64, "uint32": 32, "uint16": 16, "uint8": 8, "byte": 8, "uint": 64, "int": 64, "int64": 64, "float32": 32}

func die(f string, a ...interface{}) { fmt.Fprintf(os.Stderr, "gotrans: "+f+"\n", a...); os.Exit(2) }

func (e *env) typeOf(x ast.Expr) string {
	switch v := x.(type) {
	case *ast.Ident:
		if t, ok := e.types[v.Name]; ok {
			return t
		}
		return ""
	case *ast.ParenExpr:
		return e.typeOf(v.X)
	case *ast.CallExpr:
		if id, ok := v.Fun.(*ast.Ident); ok {
			if _, ok := width[id.Name]; ok {
				return id.Name
			}
		}
		if se, ok := v.Fun.(*ast.SelectorExpr); ok && se.Sel.Name == "Float32bits" {
			return "uint32"
		}
		return ""
	case *ast.BinaryExpr:
		switch v.Op {
		case token.EQL, token.NEQ, token.LSS, token.LEQ, token.GTR, token.GEQ, token.LAND, token.LOR:
			return "bool"
		case token.SHL, token.SHR:
			return e.typeOf(v.X)
		}
		if t := e.typeOf(v.X); t != "" {
			return t
		}
		return e.typeOf(v.Y)
	}
	return ""
}

func wrap(w int, s string) string {
	if w == 0 {
		return s
	}
	return fmt.Sprintf("(wrap %d %s)", w, s)
}

func (e *env) expr(x ast.Expr) string {
	switch v := x.(type) {
	case *ast.BasicLit:
		if v.Kind == token.INT {
			n, err := strconv.ParseUint(strings.ReplaceAll(v.Value, "_", ""), 0, 64)
			if err != nil {
				die("literal %s", v.Value)
			}
			return strconv.FormatUint(n, 10)
		}
		if v.Kind == token.CHAR {
			r, _, _, _ := strconv.UnquoteChar(v.Value[1:len(v.Value)-1], '\'')
			return strconv.Itoa(int(r))
		}
		die("unsupported literal %s", v.Value)
	case *ast.Ident:
		switch v.Name {
		case "true", "false":
			return v.Name
		case "nil":
			return "false"
		}
		if _, ok := e.types[v.Name]; ok {
			return "v_" + v.Name
		}
		if _, ok := e.consts[v.Name]; ok {
			return "go_" + v.Name
		}
		if _, ok := e.iota[v.Name]; ok {
			return "go_" + v.Name
		}
		die("unknown identifier %s", v.Name)
	case *ast.ParenExpr:
		return e.expr(v.X)
	case *ast.UnaryExpr:
		if v.Op == token.NOT {
			return "(negb " + e.expr(v.X) + ")"
		}
		die("unary op %s", v.Op)
	case *ast.SelectorExpr:
		// math.MaxUint64 etc.
		if id, ok := v.X.(*ast.Ident); ok && id.Name == "math" {
			switch v.Sel.Name {
			case "MaxUint64":
				return "18446744073709551615"
			case "MaxUint16":
				return "65535"
			}
		}
		die("selector %s", v.Sel.Name)
	case *ast.CallExpr:
		if id, ok := v.Fun.(*ast.Ident); ok {
			if w, ok := width[id.Name]; ok && len(v.Args) == 1 {
				src := e.typeOf(v.Args[0])
				in := e.expr(v.Args[0])
				if sw, ok := width[src]; ok && sw <= w {
					return in
				}
				if src == "" { // untyped constant
					return in
				}
				return wrap(w, in)
			}
		}
		if se, ok := v.Fun.(*ast.SelectorExpr); ok && se.Sel.Name == "Float32bits" {
			return e.expr(v.Args[0]) // a float32 is represented by its bit pattern
		}
		if se, ok := v.Fun.(*ast.SelectorExpr); ok && se.Sel.Name == "Errorf" {
			return "true"
		}
		die("unsupported call")
	case *ast.BinaryExpr:
		a, b := e.expr(v.X), e.expr(v.Y)
		w := width[e.typeOf(v)]
		switch v.Op {
		case token.ADD:
			return wrap(w, "("+a+" + "+b+")")
		case token.MUL:
			return wrap(w, "("+a+" * "+b+")")
		case token.SUB:
			if w == 0 {
				w = 64
			}
			return wrap(w, fmt.Sprintf("(%s + 2 ^ %d - %s)", a, w, b))
		case token.QUO:
			return "(" + a + " / " + b + ")"
		case token.REM:
			return "(" + a + " mod " + b + ")"
		case token.SHL:
			return wrap(width[e.typeOf(v.X)], "(N.shiftl "+a+" "+b+")")
		case token.SHR:
			return "(N.shiftr " + a + " " + b + ")"
		case token.AND:
			return "(N.land " + a + " " + b + ")"
		case token.OR:
			return "(N.lor " + a + " " + b + ")"
		case token.XOR:
			return "(N.lxor " + a + " " + b + ")"
		case token.EQL:
			if e.typeOf(v.X) == "bool" {
				return "(Bool.eqb " + a + " " + b + ")"
			}
			return "(" + a + " =? " + b + ")"
		case token.NEQ:
			return "(negb (" + a + " =? " + b + "))"
		case token.LSS:
			return "(" + a + " <? " + b + ")"
		case token.LEQ:
			return "(" + a + " <=? " + b + ")"
		case token.GTR:
			return "(" + b + " <? " + a + ")"
		case token.GEQ:
			return "(" + b + " <=? " + a + ")"
		case token.LAND:
			return "(" + a + " && " + b + ")"
		case token.LOR:
			return "(" + a + " || " + b + ")"
		}
		die("binary op %s", v.Op)
	}
	die("unsupported expression %T", x)
	return ""
}

// errExpr translates an expression in an `error` result position: nil -> false, anything else -> true
func (e *env) errExpr(x ast.Expr) string {
	if id, ok := x.(*ast.Ident); ok && id.Name == "nil" {
		return "false"
	}
	return "true"
}

type fn struct {
	decl    *ast.FuncDecl
	results []string // result types
}

func (e *env) stmts(f *fn, ss []ast.Stmt, ind string) string {
	if len(ss) == 0 {
		die("function %s: control reaches end without return", f.decl.Name.Name)
	}
	s, rest := ss[0], ss[1:]
	switch v := s.(type) {
	case *ast.ReturnStmt:
		var parts []string
		if len(v.Results) == 0 {
			for _, r := range f.decl.Type.Results.List {
				for _, n := range r.Names {
					parts = append(parts, "v_"+n.Name)
				}
			}
		}
		for i, r := range v.Results {
			if f.results[i] == "error" {
				parts = append(parts, e.errExpr(r))
			} else {
				parts = append(parts, e.expr(r))
			}
		}
		if len(parts) == 1 {
			return ind + parts[0]
		}
		return ind + "(" + strings.Join(parts, ", ") + ")"
	case *ast.AssignStmt:
		if len(v.Lhs) != 1 || len(v.Rhs) != 1 {
			die("multi-assign")
		}
		name := v.Lhs[0].(*ast.Ident).Name
		var rhs string
		switch v.Tok {
		case token.DEFINE:
			rhs = e.expr(v.Rhs[0])
			t := e.typeOf(v.Rhs[0])
			if t == "" {
				t = "int"
			}
			e.types[name] = t
		case token.ASSIGN:
			rhs = e.expr(v.Rhs[0])
		default: // op-assign
			op := map[token.Token]token.Token{token.ADD_ASSIGN: token.ADD, token.SUB_ASSIGN: token.SUB, token.OR_ASSIGN: token.OR,
				token.AND_ASSIGN: token.AND, token.SHL_ASSIGN: token.SHL, token.SHR_ASSIGN: token.SHR, token.MUL_ASSIGN: token.MUL}[v.Tok]
			rhs = e.expr(&ast.BinaryExpr{X: v.Lhs[0], Op: op, Y: v.Rhs[0]})
		}
		return ind + "let v_" + name + " := " + rhs + " in\n" + e.stmts(f, rest, ind)
	case *ast.IncDecStmt:
		name := v.X.(*ast.Ident).Name
		op := token.ADD
		if v.Tok == token.DEC {
			op = token.SUB
		}
		rhs := e.expr(&ast.BinaryExpr{X: v.X, Op: op, Y: &ast.BasicLit{Kind: token.INT, Value: "1"}})
		return ind + "let v_" + name + " := " + rhs + " in\n" + e.stmts(f, rest, ind)
	case *ast.ForStmt:
		// `for cond { assignments }` becomes recursion on fuel over the variables assigned in the body;
		// 64 iterations suffice for the loops of the kernel (each shifts a 64-bit value right)
		if v.Init != nil || v.Post != nil || v.Cond == nil {
			die("function %s: unsupported for form", f.decl.Name.Name)
		}
		var vars []string
		seen := map[string]bool{}
		for _, bs := range v.Body.List {
			var id *ast.Ident
			switch b := bs.(type) {
			case *ast.AssignStmt:
				if b.Tok == token.DEFINE || len(b.Lhs) != 1 {
					die("function %s: unsupported loop body", f.decl.Name.Name)
				}
				id = b.Lhs[0].(*ast.Ident)
			case *ast.IncDecStmt:
				id = b.X.(*ast.Ident)
			default:
				die("function %s: unsupported loop body statement %T", f.decl.Name.Name, bs)
			}
			if !seen[id.Name] {
				seen[id.Name] = true
				vars = append(vars, id.Name)
			}
		}
		lname := fmt.Sprintf("go_%s_loop%d", e.fname, len(e.loops))
		var ps, tup, tys []string
		for _, x := range vars {
			ps = append(ps, fmt.Sprintf("(v_%s : %s)", x, coqType(e.types[x])))
			tup = append(tup, "v_"+x)
			tys = append(tys, coqType(e.types[x]))
		}
		// free variables of cond/body other than the loop variables are passed as extra parameters
		var extra []string
		ast.Inspect(v, func(n ast.Node) bool {
			if id, ok := n.(*ast.Ident); ok {
				if _, isVar := e.types[id.Name]; isVar && !seen[id.Name] {
					seen[id.Name] = true
					extra = append(extra, id.Name)
				}
			}
			return true
		})
		var eps, eargs []string
		for _, x := range extra {
			eps = append(eps, fmt.Sprintf("(v_%s : %s)", x, coqType(e.types[x])))
			eargs = append(eargs, "v_"+x)
		}
		tuple := "(" + strings.Join(tup, ", ") + ")"
		if len(tup) == 1 {
			tuple = tup[0]
		}
		bodyStmts := append(append([]ast.Stmt{}, v.Body.List...), &ast.ExprStmt{X: &ast.Ident{Name: "__recur"}})
		e.recur = fmt.Sprintf("%s fuel' %s %s", lname, strings.Join(eargs, " "), strings.Join(tup, " "))
		lb := e.stmts(f, bodyStmts, "        ")
		e.recur = ""
		e.loops = append(e.loops, fmt.Sprintf("\nFixpoint %s (fuel : nat) %s %s : %s :=\n  match fuel with\n  | O => %s\n  | S fuel' =>\n      if %s then\n%s\n      else %s\n  end.\n",
			lname, strings.Join(eps, " "), strings.Join(ps, " "), strings.Join(tys, " * "), tuple, e.expr(v.Cond), lb, tuple))
		pat := tuple
		if len(tup) > 1 {
			pat = "'" + tuple
		}
		return ind + "let " + pat + " := " + fmt.Sprintf("%s 64%%nat %s %s", lname, strings.Join(eargs, " "), strings.Join(tup, " ")) + " in\n" + e.stmts(f, rest, ind)
	case *ast.ExprStmt:
		if id, ok := v.X.(*ast.Ident); ok && id.Name == "__recur" {
			return ind + e.recur
		}
		die("function %s: unsupported expression statement", f.decl.Name.Name)
	case *ast.DeclStmt:
		gd := v.Decl.(*ast.GenDecl)
		out := ""
		for _, sp := range gd.Specs {
			vs := sp.(*ast.ValueSpec)
			for i, n := range vs.Names {
				t := ""
				if id, ok := vs.Type.(*ast.Ident); ok {
					t = id.Name
				}
				val := "0"
				if t == "bool" {
					val = "false"
				}
				if i < len(vs.Values) {
					val = e.expr(vs.Values[i])
					if t == "" {
						t = e.typeOf(vs.Values[i])
					}
				}
				e.types[n.Name] = t
				out += ind + "let v_" + n.Name + " := " + val + " in\n"
			}
		}
		return out + e.stmts(f, rest, ind)
	case *ast.IfStmt:
		if v.Init != nil {
			die("if with init")
		}
		thenB := append(append([]ast.Stmt{}, v.Body.List...), rest...)
		var elseB []ast.Stmt
		if v.Else != nil {
			switch eb := v.Else.(type) {
			case *ast.BlockStmt:
				elseB = append(append([]ast.Stmt{}, eb.List...), rest...)
			case *ast.IfStmt:
				elseB = append([]ast.Stmt{eb}, rest...)
			}
		} else {
			elseB = rest
		}
		// assignments inside branches are scoped by let, continuation duplicated: fine for small kernels
		saved := copyMap(e.types)
		t := e.stmts(f, thenB, ind+"  ")
		e.types = copyMap(saved)
		el := e.stmts(f, elseB, ind+"  ")
		e.types = saved
		return ind + "if " + e.expr(v.Cond) + " then\n" + t + "\n" + ind + "else\n" + el
	case *ast.SwitchStmt:
		if v.Tag != nil || v.Init != nil {
			die("switch with tag")
		}
		// desugar into if / else-if chain followed by rest
		var chain ast.Stmt
		var def []ast.Stmt
		clauses := v.Body.List
		for i := len(clauses) - 1; i >= 0; i-- {
			cc := clauses[i].(*ast.CaseClause)
			if cc.List == nil {
				def = cc.Body
				continue
			}
			cond := cc.List[0]
			for _, c := range cc.List[1:] {
				cond = &ast.BinaryExpr{X: cond, Op: token.LOR, Y: c}
			}
			ifs := &ast.IfStmt{Cond: cond, Body: &ast.BlockStmt{List: cc.Body}}
			if chain != nil {
				ifs.Else = chain
			} else if def != nil {
				ifs.Else = &ast.BlockStmt{List: def}
			}
			chain = ifs
		}
		return e.stmts(f, append([]ast.Stmt{chain}, rest...), ind)
	}
	die("function %s: unsupported statement %T", f.decl.Name.Name, s)
	return ""
}

func copyMap(m map[string]string) map[string]string {
	r := map[string]string{}
	for k, v := range m {
		r[k] = v
	}
	return r
}

func coqType(t string) string {
	switch t {
	case "bool", "error":
		return "bool"
	}
	return "N"
}

var out strings.Builder

func main() {
	if len(os.Args) < 4 {
		die("usage: gotrans kernel|skel <repo> <out.v>")
	}
	mode, repo, outPath := os.Args[1], os.Args[2], os.Args[3]
	switch mode {
	case "kernel":
		kernel(repo)
	case "skel":
		skel(repo)
	default:
		die("unknown mode %s", mode)
	}
	if err := os.WriteFile(outPath, []byte(out.String()), 0o644); err != nil {
		die("%v", err)
	}
}

func kernel(repo string) {
	fset := token.NewFileSet()
	files, _ := filepath.Glob(filepath.Join(repo, "*.go"))
	sort.Strings(files)
	e := &env{consts: map[string]ast.Expr{}, iota: map[string]int{}}
	funcs := map[string]*ast.FuncDecl{}
	methods := map[string]*ast.FuncDecl{}
	for _, fn := range files {
		if strings.HasSuffix(fn, "_test.go") {
			continue
		}
		f, err := parser.ParseFile(fset, fn, nil, parser.SkipObjectResolution)
		if err != nil {
			die("%v", err)
		}
		for _, d := range f.Decls {
			switch v := d.(type) {
			case *ast.FuncDecl:
				if v.Recv == nil {
					funcs[v.Name.Name] = v
				} else {
					methods[v.Name.Name] = v
				}
			case *ast.GenDecl:
				if v.Tok != token.CONST && v.Tok != token.VAR {
					continue
				}
				for i, sp := range v.Specs {
					vs := sp.(*ast.ValueSpec)
					for j, n := range vs.Names {
						if j < len(vs.Values) {
							if id, ok := vs.Values[j].(*ast.Ident); ok && id.Name == "iota" {
								e.iota[n.Name] = i
								continue
							}
							e.consts[n.Name] = vs.Values[j]
						} else if v.Tok == token.CONST && len(vs.Values) == 0 && i > 0 {
							// implicit repetition in an iota block
							if first := v.Specs[0].(*ast.ValueSpec); len(first.Values) == 1 {
								if id, ok := first.Values[0].(*ast.Ident); ok && id.Name == "iota" {
									e.iota[n.Name] = i
								}
							}
						}
					}
				}
			}
		}
	}
	fmt.Fprintln(&out, "(* GENERATED by gotrans from the Go sources - do not edit *)")
	fmt.Fprintln(&out, "From Coq Require Import NArith Bool List.\nImport ListNotations.\nOpen Scope N_scope.\nOpen Scope bool_scope.")
	fmt.Fprintln(&out, "Definition wrap (w : N) (x : N) : N := x mod 2 ^ w.")
	// constants, in dependency order (simple: emit requested ones recursively)
	done := map[string]bool{}
	var emitConst func(name string)
	emitConst = func(name string) {
		if done[name] {
			return
		}
		done[name] = true
		if i, ok := e.iota[name]; ok {
			fmt.Fprintf(&out, "Definition go_%s : N := %d.\n", name, i)
			return
		}
		x, ok := e.consts[name]
		if !ok {
			die("constant %s not found", name)
		}
		if ce, ok := x.(*ast.CallExpr); ok {
			if se, ok := ce.Fun.(*ast.SelectorExpr); ok && (se.Sel.Name == "New" || se.Sel.Name == "Errorf") {
				return // an error value: only ever used in error positions
			}
		}
		ast.Inspect(x, func(n ast.Node) bool {
			if id, ok := n.(*ast.Ident); ok {
				if _, ok := e.consts[id.Name]; ok {
					emitConst(id.Name)
				}
				if _, ok := e.iota[id.Name]; ok {
					emitConst(id.Name)
				}
			}
			return true
		})
		e.types = map[string]string{}
		fmt.Fprintf(&out, "Definition go_%s : N := %s.\n", name, e.expr(x))
	}
	for _, c := range constTargets {
		emitConst(c)
	}
	for _, name := range targets {
		fd, ok := funcs[name]
		if !ok {
			die("function %s not found", name)
		}
		ast.Inspect(fd.Body, func(n ast.Node) bool {
			if id, ok := n.(*ast.Ident); ok {
				if _, ok := e.consts[id.Name]; ok {
					emitConst(id.Name)
				}
			}
			return true
		})
		e.types = map[string]string{}
		var params []string
		for _, p := range fd.Type.Params.List {
			t := p.Type.(*ast.Ident).Name
			for _, n := range p.Names {
				e.types[n.Name] = t
				params = append(params, fmt.Sprintf("(v_%s : %s)", n.Name, coqType(t)))
			}
		}
		f := &fn{decl: fd}
		var rts []string
		for _, r := range fd.Type.Results.List {
			t := r.Type.(*ast.Ident).Name
			k := len(r.Names)
			if k == 0 {
				k = 1
			}
			for i := 0; i < k; i++ {
				f.results = append(f.results, t)
				rts = append(rts, coqType(t))
			}
		}
		// named results start at their zero value
		pre := ""
		for _, r := range fd.Type.Results.List {
			t := r.Type.(*ast.Ident).Name
			for _, n := range r.Names {
				e.types[n.Name] = t
				z := "0"
				if t == "bool" {
					z = "false"
				}
				pre += "  let v_" + n.Name + " := " + z + " in\n"
			}
		}
		e.loops = nil
		e.fname = name
		body := e.stmts(f, fd.Body.List, "  ")
		for _, l := range e.loops {
			fmt.Fprint(&out, l)
		}
		fmt.Fprintf(&out, "\n(* %s *)\nDefinition go_%s %s : %s :=\n%s%s.\n", filepath.Base(fset.Position(fd.Pos()).Filename), name, strings.Join(params, " "), strings.Join(rts, " * "), pre, body)
	}
	footer(funcs, methods)
}
