package main

// Control-skeleton extractor: for a fixed list of resource-handling functions of zapx, emit the
// statement tree restricted to the calls of interest, error branches, loops, defers and returns
// (coq/Skel.v defines the IR, its path semantics and the verified analysers).

import (
	"fmt"
	"go/ast"
	"go/types"
	"go/parser"
	"go/token"
	"path/filepath"
	"sort"
	"strings"
)

// ids of the calls of interest (frozen in coq/Skel.v)
var callID = map[string]int{
	"cleanup": 1, "Flush": 2, "Sync": 3, "Close": 4, "persistFooter": 5, "mergeToWriter": 6,
	"persistSegmentBaseToWriter": 7, "OpenFile": 8, "Remove": 9, "Get": 10, "Put": 11,
	"freeReconstructedIndexes": 12, "IndexFactory": 13, "ReadIndexFromBuffer": 14, "ReconstructBatch": 15,
	"SetDirectMap": 16, "Train": 17, "AddWithIDs": 18, "WriteIndexIntoBuffer": 19, "flushVectorIndex": 20,
	"isClosed": 21, "writeVectorIndexes": 22, "writeDicts": 23, "writeThesauri": 24,
	"mergeAndPersistInvertedSection": 25, "mergeAndPersistSynonymSection": 26, "flushSectionMetadata": 27,
	"mergeAndWriteVectorIndexes": 28, "visitStoredFields": 29, "Write": 30,
	"Lock": 31, "Unlock": 32, "closeActual": 33, "AddRef": 34, "DecRef": 35, "mergeSegmentBases": 36, "VisitStoredFields": 37,
	"load": 38, "insertLOCKED": 39, "RLock": 40, "RUnlock": 41, "createAndCacheLOCKED": 42,
	// 43 is a pseudo call emitted in front of `return ..., seg.ErrClosed`
}

// Write calls are events (30) only inside the buffered-writer plumbing of Persist / WriteTo
var writeCounts bool
var writeTargets = map[string]bool{"persistSegmentBaseToWriter": true, "bufWriter.Write": true}

type skTarget struct {
	name string // function or Type.method
}

var skTargets = []string{
	"PersistSegmentBase", "persistSegmentBaseToWriter", "mergeSegmentBases",
	"SegmentBase.VisitStoredFields", "SegmentBase.visitStoredFields", "SegmentBase.DocID",
	"faissVectorIndexSection.Persist", "invertedTextIndexSection.Persist", "synonymIndexSection.Persist",
	"faissVectorIndexSection.Merge", "invertedTextIndexSection.Merge", "synonymIndexSection.Merge",
	"vectorIndexOpaque.mergeAndWriteVectorIndexes", "vectorIndexOpaque.writeVectorIndexes",
	"Segment.AddRef", "Segment.DecRef", "Segment.Close", "ZapPlugin.Merge", "mergeStoredAndRemap",
	"vectorIndexCache.loadFromCache", "vectorIndexCache.createAndCacheLOCKED",
	"mergeToWriter", "mergeAndPersistInvertedSection", "mergeAndPersistSynonymSection",
	"bufWriter.Write",
}

func calleeName(x ast.Expr) string {
	switch v := x.(type) {
	case *ast.Ident:
		return v.Name
	case *ast.SelectorExpr:
		return v.Sel.Name
	}
	return ""
}

// only pool Get/Put on visitDocumentCtxPool count as 10/11; Close on a file/index counts; Write only on writers
func interesting(ce *ast.CallExpr) (int, bool) {
	name := calleeName(ce.Fun)
	id, ok := callID[name]
	if !ok {
		return 0, false
	}
	if name == "Get" || name == "Put" {
		se, ok := ce.Fun.(*ast.SelectorExpr)
		if !ok {
			return 0, false
		}
		if x, ok := se.X.(*ast.Ident); !ok || x.Name != "visitDocumentCtxPool" {
			return 0, false
		}
	}
	if name == "Write" && !writeCounts {
		return 0, false
	}
	if name == "freeReconstructedIndexes" {
		// releasing anything but the whole list of input indexes is a different event (45)
		if len(ce.Args) != 1 {
			return 45, true
		}
		if _, ok := ce.Args[0].(*ast.Ident); !ok {
			return 45, true
		}
	}
	return id, true
}

func isErrNotNil(cond ast.Expr) bool {
	be, ok := cond.(*ast.BinaryExpr)
	if !ok || be.Op != token.NEQ {
		return false
	}
	x, okx := be.X.(*ast.Ident)
	y, oky := be.Y.(*ast.Ident)
	return okx && oky && strings.HasPrefix(strings.ToLower(x.Name), "err") && y.Name == "nil"
}

type skCtx struct {
	retErr bool     // the function's last result is an error
	named  []string // named results
	errNil bool     // the variable err is known to be nil at this point of the current block
}

func callsIn(x ast.Node) []string {
	var out []string
	ast.Inspect(x, func(n ast.Node) bool {
		if _, ok := n.(*ast.FuncLit); ok {
			return false
		}
		if ce, ok := n.(*ast.CallExpr); ok {
			if id, ok := interesting(ce); ok {
				out = append(out, fmt.Sprintf("KCall %d", id))
			}
		}
		return true
	})
	return out
}

func (c *skCtx) stmt(s ast.Stmt) []string {
	switch v := s.(type) {
	case *ast.ExprStmt:
		return callsIn(v.X)
	case *ast.AssignStmt:
		var out []string
		for _, r := range v.Rhs {
			if _, ok := r.(*ast.FuncLit); ok {
				continue
			}
			out = append(out, callsIn(r)...)
		}
		return out
	case *ast.DeclStmt:
		return callsIn(v)
	case *ast.DeferStmt:
		if id, ok := interesting(v.Call); ok {
			return []string{fmt.Sprintf("KDefer %d", id)}
		}
		return nil
	case *ast.GoStmt:
		return nil
	case *ast.BlockStmt:
		return []string{c.block(v.List)}
	case *ast.IfStmt:
		var out []string
		if v.Init != nil {
			out = append(out, c.stmt(v.Init)...)
		}
		condCalls := callsIn(v.Cond)
		purePoll := false
		if ce, ok := v.Cond.(*ast.CallExpr); ok && calleeName(ce.Fun) == "isClosed" {
			purePoll = true
		}
		if !purePoll {
			// a poll of the close channel buried in a larger condition is a different event (44)
			for i, cc := range condCalls {
				if cc == "KCall 21" {
					condCalls[i] = "KCall 44"
				}
			}
		}
		out = append(out, condCalls...)
		thenB := c.block(v.Body.List)
		if purePoll && returnsErrClosed(v.Body) {
			// marker 43: this branch ends in `return ..., seg.ErrClosed`
			thenB = strings.Replace(thenB, "KSeq [", "KSeq [KCall 43; ", 1)
		}
		elseB := "KSeq []"
		if v.Else != nil {
			switch e := v.Else.(type) {
			case *ast.BlockStmt:
				elseB = c.block(e.List)
			default:
				elseB = "KSeq [" + strings.Join(c.stmt(e), "; ") + "]"
			}
		}
		if isErrNotNil(v.Cond) && v.Else == nil {
			out = append(out, "KIfErr ("+thenB+")")
		} else {
			out = append(out, "KIf ("+thenB+") ("+elseB+")")
		}
		return out
	case *ast.ForStmt:
		var out []string
		if v.Init != nil {
			out = append(out, c.stmt(v.Init)...)
		}
		// calls in the loop condition run before every iteration; a poll of the close channel
		// there is a buried poll (44): it ends the loop instead of returning the closed error
		if v.Cond != nil {
			for _, cc := range callsIn(v.Cond) {
				if cc == "KCall 21" {
					cc = "KCall 44"
				}
				out = append(out, cc)
			}
		}
		return append(out, "KLoop ("+c.block(v.Body.List)+")")
	case *ast.RangeStmt:
		return []string{"KLoop (" + c.block(v.Body.List) + ")"}
	case *ast.SwitchStmt:
		var out []string
		for _, cl := range v.Body.List {
			cc := cl.(*ast.CaseClause)
			out = append(out, "KIf ("+c.block(cc.Body)+") (KSeq [])")
		}
		return out
	case *ast.TypeSwitchStmt:
		var out []string
		for _, cl := range v.Body.List {
			cc := cl.(*ast.CaseClause)
			out = append(out, "KIf ("+c.block(cc.Body)+") (KSeq [])")
		}
		return out
	case *ast.ReturnStmt:
		var out []string
		for _, r := range v.Results {
			out = append(out, callsIn(r)...)
		}
		iserr := false
		if c.retErr && len(v.Results) > 0 {
			last := v.Results[len(v.Results)-1]

			if id, ok := last.(*ast.Ident); !(ok && id.Name == "nil") {
				iserr = true
			}
			// `return f(...)` in error position: the callee decides; it is a call of interest or not an error we track
			if _, ok := last.(*ast.CallExpr); ok {
				iserr = false
			}
		}
		return append(out, fmt.Sprintf("KRet %v", iserr))
	}
	return nil
}

// returnsErrClosed: the block's last statement is `return ..., <pkg>.ErrClosed`
func returnsErrClosed(b *ast.BlockStmt) bool {
	if len(b.List) == 0 {
		return false
	}
	rs, ok := b.List[len(b.List)-1].(*ast.ReturnStmt)
	if !ok || len(rs.Results) == 0 {
		return false
	}
	se, ok := rs.Results[len(rs.Results)-1].(*ast.SelectorExpr)
	return ok && se.Sel.Name == "ErrClosed"
}

// pollsInFuncLits counts isClosed calls that occur inside function literals of the body.
func pollsInFuncLits(b *ast.BlockStmt) int {
	n := 0
	ast.Inspect(b, func(x ast.Node) bool {
		if fl, ok := x.(*ast.FuncLit); ok {
			ast.Inspect(fl.Body, func(y ast.Node) bool {
				if ce, ok := y.(*ast.CallExpr); ok && calleeName(ce.Fun) == "isClosed" {
					n++
				}
				return true
			})
			return false
		}
		return true
	})
	return n
}

// endsInReturn: the block's last statement is a return
func endsInReturn(b *ast.BlockStmt) bool {
	if len(b.List) == 0 {
		return false
	}
	_, ok := b.List[len(b.List)-1].(*ast.ReturnStmt)
	return ok
}

func (c *skCtx) block(ss []ast.Stmt) string {
	var parts []string
	saved := c.errNil
	c.errNil = false
	for _, s := range ss {
		// `return ..., err` right after `if err != nil { ...; return ... }` returns a nil error
		if rs, ok := s.(*ast.ReturnStmt); ok && c.errNil && len(rs.Results) > 0 {
			if id, ok := rs.Results[len(rs.Results)-1].(*ast.Ident); ok && id.Name == "err" {
				parts = append(parts, "KRet false")
				continue
			}
		}
		parts = append(parts, c.stmt(s)...)
		switch v := s.(type) {
		case *ast.IfStmt:
			c.errNil = isErrNotNil(v.Cond) && v.Else == nil && endsInReturn(v.Body)
		default:
			c.errNil = false
		}
	}
	c.errNil = saved
	return "KSeq [" + strings.Join(parts, "; ") + "]"
}

func skel(repo string) {
	fset := token.NewFileSet()
	files, _ := filepath.Glob(filepath.Join(repo, "*.go"))
	sort.Strings(files)
	decls := map[string]*ast.FuncDecl{}
	for _, fn := range files {
		if strings.HasSuffix(fn, "_test.go") || strings.HasPrefix(filepath.Base(fn), "verif_") {
			continue
		}
		f, err := parser.ParseFile(fset, fn, nil, parser.SkipObjectResolution)
		if err != nil {
			die("%v", err)
		}
		for _, d := range f.Decls {
			fd, ok := d.(*ast.FuncDecl)
			if !ok || fd.Body == nil {
				continue
			}
			name := fd.Name.Name
			if fd.Recv != nil && len(fd.Recv.List) == 1 {
				t := fd.Recv.List[0].Type
				if st, ok := t.(*ast.StarExpr); ok {
					t = st.X
				}
				if id, ok := t.(*ast.Ident); ok {
					name = id.Name + "." + name
				}
			}
			decls[name] = fd
		}
	}
	fmt.Fprintln(&out, "(* GENERATED by gotrans skel from the Go sources - do not edit *)")
	fmt.Fprintln(&out, "From Coq Require Import List NArith.\nImport ListNotations.\nRequire Import ZV.Skel.\nOpen Scope N_scope.")
	for _, t := range skTargets {
		fd, ok := decls[t]
		if !ok {
			die("skel: function %s not found", t)
		}
		c := &skCtx{}
		writeCounts = writeTargets[t]
		if fd.Type.Results != nil && len(fd.Type.Results.List) > 0 {
			last := fd.Type.Results.List[len(fd.Type.Results.List)-1]
			if id, ok := last.Type.(*ast.Ident); ok && id.Name == "error" {
				c.retErr = true
			}
		}
		body := c.block(fd.Body.List)
		// a poll of the close channel inside a function literal (a visitor, a deferred closure)
		// cannot return the closed error from the enclosing routine: event 44
		if pollsInFuncLits(fd.Body) > 0 {
			body = strings.Replace(body, "KSeq [", "KSeq [KCall 44; ", 1)
		}
		fmt.Fprintf(&out, "\n(* %s *)\nDefinition sk_%s : sk :=\n  %s.\n", filepath.Base(fset.Position(fd.Pos()).Filename), strings.ReplaceAll(t, ".", "_"), body)
	}
	// ---- polls of the close channel in functions the skeletons do not cover ----
	{
		covered := map[string]bool{"isClosed": true}
		for _, t := range skTargets {
			covered[t] = true
		}
		var names []string
		for name, fd := range decls {
			if covered[name] || fd.Body == nil {
				continue
			}
			n := 0
			ast.Inspect(fd.Body, func(x ast.Node) bool {
				if ce, ok := x.(*ast.CallExpr); ok && calleeName(ce.Fun) == "isClosed" {
					n++
				}
				return true
			})
			if n > 0 {
				names = append(names, name)
			}
		}
		sort.Strings(names)
		fmt.Fprintf(&out, "\n(* functions outside the skeleton targets that poll the close channel: %v *)\nDefinition polls_elsewhere : N := %d.\n", names, len(names))
	}
	// ---- argument texts of the calls that fix a postings list's chunk size ----
	// (writer and reader must derive it from the same quantities: chunk mode, the FULL cardinality of
	// the list as written, the segment's document count)
	fmt.Fprintln(&out, "\nFrom Coq Require Import String.")
	argTargets := []string{"PostingsList.read", "invertedIndexOpaque.writeDicts", "mergeAndPersistInvertedSection"}
	var rows []string
	var cardRows []string
	for _, t := range argTargets {
		fd, ok := decls[t]
		if !ok {
			die("skel: function %s not found", t)
		}
		ast.Inspect(fd.Body, func(n ast.Node) bool {
			ce, ok := n.(*ast.CallExpr)
			if !ok {
				return true
			}
			var args []string
			for _, a := range ce.Args {
				args = append(args, fmt.Sprintf("%q%%string", types.ExprString(a)))
			}
			switch calleeName(ce.Fun) {
			case "getChunkSize":
				if len(ce.Args) == 3 && types.ExprString(ce.Args[0]) != "LegacyChunkMode" {
					rows = append(rows, fmt.Sprintf("(%q%%string, [%s])", t, strings.Join(args, "; ")))
				}
			case "postingsListFromOffset":
				if t == "mergeAndPersistInvertedSection" {
					cardRows = append(cardRows, "["+strings.Join(args, "; ")+"]")
				}
			}
			return true
		})
	}
	fmt.Fprintf(&out, "Definition chunk_size_calls : list (string * list string) :=\n  [%s].\n", strings.Join(rows, ";\n   "))
	fmt.Fprintf(&out, "Definition merge_postings_loads : list (list string) :=\n  [%s].\n", strings.Join(cardRows, ";\n   "))
}
