package main

import (
	"fmt"
	"go/ast"
	"go/token"
	"strconv"
	"strings"
)

// tags of the footer fields (frozen in coq/LayoutSpec / KernelTie.v)
var footerTag = map[string]int{
	"numDocs": 1, "storedIndexOffset": 2, "fieldsIndexOffset": 3, "sectionsIndexOffset": 4,
	"docValueOffset": 5, "chunkMode": 6, "Version": 7, "version": 7, "crc": 8,
}

func tagOf(x ast.Expr) int {
	switch v := x.(type) {
	case *ast.Ident:
		if t, ok := footerTag[v.Name]; ok {
			return t
		}
	case *ast.SelectorExpr:
		if t, ok := footerTag[v.Sel.Name]; ok {
			return t
		}
	}
	return 99
}

// footer extracts (a) the order and widths of the values persistFooter writes and
// (b) the positions (distance from the end of the file) and widths loadConfig reads for v16.
func footer(funcs, methods map[string]*ast.FuncDecl) {
	pf, ok := funcs["persistFooter"]
	if !ok {
		die("persistFooter not found")
	}
	ptypes := map[string]int{"Version": 4}
	for _, p := range pf.Type.Params.List {
		if id, ok := p.Type.(*ast.Ident); ok {
			for _, n := range p.Names {
				ptypes[n.Name] = width[id.Name] / 8
			}
		}
	}
	var ws []string
	ast.Inspect(pf.Body, func(n ast.Node) bool {
		ce, ok := n.(*ast.CallExpr)
		if !ok {
			return true
		}
		se, ok := ce.Fun.(*ast.SelectorExpr)
		if !ok || se.Sel.Name != "Write" || len(ce.Args) != 3 {
			return true
		}
		if x, ok := se.X.(*ast.Ident); !ok || x.Name != "binary" {
			return true
		}
		order := 0 // 0 = big endian
		if o, ok := ce.Args[1].(*ast.SelectorExpr); !ok || o.Sel.Name != "BigEndian" {
			order = 1
		}
		w := 0
		switch a := ce.Args[2].(type) {
		case *ast.Ident:
			w = ptypes[a.Name]
		case *ast.SelectorExpr:
			if a.Sel.Name == "crc" {
				w = 4
			}
		}
		ws = append(ws, fmt.Sprintf("(%d, %d, %d)", tagOf(ce.Args[2]), w, order))
		return true
	})
	fmt.Fprintf(&out, "\n(* write.go persistFooter: (field tag, width in bytes, 0 = big-endian) in the order written *)\nDefinition go_footer_write_order : list (N * N * N) := [%s].\n", strings.Join(ws, "; "))

	lc, ok := methods["loadConfig"]
	if !ok {
		die("loadConfig not found")
	}
	off := map[string]int{} // variable -> distance from the end of the file (positive)
	var rs []string
	var walk func(ss []ast.Stmt)
	offsetOf := func(x ast.Expr) (int, bool) {
		be, ok := x.(*ast.BinaryExpr)
		if !ok || be.Op != token.SUB {
			return 0, false
		}
		lit, ok := be.Y.(*ast.BasicLit)
		if !ok {
			return 0, false
		}
		k, _ := strconv.Atoi(lit.Value)
		switch b := be.X.(type) {
		case *ast.Ident:
			if d, ok := off[b.Name]; ok {
				return d + k, true
			}
		case *ast.CallExpr:
			if id, ok := b.Fun.(*ast.Ident); ok && id.Name == "len" {
				return k, true
			}
		}
		return 0, false
	}
	walk = func(ss []ast.Stmt) {
		for _, s := range ss {
			switch v := s.(type) {
			case *ast.AssignStmt:
				if len(v.Lhs) != 1 || len(v.Rhs) != 1 {
					continue
				}
				if id, ok := v.Lhs[0].(*ast.Ident); ok {
					if d, ok := offsetOf(v.Rhs[0]); ok {
						off[id.Name] = d
					}
					continue
				}
				// s.f = binary.BigEndian.UintN(s.mm[x : x+N])
				ce, ok := v.Rhs[0].(*ast.CallExpr)
				if !ok || len(ce.Args) != 1 {
					continue
				}
				se, ok := ce.Fun.(*ast.SelectorExpr)
				if !ok || !strings.HasPrefix(se.Sel.Name, "Uint") {
					continue
				}
				w, _ := strconv.Atoi(strings.TrimPrefix(se.Sel.Name, "Uint"))
				order := 0
				if o, ok := se.X.(*ast.SelectorExpr); !ok || o.Sel.Name != "BigEndian" {
					order = 1
				}
				sl, ok := ce.Args[0].(*ast.SliceExpr)
				if !ok {
					continue
				}
				lo, ok := sl.Low.(*ast.Ident)
				if !ok {
					continue
				}
				hiW := -1
				if hb, ok := sl.High.(*ast.BinaryExpr); ok && hb.Op == token.ADD {
					if hid, ok := hb.X.(*ast.Ident); ok && hid.Name == lo.Name {
						if lit, ok := hb.Y.(*ast.BasicLit); ok {
							hiW, _ = strconv.Atoi(lit.Value)
						}
					}
				}
				rs = append(rs, fmt.Sprintf("(%d, %d, %d, %d, %d)", tagOf(v.Lhs[0]), off[lo.Name], w/8, hiW, order))
			case *ast.IfStmt:
				// the v16 branch: `if s.version >= IndexSectionsVersion { ... } else { ... }`
				txt := fmt.Sprint(v.Cond)
				if be, ok := v.Cond.(*ast.BinaryExpr); ok && be.Op == token.GEQ && strings.Contains(exprString(be.Y), "IndexSectionsVersion") {
					walk(v.Body.List)
				} else {
					_ = txt
				}
			}
		}
	}
	walk(lc.Body.List)
	fmt.Fprintf(&out, "\n(* segment.go loadConfig (v16 branch): (field tag, distance of the field's first byte from the end of the file,\n   width decoded, width of the slice taken, 0 = big-endian) *)\nDefinition go_footer_read_layout : list (N * N * N * N * N) := [%s].\n", strings.Join(rs, "; "))
}

func exprString(x ast.Expr) string {
	switch v := x.(type) {
	case *ast.Ident:
		return v.Name
	case *ast.SelectorExpr:
		return exprString(v.X) + "." + v.Sel.Name
	}
	return ""
}

