#!/bin/bash
cd /verif
for s in 1 2 3 5 8; do
  for n in $(seq -w 1 20); do
    st=$(date +%s)
    out=$(VERIF_SEED=$s ./check C$n quick 2>&1); rc=$?
    echo "seed=$s C$n rc=$rc $(( $(date +%s) - st ))s $(echo "$out" | grep -E 'VIOLATION|KNOWN' | head -2)"
  done
done
