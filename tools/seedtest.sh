#!/bin/bash
# usage: tools/seedtest.sh <patch.diff> <Cxx> [Cyy ...]  - applies a seeded change to /repo, runs the quick checks, reverts
patch="$1"; shift
cd /repo || exit 2
if ! git diff --quiet; then echo "/repo has local changes"; exit 2; fi
git apply "$patch" || { echo "patch does not apply"; exit 2; }
rm -rf /verif/.build/evidence.keep && cp -r /verif/evidence /verif/.build/evidence.keep
trap 'rm -rf /verif/evidence && mv /verif/.build/evidence.keep /verif/evidence; git -C /repo checkout -- . ; git -C /repo clean -fdq; /verif/.build/gotrans kernel /repo /verif/coq/gen/KernelGen.v; /verif/.build/gotrans skel /repo /verif/coq/gen/Skeleton.v' EXIT
for p in "$@"; do
  start=$(date +%s)
  out=$(cd /verif && timeout 1500 ./check "$p" quick 2>/dev/null); rc=$?
  echo "== $p rc=$rc ($(( $(date +%s) - start ))s): $(echo "$out" | grep -E 'VIOLATION|KNOWN' | head -3)"
done
