#!/usr/bin/env python3
"""tools/seedsweep.py [ids...]  - for every /verif/seeded/<id>/ (or the ids given): apply the change to
/repo, run the quick check of its property (and of the properties named in meta 'also_check'),
revert; print which checks raised a VIOLATION; writes /verif/.build/seedsweep.json.  Evidence files
and generated Coq files are restored by tools/seedtest.sh."""
import json, os, re, subprocess, sys
ROOT = "/verif"
ids = sys.argv[1:] or sorted(os.listdir(os.path.join(ROOT, "seeded")))
res = {}
for i in ids:
    d = os.path.join(ROOT, "seeded", i)
    meta = json.load(open(os.path.join(d, "meta.json")))
    props = [meta["property"]] + meta.get("also_check", [])
    p = subprocess.run([os.path.join(ROOT, "tools", "seedtest.sh"), os.path.join(d, "patch.diff")] + props,
                       stdout=subprocess.PIPE, stderr=subprocess.STDOUT, text=True)
    hit = re.findall(r"== (C\d+) rc=1 .*VIOLATION", p.stdout)
    miss = re.findall(r"== (C\d+) rc=0", p.stdout)
    res[i] = {"violation": hit, "silent": miss}
    print(i, "VIOLATION by", hit, "silent", miss, flush=True)
json.dump(res, open(os.path.join(ROOT, ".build", "seedsweep.json"), "w"), indent=1)
