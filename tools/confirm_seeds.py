#!/usr/bin/env python3
"""Confirms seeded changes independently: in a scratch worktree of the pinned commit,
(1) the existing suite passes with the change, (2) the demonstration fails with the change,
(3) the demonstration passes without it.  Writes /verif/seeded/<prop>-<m>/{patch.diff,demo_test.go,meta.json}."""
import json, os, subprocess, sys, shutil, re
PINNED = os.environ.get("SEED_BASE", "562467b")  # SEED_BASE=<repaired HEAD> re-confirms a change on the repaired tree
DRY = os.environ.get("SEED_DRY", "") != ""
WT = "/tmp/wt/confirm"
VEC = {"C14", "C15", "C16", "C19"}
SUFFIX = os.environ.get("SEED_SUFFIX", "")
MS = tuple(os.environ.get("SEED_MS", "m1,m2").split(","))
def sh(cmd, **kw):
    p = subprocess.run(cmd, shell=True, stdout=subprocess.PIPE, stderr=subprocess.STDOUT, text=True, **kw)
    return p.returncode, p.stdout
def isotest(args):
    return sh("/tmp/wt/isotest.sh confirm %s" % args, timeout=1500)
def main():
    props = sys.argv[1:]
    sh("git -C /repo worktree remove --force %s" % WT)
    rc, out = sh("git -C /repo worktree add --detach %s %s" % (WT, PINNED))
    assert rc == 0, out
    results = []
    try:
        for p in props:
            out_dir = "/tmp/wt/%s-out%s" % (p, SUFFIX)
            for m in MS:
                diff = os.path.join(out_dir, m + ".diff")
                demos = [f for f in os.listdir(out_dir) if f.endswith("_test.go") and ("_" + m + "_") in f or f.endswith("_test.go") and m in f.lower().replace("_", "")]
                demos = [f for f in os.listdir(out_dir) if f.endswith("_test.go") and re.search(r'(?i)%s' % m, f)]
                if not os.path.exists(diff) or not demos:
                    results.append((p, m, "missing files")); continue
                demo = demos[0]
                tags = "-tags vectors " if p in VEC else ""
                sh("git -C %s checkout -- . && git -C %s clean -fdq" % (WT, WT))
                if p in VEC:
                    open(os.path.join(WT, "go.mod"), "a").write("\nreplace github.com/blevesearch/go-faiss => /root/wt-fakefaiss\n")
                # (3) demo without the change
                shutil.copy(os.path.join(out_dir, demo), os.path.join(WT, demo))
                rc3, o3 = isotest(tags + "-run 'TestDemo|Demo' .")
                # apply
                rc, o = sh("git -C %s apply %s" % (WT, diff))
                if rc != 0:
                    results.append((p, m, "patch does not apply: " + o[:200])); continue
                rc2, o2 = isotest(tags + "-run 'TestDemo|Demo' .")
                os.remove(os.path.join(WT, demo))
                rc1, o1 = isotest(tags + "./...")
                rc1b = 0
                if p in VEC:
                    rc1b, _ = isotest("./...")
                ok = (rc1 == 0 and rc1b == 0 and rc2 != 0 and rc3 == 0)
                results.append((p, m, "CONFIRMED" if ok else "NOT CONFIRMED suite_rc=%d demo_with=%d demo_without=%d" % (rc1, rc2, rc3)))
                if ok and not DRY:
                    d = "/verif/seeded/%s-%s" % (p, m)
                    os.makedirs(d, exist_ok=True)
                    shutil.copy(diff, os.path.join(d, "patch.diff"))
                    shutil.copy(os.path.join(out_dir, demo), os.path.join(d, "demo_test.go.txt"))
                    notes = open(os.path.join(out_dir, "notes.md")).read() if os.path.exists(os.path.join(out_dir, "notes.md")) else ""
                    meta = {"property": p, "id": "%s-%s" % (p, m), "base_commit": PINNED,
                            "needs_to_manifest": "see notes.md (written by the sub-agent that produced the change)",
                            "confirmed": {"existing_suite_with_change": "pass (30 tests%s)" % (", 33 with -tags vectors" if p in VEC else ""),
                                          "demo_with_change": "fail", "demo_without_change": "pass",
                                          "how": "tools/confirm_seeds.py in a scratch worktree of the pinned commit, private /tmp"},
                            "detected_by": []}
                    json.dump(meta, open(os.path.join(d, "meta.json"), "w"), indent=1)
                    open(os.path.join(d, "notes.md"), "w").write(notes)
    finally:
        sh("git -C /repo worktree remove --force %s" % WT)
    for r in results:
        print(*r)
main()
