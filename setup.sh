#!/bin/sh
# MANIFEST.setup_cmd: build the whole framework from files on disk only (offline).
set -e
cd "$(dirname "$0")"
export GOFLAGS=-mod=mod GOPROXY=off GOSUMDB=off GOTOOLCHAIN=local
mkdir -p .build evidence replays ocaml/_build
# 1. translator, generated kernel
(cd tools/gotrans && go build -o ../../.build/gotrans .)
REPO="${VERIF_REPO:-/repo}"
.build/gotrans kernel "$REPO" coq/gen/KernelGen.v
.build/gotrans skel "$REPO" coq/gen/Skeleton.v
# 2. gate: no axioms / admits anywhere
if grep -rnE '^\s*(Axiom|Axioms|Parameter|Parameters|Conjecture|Admitted|Admit Obligations)\b|\badmit\b|Unset Guard|bypass_check' --include=*.v coq | grep -v '^coq/gen/'; then
  echo "forbidden declaration found" >&2; exit 1
fi
# 3. full clean Coq build (.vo)
(cd coq && coq_makefile -f _CoqProject -o Makefile >/dev/null && make clean >/dev/null 2>&1 || true)
(cd coq && timeout 3000 make -j16 >../.build/coq-setup.log 2>&1) || { tail -30 .build/coq-setup.log; exit 1; }
# 4. extraction + OCaml model binary
(cd ocaml/_build && coqc -R ../../coq ZV ../../coq/Extract.v) && ocaml/build.sh
# 5. harness binaries (both tag sets; race variants are built on demand)
cp "$REPO/go.sum" harness/go.sum 2>/dev/null || true
if [ "$REPO" = "/repo" ]; then
  (cd harness && go build -tags verif -o ../.build/zcheck-verif ./cmd/zcheck && go build -tags verif,vectors -o ../.build/zcheck-verif-vectors ./cmd/zcheck)
fi
echo "setup ok"
