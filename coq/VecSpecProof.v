(* C14: the specification's search is exactly "the k best": its result is ordered by the score key,
   contains min(k, #admissible) candidates, and every admissible candidate it leaves out is no
   better than any candidate it returns. *)
From Coq Require Import List NArith Lia Bool Arith ZifyBool ZifyN.
Import ListNotations.
Require Import Spec SpecMerge VecSpec.
Open Scope N_scope.

Fixpoint nondec (l : list cand) : Prop :=
  match l with [] => True | x :: r => (forall y, In y r -> c_key x <= c_key y) /\ nondec r end.

Lemma insert_in c : forall l x, In x (insert_by_key c l) <-> x = c \/ In x l.
Proof.
  induction l as [|z l IH]; intros x; cbn [insert_by_key].
  - cbn. split; [intros [<-|[]]; now left|intros [->|[]]; now left].
  - destruct (c_key c <? c_key z).
    + cbn [In]. split; [intros [<-|H]; [now left|now right]|intros [->|H]; [now left|now right]].
    + cbn [In]. rewrite IH. tauto.
Qed.

Lemma insert_nondec c : forall l, nondec l -> nondec (insert_by_key c l).
Proof.
  induction l as [|z l IH]; intros H; cbn [insert_by_key]; [cbn; split; [intros ? []|exact I]|].
  cbn [nondec] in H. destruct H as [H1 H2]. destruct (c_key c <? c_key z) eqn:E.
  - cbn [nondec]. split; [|split; [exact H1|exact H2]].
    intros y [<-|Hy]; [lia|]. specialize (H1 y Hy). lia.
  - cbn [nondec]. split; [|now apply IH].
    intros y Hy. apply insert_in in Hy as [->|Hy]; [lia|now apply H1].
Qed.

Lemma sort_in l x : In x (sort_by_key l) <-> In x l.
Proof.
  induction l as [|y l IH]; [reflexivity|]. cbn [sort_by_key fold_right]. fold (sort_by_key l).
  rewrite insert_in, IH. cbn [In]. split; intros [H|H]; auto.
Qed.
Lemma sort_nondec l : nondec (sort_by_key l).
Proof. induction l as [|y l IH]; [exact I|]. cbn [sort_by_key fold_right]. now apply insert_nondec. Qed.
Lemma insert_length c l : length (insert_by_key c l) = S (length l).
Proof. induction l as [|z l IH]; cbn [insert_by_key]; [reflexivity|]. destruct (c_key c <? c_key z); cbn [length]; [reflexivity|now rewrite IH]. Qed.
Lemma sort_length l : length (sort_by_key l) = length l.
Proof. induction l as [|y l IH]; [reflexivity|]. cbn [sort_by_key fold_right]. fold (sort_by_key l). now rewrite insert_length, IH. Qed.

Lemma nondec_firstn n : forall l, nondec l -> nondec (firstn n l).
Proof.
  induction n as [|n IH]; intros [|x l] H; cbn [firstn]; try exact I. cbn [nondec] in *. destruct H as [H1 H2].
  split; [|now apply IH]. intros y Hy. apply H1. eapply In_firstn; eauto.
Qed.

Lemma nondec_split n : forall l x y, nondec l -> In x (firstn n l) -> In y (skipn n l) -> c_key x <= c_key y.
Proof.
  induction n as [|n IH]; intros [|z l] x y H Hx Hy; cbn [firstn skipn] in *; try contradiction.
  cbn [nondec] in H. destruct H as [H1 H2]. destruct Hx as [<-|Hx].
  - apply H1. clear - Hy. revert l Hy. induction n as [|n IH]; intros l Hy; [exact Hy|]. destruct l; [destruct Hy|]. cbn in Hy. right. now apply IH.
  - eapply IH; eauto.
Qed.

Theorem spec_search_topk cands except eligible k :
  let R := spec_search cands except eligible k in
  let A := filter (admissible except eligible) cands in
  nondec R /\ length R = Nat.min (N.to_nat k) (length A) /\
  (forall c, In c A -> In c R \/ forall r, In r R -> c_key r <= c_key c).
Proof.
  cbv zeta. unfold spec_search. set (A := filter (admissible except eligible) cands). set (S := sort_by_key A).
  split; [apply nondec_firstn, sort_nondec|]. split; [rewrite firstn_length; unfold S; now rewrite sort_length|].
  intros c Hc. assert (HS: In c S) by (apply sort_in; exact Hc).
  rewrite <- (firstn_skipn (N.to_nat k) S) in HS. apply in_app_or in HS as [H|H]; [now left|].
  right. intros r Hr. eapply nondec_split; [apply sort_nondec|exact Hr|exact H].
Qed.
Print Assumptions spec_search_topk.

(* C15: the merged vector field of the specification holds exactly the vectors of surviving
   documents under the new numbering (with multiplicity: one entry per surviving input entry), keeps
   the field's configuration, and does not exist when no vector survives. *)
Definition input_vec (cms : list (list vfield * list N)) (f : str) (nd : N) (bits : list N) : Prop :=
  exists cs m v0 d, In (cs, m) cms /\ find (fun v => seqb (vf_name v) f) cs = Some v0 /\
                    In (d, bits) (vf_vecs v0) /\ survives m d = true /\ nd = newnum m d.

Theorem merge_vfield_spec cms f :
  match merge_vfield cms f with
  | Some v => vf_name v = f /\ vf_vecs v <> [] /\ (forall nd bits, In (nd, bits) (vf_vecs v) <-> input_vec cms f nd bits)
  | None => forall nd bits, ~ input_vec cms f nd bits
  end.
Proof.
  unfold merge_vfield.
  set (parts := flat_map (fun cm : list vfield * list N => match find (fun v => seqb (vf_name v) f) (fst cm) with
                                   | Some v => [(v, snd cm)] | None => [] end) cms).
  assert (Hparts: forall v0 m, In (v0, m) parts <-> exists cs, In (cs, m) cms /\ find (fun v => seqb (vf_name v) f) cs = Some v0).
  { intros v0 m. subst parts. rewrite in_flat_map. split.
    - intros ([cs m'] & Hin & H). cbn [fst snd] in H. destruct (find _ cs) as [v|] eqn:E; [|destruct H].
      destruct H as [H|[]]. injection H as <- <-. exists cs. now split.
    - intros (cs & Hin & E). exists (cs, m). split; [exact Hin|]. cbn [fst snd]. rewrite E. now left. }
  set (vs := flat_map (fun p : vfield * list N => flat_map (fun dv : N * list N => if survives (snd p) (fst dv) then [(newnum (snd p) (fst dv), snd dv)] else [])
                                            (vf_vecs (fst p))) parts).
  assert (Hvs: forall nd bits, In (nd, bits) vs <-> input_vec cms f nd bits).
  { intros nd bits. subst vs. rewrite in_flat_map. unfold input_vec. split.
    - intros ([v0 m] & Hp & H). cbn [fst snd] in H. apply in_flat_map in H as ([d b] & Hd & H). cbn [fst snd] in H.
      destruct (survives m d) eqn:E; [|destruct H]. destruct H as [H|[]]. injection H as <- <-.
      apply Hparts in Hp as (cs & Hin & Ef). exists cs, m, v0, d. repeat split; auto.
    - intros (cs & m & v0 & d & Hin & Ef & Hd & Hs & ->). exists (v0, m). split; [apply Hparts; exists cs; now split|].
      cbn [fst snd]. apply in_flat_map. exists (d, bits). split; [exact Hd|]. cbn [fst snd]. rewrite Hs. now left. }
  destruct parts as [|[v0 m0] parts'] eqn:Ep.
  - intros nd bits H. apply Hvs in H. subst vs. destruct H.
  - fold vs. destruct vs as [|x vs'] eqn:Ev.
    + intros nd bits H. apply Hvs in H. destruct H.
    + cbn [vf_name vf_vecs]. split; [reflexivity|]. split; [discriminate|]. intros nd bits. rewrite <- Hvs. reflexivity.
Qed.
Print Assumptions merge_vfield_spec.
