(* C05: the numbering computed by the executable specification SpecMerge.renum (the one the
   correspondence run compares the implementation with) has the properties the statement asks for:
   one map per input; survivors numbered consecutively in segment order then document order;
   dropped documents - exactly the deleted ones - mapped to the sentinel; count = survivors. *)
From Coq Require Import List NArith Lia Bool.
From Coq Require Import ZifyN ZifyNat ZifyBool.
Import ListNotations.
Require Import Spec SpecMerge.
Open Scope N_scope.

Fixpoint surv (k : nat) (d : N) (drops : list N) : nat :=
  match k with
  | O => O
  | S k' => (if memN d drops then O else 1%nat) + surv k' (d + 1) drops
  end.

Fixpoint nseqN (start : N) (k : nat) : list N :=
  match k with O => [] | S k' => start :: nseqN (start + 1) k' end.

Definition live_nums (m : list N) : list N := filter (fun x => negb (x =? dropped)) m.

Lemma renum_seg_spec : forall k d drops next, next + N.of_nat k < dropped ->
  let '(m, nx) := renum_seg k d drops next in
  length m = k /\
  live_nums m = nseqN next (surv k d drops) /\
  nx = next + N.of_nat (surv k d drops) /\
  (forall j, (j < k)%nat -> (nth j m dropped = dropped <-> memN (d + N.of_nat j) drops = true)).
Proof.
  induction k as [|k IH]; intros d drops next Hb; cbn [renum_seg surv].
  - split; [reflexivity|]. split; [reflexivity|]. split; [lia|]. intros j Hj. lia.
  - destruct (memN d drops) eqn:E.
    + specialize (IH (d + 1) drops next ltac:(lia)).
      destruct (renum_seg k (d + 1) drops next) as [m nx]. destruct IH as (H1 & H2 & H3 & H4).
      split; [cbn; lia|]. split; [|split; [exact H3|]].
      * unfold live_nums in *. cbn [filter]. rewrite N.eqb_refl. cbn [negb]. exact H2.
      * intros j Hj. destruct j as [|j]; cbn [nth].
        -- replace (d + N.of_nat 0) with d by lia. tauto.
        -- replace (d + N.of_nat (S j)) with (d + 1 + N.of_nat j) by lia. apply H4. lia.
    + specialize (IH (d + 1) drops (next + 1) ltac:(lia)).
      destruct (renum_seg k (d + 1) drops (next + 1)) as [m nx]. destruct IH as (H1 & H2 & H3 & H4).
      split; [cbn; lia|]. split; [|split; [lia|]].
      * unfold live_nums in *. cbn [filter].
        assert ((next =? dropped) = false) as -> by (apply N.eqb_neq; lia). cbn [negb nseqN Nat.add]. now rewrite H2.
      * intros j Hj. destruct j as [|j]; cbn [nth].
        -- replace (d + N.of_nat 0) with d by lia. split; [intros Hn; exfalso; clear - Hn Hb; lia|congruence].
        -- replace (d + N.of_nat (S j)) with (d + 1 + N.of_nat j) by lia. apply H4. lia.
Qed.

Lemma surv_le k : forall d drops, (surv k d drops <= k)%nat.
Proof. induction k as [|k IH]; intros d drops; cbn [surv]; [lia|]. specialize (IH (d + 1) drops). destruct (memN d drops); lia. Qed.

Fixpoint total_docs (segs : list (N * list N)) : N :=
  match segs with [] => 0 | (n, _) :: r => n + total_docs r end.
Fixpoint total_surv (segs : list (N * list N)) : nat :=
  match segs with [] => O | (n, dr) :: r => (surv (N.to_nat n) 0 dr + total_surv r)%nat end.

Lemma live_nums_app a b : live_nums (a ++ b) = live_nums a ++ live_nums b.
Proof. unfold live_nums. apply filter_app. Qed.
Lemma nseqN_app s a b : nseqN s (a + b) = nseqN s a ++ nseqN (s + N.of_nat a) b.
Proof.
  revert s; induction a as [|a IH]; intros s; cbn [nseqN Nat.add app].
  - now replace (s + N.of_nat 0) with s by lia.
  - rewrite IH. replace (s + N.of_nat (S a)) with (s + 1 + N.of_nat a) by lia. reflexivity.
Qed.

(* C05 (numbering, for the executable specification) *)
Theorem C05_spec_renumbering : forall segs next, next + total_docs segs < dropped ->
  let '(ms, nx) := renum segs next in
  length ms = length segs /\
  live_nums (concat ms) = nseqN next (total_surv segs) /\
  nx = next + N.of_nat (total_surv segs) /\
  (forall s j n dr, nth_error segs s = Some (n, dr) -> (j < N.to_nat n)%nat ->
     (nth j (nth s ms []) dropped = dropped <-> memN (N.of_nat j) dr = true)).
Proof.
  induction segs as [|[n dr] segs IH]; intros next Hb; cbn [renum total_docs total_surv] in *.
  - split; [reflexivity|]. split; [reflexivity|]. split; [lia|]. intros s j n dr H. destruct s; discriminate.
  - pose proof (renum_seg_spec (N.to_nat n) 0 dr next ltac:(lia)) as S.
    destruct (renum_seg (N.to_nat n) 0 dr next) as [m nx]. destruct S as (S1 & S2 & S3 & S4).
    pose proof (surv_le (N.to_nat n) 0 dr) as Hle.
    specialize (IH nx ltac:(lia)). destruct (renum segs nx) as [ms nx']. destruct IH as (H1 & H2 & H3 & H4).
    split; [cbn; lia|]. split; [|split; [lia|]].
    + cbn [concat]. rewrite live_nums_app, S2, H2, nseqN_app, S3. reflexivity.
    + intros s j n0 dr0 Hs Hj. destruct s as [|s]; cbn [nth nth_error] in *.
      * injection Hs as <- <-. specialize (S4 j Hj). replace (0 + N.of_nat j) with (N.of_nat j) in S4 by lia. exact S4.
      * eapply H4; eauto.
Qed.
Print Assumptions C05_spec_renumbering.
