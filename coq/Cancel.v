(* C18: a merge as a sequence of writes separated by poll points of the close channel
   (merge.go isClosed checks in mergeToWriter / mergeStoredAndRemap, and per field / per term in the
   section merges).  The channel is closed at some moment `p` (an index into the event list; 0 = before
   the call).  A poll at or after that moment returns ErrClosed, which unwinds through the same
   cleanup as an I/O error (file closed and removed). *)
From Coq Require Import List Arith Lia.
Import ListNotations.

Inductive ev := W (n : nat) | Poll.
Inductive outcome := Cancelled (* ErrClosed, file removed *) | Done (written : nat) (* nil, file kept *).

Fixpoint exec (p i : nat) (evs : list ev) (written : nat) : outcome :=
  match evs with
  | [] => Done written
  | W n :: r => exec p (S i) r (written + n)
  | Poll :: r => if p <=? i then Cancelled else exec p (S i) r written
  end.

Fixpoint total (evs : list ev) : nat :=
  match evs with [] => 0 | W n :: r => n + total r | Poll :: r => total r end.

Lemma exec_outcomes : forall evs p i w, exec p i evs w = Cancelled \/ exec p i evs w = Done (w + total evs).
Proof.
  induction evs as [|e evs IH]; intros p i w; cbn [exec total].
  - right. f_equal. lia.
  - destruct e as [n|].
    + destruct (IH p (S i) (w + n)) as [H|H]; [now left|right]. rewrite H. f_equal. lia.
    + destruct (p <=? i); [now left|apply IH].
Qed.

(* C18: wherever the close falls, the merge either reports the closed error and leaves no file, or
   finishes with the complete file; never success for a partial file *)
Theorem C18_cancel_outcomes : forall evs p, exec p 0 evs 0 = Cancelled \/ exec p 0 evs 0 = Done (total evs).
Proof. intros. apply (exec_outcomes evs p 0 0). Qed.

(* closed before the call: the first poll (mergeToWriter polls before writing anything) cancels *)
Lemma closed_before_gen : forall evs pre i w, Forall (fun e => match e with W _ => True | Poll => False end) pre ->
  exec 0 i (pre ++ Poll :: evs) w = Cancelled.
Proof.
  intros evs pre. induction pre as [|e pre IH]; intros i w H; cbn [app exec].
  - reflexivity.
  - inversion H; subst. destruct e; [apply IH; assumption|contradiction].
Qed.
Theorem C18_closed_before : forall evs pre, Forall (fun e => match e with W _ => True | Poll => False end) pre ->
  exec 0 0 (pre ++ Poll :: evs) 0 = Cancelled.
Proof. intros. now apply closed_before_gen. Qed.
Print Assumptions C18_cancel_outcomes.
Print Assumptions C18_closed_before.
