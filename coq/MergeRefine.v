(* C06: the dictionary produced by the merge algorithm's model (Enum.enumerate + MergeLoop.loop)
   equals the dictionary of the executable specification SpecMerge.merge_dict - the one the
   correspondence run compares with what zapx writes - for every key. *)
From Coq Require Import List NArith Lia Bool PeanoNat.
Import ListNotations.
Require Import Spec StrOrd Enum EnumProof MergeLoop.
Open Scope N_scope.

(* ---- a strictly sorted listing is unique ---- *)
Lemma tlt_irrefl t : ~ tlt t t.
Proof. destruct t as [[k i] v]. cbn. intros [H|[_ H]]; [now apply (scmp_lt_irrefl k)|lia]. Qed.

Lemma tlt_asym a b : tlt a b -> tlt b a -> False.
Proof.
  destruct a as [[k i] v], b as [[k' i'] v']. cbn. intros [H|[E H]] [H'|[E' H']].
  - apply (scmp_lt_irrefl k). eapply scmp_lt_trans; eauto.
  - subst k'. now apply (scmp_lt_irrefl k).
  - subst k'. now apply (scmp_lt_irrefl k).
  - lia.
Qed.

Lemma tlt_same_ki k i v v' : ~ tlt (k, i, v) (k, i, v').
Proof. cbn. intros [H|[_ H]]; [now apply (scmp_lt_irrefl k)|lia]. Qed.

Lemma sorted_unique : forall l1 l2, sorted_t l1 -> sorted_t l2 -> (forall t, In t l1 <-> In t l2) -> l1 = l2.
Proof.
  induction l1 as [|a r1 IH]; intros l2 H1 H2 Hm.
  - destruct l2 as [|b r2]; [reflexivity|]. exfalso. apply (Hm b). now left.
  - destruct l2 as [|b r2]; [exfalso; apply (Hm a); now left|].
    cbn [sorted_t] in H1, H2. destruct H1 as [Ha Hs1], H2 as [Hb Hs2].
    assert (Eab: a = b).
    { destruct (proj1 (Hm a) (or_introl eq_refl)) as [E|Ina]; [now symmetry|].
      destruct (proj2 (Hm b) (or_introl eq_refl)) as [E|Inb]; [exact E|].
      exfalso. exact (tlt_asym a b (Ha b Inb) (Hb a Ina)). }
    subst b. f_equal. apply IH; [exact Hs1|exact Hs2|].
    intros t. split; intros Hin.
    + destruct (proj1 (Hm t) (or_intror Hin)) as [E|Hin2]; [|exact Hin2]. subst t. exfalso. exact (tlt_irrefl a (Ha a Hin)).
    + destruct (proj2 (Hm t) (or_intror Hin)) as [E|Hin1]; [|exact Hin1]. subst t. exfalso. exact (tlt_irrefl a (Hb a Hin)).
Qed.

Lemma sorted_filter (f : tuple -> bool) : forall l, sorted_t l -> sorted_t (filter f l).
Proof.
  induction l as [|t l IH]; intros H; [exact I|]. cbn [sorted_t] in H. destruct H as [H1 H2]. cbn [filter].
  destruct (f t); [|now apply IH]. cbn [sorted_t]. split; [|now apply IH].
  intros t' Hin. apply filter_In in Hin. now apply H1.
Qed.

(* ---- the entries with key k, iterator by iterator ---- *)
Fixpoint lookupkv (k : str) (l : list kv) : option N :=
  match l with [] => None | (k', v) :: r => if seqb k' k then Some v else lookupkv k r end.

Lemma lookupkv_in k : forall l v, lookupkv k l = Some v -> In (k, v) l.
Proof.
  induction l as [|[k' v'] l IH]; intros v H; [discriminate|]. cbn in H. destruct (seqb k' k) eqn:E.
  - injection H as ->. apply seqb_true in E. subst. now left.
  - right. now apply IH.
Qed.

Lemma lookupkv_asc k : forall l v, asc l -> In (k, v) l -> lookupkv k l = Some v.
Proof.
  induction l as [|[k' v'] l IH]; intros v Ha Hin; [destruct Hin|]. cbn [asc] in Ha. destruct Ha as [Hlt Ha].
  cbn [lookupkv]. destruct Hin as [E|Hin].
  - injection E as -> ->. now rewrite seqb_refl.
  - destruct (seqb k' k) eqn:E.
    + apply seqb_true in E. subst k'. exfalso. apply (scmp_lt_irrefl k). eapply Hlt; eauto.
    + now apply IH.
Qed.

Fixpoint ideal (k : str) (i0 : nat) (its : list (list kv)) : list tuple :=
  match its with
  | [] => []
  | l :: r => (match lookupkv k l with Some v => [(k, i0, v)] | None => [] end) ++ ideal k (S i0) r
  end.

Lemma ideal_in k : forall its i0 k' i v, In (k', i, v) (ideal k i0 its) <->
  k' = k /\ (i0 <= i)%nat /\ exists l, nth_error its (i - i0) = Some l /\ lookupkv k l = Some v.
Proof.
  induction its as [|l its IH]; intros i0 k' i v; cbn [ideal].
  - split; [intros []|]. intros (_ & _ & l & H & _). destruct (i - i0)%nat; discriminate.
  - rewrite in_app_iff, IH. split.
    + intros [H|(E & Hle & l' & Hn & Hl)].
      * destruct (lookupkv k l) as [v0|] eqn:El; [|destruct H]. destruct H as [E|[]]. injection E as <- <- <-.
        split; [reflexivity|]. split; [lia|]. exists l. rewrite Nat.sub_diag. now split.
      * split; [exact E|]. split; [lia|]. exists l'. split; [|exact Hl]. replace (i - i0)%nat with (S (i - S i0)) by lia. exact Hn.
    + intros (E & Hle & l' & Hn & Hl). destruct (Nat.eq_dec i i0) as [->|Hne].
      * left. rewrite Nat.sub_diag in Hn. cbn in Hn. injection Hn as <-. rewrite Hl. subst. now left.
      * right. split; [exact E|]. split; [lia|]. exists l'. split; [|exact Hl].
        replace (i - i0)%nat with (S (i - S i0)) in Hn by lia. exact Hn.
Qed.

Lemma ideal_sorted k : forall its i0, sorted_t (ideal k i0 its).
Proof.
  induction its as [|l its IH]; intros i0; [exact I|]. cbn [ideal].
  destruct (lookupkv k l) as [v|]; cbn [app]; [|apply IH]. cbn [sorted_t]. split; [|apply IH].
  intros [[k' i] v'] Hin. apply ideal_in in Hin as (-> & Hle & _). cbn. right. split; [reflexivity|lia].
Qed.

Definition key_is (k : str) (t : tuple) : bool := let '(k', _, _) := t in seqb k' k.

Lemma hits_of_filter {H} (pl : nat -> N -> list H) k : forall ts, hits_of H pl k ts = hits_of H pl k (filter (key_is k) ts).
Proof.
  induction ts as [|[[k' i] v] ts IH]; [reflexivity|]. unfold hits_of in *. cbn [flat_map filter key_is].
  destruct (seqb k' k) eqn:E; cbn [flat_map]; [rewrite E; now rewrite IH|exact IH].
Qed.

(* the tuples with key k that the enumerator yields are the entries with key k, in iterator order *)
Theorem enumerate_key : forall its k, Forall asc its -> nozero its ->
  filter (key_is k) (enumerate its) = ideal k 0 its.
Proof.
  intros its k Ha Hz. destruct (enumerate_spec its Ha Hz) as [Hs Hm].
  apply sorted_unique; [now apply sorted_filter|apply ideal_sorted|].
  intros [[k' i] v]. rewrite filter_In, Hm, ideal_in. cbn [key_is]. rewrite Nat.sub_0_r. split.
  - intros [(l & Hn & Hin) E]. apply seqb_true in E. subst k'. split; [reflexivity|]. split; [lia|].
    exists l. split; [exact Hn|]. apply lookupkv_asc; [|exact Hin]. eapply Forall_forall; [exact Ha|eapply nth_error_In; eauto].
  - intros (-> & _ & l & Hn & Hl). split; [|apply seqb_refl]. exists l. split; [exact Hn|now apply lookupkv_in].
Qed.

(* ---- sorted association lists (Spec.mupd / Spec.mget) ---- *)
Section Assoc.
Context {V : Type}.
Fixpoint skeys (m : list (str * V)) : Prop :=
  match m with [] => True | (k, _) :: r => (forall k' v', In (k', v') r -> scmp k k' = Lt) /\ skeys r end.

Lemma mget_below k : forall m : list (str * V), (forall k' v', In (k', v') m -> scmp k k' = Lt) -> mget k m = None.
Proof.
  induction m as [|[k0 v0] m IH]; intros H; [reflexivity|]. cbn [mget].
  assert (E: seqb k k0 = false) by (unfold seqb; rewrite (H k0 v0 (or_introl eq_refl)); reflexivity).
  rewrite E. apply IH. intros k' v' Hin. apply (H k' v'). now right.
Qed.

Lemma mupd_in k f : forall (m : list (str * V)) k1 v1, In (k1, v1) (mupd k f m) -> k1 = k \/ exists v, In (k1, v) m.
Proof.
  induction m as [|[k0 v0] m IH]; intros k1 v1 Hin; cbn [mupd] in Hin.
  - destruct Hin as [E|[]]. injection E as <- _. now left.
  - destruct (scmp k k0) eqn:E.
    + destruct Hin as [E1|Hin]; [injection E1 as <- _; right; exists v0; now left|]. right. exists v1. now right.
    + destruct Hin as [E1|Hin]; [injection E1 as <- _; now left|]. right. exists v1. exact Hin.
    + destruct Hin as [E1|Hin]; [injection E1 as <- <-; right; exists v0; now left|].
      destruct (IH k1 v1 Hin) as [->|[v Hv]]; [now left|]. right. exists v. now right.
Qed.

Lemma mupd_skeys k f : forall m : list (str * V), skeys m -> skeys (mupd k f m).
Proof.
  induction m as [|[k0 v0] m IH]; intros H; cbn [mupd]; [cbn; split; [intros ? ? []|exact I]|].
  cbn [skeys] in H. destruct H as [H1 H2]. destruct (scmp k k0) eqn:E.
  - cbn [skeys]. split; [exact H1|exact H2].
  - cbn [skeys]. split; [|split; [exact H1|exact H2]].
    intros k' v' [E1|Hin]; [injection E1 as <- _; exact E|]. eapply scmp_lt_trans; [exact E|]. eapply H1; eauto.
  - cbn [skeys]. split; [|now apply IH].
    intros k' v' Hin. destruct (mupd_in k f m k' v' Hin) as [->|[v Hv]]; [now apply scmp_lt_gt|]. eapply H1; eauto.
Qed.

Lemma mget_mupd k k' f : forall m : list (str * V), skeys m ->
  mget k (mupd k' f m) = if seqb k k' then Some (f (mget k' m)) else mget k m.
Proof.
  induction m as [|[k0 v0] m IH]; intros H.
  - cbn [mupd mget]. now destruct (seqb k k').
  - cbn [skeys] in H. destruct H as [H1 H2]. cbn [mupd]. destruct (scmp k' k0) eqn:E.
    + apply scmp_eq in E. subst k0. cbn [mget]. rewrite seqb_refl. now destruct (seqb k k').
    + assert (mget k' ((k0, v0) :: m) = None) as ->.
      { apply mget_below. intros k1 v1 [E1|Hin]; [injection E1 as <- _; exact E|]. eapply scmp_lt_trans; [exact E|]. eapply H1; eauto. }
      reflexivity.
    + cbn [mget]. rewrite (IH H2).
      assert (E0: seqb k' k0 = false) by (unfold seqb; now rewrite E). rewrite E0.
      destruct (seqb k k0) eqn:Ek; [|reflexivity].
      apply seqb_true in Ek. subst k0. rewrite seqb_sym, E0. reflexivity.
Qed.
End Assoc.

(* ---- the specification's dictionary merge, key by key ---- *)
Section SpecSide.
Variable H : Type.
Definition oget (o : option (list H)) : list H := match o with Some x => x | None => [] end.
Definition ocat (o : option (list H)) (p : list H) : option (list H) :=
  match p with [] => o | _ => Some (oget o ++ p) end.
Lemma ocat_ocat o p q : ocat (ocat o p) q = ocat o (p ++ q).
Proof. destruct p as [|a p]; [reflexivity|]. destruct q as [|b q]; cbn; [now rewrite app_nil_r|]. now rewrite <- app_assoc. Qed.

(* SpecMerge.add_dict with the remapping abstracted as g *)
Definition add_dict_g (g : list H -> list H) (acc : list (str * list H)) (d : list (str * list H)) :=
  fold_left (fun a e => match g (snd e) with
                        | [] => a
                        | hs => mupd (fst e) (fun o => (match o with None => [] | Some x => x end) ++ hs) a
                        end) d acc.
Definition piece (g : list H -> list H) (d : list (str * list H)) (k : str) : list H :=
  match mget k d with Some hs => g hs | None => [] end.

Lemma add_dict_get g k : forall d acc, skeys acc -> skeys d ->
  skeys (add_dict_g g acc d) /\ mget k (add_dict_g g acc d) = ocat (mget k acc) (piece g d k).
Proof.
  induction d as [|[t h] d IH]; intros acc Ha Hd.
  - split; [exact Ha|]. reflexivity.
  - cbn [skeys] in Hd. destruct Hd as [Hd1 Hd2]. unfold add_dict_g. cbn [fold_left fst snd].
    set (acc' := match g h with [] => acc | a :: l => mupd t (fun o => match o with None => [] | Some x => x end ++ a :: l) acc end).
    assert (Ha': skeys acc') by (subst acc'; destruct (g h); [exact Ha|now apply mupd_skeys]).
    destruct (IH acc' Ha' Hd2) as [Hs Hg]. fold (add_dict_g g acc' d). split; [exact Hs|]. rewrite Hg.
    unfold piece at 2. cbn [mget]. destruct (seqb k t) eqn:E.
    + apply seqb_true in E. subst t.
      assert (piece g d k = []) as -> by (unfold piece; rewrite (mget_below k d Hd1); reflexivity).
      cbn [ocat]. subst acc'. destruct (g h) as [|a l] eqn:Eg; [reflexivity|].
      rewrite mget_mupd by exact Ha. rewrite seqb_refl. cbn [ocat oget]. destruct (mget k acc); reflexivity.
    + fold (piece g d k). subst acc'. destruct (g h) as [|a l]; [reflexivity|].
      rewrite mget_mupd by exact Ha. now rewrite E.
Qed.

(* a list of (dictionary, remapping) pairs folded in order *)
Definition fold_dicts (dgs : list (list (str * list H) * (list H -> list H))) : list (str * list H) :=
  fold_left (fun acc dg => add_dict_g (snd dg) acc (fst dg)) dgs [].

Lemma fold_dicts_get k : forall dgs acc, skeys acc -> Forall (fun dg => skeys (fst dg)) dgs ->
  mget k (fold_left (fun acc dg => add_dict_g (snd dg) acc (fst dg)) dgs acc) =
  ocat (mget k acc) (concat (map (fun dg => piece (snd dg) (fst dg) k) dgs)).
Proof.
  induction dgs as [|[d g] dgs IH]; intros acc Ha Hd; [reflexivity|]. inversion Hd as [|? ? Hd1 Hd2]; subst.
  cbn [fold_left map concat fst snd] in *. destruct (add_dict_get g k d acc Ha Hd1) as [Hs Hg].
  rewrite (IH _ Hs Hd2), Hg. apply ocat_ocat.
Qed.
End SpecSide.

(* ---- algorithm = specification ---- *)
Section Refine.
Variable H : Type.
Variable pl : nat -> N -> list H.
Notation dgT := (list (str * list H) * (list H -> list H))%type.

(* iterator i and (dictionary, remapping) i: the same keys in the same order, and the surviving
   postings behind an entry's value are the remapping applied to the dictionary's hits *)
Definition related (i : nat) (l : list kv) (dg : dgT) : Prop :=
  Forall2 (fun e de => fst e = fst de /\ pl i (snd e) = snd dg (snd de)) l (fst dg).
Fixpoint rel_from (i0 : nat) (its : list (list kv)) (dgs : list dgT) : Prop :=
  match its, dgs with
  | [], [] => True
  | l :: r, dg :: r' => related i0 l dg /\ rel_from (S i0) r r'
  | _, _ => False
  end.

Lemma related_lookup i k g : forall l d,
  Forall2 (fun e de => fst e = fst de /\ pl i (snd e) = g (snd de)) l d ->
  match lookupkv k l with Some v => pl i v | None => [] end = piece H g d k.
Proof.
  induction 1 as [|[k1 v] [k2 h] l d [E1 E2] _ IH]; [reflexivity|]. cbn [fst snd] in *. subst k2.
  unfold piece in *. cbn [lookupkv mget]. rewrite (seqb_sym k k1). destruct (seqb k1 k); [exact E2|exact IH].
Qed.

Lemma hits_of_app k a b : hits_of H pl k (a ++ b) = hits_of H pl k a ++ hits_of H pl k b.
Proof. unfold hits_of. apply flat_map_app. Qed.

Lemma hits_of_ideal k : forall its dgs i0, rel_from i0 its dgs ->
  hits_of H pl k (ideal k i0 its) = concat (map (fun dg => piece H (snd dg) (fst dg) k) dgs).
Proof.
  induction its as [|l its IH]; intros [|dg dgs] i0 R; cbn [rel_from] in R; try contradiction; [reflexivity|].
  destruct R as [R1 R2]. cbn [ideal map concat]. rewrite hits_of_app, (IH dgs (S i0) R2). f_equal.
  rewrite <- (related_lookup i0 k (snd dg) l (fst dg) R1).
  destruct (lookupkv k l) as [v|]; [|reflexivity]. unfold hits_of. cbn [flat_map]. rewrite seqb_refl. apply app_nil_r.
Qed.

Theorem merge_refines_spec : forall its dgs k,
  Forall asc its -> nozero its -> rel_from 0 its dgs -> Forall (fun dg : dgT => skeys (fst dg)) dgs ->
  assoc H k (merge_dict H pl its) = oget H (mget k (fold_dicts H dgs)).
Proof.
  intros its dgs k Ha Hz R Hs.
  destruct (merge_dict_spec H pl its k Ha Hz) as [-> _].
  rewrite hits_of_filter, (enumerate_key its k Ha Hz), (hits_of_ideal k its dgs 0%nat R).
  unfold fold_dicts. rewrite (fold_dicts_get H k dgs [] I Hs). cbn [mget].
  destruct (concat (map (fun dg : dgT => piece H (snd dg) (fst dg) k) dgs)); reflexivity.
Qed.
End Refine.

(* instantiation: the executable specification SpecMerge.merge_dict is such a fold *)
Require Import SpecMerge.
Definition dgs_of (cms : list (content * list N)) (f : str) : list (list (str * list hit) * (list hit -> list hit)) :=
  flat_map (fun cm => match mget f (c_dicts (fst cm)) with Some d => [(d, remap_hits (snd cm))] | None => [] end) cms.

Lemma spec_merge_dict_is_fold cms f : SpecMerge.merge_dict cms f = fold_dicts hit (dgs_of cms f).
Proof.
  unfold SpecMerge.merge_dict, fold_dicts, dgs_of. generalize (@nil (str * list hit)).
  induction cms as [|cm cms IH]; intros acc; [reflexivity|]. cbn [fold_left flat_map].
  destruct (mget f (c_dicts (fst cm))) as [d|]; cbn [app fold_left fst snd]; apply IH.
Qed.

(* C06: for every key, the dictionary built by the merge algorithm's model holds exactly what the
   executable specification's merged dictionary holds *)
Theorem C06_merge_algorithm_refines_spec : forall (pl : nat -> N -> list hit) its cms f k,
  Forall asc its -> nozero its -> rel_from hit pl 0 its (dgs_of cms f) ->
  Forall (fun dg : list (str * list hit) * (list hit -> list hit) => skeys (fst dg)) (dgs_of cms f) ->
  assoc hit k (MergeLoop.merge_dict hit pl its) = oget hit (mget k (SpecMerge.merge_dict cms f)).
Proof. intros. rewrite spec_merge_dict_is_fold. now apply merge_refines_spec. Qed.
Print Assumptions C06_merge_algorithm_refines_spec.
