(* SPIKE (round 0): hand-written arithmetic kernel + bit lemmas *)
From Coq Require Import NArith Lia Bool.
From Coq Require Import ZifyN ZifyBool.
Open Scope N_scope.

Definition m31 : N := 2147483647.          (* mask31Bits *)
Definition onehit_tag : N := 9223372036854775808.   (* FSTValEncoding1Hit = 2^63 *)

Definition enc1hit (d n : N) : N := N.lor (N.lor onehit_tag (N.shiftl (N.land m31 n) 31)) (N.land m31 d).
Definition dec1hit (v : N) : N * N := (N.land m31 v, N.land m31 (N.shiftr v 31)).
Definition is1hit (v : N) : bool := N.land v 13835058055282163712 =? onehit_tag.   (* & 0xc000... *)

Lemma land_m31 x : N.land m31 x = x mod 2 ^ 31.
Proof. rewrite N.land_comm. change m31 with (N.ones 31). apply N.land_ones. Qed.

(* lor of disjoint ranges is addition *)
Lemma lor_shift_low n d k : d < 2 ^ k -> N.lor (N.shiftl n k) d = n * 2 ^ k + d.
Proof.
  intros Hd. rewrite N.shiftl_mul_pow2.
  rewrite <- N.lxor_lor.
  - symmetry. apply N.add_nocarry_lxor.
    apply N.bits_inj_0. intros i. rewrite N.land_spec.
    destruct (N.lt_ge_cases i k) as [Hi|Hi].
    + rewrite N.mul_pow2_bits_low by exact Hi. reflexivity.
    + assert (N.testbit d i = false) as ->.
      { destruct (N.eq_dec d 0) as [->|Hne]; [apply N.bits_0|].
        apply N.bits_above_log2. apply N.log2_lt_pow2; [lia|].
        eapply N.lt_le_trans; [exact Hd|]. apply N.pow_le_mono_r; lia. }
      apply andb_false_r.
  - apply N.bits_inj_0. intros i. rewrite N.land_spec.
    destruct (N.lt_ge_cases i k) as [Hi|Hi].
    + rewrite N.mul_pow2_bits_low by exact Hi. reflexivity.
    + assert (N.testbit d i = false) as ->.
      { destruct (N.eq_dec d 0) as [->|Hne]; [apply N.bits_0|].
        apply N.bits_above_log2. apply N.log2_lt_pow2; [lia|].
        eapply N.lt_le_trans; [exact Hd|]. apply N.pow_le_mono_r; lia. }
      apply andb_false_r.
Qed.

Lemma enc1hit_arith d n : d < 2 ^ 31 -> n < 2 ^ 31 -> enc1hit d n = 2 ^ 63 + n * 2 ^ 31 + d.
Proof.
  intros Hd Hn. unfold enc1hit. rewrite !land_m31, !N.mod_small by assumption.
  change onehit_tag with (N.shiftl 1 63).
  rewrite <- N.lor_assoc. rewrite (lor_shift_low n d 31 Hd).
  rewrite (lor_shift_low 1 (n * 2 ^ 31 + d) 63).
  - lia.
  - change (2 ^ 63) with (2 ^ 31 * 2 ^ 31 * 2). nia.
Qed.

Theorem onehit_roundtrip d n : d < 2 ^ 31 -> n < 2 ^ 31 ->
  dec1hit (enc1hit d n) = (d, n) /\ is1hit (enc1hit d n) = true.
Proof.
  intros Hd Hn. rewrite enc1hit_arith by assumption. unfold dec1hit, is1hit.
  rewrite !land_m31, N.shiftr_div_pow2.
  assert (H1: (2 ^ 63 + n * 2 ^ 31 + d) mod 2 ^ 31 = d).
  { change (2 ^ 63) with (2 ^ 32 * 2 ^ 31). 
    replace (2 ^ 32 * 2 ^ 31 + n * 2 ^ 31 + d) with (d + (2 ^ 32 + n) * 2 ^ 31) by lia.
    rewrite N.mod_add by lia. apply N.mod_small. exact Hd. }
  assert (H2: (2 ^ 63 + n * 2 ^ 31 + d) / 2 ^ 31 = 2 ^ 32 + n).
  { change (2 ^ 63) with (2 ^ 32 * 2 ^ 31).
    replace (2 ^ 32 * 2 ^ 31 + n * 2 ^ 31 + d) with (d + (2 ^ 32 + n) * 2 ^ 31) by lia.
    rewrite N.div_add by lia. rewrite N.div_small by exact Hd. lia. }
  rewrite H1, H2. split.
  - f_equal. replace (2 ^ 32 + n) with (n + 2 * 2 ^ 31) by (change (2 ^ 32) with (2 * 2 ^ 31); lia).
    rewrite N.mod_add by lia. apply N.mod_small. exact Hn.
  - (* top two bits are 10 *)
    change 13835058055282163712 with (N.shiftl 3 62).
    apply N.eqb_eq. apply N.bits_inj. intros i. rewrite N.land_spec.
    change onehit_tag with (2 ^ 63). rewrite N.pow2_bits_eqb.
    set (v := 2 ^ 63 + n * 2 ^ 31 + d).
    assert (Hr: n * 2 ^ 31 + d < 2 ^ 62) by (change (2 ^ 62) with (2 ^ 31 * 2 ^ 31); nia).
    destruct (N.lt_ge_cases i 62) as [Hi|Hi].
    + rewrite (N.shiftl_spec_low 3 62 i Hi), andb_false_r. symmetry. apply N.eqb_neq. lia.
    + rewrite (N.shiftl_spec_high' 3 62 i Hi).
      assert (i = 62 \/ i = 63 \/ 64 <= i) as [->|[->|Hi2]] by lia.
      * assert (N.testbit v 62 = false) as ->; [|reflexivity].
        rewrite N.testbit_eqb. replace (v / 2 ^ 62) with 2; [reflexivity|].
        apply N.div_unique with (r := n * 2 ^ 31 + d); [exact Hr|]. subst v. change (2 ^ 63) with (2 ^ 62 * 2). lia.
      * assert (N.testbit v 63 = true) as ->; [|reflexivity].
        rewrite N.testbit_eqb. replace (v / 2 ^ 63) with 1; [reflexivity|].
        apply N.div_unique with (r := n * 2 ^ 31 + d); [change (2 ^ 63) with (2 ^ 62 * 2); lia|]. subst v. lia.
      * assert (N.testbit 3 (i - 62) = false) as ->.
        { apply N.bits_above_log2. change (N.log2 3) with 1. lia. }
        rewrite andb_false_r. symmetry. apply N.eqb_neq. lia.
Qed.
Print Assumptions onehit_roundtrip.

(* the documented v16 chunk-size rule (frozen specification) *)
Definition chunk_size_spec (mode card maxDocs : N) : N * bool :=
  if mode =? 0 then (0, true)
  else if mode <=? 1024 then (mode, false)
  else if mode =? 1025 then
    (if card <=? 1024 then (if maxDocs =? 0 then (0, true) else (maxDocs, false)) else (1024, false))
  else if mode =? 1026 then
    (let cs := maxDocs / (card / 1024 + 1) in if cs =? 0 then (0, true) else (cs, false))
  else (0, true).

(* every document falls into a chunk of the table the writer allocates *)
Lemma chunk_index_in_table mode card maxDocs cs d :
  chunk_size_spec mode card maxDocs = (cs, false) -> d < maxDocs ->
  0 < cs /\ d / cs < (maxDocs - 1) / cs + 1.
Proof.
  unfold chunk_size_spec. intros H Hd.
  assert (Hpos: 0 < cs).
  { destruct (mode =? 0) eqn:E0; [discriminate|].
    destruct (mode <=? 1024) eqn:E1; [injection H as <-; lia|].
    destruct (mode =? 1025) eqn:E2.
    - destruct (card <=? 1024); [destruct (maxDocs =? 0) eqn:E3; [discriminate|injection H as <-; lia]|injection H as <-; lia].
    - destruct (mode =? 1026); [|discriminate]. cbv zeta in H.
      destruct (maxDocs / (card / 1024 + 1) =? 0) eqn:E4; [discriminate|].
      injection H as <-. apply N.eqb_neq in E4. now apply N.neq_0_lt_0. }
  split; [exact Hpos|].
  assert (d / cs <= (maxDocs - 1) / cs) by (apply N.div_le_mono; lia). lia.
Qed.

(* ---- synonym code (encodeSynonym / decodeSynonym) and vector code (getVectorCode) ---- *)
Definition enc_pair32 (hi lo : N) : N := N.lor (N.shiftl hi 32) lo.
Definition dec_pair32 (c : N) : N * N := (N.shiftr c 32 mod 2 ^ 32, c mod 2 ^ 32).

Theorem pair32_roundtrip hi lo : hi < 2 ^ 32 -> lo < 2 ^ 32 ->
  dec_pair32 (enc_pair32 hi lo) = (hi, lo) /\ enc_pair32 hi lo < 2 ^ 64.
Proof.
  intros Hh Hl. unfold enc_pair32, dec_pair32. rewrite (lor_shift_low hi lo 32 Hl), N.shiftr_div_pow2.
  assert (H1: (hi * 2 ^ 32 + lo) / 2 ^ 32 = hi).
  { rewrite N.add_comm, N.div_add by lia. rewrite N.div_small by exact Hl. lia. }
  assert (H2: (hi * 2 ^ 32 + lo) mod 2 ^ 32 = lo).
  { rewrite N.add_comm, N.mod_add by lia. now apply N.mod_small. }
  rewrite H1, H2, (N.mod_small hi) by exact Hh. split; [reflexivity|].
  change (2 ^ 64) with (2 ^ 32 * 2 ^ 32). nia.
Qed.

(* codes order first by the high half: iteration over a roaring64 bitmap of vector codes is by document *)
Lemma pair32_mono h1 l1 h2 l2 : l1 < 2 ^ 32 -> l2 < 2 ^ 32 -> h1 < h2 ->
  h1 * 2 ^ 32 + l1 < h2 * 2 ^ 32 + l2.
Proof. intros. nia. Qed.
Print Assumptions pair32_roundtrip.

(* ---- freq/hasLocs packing (encodeFreqHasLocs / decodeFreqHasLocs) ---- *)
Definition enc_fhl (freq : N) (hl : bool) : N := 2 * freq + (if hl then 1 else 0).
Definition dec_fhl (v : N) : N * bool := (v / 2, N.odd v).
Lemma fhl_roundtrip freq hl : dec_fhl (enc_fhl freq hl) = (freq, hl).
Proof.
  unfold dec_fhl, enc_fhl. f_equal.
  - destruct hl; lia.
  - destruct hl.
    + rewrite N.add_comm, N.odd_add_mul_2. reflexivity.
    + rewrite N.add_0_r, N.odd_mul, N.odd_2. reflexivity.
Qed.
