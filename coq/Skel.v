(* Control skeletons of zapx's resource-handling functions (generated into gen/Skeleton.v by
   `gotrans skel`): the statement tree restricted to calls of interest, error branches, loops,
   defers and returns; its path semantics; and a VERIFIED analyser for the discipline
   "every error return is immediately preceded by the cleanup call". *)
From Coq Require Import List NArith Bool.
Import ListNotations.
Open Scope N_scope.

Inductive sk :=
| KCall (f : N)
| KDefer (f : N)
| KSeq (l : list sk)
| KIf (a b : sk)
| KIfErr (a : sk)          (* if err != nil { a } *)
| KLoop (body : sk)        (* for / range: zero or more iterations *)
| KRet (iserr : bool).     (* return; iserr: the error result is not known to be nil *)

Inductive ev := ECall (f : N) | EDefer (f : N) | ERet (iserr : bool).

(* runs s p r: p is the event trace of one execution of s; r = it ended with a return *)
Inductive runs : sk -> list ev -> bool -> Prop :=
| RCall f : runs (KCall f) [ECall f] false
| RDefer f : runs (KDefer f) [EDefer f] false
| RRet b : runs (KRet b) [ERet b] true
| RSeqNil : runs (KSeq []) [] false
| RSeqRet x r p : runs x p true -> runs (KSeq (x :: r)) p true
| RSeqGo x r p q b : runs x p false -> runs (KSeq r) q b -> runs (KSeq (x :: r)) (p ++ q) b
| RIfL a b p r : runs a p r -> runs (KIf a b) p r
| RIfR a b p r : runs b p r -> runs (KIf a b) p r
| RErrY a p r : runs a p r -> runs (KIfErr a) p r
| RErrN a : runs (KIfErr a) [] false
| RLoop0 body : runs (KLoop body) [] false
| RLoopRet body p : runs body p true -> runs (KLoop body) p true
| RLoopGo body p q b : runs body p false -> runs (KLoop body) q b -> runs (KLoop body) (p ++ q) b.

Definition is_call (c : N) (s : sk) : bool := match s with KCall f => f =? c | _ => false end.
Definition is_errret (s : sk) : bool := match s with KRet true => true | _ => false end.

(* guarded c s: every error return in s sits in a sequence directly after `KCall c` *)
Fixpoint guarded (c : N) (s : sk) : bool :=
  match s with
  | KCall _ | KDefer _ => true
  | KRet b => negb b                       (* a bare error return (not in a sequence after the call) *)
  | KIf a b => guarded c a && guarded c b
  | KIfErr a => guarded c a
  | KLoop body => guarded c body
  | KSeq l =>
      (fix go (prev_is_call : bool) (l : list sk) : bool :=
         match l with
         | [] => true
         | x :: r => (if is_errret x then prev_is_call else guarded c x) && go (is_call c x) r
         end) false l
  end.

(* the property of traces, as a scan with one bit of state (was the previous event the call c?):
   each error return is immediately preceded by the call c *)
Definition is_ecall (c : N) (e : ev) : bool := match e with ECall f => f =? c | _ => false end.
Fixpoint tok (c : N) (prev : bool) (p : list ev) : bool :=
  match p with
  | [] => true
  | e :: r => (match e with ERet true => prev | _ => true end) && tok c (is_ecall c e) r
  end.
Fixpoint lastc (c : N) (prev : bool) (p : list ev) : bool :=
  match p with [] => prev | e :: r => lastc c (is_ecall c e) r end.

Lemma tok_app c : forall p q b, tok c b (p ++ q) = tok c b p && tok c (lastc c b p) q.
Proof.
  induction p as [|e p IH]; intros q b; cbn [app tok lastc]; [reflexivity|].
  rewrite IH. now rewrite andb_assoc.
Qed.
Lemma lastc_app c : forall p q b, lastc c b (p ++ q) = lastc c (lastc c b p) q.
Proof. induction p as [|e p IH]; intros q b; cbn [app lastc]; [reflexivity|apply IH]. Qed.

Fixpoint go_seq (c : N) (prev : bool) (l : list sk) : bool :=
  match l with
  | [] => true
  | x :: r => (if is_errret x then prev else guarded c x) && go_seq c (is_call c x) r
  end.
Lemma guarded_seq c l : guarded c (KSeq l) = go_seq c false l.
Proof.
  cbn [guarded]. generalize false. induction l as [|x r IH]; intros b; cbn [go_seq]; [reflexivity|].
  now rewrite IH.
Qed.

(* soundness of the analyser: on EVERY execution (any number of loop iterations, any branch) each
   error return is immediately preceded by the cleanup call *)
Lemma guarded_sound_gen c : forall s p r, runs s p r ->
  (guarded c s = true -> forall b, tok c b p = true) /\
  (forall l prev, s = KSeq l -> go_seq c prev l = true -> forall b, (prev = true -> b = true) -> tok c b p = true).
Proof.
  induction 1 as [f|f|b0| |x r p Hx IHx|x r p q b0 Hx IHx Hr IHr|a b p r Ha IHa|a b p r Hb IHb|a p r Ha IHa|a|body|body p Hb IHb|body p q b0 Hb IHb Hl IHl].
  - split; [intros _ b; reflexivity|intros l prev H; discriminate].
  - split; [intros _ b; reflexivity|intros l prev H; discriminate].
  - split; [|intros l prev H; discriminate]. cbn [guarded]. intros Hg b. destruct b0; [discriminate|reflexivity].
  - split; [intros _ b; reflexivity|intros l prev _ _ b _; reflexivity].
  - (* sequence ending in a return inside x *)
    assert (Part2: forall prev, go_seq c prev (x :: r) = true -> forall b, (prev = true -> b = true) -> tok c b p = true).
    { intros prev Hg b Hb. cbn [go_seq] in Hg. apply andb_true_iff in Hg as [Hg _].
      destruct (is_errret x) eqn:E.
      - destruct x; try discriminate. destruct iserr; try discriminate.
        pose proof (Hb Hg) as Hbt. clear Hb Hg IHx.
        inversion Hx; subst. cbn [tok]. reflexivity.
      - apply (proj1 IHx Hg). }
    split.
    + intros Hg b. rewrite guarded_seq in Hg. apply (Part2 false Hg b). discriminate.
    + intros l prev Hl. injection Hl as <-. apply Part2.
  - (* sequence continuing after x *)
    assert (Part2: forall prev, go_seq c prev (x :: r) = true -> forall b, (prev = true -> b = true) -> tok c b (p ++ q) = true).
    { intros prev Hg b Hb. cbn [go_seq] in Hg. apply andb_true_iff in Hg as [Hg1 Hg2].
      rewrite tok_app. apply andb_true_iff. split.
      - destruct (is_errret x) eqn:E.
        + destruct x; try discriminate. inversion Hx.
        + apply (proj1 IHx Hg1).
      - apply (proj2 IHr r (is_call c x) eq_refl Hg2).
        intros Hc. destruct x; try discriminate. cbn [is_call] in Hc.
        inversion Hx; subst. cbn [lastc is_ecall]. exact Hc. }
    split.
    + intros Hg b. rewrite guarded_seq in Hg. apply (Part2 false Hg b). discriminate.
    + intros l prev Hl. injection Hl as <-. apply Part2.
  - split; [|intros l prev H; discriminate]. cbn [guarded]. intros Hg. apply andb_true_iff in Hg as [Hg _]. apply (proj1 IHa Hg).
  - split; [|intros l prev H; discriminate]. cbn [guarded]. intros Hg. apply andb_true_iff in Hg as [_ Hg]. apply (proj1 IHb Hg).
  - split; [|intros l prev H; discriminate]. cbn [guarded]. intros Hg. apply (proj1 IHa Hg).
  - split; [intros _ b; reflexivity|intros l prev H; discriminate].
  - split; [intros _ b; reflexivity|intros l prev H; discriminate].
  - split; [|intros l prev H; discriminate]. cbn [guarded]. intros Hg. apply (proj1 IHb Hg).
  - split; [|intros l prev H; discriminate]. intros Hg b. rewrite tok_app. apply andb_true_iff. split.
    + cbn [guarded] in Hg. apply (proj1 IHb Hg).
    + apply (proj1 IHl Hg).
Qed.

Theorem guarded_sound c s p r : guarded c s = true -> runs s p r -> tok c false p = true.
Proof. intros Hg Hr. apply (proj1 (guarded_sound_gen c s p r Hr) Hg). Qed.
Print Assumptions guarded_sound.

(* the scan characterises the intended property *)
Lemma tok_spec c : forall p b, tok c b p = true ->
  forall pre post, p = pre ++ ERet true :: post -> lastc c b pre = true.
Proof.
  induction p as [|e p IH]; intros b H pre post Hp; [destruct pre; discriminate|].
  cbn [tok] in H. apply andb_true_iff in H as [H1 H2].
  destruct pre as [|x pre]; cbn [app] in Hp; injection Hp as -> Hp.
  - cbn [lastc]. exact H1.
  - cbn [lastc]. eapply IH; eauto.
Qed.
