(* SPIKE (round 0): byte-level primitives: uvarint (binary.PutUvarint / binary.Uvarint) *)
From Coq Require Import List NArith Lia ZArith.
From Coq Require Import ZifyN ZifyNat ZifyBool.
Import ListNotations.
Open Scope N_scope.
Ltac Zify.zify_post_hook ::= Z.div_mod_to_equations.

Definition bytes := list N.

Fixpoint uv_enc (fuel : nat) (n : N) : bytes :=
  match fuel with
  | O => []
  | S f => if n <? 128 then [n] else (n mod 128 + 128) :: uv_enc f (n / 128)
  end.

Fixpoint uv_dec (fuel : nat) (shift : N) (acc : N) (bs : bytes) : option (N * bytes) :=
  match fuel with
  | O => None
  | S f =>
    match bs with
    | [] => None
    | b :: r => if b <? 128 then Some (acc + b * 2 ^ shift, r)
                else uv_dec f (shift + 7) (acc + (b - 128) * 2 ^ shift) r
    end
  end.

Definition uv (n : N) : bytes := uv_enc 10 n.
Definition dec_uv (bs : bytes) : option (N * bytes) := uv_dec 10 0 0 bs.
Definition u64 (n : N) : Prop := n < 2 ^ 64.

Lemma uv_roundtrip_gen : forall fuel n shift acc rest,
  n < 2 ^ (7 * N.of_nat fuel) -> fuel <> O ->
  uv_dec fuel shift acc (uv_enc fuel n ++ rest) = Some (acc + n * 2 ^ shift, rest).
Proof.
  induction fuel as [|f IH]; intros n shift acc rest Hn Hf.
  - congruence.
  - cbn [uv_enc uv_dec].
    destruct (n <? 128) eqn:E.
    + cbn [app]. rewrite E. reflexivity.
    + cbn [app].
      assert (Hb: (n mod 128 + 128 <? 128) = false) by lia.
      rewrite Hb.
      replace (n mod 128 + 128 - 128) with (n mod 128) by lia.
      rewrite IH.
      * f_equal. f_equal.
        rewrite N.pow_add_r.
        assert (H128: 2 ^ 7 = 128) by reflexivity. rewrite H128.
        pose proof (N.div_mod n 128 ltac:(lia)) as Hdm.
        set (q := n / 128) in *. set (r := n mod 128) in *.
        set (p := 2 ^ shift). nia.
      * replace (7 * N.of_nat (S f)) with (7 + 7 * N.of_nat f) in Hn by lia.
        rewrite N.pow_add_r in Hn.
        change (2 ^ 7) with 128 in Hn.
        apply N.div_lt_upper_bound; lia.
      * intros ->. change (7 * N.of_nat 1) with 7 in Hn. change (2^7) with 128 in Hn. lia.
Qed.

Theorem dec_uv_app : forall n rest, u64 n -> dec_uv (uv n ++ rest) = Some (n, rest).
Proof.
  intros n rest Hn. unfold dec_uv, uv, u64 in *.
  rewrite uv_roundtrip_gen.
  - f_equal. f_equal. change (2 ^ 0) with 1. lia.
  - eapply N.lt_trans; [exact Hn|]. reflexivity.
  - discriminate.
Qed.

Lemma uv_nonempty n : uv n <> [].
Proof. unfold uv. cbn [uv_enc]. destruct (n <? 128); discriminate. Qed.

(* a list of uvarints *)
Fixpoint dec_uvs (k : nat) (bs : bytes) : option (list N * bytes) :=
  match k with
  | O => Some ([], bs)
  | S k' => match dec_uv bs with
            | Some (x, r) => match dec_uvs k' r with Some (xs, r') => Some (x :: xs, r') | None => None end
            | None => None
            end
  end.

Lemma dec_uvs_app : forall xs rest, Forall u64 xs ->
  dec_uvs (length xs) (flat_map uv xs ++ rest) = Some (xs, rest).
Proof.
  induction xs as [|x xs IH]; intros rest H; [reflexivity|].
  inversion H; subst. cbn [length flat_map dec_uvs]. rewrite <- app_assoc, dec_uv_app by assumption.
  now rewrite IH.
Qed.
