(* C01 / C09 core: the frozen reader's postings decoder (Layout.decode_hits) inverts the documented
   chunked encoding of a postings list: per chunk, the freq/norm entries of the chunk's hits in
   document order; per chunk, the location blocks of those hits that have locations.  The chunk
   tables are what Chunks.coder_ok proves the writer's chunkedIntCoder produces (chunk c holds exactly
   the bytes of the hits whose document falls into chunk c). *)
From Coq Require Import List NArith ZArith Lia Bool Sorted.
From Coq Require Import ZifyN ZifyNat ZifyBool.
Import ListNotations.
Require Import Opt Bytes Kernel Footer Streams Spec Layout.
Open Scope N_scope.
Ltac Zify.zify_post_hook ::= Z.div_mod_to_equations.

Section Postings.
Variable ft : list frec.
Variable cs : N.
Hypothesis Hcs : 0 < cs.

Definition shit := (N * Streams.entry)%type.
Definition in_chunk (c : N) (h : shit) : bool := fst h / cs =? c.
Definition enc_f (h : shit) : bytes := enc_tf (snd h).
Definition enc_l (h : shit) : bytes := if hasLocs (snd h) then enc_locblock (e_locs (snd h)) else [].
Definition F (c : N) (l : list shit) : bytes := flat_map enc_f (filter (in_chunk c) l).
Definition Lb (c : N) (l : list shit) : bytes := flat_map enc_l (filter (in_chunk c) l).

Definition spec_hit (h : shit) : option hit :=
  do ls <- mapopt (resolve_loc ft) (e_locs (snd h));
  Some {| h_doc := fst h; h_freq := e_freq (snd h);
          h_norm := (if e_freq (snd h) =? 0 then 0 else e_norm (snd h)); h_locs := ls |}.

Definition wf_hit (h : shit) : Prop :=
  wf_tf (snd h) /\ Forall wf_loc (e_locs (snd h)) /\ u64 (Streams.nlen (flat_map enc_loc (e_locs (snd h)))).

Variable fch lch : list bytes.
Variable hits : list shit.
Hypothesis Hf : forall c, chunk_of fch c = F c hits.
Hypothesis Hl : forall c, chunk_of lch c = Lb c hits.
Hypothesis Hsorted : StronglySorted N.lt (map fst hits).
Hypothesis Hwf : Forall wf_hit hits.

(* the cursor is in step with the remaining hits *)
Definition InStep (cur : cursor) (pre rest : list shit) : Prop :=
  let '(cc, fr, lr) := cur in
  match cc with
  | None => pre = []
  | Some c0 => (exists p ph, pre = p ++ [ph] /\ fst ph / cs = c0) /\ fr = F c0 rest /\ lr = Lb c0 rest
  end.

Lemma F_cons_in c h l : in_chunk c h = true -> F c (h :: l) = enc_f h ++ F c l.
Proof. unfold F. cbn [filter]. intros ->. reflexivity. Qed.
Lemma F_cons_out c h l : in_chunk c h = false -> F c (h :: l) = F c l.
Proof. unfold F. cbn [filter]. intros ->. reflexivity. Qed.
Lemma Lb_cons_in c h l : in_chunk c h = true -> Lb c (h :: l) = enc_l h ++ Lb c l.
Proof. unfold Lb. cbn [filter]. intros ->. reflexivity. Qed.
Lemma F_app c a b : F c (a ++ b) = F c a ++ F c b.
Proof. unfold F. now rewrite filter_app, flat_map_app. Qed.
Lemma Lb_app c a b : Lb c (a ++ b) = Lb c a ++ Lb c b.
Proof. unfold Lb. now rewrite filter_app, flat_map_app. Qed.

Lemma none_in_chunk c l : (forall h, In h l -> fst h / cs <> c) -> F c l = [] /\ Lb c l = [].
Proof.
  intros H. unfold F, Lb. assert (filter (in_chunk c) l = []) as ->; [|split; reflexivity].
  induction l as [|h l IH]; [reflexivity|]. cbn [filter].
  assert (in_chunk c h = false) as -> by (unfold in_chunk; apply N.eqb_neq; apply H; now left).
  apply IH. intros x Hx. apply H. now right.
Qed.

Lemma sorted_app_lt (pre : list shit) h rest :
  StronglySorted N.lt (map fst (pre ++ h :: rest)) -> forall x, In x pre -> fst x < fst h.
Proof.
  induction pre as [|y pre IH]; intros HS x Hx; [destruct Hx|].
  cbn [app map] in HS. inversion HS as [|? ? HS' HF]; subst.
  destruct Hx as [<-|Hx].
  - rewrite Forall_forall in HF. apply HF. rewrite map_app. apply in_or_app. right. now left.
  - now apply IH.
Qed.

Lemma chunk_mono a b : a <= b -> a / cs <= b / cs.
Proof. intros. apply N.div_le_mono; lia. Qed.

Lemma hasLocs_false_nil (e : Streams.entry) : hasLocs e = false -> e_locs e = [].
Proof. unfold hasLocs. destruct (e_locs e); [reflexivity|discriminate]. Qed.

Lemma pre_not_in_chunk pre h rest c0 :
  hits = pre ++ h :: rest -> (exists p ph, pre = p ++ [ph] /\ fst ph / cs = c0) -> c0 <> fst h / cs ->
  forall x, In x pre -> fst x / cs <> fst h / cs.
Proof.
  intros Hh (p & ph & -> & Hph) Hne x Hx.
  assert (HS: StronglySorted N.lt (map fst ((p ++ [ph]) ++ h :: rest))) by (rewrite <- Hh; exact Hsorted).
  assert (Hphh: fst ph < fst h) by (apply (sorted_app_lt (p ++ [ph]) h rest HS); apply in_or_app; right; now left).
  assert (Hxph: fst x <= fst ph).
  { apply in_app_or in Hx as [Hx|[<-|[]]]; [|lia].
    rewrite <- app_assoc in HS. cbn [app] in HS.
    pose proof (sorted_app_lt p ph (h :: rest) HS x Hx). lia. }
  pose proof (chunk_mono _ _ Hxph). pose proof (chunk_mono (fst ph) (fst h) ltac:(lia)). lia.
Qed.

Lemma decode_all : forall rest pre cur,
  hits = pre ++ rest -> InStep cur pre rest ->
  decode_hits ft cs fch lch (map fst rest) cur = mapopt spec_hit rest.
Proof.
  induction rest as [|h rest IH]; intros pre cur Hh HI; [reflexivity|].
  cbn [map decode_hits mapopt].
  destruct cur as [[cc fr] lr].
  set (c := fst h / cs).
  assert (Hin: in_chunk c h = true) by (unfold in_chunk, c; apply N.eqb_refl).
  (* after the chunk selection both streams hold the encodings of the remaining hits of chunk c *)
  assert (Hsel: (match cc with
                 | Some c0 => if c0 =? c then (fr, lr) else (chunk_of fch c, chunk_of lch c)
                 | None => (chunk_of fch c, chunk_of lch c)
                 end) = (F c (h :: rest), Lb c (h :: rest))).
  { assert (Hload: (forall x, In x pre -> fst x / cs <> c) -> (chunk_of fch c, chunk_of lch c) = (F c (h :: rest), Lb c (h :: rest))).
    { intros Hp. rewrite Hf, Hl, Hh, F_app, Lb_app. destruct (none_in_chunk c pre Hp) as [-> ->]. reflexivity. }
    unfold InStep in HI. destruct cc as [c0|].
    - destruct HI as (Hpre & Hfr & Hlr). destruct (c0 =? c) eqn:E.
      + apply N.eqb_eq in E. subst c0. now rewrite Hfr, Hlr.
      + apply N.eqb_neq in E. apply Hload. apply (pre_not_in_chunk pre h rest c0 Hh Hpre E).
    - subst pre. apply Hload. intros x []. }
  rewrite Hsel.
  assert (Hwh: wf_hit h).
  { rewrite Forall_forall in Hwf. apply Hwf. rewrite Hh. apply in_or_app. right. now left. }
  destruct Hwh as (Wtf & Wloc & Wlen).
  rewrite (F_cons_in c h rest Hin). unfold enc_f. rewrite (dec_enc_tf (snd h) (F c rest) Wtf).
  cbn [bindo].
  assert (HI': InStep (Some c, F c rest, Lb c rest) (pre ++ [h]) rest).
  { unfold InStep. split; [exists pre, h; split; [reflexivity|reflexivity]|split; reflexivity]. }
  assert (Hh': hits = (pre ++ [h]) ++ rest) by (rewrite <- app_assoc; exact Hh).
  unfold spec_hit at 1.
  destruct (hasLocs (snd h)) eqn:EL.
  - rewrite (Lb_cons_in c h rest Hin). unfold enc_l. rewrite EL.
    rewrite (dec_enc_locblock (e_locs (snd h)) (Lb c rest) Wloc Wlen). cbn [bindo].
    destruct (mapopt (resolve_loc ft) (e_locs (snd h))) as [ls|]; cbn [bindo]; [|reflexivity].
    rewrite (IH (pre ++ [h]) (Some c, F c rest, Lb c rest) Hh' HI').
    destruct (mapopt spec_hit rest); reflexivity.
  - assert (Lb c (h :: rest) = Lb c rest) as ->.
    { rewrite (Lb_cons_in c h rest Hin). unfold enc_l. now rewrite EL. }
    rewrite (hasLocs_false_nil _ EL). cbn [mapopt bindo].
    rewrite (IH (pre ++ [h]) (Some c, F c rest, Lb c rest) Hh' HI').
    destruct (mapopt spec_hit rest); reflexivity.
Qed.

(* C01 / C09: the reader's postings decoder returns exactly the hits that were encoded *)
Theorem postings_stream_roundtrip :
  decode_hits ft cs fch lch (map fst hits) (None, [], []) = mapopt spec_hit hits.
Proof. apply (decode_all hits [] (None, [], [])); reflexivity. Qed.
End Postings.
Print Assumptions postings_stream_roundtrip.

(* ---------- positional access and the chunked stream framing ---------- *)
Lemma skip_n_app (pre x : bytes) : skip_n (pre ++ x) (N.of_nat (length pre)) = Some x.
Proof.
  induction pre as [|b pre IH]; cbn [app length].
  - destruct x; reflexivity.
  - cbn [skip_n]. assert ((N.of_nat (S (length pre)) =? 0) = false) as -> by lia.
    replace (N.of_nat (S (length pre)) - 1) with (N.of_nat (length pre)) by lia. exact IH.
Qed.

Lemma take_n_app (x rest acc : bytes) : take_n (x ++ rest) (N.of_nat (length x)) acc = Some (rev' acc ++ x, rest).
Proof.
  revert acc. induction x as [|b x IH]; intros acc; cbn [app length].
  - cbn [N.of_nat]. destruct rest; cbn [take_n]; rewrite app_nil_r; reflexivity.
  - cbn [take_n]. assert ((N.of_nat (S (length x)) =? 0) = false) as -> by lia.
    replace (N.of_nat (S (length x)) - 1) with (N.of_nat (length x)) by lia.
    rewrite IH. unfold rev'. rewrite <- !rev_alt. cbn [rev]. now rewrite <- app_assoc.
Qed.

Lemma take_app (x rest : bytes) : take (N.of_nat (length x)) (x ++ rest) = Some (x, rest).
Proof. unfold take. rewrite take_n_app. reflexivity. Qed.

Lemma repeat_dec_uvs : forall xs rest, Forall u64 xs ->
  repeat_dec (length xs) dec_uv (flat_map uv xs ++ rest) = Some (xs, rest).
Proof.
  induction xs as [|x xs IH]; intros rest H; [reflexivity|].
  inversion H; subst. cbn [length flat_map repeat_dec]. rewrite <- app_assoc, dec_uv_app by assumption.
  cbn [bindo]. rewrite IH by assumption. reflexivity.
Qed.

Definition nlenb (l : bytes) : N := N.of_nat (length l).
Fixpoint cum_from (acc : N) (lens : list N) : list N :=
  match lens with [] => [] | l :: r => (acc + l) :: cum_from (acc + l) r end.

Lemma slice_chunks_ok : forall chunks pre rest,
  slice_chunks (N.of_nat (length pre)) (cum_from (N.of_nat (length pre)) (map nlenb chunks)) (pre ++ concat chunks ++ rest) = Some chunks.
Proof.
  induction chunks as [|ch chunks IH]; intros pre rest; [reflexivity|].
  cbn [map cum_from slice_chunks concat].
  assert ((N.of_nat (length pre) + nlenb ch <? N.of_nat (length pre)) = false) as -> by (unfold nlenb; lia).
  rewrite skip_n_app. cbn [bindo].
  replace (N.of_nat (length pre) + nlenb ch - N.of_nat (length pre)) with (N.of_nat (length ch)) by (unfold nlenb; lia).
  rewrite <- app_assoc. rewrite take_app. cbn [bindo].
  specialize (IH (pre ++ ch) rest). rewrite app_length, Nnat.Nat2N.inj_add in IH.
  replace (pre ++ ch ++ concat chunks ++ rest) with ((pre ++ ch) ++ concat chunks ++ rest) by (now rewrite <- app_assoc).
  unfold nlenb at 1 2. rewrite IH. reflexivity.
Qed.

(* the documented framing of a chunked stream: uvarint nChunks, nChunks cumulative end offsets, data *)
Definition enc_stream (chunks : list bytes) : bytes :=
  uv (N.of_nat (length chunks)) ++ flat_map uv (cum_from 0 (map nlenb chunks)) ++ concat chunks.

Lemma cum_from_length acc lens : length (cum_from acc lens) = length lens.
Proof. revert acc; induction lens as [|l r IH]; intros acc; cbn; [reflexivity|now rewrite IH]. Qed.

Theorem chunked_stream_roundtrip : forall (pre : bytes) chunks rest,
  pre <> [] -> N.of_nat (length chunks) < max_count ->
  Forall u64 (cum_from 0 (map nlenb chunks)) ->
  stream_chunks (pre ++ enc_stream chunks ++ rest) (N.of_nat (length pre)) = Some chunks.
Proof.
  intros pre chunks rest Hpre Hn Hu. unfold stream_chunks.
  assert ((N.of_nat (length pre) =? 0) = false) as -> by (destruct pre; [congruence|cbn; lia]).
  unfold at_off. rewrite skip_n_app. cbn [bindo]. unfold enc_stream. rewrite <- !app_assoc.
  rewrite dec_uv_app by (unfold u64, max_count in *; lia). cbn [bindo].
  unfold count_ok. assert ((N.of_nat (length chunks) <? max_count) = true) as -> by lia. cbn [negb].
  rewrite Nnat.Nat2N.id.
  replace (length chunks) with (length (cum_from 0 (map nlenb chunks))) at 1 by (now rewrite cum_from_length, map_length).
  rewrite repeat_dec_uvs by exact Hu. cbn [bindo].
  apply (slice_chunks_ok chunks [] rest).
Qed.
Print Assumptions chunked_stream_roundtrip.
