From Coq Require Import List NArith Lia Bool Sorted.
From Coq Require Import ZifyN ZifyBool.
Import ListNotations.
Require Import Iter.
Open Scope N_scope.

Section Proof.
Variable loc : Type.
Variable P : list (hit loc).
Variable cs : N.
Variable inclFN inclLocs : bool.
Hypothesis Hcs : 0 < cs.
Hypothesis HP : StronglySorted N.lt (map fst P).

Notation hit := (hit loc).
Notation chunk := (chunk cs).
Notation in_chunk := (in_chunk loc cs).
Notation load := (load loc P cs inclLocs).
Notation ensure := (ensure loc P cs inclLocs).
Notation currChunkNext := (currChunkNext loc P cs inclLocs).

Definition docs (l : list hit) := map fst l.
Definition Srt (l : list hit) := StronglySorted N.lt (docs l).
Definition lowc (c : N) (h : hit) : bool := chunk (fst h) <? c.

Definition synced (c : N) (al : list hit) : rdr loc :=
  let es := map snd (takeWhile (in_chunk c) al) in
  {| r_chunk := c; r_f := es; r_l := if inclLocs then locblocks loc es else [] |}.

(* ---------- arithmetic ---------- *)
Lemma chunk_mono a b : a <= b -> chunk a <= chunk b.
Proof. intros. unfold Iter.chunk. apply N.div_le_mono; lia. Qed.

Lemma chunk_between a n c : c * cs <= a -> a <= n -> chunk n = c -> chunk a = c.
Proof.
  unfold Iter.chunk. intros H1 H2 H3.
  assert (c <= a / cs) by (apply N.div_le_lower_bound; lia).
  assert (a / cs <= n / cs) by (apply N.div_le_mono; lia).
  lia.
Qed.

Lemma chunk_below a c : a < c * cs -> chunk a < c.
Proof. unfold Iter.chunk. intros. apply N.div_lt_upper_bound; lia. Qed.

(* ---------- sorted lists ---------- *)
Lemma Srt_cons_inv h l : Srt (h :: l) -> Srt l /\ forall x, In x l -> fst h < fst x.
Proof.
  unfold Srt, docs. cbn [map]. intros H. apply StronglySorted_inv in H as [H1 H2]. split; [exact H1|].
  intros x Hx. rewrite Forall_forall in H2. apply H2. now apply in_map.
Qed.

Lemma Srt_app_inv l1 l2 : Srt (l1 ++ l2) -> Srt l1 /\ Srt l2 /\ forall x y, In x l1 -> In y l2 -> fst x < fst y.
Proof.
  induction l1 as [|h l1 IH]; cbn [app]; intros H.
  - repeat split; [constructor | exact H | intros x y []].
  - apply Srt_cons_inv in H as [H1 H2]. destruct (IH H1) as (A & B & C).
    repeat split.
    + unfold Srt, docs. cbn [map]. constructor; [exact A|].
      rewrite Forall_forall. intros d Hd. apply in_map_iff in Hd as (x & <- & Hx).
      apply H2. apply in_or_app. now left.
    + exact B.
    + intros x y [<-|Hx] Hy; [apply H2, in_or_app; now right | now apply C].
Qed.

(* on a sorted list, the chunk-c elements at/after the first element of chunk >= c are a prefix *)
Lemma filter_chunk_sorted c l : Srt l ->
  filter (in_chunk c) l = takeWhile (in_chunk c) (dropWhile (lowc c) l).
Proof.
  induction l as [|h l IH]; intros Hs; [reflexivity|].
  apply Srt_cons_inv in Hs as [Hs Hlt].
  cbn [filter dropWhile]. unfold lowc at 1, Iter.in_chunk at 1.
  destruct (chunk (fst h) <? c) eqn:E1.
  - assert ((chunk (fst h) =? c) = false) as -> by lia. now apply IH.
  - destruct (chunk (fst h) =? c) eqn:E2.
    + cbn [takeWhile]. unfold Iter.in_chunk at 2. rewrite E2. f_equal.
      rewrite IH by exact Hs.
      (* nothing in l is lowc *)
      assert (Hd: dropWhile (lowc c) l = l).
      { destruct l as [|x l']; [reflexivity|]. cbn [dropWhile]. unfold lowc.
        assert (fst h < fst x) by (apply Hlt; now left).
        pose proof (chunk_mono (fst h) (fst x) ltac:(lia)).
        assert ((chunk (fst x) <? c) = false) as -> by lia. reflexivity. }
      now rewrite Hd.
    + cbn [takeWhile]. unfold Iter.in_chunk at 2. rewrite E2.
      (* all later elements have chunk > c *)
      assert (Hn: forall x, In x l -> in_chunk c x = false).
      { intros x Hx. unfold Iter.in_chunk. pose proof (Hlt x Hx).
        pose proof (chunk_mono (fst h) (fst x) ltac:(lia)). lia. }
      clear -Hn. induction l as [|x l IH2]; [reflexivity|].
      cbn [filter]. rewrite Hn by now left. apply IH2. intros y Hy. apply Hn. now right.
Qed.

Lemma filter_none {A} (f : A -> bool) l : (forall x, In x l -> f x = false) -> filter f l = [].
Proof.
  induction l as [|x l IH]; intros H; [reflexivity|]. cbn [filter]. rewrite H by now left.
  apply IH. intros y Hy. apply H. now right.
Qed.

(* loading a chunk none of whose hits has been consumed puts the reader in sync *)
Lemma load_synced c pre al : P = pre ++ al -> (forall h, In h pre -> chunk (fst h) <> c) ->
  load c = synced c (dropWhile (lowc c) al).
Proof.
  intros HPe Hpre. unfold Iter.load, synced.
  assert (HS: Srt P) by exact HP. rewrite HPe in HS. apply Srt_app_inv in HS as (_ & Hal & _).
  rewrite HPe, filter_app. rewrite (filter_none (in_chunk c) pre).
  2:{ intros x Hx. unfold Iter.in_chunk. specialize (Hpre x Hx). lia. }
  cbn [app]. rewrite filter_chunk_sorted by exact Hal. reflexivity.
Qed.


(* ---------- the reader stays in step ---------- *)
Definition Ready (c : N) (al : list hit) (rd : option (rdr loc)) : Prop :=
  ensure c rd = synced c (dropWhile (lowc c) al).

Lemma ensure_some_same c r : r_chunk loc r = c -> ensure c (Some r) = r.
Proof. intros H. unfold Iter.ensure. rewrite H, N.eqb_refl. reflexivity. Qed.

Lemma dropWhile_lowc_id c l : (forall x, hd_error l = Some x -> c <= chunk (fst x)) -> dropWhile (lowc c) l = l.
Proof.
  destruct l as [|x l]; [reflexivity|]. intros H. cbn [dropWhile]. unfold lowc.
  specialize (H x eq_refl). assert ((chunk (fst x) <? c) = false) as -> by lia. reflexivity.
Qed.

Lemma Ready_skip c h r rd : lowc c h = true -> Ready c (h :: r) rd -> Ready c r rd.
Proof. unfold Ready. cbn [dropWhile]. intros ->. trivial. Qed.

Lemma locblocks_cons e es :
  locblocks loc (e :: es) = if hasLocs loc e then e_locs loc e :: locblocks loc es else locblocks loc es.
Proof. unfold Iter.locblocks. cbn [filter]. destruct (hasLocs loc e); reflexivity. Qed.

Lemma ccn_step c h r rd : Srt (h :: r) -> in_chunk c h = true -> Ready c (h :: r) rd ->
  currChunkNext c rd = Some (synced c r) /\ Ready c r (Some (synced c r)).
Proof.
  intros Hs Hin HR. unfold Ready in HR. cbn [dropWhile] in HR.
  assert (Hl: lowc c h = false) by (unfold lowc, Iter.in_chunk in *; lia).
  rewrite Hl in HR.
  assert (E: currChunkNext c rd = Some (synced c r)).
  { unfold Iter.currChunkNext. rewrite HR. unfold synced. cbn [takeWhile]. rewrite Hin.
    cbn [map]. unfold Iter.pop_f. cbn [r_f r_chunk r_l].
    rewrite locblocks_cons.
    destruct inclLocs; cbn [andb].
    - destruct (hasLocs loc (snd h)); cbn [snd Iter.pop_l r_l r_f r_chunk]; reflexivity.
    - reflexivity. }
  split; [exact E|].
  unfold Ready. rewrite ensure_some_same by reflexivity.
  rewrite dropWhile_lowc_id; [reflexivity|].
  intros x Hx. apply Srt_cons_inv in Hs as [_ Hlt].
  destruct r as [|y r']; [discriminate|]. injection Hx as <-.
  assert (fst h < fst y) by (apply Hlt; now left).
  pose proof (chunk_mono (fst h) (fst y) ltac:(lia)). unfold Iter.in_chunk in Hin. lia.
Qed.

(* the loop of the filtered path *)
Lemma sync_all_spec n nChunk : chunk n = nChunk ->
  forall al rd, Srt al -> In n (docs al) -> (inclFN = true -> Ready nChunk al rd) ->
  exists skipped e al' rd',
    al = skipped ++ (n, e) :: al' /\
    sync_all loc P cs inclFN inclLocs n nChunk al rd = Some (al', rd') /\
    (inclFN = true -> ensure nChunk rd' = synced nChunk ((n, e) :: al')) /\
    (inclFN = false -> rd' = rd).
Proof.
  intros Hn. induction al as [|h r IH]; intros rd Hs Hin HR; [destruct Hin|].
  cbn [Iter.sync_all]. destruct (fst h =? n) eqn:E.
  - exists [], (snd h), r, rd. assert (fst h = n) by lia. subst n.
    split; [destruct h; reflexivity|]. split; [reflexivity|]. split; [|trivial].
    intros HF. specialize (HR HF). unfold Ready in HR. rewrite HR.
    rewrite dropWhile_lowc_id; [destruct h; reflexivity|].
    intros x Hx. injection Hx as <-. lia.
  - assert (Hr: In n (docs r)).
    { cbn [docs map] in Hin. destruct Hin as [H|H]; [lia|exact H]. }
    pose proof (Srt_cons_inv _ _ Hs) as [Hs' Hlt].
    assert (Hhn: fst h < n).
    { unfold docs in Hr. apply in_map_iff in Hr as (x & <- & Hx). now apply Hlt. }
    set (rd1 := if inclFN && (nChunk * cs <=? fst h) then currChunkNext nChunk rd else rd).
    assert (HR1: inclFN = true -> Ready nChunk r rd1).
    { intros HF. specialize (HR HF). subst rd1. rewrite HF. cbn [andb].
      destruct (nChunk * cs <=? fst h) eqn:E2.
      - assert (chunk (fst h) = nChunk) by (eapply chunk_between; [|apply N.lt_le_incl; exact Hhn|exact Hn]; lia).
        destruct (ccn_step nChunk h r rd Hs) as [-> HR2]; [unfold Iter.in_chunk; lia|exact HR|exact HR2].
      - apply (Ready_skip nChunk h r rd); [|exact HR]. unfold lowc.
        assert (chunk (fst h) < nChunk) by (apply chunk_below; lia). lia. }
    destruct (IH rd1 Hs' Hr HR1) as (sk & e & al' & rd' & -> & Hsync & H1 & H2).
    exists (h :: sk), e, al', rd'. split; [reflexivity|]. split; [exact Hsync|]. split; [exact H1|].
    intros HF. rewrite (H2 HF). subst rd1. rewrite HF. reflexivity.
Qed.


(* ---------- clean path ---------- *)
Notation currNext := (currChunkNext).

Lemma iter_ccn c : forall blk rest rd,
  Srt (blk ++ rest) -> (forall x, In x blk -> in_chunk c x = true) ->
  ensure c rd = synced c (blk ++ rest) ->
  (forall x, hd_error rest = Some x -> c <= chunk (fst x)) ->
  ensure c (iterN (length blk) (currChunkNext c) rd) = synced c rest.
Proof.
  induction blk as [|h blk IH]; intros rest rd Hs Hin HE Hrest; cbn [length iterN app] in *.
  - exact HE.
  - assert (HR: Ready c (h :: blk ++ rest) rd).
    { unfold Ready. rewrite HE. f_equal. symmetry. apply dropWhile_lowc_id.
      intros x Hx. injection Hx as <-. specialize (Hin h (or_introl eq_refl)).
      unfold Iter.in_chunk in Hin. lia. }
    destruct (ccn_step c h (blk ++ rest) rd Hs (Hin h (or_introl eq_refl)) HR) as [E _].
    rewrite E. apply IH.
    + apply Srt_cons_inv in Hs. tauto.
    + intros x Hx. apply Hin. now right.
    + now rewrite ensure_some_same.
    + exact Hrest.
Qed.

Lemma dropWhile_app_all {A} (f : A -> bool) l1 l2 :
  (forall x, In x l1 -> f x = true) -> dropWhile f (l1 ++ l2) = dropWhile f l2.
Proof.
  induction l1 as [|x l1 IH]; intros H; [reflexivity|]. cbn [app dropWhile].
  rewrite H by now left. apply IH. intros y Hy. apply H. now right.
Qed.

Lemma clean_scan_gen target : forall r n e same blk sk,
  Srt (sk ++ blk ++ (n, e) :: r) -> length blk = same ->
  (forall x, In x blk -> chunk (fst x) = chunk n) ->
  (forall x, In x sk -> chunk (fst x) < chunk n) ->
  (forall x, In x (sk ++ blk) -> fst x < target) ->
  exists sk' blk' n' e' al',
    clean_scan loc cs target n (chunk n) same r = (n', chunk n', length blk', al') /\
    sk ++ blk ++ (n, e) :: r = sk' ++ blk' ++ (n', e') :: al' /\
    (forall x, In x blk' -> chunk (fst x) = chunk n') /\
    (forall x, In x sk' -> chunk (fst x) < chunk n') /\
    (forall x, In x (sk' ++ blk') -> fst x < target) /\
    ((n' <? target) = true -> al' = []).
Proof.
  induction r as [|h r IH]; intros n e same blk sk Hs Hlen Hblk Hsk Hlt.
  - cbn [Iter.clean_scan]. exists sk, blk, n, e, []. subst same. repeat split; auto.
  - cbn [Iter.clean_scan]. destruct (n <? target) eqn:E.
    + (* consume h *)
      assert (Hnh: n < fst h).
      { rewrite app_assoc in Hs. apply Srt_app_inv in Hs as (_ & Hs2 & _).
        apply Srt_cons_inv in Hs2 as [_ H2]. apply (H2 h). now left. }
      pose proof (chunk_mono n (fst h) ltac:(lia)) as Hc.
      destruct (chunk (fst h) =? chunk n) eqn:E2.
      * (* same chunk: blk grows *)
        assert (Hce: chunk (fst h) = chunk n) by lia.
        destruct (IH (fst h) (snd h) (S same) (blk ++ [(n, e)]) sk)
          as (sk' & blk' & n' & e' & al' & H1 & H2 & H3 & H4 & H5 & H6).
        -- destruct h as [hd he]. cbn [fst snd]. rewrite <- app_assoc. cbn [app]. exact Hs.
        -- rewrite app_length. cbn [length]. lia.
        -- intros x Hx. apply in_app_or in Hx as [Hx|[<-|[]]]; [rewrite Hblk by exact Hx; lia | cbn [fst]; lia].
        -- intros x Hx. rewrite Hce. now apply Hsk.
        -- intros x Hx. rewrite app_assoc in Hx. apply in_app_or in Hx as [Hx|[<-|[]]]; [now apply Hlt | cbn [fst]; lia].
        -- exists sk', blk', n', e', al'.
           split; [exact H1|]. split; [|tauto].
           rewrite <- H2. destruct h as [hd he]. cbn [fst snd]. rewrite <- app_assoc. reflexivity.
      * (* new chunk: blk resets *)
        destruct (IH (fst h) (snd h) O [] (sk ++ blk ++ [(n, e)]))
          as (sk' & blk' & n' & e' & al' & H1 & H2 & H3 & H4 & H5 & H6).
        -- destruct h as [hd he]. cbn [fst snd app]. rewrite <- !app_assoc. cbn [app]. exact Hs.
        -- reflexivity.
        -- intros x [].
        -- intros x Hx. apply in_app_or in Hx as [Hx|Hx]; [specialize (Hsk x Hx); lia|].
           apply in_app_or in Hx as [Hx|[<-|[]]]; [rewrite Hblk by exact Hx; lia | cbn [fst]; lia].
        -- intros x Hx. rewrite app_nil_r in Hx. rewrite app_assoc in Hx.
           apply in_app_or in Hx as [Hx|[<-|[]]]; [now apply Hlt | cbn [fst]; lia].
        -- exists sk', blk', n', e', al'.
           split; [exact H1|]. split; [|tauto].
           rewrite <- H2. destruct h as [hd he]. cbn [fst snd app]. rewrite <- !app_assoc. reflexivity.
    + exists sk, blk, n, e, (h :: r). subst same. repeat split; auto. intros; congruence.
Qed.

(* ---------- reading the entry of the hit just found ---------- *)
Lemma hasLocs_nil e : hasLocs loc e = false -> e_locs loc e = [].
Proof. unfold Iter.hasLocs. destruct (e_locs loc e); [reflexivity|discriminate]. Qed.

Lemma pop_synced c n e al' : chunk n = c ->
  let r0 := synced c ((n, e) :: al') in
  let '(e0, r1) := pop_f loc r0 in
  e0 = e /\
  (if inclLocs && hasLocs loc e
   then pop_l loc r1 = (e_locs loc e, synced c al')
   else r1 = synced c al').
Proof.
  intros Hc.
  assert (Hin: in_chunk c (n, e) = true) by (unfold Iter.in_chunk; cbn [fst]; rewrite Hc; apply N.eqb_refl).
  unfold synced. cbn [takeWhile]. rewrite !Hin. cbn [map snd]. unfold Iter.pop_f. cbn [r_f r_chunk r_l].
  split; [reflexivity|]. rewrite locblocks_cons.
  destruct inclLocs; cbn [andb]; [|reflexivity].
  destruct (hasLocs loc e); [reflexivity|reflexivity].
Qed.

(* at an operation boundary the reader sits on the chunk of the last returned hit *)
Lemma boundary_ready c0 pre' al' : P = pre' ++ al' ->
  (forall x, In x pre' -> chunk (fst x) <= c0) ->
  (forall x, In x al' -> c0 <= chunk (fst x)) ->
  forall c, (exists h, In h al' /\ chunk (fst h) = c) -> Ready c al' (Some (synced c0 al')).
Proof.
  intros HPe Hpre Hal c (h & Hh & Hc). unfold Ready.
  destruct (N.eq_dec c c0) as [->|Hne].
  - rewrite ensure_some_same by reflexivity. f_equal. symmetry. apply dropWhile_lowc_id.
    intros x Hx. apply Hal. destruct al'; [discriminate|]. injection Hx as <-. now left.
  - unfold Iter.ensure. cbn [r_chunk synced].
    assert ((c0 =? c) = false) as -> by lia.
    apply (load_synced c pre' al' HPe). intros x Hx. specialize (Hpre x Hx). specialize (Hal h Hh). lia.
Qed.

(* ---------- clean path: one call ---------- *)
Definition InvC (s : st loc) : Prop :=
  shared loc s = true /\
  exists pre, P = pre ++ allr loc s /\
   (inclFN = true -> forall c, (exists h, In h (allr loc s) /\ chunk (fst h) = c) ->
                     Ready c (allr loc s) (rd loc s)) /\
   (inclFN = false -> rd loc s = None).

Notation nextAOA := (nextAtOrAfter loc P cs inclFN inclLocs).
Notation sstep := (spec_step loc inclFN inclLocs).

Lemma dropWhile_lt_split (t : N) (l1 : list hit) x l2 :
  (forall y, In y l1 -> fst y < t) -> (fst x <? t) = false ->
  dropWhile (fun h : hit => fst h <? t) (l1 ++ x :: l2) = x :: l2.
Proof.
  intros H1 H2. rewrite dropWhile_app_all.
  - cbn [dropWhile]. now rewrite H2.
  - intros y Hy. specialize (H1 y Hy). lia.
Qed.

Lemma dropWhile_lt_all (t : N) (l : list hit) :
  (forall y, In y l -> fst y < t) -> dropWhile (fun h : hit => fst h <? t) l = [].
Proof.
  intros H. rewrite <- (app_nil_r l). rewrite dropWhile_app_all; [reflexivity|].
  intros y Hy. specialize (H y Hy). lia.
Qed.

Lemma clean_step s t : InvC s ->
  let '(s', o) := nextAOA s t in
  let '(l', o') := sstep (allr loc s) t in
  o = o' /\ allr loc s' = l' /\ InvC s'.
Proof.
  intros (Hsh & pre & HPe & HR & HN).
  unfold Iter.nextAtOrAfter, Iter.nextDocNum. rewrite Hsh. unfold Iter.next_clean, Iter.spec_step.
  destruct inclFN eqn:EF; cbn [negb].
  2:{ (* no freq/norm requested: plain advance *)
    destruct (dropWhile (fun h => fst h <? t) (allr loc s)) as [|h r] eqn:ED.
    - split; [reflexivity|]. split; [reflexivity|]. split; [reflexivity|].
      exists P. rewrite app_nil_r. split; [reflexivity|]. split; [intros; congruence|]. intros _. now apply HN.
    - split; [unfold Iter.view; reflexivity|]. split; [reflexivity|]. split; [reflexivity|].
      cbn [allr rd].
      assert (exists a, allr loc s = a ++ h :: r) as (a & Ha).
      { clear -ED. revert ED. induction (allr loc s) as [|x l IH]; cbn [dropWhile]; [discriminate|].
        destruct (fst x <? t); intros H.
        - destruct (IH H) as (a & ->). now exists (x :: a).
        - injection H as -> ->. now exists []. }
      exists (pre ++ a ++ [h]). split; [rewrite HPe, Ha, <- !app_assoc; reflexivity|].
      split; [intros; congruence|]. intros _. now apply HN. }
  (* freq/norm requested *)
  destruct (allr loc s) as [|h r] eqn:EA.
  - cbn [dropWhile]. split; [reflexivity|]. split; [exact EA|].
    split; [exact Hsh|]. exists pre. rewrite EA. split; [exact HPe|]. split; [|intros; congruence].
    intros _ c (x & [] & _).
  - assert (HsP: Srt P) by exact HP.
    assert (Hs: Srt (h :: r)). { rewrite HPe in HsP. apply Srt_app_inv in HsP. tauto. }
    destruct (clean_scan_gen t r (fst h) (snd h) O [] [])
      as (sk' & blk' & n' & e' & al' & H1 & H2 & H3 & H4 & H5 & H6).
    { cbn [app]. destruct h; exact Hs. } { reflexivity. } { intros x []. } { intros x []. } { intros x []. }
    rewrite H1. cbn [app] in H2.
    assert (Hal2: h :: r = sk' ++ blk' ++ (n', e') :: al') by (destruct h; exact H2).
    assert (Hal: h :: r = (sk' ++ blk') ++ (n', e') :: al') by (rewrite <- app_assoc; exact Hal2).
    destruct (n' <? t) eqn:En.
    + (* not found *)
      rewrite (H6 eq_refl) in *. rewrite Hal.
      rewrite dropWhile_lt_all.
      2:{ intros y Hy. apply in_app_or in Hy as [Hy|[<-|[]]]; [now apply H5 | cbn [fst]; lia]. }
      split; [reflexivity|]. split; [reflexivity|]. split; [reflexivity|].
      exists P. cbn [allr]. rewrite app_nil_r. split; [reflexivity|]. split; [|intros; congruence].
      intros _ c (x & [] & _).
    + (* found n' *)
      rewrite Hal. rewrite dropWhile_lt_split; [|exact H5|exact En].
      set (nC := chunk n').
      (* the reader before the skips is Ready for nC *)
      assert (HR0: Ready nC (h :: r) (rd loc s)).
      { apply (HR eq_refl). exists (n', e'). split; [rewrite Hal; apply in_or_app; right; now left|reflexivity]. }
      assert (Hdw: dropWhile (lowc nC) (h :: r) = blk' ++ (n', e') :: al').
      { rewrite Hal2. rewrite dropWhile_app_all.
        - apply dropWhile_lowc_id. intros x Hx. destruct blk' as [|b blk''].
          + cbn [app] in Hx. injection Hx as <-. cbn [fst]. subst nC. lia.
          + cbn [app] in Hx. injection Hx as <-. rewrite (H3 b (or_introl eq_refl)). subst nC. lia.
        - intros x Hx. unfold lowc. specialize (H4 x Hx). subst nC. lia. }
      assert (Hs2: Srt (blk' ++ (n', e') :: al')).
      { rewrite Hal2 in Hs. apply Srt_app_inv in Hs. tauto. }
      assert (HE: ensure nC (iterN (length blk') (currChunkNext nC) (rd loc s)) = synced nC ((n', e') :: al')).
      { apply iter_ccn.
        - exact Hs2.
        - intros x Hx. unfold Iter.in_chunk. rewrite (H3 x Hx). subst nC. apply N.eqb_refl.
        - unfold Ready in HR0. rewrite HR0, Hdw. reflexivity.
        - intros x Hx. injection Hx as <-. cbn [fst]. subst nC. lia. }
      cbn [rd]. rewrite HE.
      pose proof (pop_synced nC n' e' al' eq_refl) as Hpop. cbn zeta in Hpop.
      destruct (pop_f loc (synced nC ((n', e') :: al'))) as [e0 r1]. destruct Hpop as [-> Hpop].
      assert (HI: forall rfin, rfin = synced nC al' ->
                InvC {| allr := al'; actr := []; shared := true; rd := Some rfin |}).
      { intros rfin ->. split; [reflexivity|]. exists (pre ++ sk' ++ blk' ++ [(n', e')]). cbn [allr rd].
        split.
        { rewrite HPe, Hal2. rewrite <- !app_assoc. reflexivity. }
        split; [|intros; congruence]. intros _.
        apply (boundary_ready nC (pre ++ sk' ++ blk' ++ [(n', e')]) al').
        - rewrite HPe, Hal2. rewrite <- !app_assoc. reflexivity.
        - intros x Hx.
          (* every consumed hit precedes or equals n' *)
          assert (Hle: fst x <= n').
          { rewrite HPe in HsP. rewrite Hal2 in HsP.
            apply in_app_or in Hx as [Hx|Hx].
            - apply Srt_app_inv in HsP as (_ & _ & Hc). apply N.lt_le_incl. apply (Hc x (n', e') Hx).
              apply in_or_app; right. apply in_or_app; right. now left.
            - apply Srt_app_inv in HsP as (_ & HsP & _).
              apply in_app_or in Hx as [Hx|Hx].
              + apply Srt_app_inv in HsP as (_ & _ & Hc). apply N.lt_le_incl. apply (Hc x (n', e') Hx).
                apply in_or_app; right. now left.
              + apply Srt_app_inv in HsP as (_ & HsP & _).
                apply in_app_or in Hx as [Hx|[<-|[]]]; [|cbn [fst]; lia].
                apply Srt_app_inv in HsP as (_ & _ & Hc). apply N.lt_le_incl. apply (Hc x (n', e') Hx). now left. }
          subst nC. now apply chunk_mono.
        - intros x Hx. apply Srt_app_inv in Hs2 as (_ & Hs3 & _). apply Srt_cons_inv in Hs3 as [_ Hgt].
          specialize (Hgt x Hx). cbn [fst] in Hgt. subst nC. apply chunk_mono. lia. }
      unfold Iter.view. cbn [negb fst snd].
      destruct (inclLocs && hasLocs loc e') eqn:EL.
      * rewrite Hpop. split.
        { destruct inclLocs; [reflexivity|discriminate]. }
        split; [reflexivity|]. now apply HI.
      * split.
        { destruct inclLocs; [|reflexivity]. cbn [andb] in EL. now rewrite (hasLocs_nil _ EL). }
        split; [reflexivity|]. now apply HI.
Qed.

Notation run_i := (run_impl loc P cs inclFN inclLocs).
Notation run_s := (run_spec loc inclFN inclLocs).

Theorem clean_refines : forall ops s, InvC s -> run_i s ops = run_s (allr loc s) ops.
Proof.
  induction ops as [|t ops IH]; intros s HI; [reflexivity|].
  cbn [Iter.run_impl Iter.run_spec].
  pose proof (clean_step s t HI) as H.
  destruct (nextAOA s t) as [s' o]. destruct (sstep (allr loc s) t) as [l' o'].
  destruct H as (-> & <- & HI'). f_equal. now apply IH.
Qed.

Lemma InvC_init : InvC (init_clean loc P).
Proof.
  split; [reflexivity|]. exists []. cbn [app init_clean allr rd]. split; [reflexivity|]. split; [|reflexivity].
  intros _ c _. unfold Ready, Iter.ensure. apply (load_synced c [] P eq_refl). intros h [].
Qed.

(* C07, clean path (no exclusion): every Next/Advance sequence returns exactly the hits of P at or
   after each target, in order, each with its own freq / norm / locations, then nil *)
Theorem C07_clean : forall ops, run_i (init_clean loc P) ops = run_s P ops.
Proof. intros. apply (clean_refines ops _ InvC_init). Qed.

(* ---------- filtered path (exclusion bitmap) ---------- *)
Variable E : N -> bool.
Definition liveb (h : hit) : bool := negb (E (fst h)).

Lemma dropWhile_map (t : N) (l : list hit) :
  dropWhile (fun d => d <? t) (docs l) = docs (dropWhile (fun h : hit => fst h <? t) l).
Proof.
  induction l as [|x l IH]; [reflexivity|]. cbn [docs map dropWhile].
  destruct (fst x <? t); [exact IH|reflexivity].
Qed.

Lemma dropWhile_decomp {A} (f : A -> bool) l x R : dropWhile f l = x :: R ->
  exists B, l = B ++ x :: R /\ (forall y, In y B -> f y = true) /\ f x = false.
Proof.
  induction l as [|a l IH]; cbn [dropWhile]; [discriminate|].
  destruct (f a) eqn:Ea; intros H.
  - destruct (IH H) as (B & -> & HB & Hx). exists (a :: B). repeat split; auto.
    intros y [<-|Hy]; auto.
  - injection H as -> ->. exists []. repeat split; auto; try (intros y []).
Qed.

Lemma Srt_filter f l : Srt l -> Srt (filter f l).
Proof.
  induction l as [|x l IH]; intros Hs; [exact Hs|].
  apply Srt_cons_inv in Hs as [Hs Hlt]. cbn [filter]. destruct (f x); [|now apply IH].
  unfold Srt, docs. cbn [map]. constructor; [now apply IH|].
  rewrite Forall_forall. intros d Hd. apply in_map_iff in Hd as (y & <- & Hy).
  apply filter_In in Hy as [Hy _]. now apply Hlt.
Qed.

Lemma split_unique : forall (A F : list hit) x y R G,
  Srt (A ++ x :: R) -> A ++ x :: R = F ++ y :: G -> fst x = fst y -> A = F /\ x = y /\ R = G.
Proof.
  induction A as [|a A IH]; intros F x y R G Hs Heq Hxy.
  - destruct F as [|f F]; cbn [app] in *.
    + injection Heq as -> ->. auto.
    + injection Heq as -> ->. apply Srt_cons_inv in Hs as [_ Hlt].
      specialize (Hlt y ltac:(apply in_or_app; right; now left)). lia.
  - destruct F as [|f F]; cbn [app] in *.
    + injection Heq as -> <-. apply Srt_cons_inv in Hs as [_ Hlt].
      specialize (Hlt x ltac:(apply in_or_app; right; now left)). lia.
    + injection Heq as -> Heq. apply Srt_cons_inv in Hs as [Hs _].
      destruct (IH F x y R G Hs Heq Hxy) as (-> & -> & ->). auto.
Qed.

Lemma sstep_nil l t : dropWhile (fun h : hit => fst h <? t) l = [] -> sstep l t = ([], None).
Proof.
  intros H. unfold Iter.spec_step.
  change (dropWhile (fun h => fst h <? t) l) with (dropWhile (fun h : hit => fst h <? t) l).
  now rewrite H.
Qed.

Lemma sstep_cons l t x R : dropWhile (fun h : hit => fst h <? t) l = x :: R ->
  sstep l t = (R, Some (view loc inclFN inclLocs x)).
Proof.
  intros H. unfold Iter.spec_step.
  change (dropWhile (fun h => fst h <? t) l) with (dropWhile (fun h : hit => fst h <? t) l).
  now rewrite H.
Qed.

Definition InvF (s : st loc) (l : list hit) : Prop :=
  shared loc s = false /\
  exists pre, P = pre ++ allr loc s /\
   ((actr loc s = [] /\ l = []) \/ (l = filter liveb (allr loc s) /\ actr loc s = docs l)) /\
   (inclFN = true -> forall c, (exists h, In h (allr loc s) /\ chunk (fst h) = c) ->
                     Ready c (allr loc s) (rd loc s)) /\
   (inclFN = false -> rd loc s = None).

Lemma filtered_step s l t : InvF s l ->
  let '(s', o) := nextAOA s t in
  let '(l', o') := sstep l t in
  o = o' /\ InvF s' l'.
Proof.
  intros (Hsh & pre & HPe & Hrel & HR & HN).
  assert (HsP: Srt P) by exact HP.
  assert (Hs: Srt (allr loc s)). { rewrite HPe in HsP. apply Srt_app_inv in HsP. tauto. }
  unfold Iter.nextAtOrAfter, Iter.nextDocNum. rewrite Hsh. unfold Iter.next_filtered.
  destruct Hrel as [[Ha ->]|[-> Ha]].
  - (* exhausted *)
    rewrite Ha. rewrite (sstep_nil [] t eq_refl). cbn [dropWhile]. split; [reflexivity|]. split; [reflexivity|].
    exists pre. cbn [allr actr rd]. split; [exact HPe|]. split; [left; auto|]. split; assumption.
  - rewrite Ha, dropWhile_map.
    destruct (dropWhile (fun h : hit => fst h <? t) (filter liveb (allr loc s))) as [|x R] eqn:ED.
    + (* nothing at or after t *)
      rewrite (sstep_nil _ t ED).
      cbn [docs map]. split; [reflexivity|]. split; [reflexivity|].
      exists pre. cbn [allr actr rd]. split; [exact HPe|]. split; [left; auto|]. split; assumption.
    + rewrite (sstep_cons _ t x R ED). cbn [docs map].
      destruct (dropWhile_decomp _ _ _ _ ED) as (B & HB & HBlt & Hxt).
      assert (Hxin: In x (allr loc s)).
      { assert (In x (filter liveb (allr loc s))) by (rewrite HB; apply in_or_app; right; now left).
        apply filter_In in H. tauto. }
      assert (Hxlive: liveb x = true).
      { assert (In x (filter liveb (allr loc s))) by (rewrite HB; apply in_or_app; right; now left).
        apply filter_In in H. tauto. }
      destruct (allr loc s) as [|a0 al0] eqn:EA; [destruct Hxin|]. rewrite <- EA in *.
      set (n := fst x). set (nC := chunk n).
      destruct (sync_all_spec n nC eq_refl (allr loc s) (rd loc s) Hs)
        as (sk & e & al' & rd' & Hal & Hsync & Hens & Hsame).
      { unfold docs. apply in_map. exact Hxin. }
      { intros HF. apply (HR HF). exists x. auto. }
      rewrite EA in Hsync. rewrite <- EA in Hsync. rewrite EA. rewrite <- EA. rewrite Hsync.
      (* the entry found in `all` is x itself *)
      assert (Hx: x = (n, e)).
      { rewrite Hal in Hxin, Hs. apply in_app_or in Hxin as [Hi|[Hi|Hi]].
        - apply Srt_app_inv in Hs as (_ & _ & Hc). specialize (Hc x (n, e) Hi (or_introl eq_refl)).
          cbn [fst] in Hc. subst n. lia.
        - now symmetry.
        - apply Srt_app_inv in Hs as (_ & Hs2 & _). apply Srt_cons_inv in Hs2 as [_ Hc].
          specialize (Hc x Hi). cbn [fst] in Hc. subst n. lia. }
      (* the live suffix after n *)
      assert (HRG: R = filter liveb al').
      { assert (Hf: filter liveb (allr loc s) = filter liveb sk ++ (n, e) :: filter liveb al').
        { rewrite Hal, filter_app. cbn [filter]. rewrite <- Hx, Hxlive. reflexivity. }
        rewrite Hf in HB.
        assert (HsF: Srt (B ++ x :: R)). { rewrite <- HB, <- Hf. now apply Srt_filter. }
        symmetry in HB.
        destruct (split_unique B (filter liveb sk) x (n, e) R (filter liveb al') HsF HB) as (_ & _ & HG);
          [rewrite Hx; reflexivity|exact HG]. }
      assert (HI: forall rfin, (inclFN = true -> rfin = Some (synced nC al')) -> (inclFN = false -> rfin = None) ->
                InvF {| allr := al'; actr := map fst R; shared := false; rd := rfin |} R).
      { intros rfin Hr1 Hr2. split; [reflexivity|]. exists (pre ++ sk ++ [(n, e)]). cbn [allr actr rd].
        split; [rewrite HPe, Hal, <- !app_assoc; reflexivity|].
        split; [right; split; [exact HRG|reflexivity]|].
        split; [|exact Hr2]. intros HF. rewrite (Hr1 HF).
        apply (boundary_ready nC (pre ++ sk ++ [(n, e)]) al').
        - rewrite HPe, Hal, <- !app_assoc. reflexivity.
        - intros y Hy. assert (fst y <= n).
          { rewrite HPe, Hal in HsP. apply in_app_or in Hy as [Hy|Hy].
            - apply Srt_app_inv in HsP as (_ & _ & Hc). apply N.lt_le_incl. apply (Hc y (n, e) Hy).
              apply in_or_app; right. now left.
            - apply Srt_app_inv in HsP as (_ & HsP & _).
              apply in_app_or in Hy as [Hy|[<-|[]]]; [|cbn [fst]; lia].
              apply Srt_app_inv in HsP as (_ & _ & Hc). apply N.lt_le_incl. apply (Hc y (n, e) Hy). now left. }
          subst nC. now apply chunk_mono.
        - intros y Hy. rewrite Hal in Hs. apply Srt_app_inv in Hs as (_ & Hs2 & _).
          apply Srt_cons_inv in Hs2 as [_ Hgt]. specialize (Hgt y Hy). cbn [fst] in Hgt.
          subst nC. apply chunk_mono. lia. }
      unfold Iter.finish_load. unfold Iter.view.
      destruct inclFN eqn:EF; cbn [negb rd].
      * rewrite (Hens eq_refl).
        pose proof (pop_synced nC n e al' eq_refl) as Hpop. cbn zeta in Hpop.
        destruct (pop_f loc (synced nC ((n, e) :: al'))) as [e0 r1]. destruct Hpop as [-> Hpop].
        rewrite Hx. cbn [fst snd].
        destruct (inclLocs && hasLocs loc e) eqn:EL.
        -- rewrite Hpop. split.
           { destruct inclLocs; [reflexivity|discriminate]. }
           apply HI; [reflexivity|intros; congruence].
        -- split.
           { destruct inclLocs; [|reflexivity]. cbn [andb] in EL. now rewrite (hasLocs_nil _ EL). }
           apply HI; [intros; now subst r1|intros; congruence].
      * split; [reflexivity|].
        apply HI; [intros; congruence|]. intros _. rewrite (Hsame eq_refl). now apply HN.
Qed.

Theorem filtered_refines : forall ops s l, InvF s l -> run_i s ops = run_s l ops.
Proof.
  induction ops as [|t ops IH]; intros s l HI; [reflexivity|].
  cbn [Iter.run_impl Iter.run_spec].
  pose proof (filtered_step s l t HI) as H.
  destruct (nextAOA s t) as [s' o]. destruct (sstep l t) as [l' o'].
  destruct H as (-> & HI'). f_equal. now apply IH.
Qed.

Lemma InvF_init : InvF (init_filtered loc P E) (live loc P E).
Proof.
  split; [reflexivity|]. exists []. cbn [app init_filtered allr actr rd]. split; [reflexivity|].
  split; [right; split; reflexivity|]. split; [|reflexivity].
  intros _ c _. unfold Ready, Iter.ensure. apply (load_synced c [] P eq_refl). intros h [].
Qed.

(* C07, filtered path: with any exclusion set, every Next/Advance sequence returns exactly the
   non-excluded hits at or after each target, each with its own freq / norm / locations *)
Theorem C07_filtered : forall ops, run_i (init_filtered loc P E) ops = run_s (live loc P E) ops.
Proof. intros. apply (filtered_refines ops _ _ InvF_init). Qed.

End Proof.

Print Assumptions C07_clean.
Print Assumptions C07_filtered.
