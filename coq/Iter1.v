(* C07, single-hit postings lists (posting.go: the docNum1Hit / normBits1Hit branch of iterator(),
   nextDocNumAtOrAfter and readFreqNormHasLocs).  State: the pending document, or finished. *)
From Coq Require Import List NArith Bool.
Import ListNotations.
Require Import Iter.
Open Scope N_scope.

Section OneHit.
Variable loc : Type.
Variable doc norm : N.
Variable inclFN inclLocs : bool.

(* iterator(): an excluded single hit starts out finished *)
Definition init1 (E : N -> bool) : option N := if E doc then None else Some doc.

(* nextDocNumAtOrAfter + nextAtOrAfter, single-hit branch: the hit is consumed by the first call *)
Definition next1 (s : option N) (target : N) : option N * out loc :=
  match s with
  | None => (None, None)
  | Some d => if d <? target then (None, None)
              else (None, Some (if inclFN then (d, 1, norm, []) else (d, 0, 0, [])))
  end.

Fixpoint run1 (s : option N) (ops : list N) : list (out loc) :=
  match ops with
  | [] => []
  | t :: r => let '(s', o) := next1 s t in o :: run1 s' r
  end.

(* the one-element postings list it stands for *)
Definition P1 : list (hit loc) := [(doc, {| e_freq := 1; e_norm := norm; e_locs := [] |})].

Lemma run1_finished ops : run1 None ops = run_spec loc inclFN inclLocs [] ops.
Proof. induction ops as [|t r IH]; cbn; [reflexivity|]. now rewrite IH. Qed.

Theorem C07_single_hit : forall (E : N -> bool) ops,
  run1 (init1 E) ops = run_spec loc inclFN inclLocs (live loc P1 E) ops.
Proof.
  intros E ops. unfold init1, live, P1. cbn [filter fst].
  destruct (E doc); cbn [negb]; [apply run1_finished|].
  destruct ops as [|t r]; [reflexivity|].
  cbn [run1 next1 run_spec]. unfold spec_step. cbn [dropWhile fst].
  destruct (doc <? t) eqn:Hlt.
  - cbn [dropWhile]. f_equal. apply run1_finished.
  - f_equal; [|apply run1_finished].
    unfold view. cbn [snd fst e_freq e_norm e_locs].
    destruct inclFN; cbn [negb]; [|reflexivity].
    cbn. destruct inclLocs; reflexivity.
Qed.
End OneHit.
Print Assumptions C07_single_hit.
