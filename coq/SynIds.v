(* SPIKE (round 0): C12/C13 - synonym id assignment (synonymIndexOpaque.realloc; mergeAndPersistSynonymSection's
   termSynMap/synTermMap): ids are handed out in first-seen order, the forward map (term -> id) is used when
   encoding, the backward table (id -> term) is what the reader gets. *)
From Coq Require Import List Arith Lia Bool PeanoNat.
Import ListNotations.

Lemma NoDup_snoc {A} (l : list A) x : NoDup l -> ~ In x l -> NoDup (l ++ [x]).
Proof.
  induction l as [|y l IH]; intros Hn Hx; cbn; [constructor; [tauto|constructor]|].
  inversion Hn; subst. constructor.
  - intros Hi. apply in_app_or in Hi as [Hi|[<-|[]]]; [contradiction|]. apply Hx. now left.
  - apply IH; [assumption|]. intros Hi. apply Hx. now right.
Qed.

Section Ids.
Variable syn : Type.
Variable eqb : syn -> syn -> bool.
Hypothesis eqb_spec : forall a b, reflect (a = b) (eqb a b).

Definition fwd_t := list (syn * nat).      (* termSynMap *)

Fixpoint lookup (m : fwd_t) (s : syn) : option nat :=
  match m with [] => None | (s', i) :: r => if eqb s' s then Some i else lookup r s end.

(* one step of the assignment loop: `if _, exists := termSynMap[syn]; !exists { ... sidNext++ }` *)
Definition assign1 (st : fwd_t * nat) (s : syn) : fwd_t * nat :=
  let '(m, next) := st in
  match lookup m s with Some _ => (m, next) | None => (m ++ [(s, next)], S next) end.

Definition assign (seen : list syn) (st : fwd_t * nat) : fwd_t * nat := fold_left assign1 seen st.

(* the backward table written to disk (synTermMap) *)
Definition back (m : fwd_t) (i : nat) : option syn :=
  option_map fst (find (fun p => Nat.eqb (snd p) i) m).

Definition WF (st : fwd_t * nat) : Prop :=
  let '(m, next) := st in
  (forall s i, In (s, i) m -> i < next) /\ NoDup (map snd m) /\ NoDup (map fst m).

Lemma lookup_in m s i : lookup m s = Some i -> In (s, i) m.
Proof.
  induction m as [|[s' j] m IH]; cbn; [discriminate|]. destruct (eqb_spec s' s) as [->|].
  - intros H; injection H as ->. now left.
  - intros H. right. now apply IH.
Qed.
Lemma lookup_none m s : lookup m s = None -> ~ In s (map fst m).
Proof.
  induction m as [|[s' j] m IH]; cbn; [tauto|]. destruct (eqb_spec s' s) as [->|Hne]; [discriminate|].
  intros H [He|Hi]; [contradiction|]. now apply IH.
Qed.
Lemma lookup_app_l m m' s i : lookup m s = Some i -> lookup (m ++ m') s = Some i.
Proof. induction m as [|[s' j] m IH]; cbn; [discriminate|]. destruct (eqb s' s); auto. Qed.

Lemma assign1_wf st s : WF st -> WF (assign1 st s).
Proof.
  destruct st as [m next]. unfold WF, assign1. intros (H1 & H2 & H3).
  destruct (lookup m s) eqn:E; [auto|]. repeat split.
  - intros s0 i Hi. apply in_app_or in Hi as [Hi|[Hi|[]]]; [specialize (H1 _ _ Hi); lia|injection Hi as <- <-; lia].
  - rewrite map_app. cbn. apply NoDup_snoc; [assumption|].
    intros Hx. apply in_map_iff in Hx as ([s0 i] & Hi0 & Hi). cbn in Hi0. subst i. specialize (H1 _ _ Hi). lia.
  - rewrite map_app. cbn. apply NoDup_snoc; [assumption|]. now apply lookup_none in E.
Qed.

Lemma assign_wf seen : forall st, WF st -> WF (assign seen st).
Proof. induction seen as [|s seen IH]; intros st H; [exact H|]. cbn. apply IH. now apply assign1_wf. Qed.

Lemma assign1_mono st s x i : lookup (fst st) x = Some i -> lookup (fst (assign1 st s)) x = Some i.
Proof.
  destruct st as [m next]. unfold assign1. cbn [fst]. destruct (lookup m s); cbn [fst]; [auto|apply lookup_app_l].
Qed.

Lemma assign_mono seen : forall st x i, lookup (fst st) x = Some i -> lookup (fst (assign seen st)) x = Some i.
Proof.
  induction seen as [|s seen IH]; intros st x i H; [exact H|]. cbn. apply IH. now apply assign1_mono.
Qed.

Lemma lookup_snoc_new m s n : lookup m s = None -> lookup (m ++ [(s, n)]) s = Some n.
Proof.
  induction m as [|[s' j] m IH]; cbn; intros H.
  - destruct (eqb_spec s s); [reflexivity|contradiction].
  - destruct (eqb s' s); [discriminate|]. now apply IH.
Qed.

(* every synonym that the assignment pass saw has an id ... *)
Lemma assign_total seen : forall st s, In s seen -> exists i, lookup (fst (assign seen st)) s = Some i.
Proof.
  induction seen as [|x seen IH]; intros st s Hin; [destruct Hin|destruct Hin as [<-|Hi]].
  - cbn. destruct st as [m next]. unfold assign1 at 2. destruct (lookup m x) as [i|] eqn:E.
    + exists i. apply assign_mono. exact E.
    + exists next. apply assign_mono. cbn [fst]. now apply lookup_snoc_new.
  - cbn. now apply IH.
Qed.

(* ... and the table written for the reader inverts it: decoding an encoded synonym gives the synonym back *)
Lemma back_fwd m s i : NoDup (map snd m) -> lookup m s = Some i -> back m i = Some s.
Proof.
  intros Hn Hl. apply lookup_in in Hl. unfold back.
  induction m as [|[s' j] m IH]; [destruct Hl|]. cbn [find snd]. destruct Hl as [He|Hi].
  - injection He as -> ->. now rewrite Nat.eqb_refl.
  - inversion Hn; subst. destruct (Nat.eqb j i) eqn:E.
    + apply Nat.eqb_eq in E. subst j. exfalso. apply H1. apply in_map_iff. exists (s, i). auto.
    + now apply IH.
Qed.

(* C12/C13 (ids): for ANY order in which the assignment pass and the encoding pass visit the definitions,
   every synonym encoded by the second pass is decoded to itself by the reader *)
Theorem syn_ids_roundtrip seen s :
  In s seen ->
  let m := fst (assign seen ([], 0)) in
  exists i, lookup m s = Some i /\ back m i = Some s.
Proof.
  intros Hi m. destruct (assign_total seen ([], 0) s Hi) as [i Hl]. exists i. split; [exact Hl|].
  apply back_fwd; [|exact Hl].
  pose proof (assign_wf seen ([], 0)) as H. unfold WF in H. destruct (assign seen ([], 0)) as [m' nx].
  apply H. cbn. repeat split; [intros ? ? []|constructor|constructor].
Qed.
End Ids.
Print Assumptions syn_ids_roundtrip.

