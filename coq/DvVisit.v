(* SPIKE (round 0): C03 - the visit-state machine of VisitDocValues (docvalues.go:289-347) with its one-chunk
   cache per field (curChunkNum / curChunkHeader / curChunkData / uncompressed), for any order of visits and
   for state reuse across segments.  Chunks are taken as already framed (header, compressed data); the byte
   codec of a chunk is a separate round-trip lemma. *)
From Coq Require Import List NArith Lia Bool.
Import ListNotations.
Open Scope N_scope.

Section Dv.
Variable bytes : Type.
Variable term : Type.
Variable snappy_dec : bytes -> bytes.                       (* total on well-formed input *)
Variable slice_terms : bytes -> N -> N -> list term.        (* data[start:end] split at 0xff *)
Variable is_empty : bytes -> bool.                          (* len(x) == 0 *)

Definition seg := nat.
Definition header := list (N * N).                          (* (docNum, end offset), docNum ascending *)
Variable chunk_raw : seg -> N -> option (header * bytes).   (* None: start >= end in the chunk table *)
Variable cs : N.                                            (* doc-value chunk size (legacy mode) *)

(* getDocValueLocs: first header entry with DocNum >= doc (sort.Search), must be an exact match *)
Fixpoint locate (prev : N) (h : header) (doc : N) : option (N * N) :=
  match h with
  | [] => None
  | (d, e) :: r => if doc <=? d then (if d =? doc then Some (prev, e) else None) else locate e r doc
  end.

(* what a visit must yield *)
Definition spec (s : seg) (doc : N) : list term :=
  match chunk_raw s (doc / cs) with
  | None => []
  | Some (h, data) =>
      match locate 0 h doc with
      | Some (st, en) => if st =? en then [] else slice_terms (snappy_dec data) st en
      | None => []
      end
  end.

(* the reader held in the visit state *)
Record reader := { r_chunk : option N;            (* curChunkNum (MaxUint64 = none) *)
                   r_header : header; r_data : option bytes;
                   r_unc : option bytes }.       (* uncompressed, valid iff non-empty *)
Record vstate := { v_seg : option seg; v_reader : option reader }.

Definition fresh_reader : reader := {| r_chunk := None; r_header := []; r_data := None; r_unc := None |}.

(* loadDvChunk *)
Definition load (s : seg) (c : N) : reader :=
  match chunk_raw s c with
  | None => {| r_chunk := Some c; r_header := []; r_data := None; r_unc := None |}
  | Some (h, d) => {| r_chunk := Some c; r_header := h; r_data := Some d; r_unc := None |}
  end.

(* visitDocValues *)
Definition visit_reader (r : reader) (doc : N) : reader * list term :=
  match locate 0 (r_header r) doc with
  | None => (r, [])
  | Some (st, en) =>
      if st =? en then (r, [])
      else match r_unc r, r_data r with
           | Some u, _ => (r, slice_terms u st en)
           | None, Some d =>
               let u := snappy_dec d in
               ({| r_chunk := r_chunk r; r_header := r_header r; r_data := r_data r;
                   r_unc := if is_empty u then None else Some u |}, slice_terms u st en)
           | None, None => (r, [])
           end
  end.

(* VisitDocValues for one field *)
Definition visit (v : vstate) (s : seg) (doc : N) : vstate * list term :=
  let r0 := match v_seg v, v_reader v with
            | Some s', Some r => if Nat.eqb s' s then r else fresh_reader     (* segment changed: reset *)
            | _, _ => fresh_reader
            end in
  let c := doc / cs in
  let r1 := match r_chunk r0 with
            | Some c' => if c' =? c then r0 else load s c
            | None => load s c
            end in
  let '(r2, out) := visit_reader r1 doc in
  ({| v_seg := Some s; v_reader := Some r2 |}, out).

(* cache coherence *)
Definition coherent (s : seg) (r : reader) : Prop :=
  match r_chunk r with
  | None => True
  | Some c =>
      match chunk_raw s c with
      | None => r_header r = [] /\ r_data r = None
      | Some (h, d) => r_header r = h /\ r_data r = Some d
      end /\ (forall u, r_unc r = Some u -> exists d, r_data r = Some d /\ u = snappy_dec d)
  end.

Definition Inv (v : vstate) : Prop :=
  match v_seg v, v_reader v with
  | Some s, Some r => coherent s r
  | _, _ => True
  end.

Lemma load_coherent s c : coherent s (load s c).
Proof.
  unfold coherent, load. destruct (chunk_raw s c) as [[h d]|] eqn:E; cbn; rewrite E; split; auto; intros u H; discriminate.
Qed.

Lemma visit_ok v s doc : Inv v -> snd (visit v s doc) = spec s doc /\ Inv (fst (visit v s doc)).
Proof.
  intros HI. unfold visit.
  set (r0 := match v_seg v, v_reader v with
             | Some s', Some r => if Nat.eqb s' s then r else fresh_reader
             | _, _ => fresh_reader end).
  assert (H0: coherent s r0).
  { subst r0. unfold Inv in HI. destruct (v_seg v) as [s'|]; [|exact I].
    destruct (v_reader v) as [r|]; [|exact I].
    destruct (Nat.eqb s' s) eqn:E; [apply PeanoNat.Nat.eqb_eq in E; subst; exact HI|exact I]. }
  set (c := doc / cs).
  set (r1 := match r_chunk r0 with Some c' => if c' =? c then r0 else load s c | None => load s c end).
  assert (H1: coherent s r1 /\ r_chunk r1 = Some c).
  { subst r1. destruct (r_chunk r0) as [c'|] eqn:Ec.
    - destruct (c' =? c) eqn:E.
      + apply N.eqb_eq in E. subst c'. split; [exact H0|exact Ec].
      + split; [apply load_coherent|]. unfold load. destruct (chunk_raw s c) as [[? ?]|]; reflexivity.
    - split; [apply load_coherent|]. unfold load. destruct (chunk_raw s c) as [[? ?]|]; reflexivity. }
  destruct H1 as [H1 Hc1]. clearbody r1. clear r0 H0 HI.
  unfold spec. fold c. unfold coherent in H1. rewrite Hc1 in H1.
  unfold visit_reader.
  destruct (chunk_raw s c) as [[h d]|] eqn:Eraw.
  - destruct H1 as [[Hh Hd] Hu]. rewrite Hh.
    destruct (locate 0 h doc) as [[st en]|] eqn:El.
    + destruct (st =? en) eqn:Ese; cbn [fst snd].
      * split; [reflexivity|]. unfold Inv; cbn. unfold coherent. rewrite Hc1, Eraw. auto.
      * destruct (r_unc r1) as [u|] eqn:Eu.
        -- cbn [fst snd]. destruct (Hu u eq_refl) as (d' & Hd' & Hud). rewrite Hd in Hd'. injection Hd' as Hdd.
           subst d' u. split; [reflexivity|]. unfold Inv; cbn. unfold coherent. rewrite Hc1, Eraw.
           split; [auto|]. intros u2 Hu2. rewrite Eu in Hu2. injection Hu2 as <-. exists d. auto.
        -- rewrite Hd. cbn [fst snd]. split; [reflexivity|].
           unfold Inv; cbn. unfold coherent; cbn. rewrite Hc1, Eraw. split; [auto|].
           intros u Hu2. exists d. split; [reflexivity|]. destruct (is_empty (snappy_dec d)); [discriminate|now injection Hu2 as <-].
    + cbn [fst snd]. split; [reflexivity|]. unfold Inv; cbn. unfold coherent. rewrite Hc1, Eraw. auto.
  - destruct H1 as [[Hh Hd] Hu]. rewrite Hh. cbn [locate fst snd]. split; [reflexivity|].
    unfold Inv; cbn. unfold coherent. rewrite Hc1, Eraw. auto.
Qed.

Fixpoint run (v : vstate) (ops : list (seg * N)) : list (list term) :=
  match ops with
  | [] => []
  | (s, d) :: r => let '(v', o) := visit v s d in o :: run v' r
  end.

(* C03 (state machine): for ANY order of visits, over any mixture of segments, with the state reused,
   every visit yields exactly what a fresh lookup in that segment yields *)
Theorem C03_any_order : forall ops v, Inv v -> run v ops = map (fun sd => spec (fst sd) (snd sd)) ops.
Proof.
  induction ops as [|[s d] ops IH]; intros v HI; [reflexivity|].
  cbn [run map fst snd]. pose proof (visit_ok v s d HI) as [Ho HI'].
  destruct (visit v s d) as [v' o]. cbn [fst snd] in *. subst o. f_equal. now apply IH.
Qed.

Definition vinit : vstate := {| v_seg := None; v_reader := None |}.
Lemma Inv_init : Inv vinit. Proof. exact I. Qed.
End Dv.
Print Assumptions C03_any_order.
