(* C01 / C09: one term's postings list and a field's whole dictionary, writer and reader composed.
   A general postings list at address v is  uvarint freqOffset, uvarint locOffset, uvarint |bitmap|,
   the roaring bitmap of its documents; the two offsets point at the chunked freq/norm and location
   streams (WriteRead.v); the chunk size is derived from the bitmap's cardinality, the chunk mode
   and the document count.  A single-hit list is packed into the FST value itself.  The FST of the
   field maps every term to such a value.  roaring and vellum are Section hypotheses. *)
From Coq Require Import List NArith ZArith Lia Bool Sorted Arith.
From Coq Require Import ZifyN ZifyNat ZifyBool.
Import ListNotations.
Require Import Opt Bytes Kernel Streams Chunks Spec Layout LayoutProof WriteRead.
Open Scope N_scope.

Section Dict.
Variable fst_enc : list (str * N) -> bytes.
Variable dec_fst : bytes -> option (list (str * N)).
Hypothesis fst_ok : forall kvs, dec_fst (fst_enc kvs) = Some kvs.
Variable roar_enc : list N -> bytes.
Variable dec_roar : bytes -> option (list N).
Hypothesis roar_ok : forall l, dec_roar (roar_enc l) = Some l.
Variable ft : list frec.
Variable mode ndocs : N.

Definition enc_plhdr (fo lo : N) (docs : list N) : bytes :=
  let rb := roar_enc docs in uv fo ++ uv lo ++ uv (nlenb rb) ++ rb.

(* a general postings list laid out in `file`: header at v, the two streams at fo and lo *)
Inductive general_pl (file : bytes) (v : N) (hits : list shit) : Prop :=
| mk_general_pl : forall (cs : N) (total : nat) (fo lo : N) (pre1 rest1 pre2 rest2 rest : bytes),
    is1hit v = false ->
    at_off file v = Some (enc_plhdr fo lo (map fst hits) ++ rest) ->
    u64 fo -> u64 lo -> u64 (nlenb (roar_enc (map fst hits))) ->
    chunk_size_spec mode (N.of_nat (length hits)) ndocs = (cs, false) ->
    0 < cs -> (0 < total)%nat -> N.of_nat total < max_count ->
    StronglySorted N.lt (map fst hits) -> Forall wf_hit hits ->
    (forall h, In h hits -> fst h / cs < N.of_nat total) ->
    file = pre1 ++ stream_bytes (Chunks.run cs total (fitems hits)) ++ rest1 ->
    file = pre2 ++ stream_bytes (Chunks.run cs total (litems hits)) ++ rest2 ->
    fo = N.of_nat (length pre1) -> lo = N.of_nat (length pre2) -> pre1 <> [] -> pre2 <> [] ->
    Forall u64 (LayoutProof.cum_from 0 (map nlenb (chunks_of_coder cs total (fitems hits)))) ->
    Forall u64 (LayoutProof.cum_from 0 (map nlenb (chunks_of_coder cs total (litems hits)))) ->
    general_pl file v hits.

Theorem postings_at_general : forall file v hits, general_pl file v hits ->
  postings_at dec_roar file ft mode ndocs v = mapopt (spec_hit ft) hits.
Proof.
  intros file v hits G.
  destruct G as [cs total fo lo pre1 rest1 pre2 rest2 rest H1 Hhdr Hfo Hlo Hrb Hch Hcs Htot Hmax Hso Hwf Hin Hf Hl Efo Elo Hp1 Hp2 Hu1 Hu2].
  unfold postings_at. rewrite H1. rewrite Hhdr. cbn [bindo]. unfold enc_plhdr. rewrite <- !app_assoc.
  rewrite dec_uv_app by assumption. cbn [bindo].
  rewrite dec_uv_app by assumption. cbn [bindo].
  rewrite dec_uv_app by assumption. cbn [bindo].
  unfold nlenb at 1. rewrite take_app. cbn [bindo]. rewrite roar_ok. cbn [bindo].
  replace (length (map fst hits)) with (length hits) by (symmetry; apply map_length). rewrite Hch.
  pose proof (postings_write_read ft cs Hcs total Htot Hmax hits Hso Hwf Hin pre1 rest1 pre2 rest2 Hp1 Hp2 Hu1 Hu2) as W.
  rewrite <- Hf, <- Efo in W. rewrite <- Hl, <- Elo in W. exact W.
Qed.

Theorem postings_at_single_hit : forall file d nrm, d < 2 ^ 31 -> nrm < 2 ^ 31 ->
  postings_at dec_roar file ft mode ndocs (enc1hit d nrm) =
  Some [{| h_doc := d; h_freq := 1; h_norm := nrm; h_locs := [] |}].
Proof.
  intros file d nrm Hd Hn. unfold postings_at. destruct (onehit_roundtrip d nrm Hd Hn) as [E1 E2].
  rewrite E2, E1. reflexivity.
Qed.

(* what a term's FST value stands for *)
Inductive entry_ok (file : bytes) : N -> option (list hit) -> Prop :=
| entry_1hit d nrm : d < 2 ^ 31 -> nrm < 2 ^ 31 ->
    entry_ok file (enc1hit d nrm) (Some [{| h_doc := d; h_freq := 1; h_norm := nrm; h_locs := [] |}])
| entry_general v hits : general_pl file v hits -> entry_ok file v (mapopt (spec_hit ft) hits).

Lemma entry_ok_postings file v r : entry_ok file v r -> postings_at dec_roar file ft mode ndocs v = r.
Proof. intros [d nrm Hd Hn|v' hits G]; [now apply postings_at_single_hit|now apply postings_at_general]. Qed.

(* the whole dictionary of a field *)
Theorem dict_at_roundtrip : forall file dictLoc (kvs : list (str * N)) (want : list (list hit)) rest,
  dictLoc <> 0 -> u64 (nlenb (fst_enc kvs)) ->
  at_off file dictLoc = Some (uv (nlenb (fst_enc kvs)) ++ fst_enc kvs ++ rest) ->
  Forall2 (fun kv hs => entry_ok file (snd kv) (Some hs)) kvs want ->
  dict_at dec_fst dec_roar file ft mode ndocs dictLoc = Some (combine (map fst kvs) want).
Proof.
  intros file dictLoc kvs want rest Hnz Hu Hat HF. unfold dict_at.
  assert ((dictLoc =? 0) = false) as -> by (now apply N.eqb_neq).
  rewrite Hat. cbn [bindo]. rewrite dec_uv_app by exact Hu. cbn [bindo].
  unfold nlenb at 1. rewrite take_app. cbn [bindo]. rewrite fst_ok. cbn [bindo].
  clear Hat Hu. induction HF as [|kv hs kvs want Hk _ IH]; [reflexivity|].
  cbn [mapopt map combine]. rewrite (entry_ok_postings file (snd kv) (Some hs) Hk). cbn [bindo]. rewrite IH. reflexivity.
Qed.
End Dict.
Print Assumptions dict_at_roundtrip.
