(* The builder's dictionary construction as an executable model (section_inverted_text_index.go:
   realloc's visitField = pass 1, process(..., MaxUint16, docNum) = pass 2, writeDicts' walk over the
   sorted DictKeys), parameterised by the orders in which Go's map iteration delivers the terms.
   Definitions only; BuildRefine.v proves that the result is Spec.spec_dict for every such order. *)
From Coq Require Import List NArith Bool.
Import ListNotations.
Require Import ZV.Spec.
Open Scope N_scope.

(* ---------- the model of the builder ---------- *)
Definition alloc (keys : list str) (t : str) : list str :=
  if existsb (seqb t) keys then keys else keys ++ [t].
Definition pass1 (seq : list str) : list str := fold_left alloc seq [].

Definition post := list (str * list hit).
Definition app_hit (p : post) (t : str) (h : hit) : post :=
  map (fun e => if seqb (fst e) t then (fst e, snd e ++ [h]) else e) p.
Definition mkhit (n len : N) (v : N * list loc) : hit :=
  {| h_doc := n; h_freq := fst v; h_norm := (if fst v =? 0 then 0 else len); h_locs := snd v |}.
Definition doc_pass2 (f : str) (ord : N -> tfmap) (p : post) (nd : N * doc) : post :=
  match doc_tfs (snd nd) f with
  | None => p
  | Some (len, _) => fold_left (fun p e => app_hit p (fst e) (mkhit (fst nd) len (snd e))) (ord (fst nd)) p
  end.
Fixpoint lookup (k : str) (p : post) : list hit :=
  match p with [] => [] | (k', v) :: r => if seqb k k' then v else lookup k r end.
Definition build (b : batch) (f : str) (seq1 : list str) (ord : N -> tfmap) : list (str * list hit) :=
  let keys := pass1 seq1 in
  let p := fold_left (doc_pass2 f ord) (indexed b) (map (fun k => (k, [])) keys) in
  map (fun k => (k, lookup k p)) (ssort keys).

(* every term the field carries in the batch, instance by instance *)
Definition inst_terms (d : doc) (f : str) : list str := flat_map (fun i => map t_term (f_toks i)) (instances d f).
Definition all_terms (b : batch) (f : str) : list str := flat_map (fun d => inst_terms d f) b.

(* ---------- an executable instance: the orders are scrambled by a seed ---------- *)
Definition rot {X} (k : nat) (l : list X) : list X := skipn (Nat.modulo k (length l)) l ++ firstn (Nat.modulo k (length l)) l.
Definition scramble {X} (s : N) (l : list X) : list X := let r := rot (N.to_nat s) l in if N.odd s then rev r else r.
Definition tfs_of (b : batch) (f : str) (n : N) : tfmap :=
  match nth_error b (N.to_nat n) with
  | Some d => match doc_tfs d f with Some (_, m) => m | None => [] end
  | None => []
  end.
Definition run_build (b : batch) (s : N) : list (str * list (str * list hit)) :=
  nonempty_dicts (map (fun f => (f, build b f (scramble s (all_terms b f) ++ all_terms b f)
                                          (fun n => scramble (s + n) (tfs_of b f n)))) (spec_fields b)).


(* ---------- the doc-value pass of writeDicts: doc values computed from the postings ---------- *)
Definition in_postings (n : N) (hs : list hit) : bool := existsb (fun h => h_doc h =? n) hs.
(* the buffer of document n after all terms were walked, in the order they were walked *)
Definition terms_with (n : N) (dict : list (str * list hit)) : list str :=
  map fst (filter (fun e => in_postings n (snd e)) dict).
Definition dv_from_postings {X} (docs : list (N * X)) (dict : list (str * list hit)) : list (N * list str) :=
  flat_map (fun nd => match terms_with (fst nd) dict with [] => [] | ts => [(fst nd, ts)] end) docs.

Definition dv_run (b : batch) : list (str * list (N * list str)) :=
  map (fun f => (f, dv_from_postings (indexed b) (spec_dict b f))) (filter (is_dv_field b) (spec_fields b)).

(* ---------- the stored-field pass of the builder (new.go writeStoredFields): the instances of a
   document are visited in order and each stored one is appended to the bucket of its field; the
   buckets are then written in field-id order ---------- *)
Definition sval_of (f : str) (i : field) : sval := {| s_field := f; s_typ := f_typ i; s_val := f_val i; s_ap := f_ap i |}.
Definition bucket_add (bk : list (str * list sval)) (i : field) : list (str * list sval) :=
  if f_stored i
  then map (fun e => if seqb (f_name i) (fst e) then (fst e, snd e ++ [sval_of (fst e) i]) else e) bk
  else bk.
Definition stored_pass (fs : list str) (d : doc) : list sval :=
  concat (map snd (fold_left bucket_add (d_fields d) (map (fun f => (f, [])) fs))).
Definition stored_run (b : batch) : list (list sval) :=
  let fs := filter (fun s => negb (seqb s id_name)) (spec_fields b) in
  map (fun d => {| s_field := id_name; s_typ := 116; s_val := doc_id d; s_ap := [] |} :: stored_pass fs d) b.
