(* C08: executable matchers standing for the vellum automata the harness builds on the Go side
   (match-all, never, exact, prefix, Levenshtein distance <= d, and a regular-expression subset
   matched by Brzozowski derivatives), plus the key-range filter of FST.Search. *)
From Coq Require Import List NArith Bool Arith.
Import ListNotations.
Require Import Spec.
Open Scope N_scope.

Inductive re :=
| REmpty | REps | RChr (c : N) | RAny | RCat (a b : re) | RAlt (a b : re) | RStar (a : re).

Fixpoint nullable (r : re) : bool :=
  match r with
  | REmpty => false | REps => true | RChr _ => false | RAny => false
  | RCat a b => nullable a && nullable b
  | RAlt a b => nullable a || nullable b
  | RStar _ => true
  end.
Fixpoint deriv (c : N) (r : re) : re :=
  match r with
  | REmpty => REmpty | REps => REmpty
  | RChr d => if c =? d then REps else REmpty
  | RAny => REps
  | RCat a b => if nullable a then RAlt (RCat (deriv c a) b) (deriv c b) else RCat (deriv c a) b
  | RAlt a b => RAlt (deriv c a) (deriv c b)
  | RStar a => RCat (deriv c a) (RStar a)
  end.
Fixpoint re_match (r : re) (s : str) : bool :=
  match s with [] => nullable r | c :: t => re_match (deriv c r) t end.

(* Levenshtein distance by the classic row DP *)
Fixpoint lev_row (c : N) (q : str) (prev : list nat) (left : nat) : list nat :=
  match q, prev with
  | qc :: q', diag :: ((up :: _) as prev') =>
      let cost := if c =? qc then diag else S (Nat.min diag (Nat.min up left)) in
      cost :: lev_row c q' prev' cost
  | _, _ => []
  end.
Fixpoint lev_rows (s q : str) (row : list nat) : list nat :=
  match s with
  | [] => row
  | c :: t => match row with
              | r0 :: _ => lev_rows t q (S r0 :: lev_row c q row (S r0))
              | [] => []
              end
  end.
Definition lev_dist (s q : str) : nat := last (lev_rows s q (seq 0 (S (length q)))) 0%nat.

Fixpoint is_prefix (p s : str) : bool :=
  match p, s with
  | [], _ => true
  | a :: p', b :: s' => (a =? b) && is_prefix p' s'
  | _ :: _, [] => false
  end.

Inductive aut := AAll | ANever | AExact (s : str) | APrefix (s : str) | ALev (q : str) (d : nat) | ARegex (r : re).

Definition accepts (a : aut) (s : str) : bool :=
  match a with
  | AAll => true
  | ANever => false
  | AExact t => seqb s t
  | APrefix p => is_prefix p s
  | ALev q d => Nat.leb (lev_dist s q) d
  | ARegex r => re_match r s
  end.

(* [start, end): either bound may be absent *)
Definition in_range (lo hi : option str) (s : str) : bool :=
  (match lo with None => true | Some l => negb (sltb s l) end) &&
  (match hi with None => true | Some h => sltb s h end).

Example lev_ex : lev_dist [107;105;116;116;101;110] [115;105;116;116;105;110;103] = 3%nat.
Proof. vm_compute. reflexivity. Qed.
