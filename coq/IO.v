(* SPIKE (round 0): C17 - bufio.Writer with sticky error over a sink that starts failing at a byte offset;
   any sequence of writes whose results may be IGNORED, closed by a CHECKED Flush
   (write.go:83-86 ignores results; build.go:106, merge.go:91 check the final Flush). *)
From Coq Require Import List Arith Lia Bool PeanoNat.
Import ListNotations.

Section IO.
Variable byte : Type.
Notation bytes := (list byte).

(* a file that accepts at most `limit` bytes in total (None = no fault) *)
Record sink := { written : bytes; limit : option nat }.

Definition sink_write (s : sink) (p : bytes) : sink * bool (* error? *) :=
  match limit s with
  | None => ({| written := written s ++ p; limit := None |}, false)
  | Some l =>
      let room := l - length (written s) in
      if length p <=? room then ({| written := written s ++ p; limit := Some l |}, false)
      else ({| written := written s ++ firstn room p; limit := Some l |}, true)
  end.

Record bw := { buf : bytes; cap : nat; err : bool; dst : sink }.

Definition avail (b : bw) : nat := cap b - length (buf b).

Definition flush (b : bw) : bw * bool :=
  if err b then (b, true)
  else match buf b with
       | [] => (b, false)
       | _ => let '(s', e) := sink_write (dst b) (buf b) in
              if e then ({| buf := buf b; cap := cap b; err := true; dst := s' |}, true)
              else ({| buf := []; cap := cap b; err := false; dst := s' |}, false)
       end.

(* bufio.Writer.Write: at most one buffer fill + flush, then a direct large write or a copy *)
Definition direct_or_copy (b : bw) (p : bytes) : bw * bool :=
  if length p <=? avail b then ({| buf := buf b ++ p; cap := cap b; err := err b; dst := dst b |}, false)
  else (* buffer empty here: large write goes straight to the sink *)
    let '(s', e) := sink_write (dst b) p in
    ({| buf := buf b; cap := cap b; err := e; dst := s' |}, e).

Definition write (b : bw) (p : bytes) : bw * bool :=
  if err b then (b, true)
  else if length p <=? avail b then ({| buf := buf b ++ p; cap := cap b; err := false; dst := dst b |}, false)
  else match buf b with
       | [] => direct_or_copy b p
       | _ => let k := avail b in
              let b1 := {| buf := buf b ++ firstn k p; cap := cap b; err := false; dst := dst b |} in
              let '(b2, e) := flush b1 in
              if e then (b2, true) else direct_or_copy b2 (skipn k p)
       end.

(* a program: writes whose error result is dropped on the floor *)
Definition run (b : bw) (ps : list bytes) : bw := fold_left (fun b p => fst (write b p)) ps b.

(* what the sink must hold if nothing failed *)
Definition Inv (init : bytes) (payload : bytes) (b : bw) : Prop :=
  err b = false -> written (dst b) ++ buf b = init ++ payload.

Lemma sink_write_ok s p s' : sink_write s p = (s', false) -> written s' = written s ++ p /\ limit s' = limit s.
Proof.
  unfold sink_write. destruct (limit s) as [l|] eqn:El.
  - destruct (length p <=? l - length (written s)); intros H; inversion H; subst; cbn; auto.
  - intros H; inversion H; subst; cbn; auto.
Qed.

Lemma flush_inv init pl b b' e : Inv init pl b -> flush b = (b', e) ->
  Inv init pl b' /\ (e = false -> err b' = false /\ buf b' = []) /\ (e = true -> err b' = true).
Proof.
  unfold flush, Inv. intros HI. destruct (err b) eqn:Ee.
  - intros H; inversion H; subst. split; [congruence|]. split; [discriminate|auto].
  - destruct (buf b) as [|x r] eqn:Eb.
    + intros H; inversion H; subst. split; [intros _; rewrite Eb; now apply HI|].
      split; [auto|discriminate].
    + destruct (sink_write (dst b) (x :: r)) as [s' e0] eqn:Es. destruct e0; intros H; inversion H; subst; cbn.
      * split; [discriminate|]. split; [discriminate|auto].
      * apply sink_write_ok in Es as [Hw _]. split; [|split; [auto|discriminate]].
        intros _. rewrite app_nil_r, Hw. now apply HI.
Qed.

Lemma direct_inv init pl b p b' e : Inv init pl b -> err b = false -> buf b = [] \/ length p <= avail b ->
  direct_or_copy b p = (b', e) -> Inv init (pl ++ p) b' /\ (e = true -> err b' = true).
Proof.
  unfold direct_or_copy, Inv. intros HI He Hb. destruct (length p <=? avail b) eqn:El.
  - intros H; inversion H; subst; cbn. split; [|congruence]. intros _. rewrite app_assoc, (HI He), <- app_assoc. reflexivity.
  - destruct Hb as [Hb|Hb]; [|apply Nat.leb_gt in El; lia].
    destruct (sink_write (dst b) p) as [s' e0] eqn:Es. intros H; inversion H; subst; cbn.
    split; [|auto]. intros He0. subst. apply sink_write_ok in Es as [Hw _].
    pose proof (HI He) as H0. rewrite Hb, app_nil_r in H0.
    rewrite Hb, app_nil_r, Hw, H0, app_assoc. reflexivity.
Qed.

Lemma write_inv init pl b p : Inv init pl b -> Inv init (pl ++ p) (fst (write b p)) /\
  (err b = true -> err (fst (write b p)) = true).
Proof.
  intros HI. unfold write. destruct (err b) eqn:Ee; cbn [fst].
  - split; [unfold Inv; congruence|auto].
  - split; [|congruence].
    destruct (length p <=? avail b) eqn:El; cbn [fst].
    + unfold Inv in *. cbn. intros _. rewrite app_assoc, (HI Ee), <- app_assoc. reflexivity.
    + destruct (buf b) as [|x r] eqn:Eb.
      * destruct (direct_or_copy b p) as [b' e] eqn:Ed. cbn [fst].
        apply (direct_inv init pl b p b' e HI Ee (or_introl Eb) Ed).
      * rewrite <- Eb.
        set (k := avail b).
        set (b1 := {| buf := buf b ++ firstn k p; cap := cap b; err := false; dst := dst b |}).
        assert (HI1: Inv init (pl ++ firstn k p) b1).
        { unfold Inv, b1. cbn. intros _. rewrite app_assoc, (HI Ee), <- app_assoc. reflexivity. }
        destruct (flush b1) as [b2 e] eqn:Ef.
        destruct (flush_inv _ _ _ _ _ HI1 Ef) as (HI2 & Hok & Hbad).
        destruct e; cbn [fst].
        -- unfold Inv. intros He2. specialize (Hbad eq_refl). congruence.
        -- destruct (Hok eq_refl) as [He2 Hb2].
           destruct (direct_or_copy b2 (skipn k p)) as [b3 e3] eqn:Ed. cbn [fst].
           destruct (direct_inv init (pl ++ firstn k p) b2 (skipn k p) b3 e3 HI2 He2 (or_introl Hb2) Ed) as [HI3 _].
           rewrite <- app_assoc, firstn_skipn in HI3. exact HI3.
Qed.

Lemma run_inv init : forall ps pl b, Inv init pl b -> Inv init (pl ++ concat ps) (run b ps).
Proof.
  induction ps as [|p ps IH]; intros pl b HI; cbn [run fold_left concat].
  - now rewrite app_nil_r.
  - rewrite app_assoc. apply IH. now apply write_inv.
Qed.

Lemma sticky : forall ps b, err b = true -> err (run b ps) = true.
Proof.
  induction ps as [|p ps IH]; intros b He; [exact He|]. cbn [run fold_left]. apply IH.
  unfold write. rewrite He. exact He.
Qed.

Definition fresh (c : nat) (s : sink) : bw := {| buf := []; cap := c; err := false; dst := s |}.

(* C17 (core): whatever is written through the buffered writer, with results ignored or not,
   if the final checked Flush reports success then the file holds exactly all the bytes, in order *)
Theorem C17_ok_is_complete c s ps b' :
  flush (run (fresh c s) ps) = (b', false) -> written (dst b') = written s ++ concat ps.
Proof.
  intros Hf.
  assert (HI: Inv (written s) (concat ps) (run (fresh c s) ps)).
  { apply (run_inv (written s) ps [] (fresh c s)). unfold Inv, fresh. cbn. intros _. now rewrite !app_nil_r. }
  destruct (flush_inv _ _ _ _ _ HI Hf) as (HI' & Hok & _). destruct (Hok eq_refl) as [He Hb].
  unfold Inv in HI'. specialize (HI' He). now rewrite Hb, app_nil_r in HI'.
Qed.

(* the sink never holds more than its limit *)
Definition bounded (l : nat) (b : bw) : Prop := limit (dst b) = Some l /\ length (written (dst b)) <= l.

Lemma sink_write_bounded s p l : limit s = Some l -> length (written s) <= l ->
  limit (fst (sink_write s p)) = Some l /\ length (written (fst (sink_write s p))) <= l.
Proof.
  intros Hl Hw. unfold sink_write. rewrite Hl. destruct (length p <=? l - length (written s)) eqn:E; cbn.
  - apply Nat.leb_le in E. rewrite app_length. split; [reflexivity|lia].
  - rewrite app_length, firstn_length. split; [reflexivity|lia].
Qed.

Lemma flush_bounded l b : bounded l b -> bounded l (fst (flush b)).
Proof.
  intros [Hl Hw]. unfold flush. destruct (err b); [split; assumption|].
  destruct (buf b) as [|x r]; [split; assumption|].
  pose proof (sink_write_bounded (dst b) (x :: r) l Hl Hw) as [H1 H2].
  destruct (sink_write (dst b) (x :: r)) as [s' e]. destruct e; cbn in *; split; assumption.
Qed.

Lemma direct_bounded l b p : bounded l b -> bounded l (fst (direct_or_copy b p)).
Proof.
  intros [Hl Hw]. unfold direct_or_copy. destruct (length p <=? avail b); [split; assumption|].
  pose proof (sink_write_bounded (dst b) p l Hl Hw) as [H1 H2].
  destruct (sink_write (dst b) p) as [s' e]. cbn in *. split; assumption.
Qed.

Lemma write_bounded l b p : bounded l b -> bounded l (fst (write b p)).
Proof.
  intros HB. unfold write. destruct (err b); [exact HB|].
  destruct (length p <=? avail b); [exact HB|].
  destruct (buf b) as [|x r] eqn:Eb; [now apply direct_bounded|].
  rewrite <- Eb.
  set (b1 := {| buf := buf b ++ firstn (avail b) p; cap := cap b; err := false; dst := dst b |}).
  assert (HB1: bounded l b1) by exact HB.
  pose proof (flush_bounded l b1 HB1) as HB2.
  destruct (flush b1) as [b2 e]. cbn [fst] in HB2. destruct e; [exact HB2|].
  now apply direct_bounded.
Qed.

Lemma run_bounded l : forall ps b, bounded l b -> bounded l (run b ps).
Proof.
  induction ps as [|p ps IH]; intros b HB; [exact HB|]. cbn [run fold_left]. apply IH. now apply write_bounded.
Qed.

(* ... and therefore a file that cannot take all the bytes makes the final checked Flush fail *)
Theorem C17_fail_is_error c s ps l b' e :
  limit s = Some l -> written s = [] -> l < length (concat ps) ->
  flush (run (fresh c s) ps) = (b', e) -> e = true.
Proof.
  intros Hl Hw Hlt Hf. destruct e; [reflexivity|exfalso].
  pose proof (C17_ok_is_complete c s ps b' Hf) as Hc. rewrite Hw in Hc. cbn [app] in Hc.
  assert (HB: bounded l (fresh c s)) by (split; [exact Hl|cbn; rewrite Hw; cbn; lia]).
  pose proof (flush_bounded l _ (run_bounded l ps _ HB)) as [_ HB2].
  rewrite Hf in HB2. cbn [fst] in HB2. rewrite Hc in HB2. lia.
Qed.
End IO.
Print Assumptions C17_ok_is_complete.
Print Assumptions C17_fail_is_error.
