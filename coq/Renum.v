(* SPIKE (round 0): C05 - document renumbering of mergeStoredAndRemap / computeNewDocCount (merge.go:177-188, 359-535).
   A segment is given by its per-document "dropped" flags. *)
From Coq Require Import List Arith Lia Bool PeanoNat.
Import ListNotations.

(* one segment: survivors get consecutive numbers starting at `next`; dropped ones get None (docDropped) *)
Fixpoint renum_seg (flags : list bool) (next : nat) : list (option nat) * nat :=
  match flags with
  | [] => ([], next)
  | true :: r => let '(m, nx) := renum_seg r next in (None :: m, nx)
  | false :: r => let '(m, nx) := renum_seg r (S next) in (Some next :: m, nx)
  end.

Fixpoint renum (segs : list (list bool)) (next : nat) : list (list (option nat)) * nat :=
  match segs with
  | [] => ([], next)
  | s :: r => let '(m, nx) := renum_seg s next in
              let '(ms, nx') := renum r nx in (m :: ms, nx')
  end.

Definition survivors (flags : list bool) : nat := length (filter negb flags).

Fixpoint somes (l : list (option nat)) : list nat :=
  match l with [] => [] | Some x :: r => x :: somes r | None :: r => somes r end.

Lemma renum_seg_spec flags : forall next,
  let '(m, nx) := renum_seg flags next in
  length m = length flags /\ nx = next + survivors flags /\ somes m = seq next (survivors flags) /\
  (forall d, nth d m None = None <-> (nth d flags true = true)).
Proof.
  induction flags as [|f flags IH]; intros next; cbn [renum_seg].
  - repeat split; cbn; auto; destruct d; auto.
  - destruct f.
    + specialize (IH next). destruct (renum_seg flags next) as [m nx]. destruct IH as (H1 & H2 & H3 & H4).
      unfold survivors in *. cbn [filter negb length somes]. repeat split; cbn [length]; auto.
      * destruct d; cbn; [auto|apply H4].
      * destruct d; cbn; [auto|apply H4].
    + specialize (IH (S next)). destruct (renum_seg flags (S next)) as [m nx]. destruct IH as (H1 & H2 & H3 & H4).
      unfold survivors in *. cbn [filter negb length somes seq]. repeat split; cbn [length]; auto; try lia.
      * now rewrite H3.
      * destruct d; cbn; [discriminate|apply H4].
      * destruct d; cbn; [discriminate|apply H4].
Qed.

(* C05 (numbering): survivors are numbered consecutively in segment order then document order,
   every dropped document maps to the sentinel, and the count is the number of survivors *)
Theorem C05_renumber : forall segs next,
  let '(ms, nx) := renum segs next in
  length ms = length segs /\
  nx = next + survivors (concat segs) /\
  somes (concat ms) = seq next (survivors (concat segs)) /\
  (forall s d, nth d (nth s ms []) None = None <-> nth d (nth s segs []) true = true).
Proof.
  induction segs as [|sg segs IH]; intros next; cbn [renum].
  - repeat split; cbn; auto; destruct s; destruct d; cbn; auto.
  - pose proof (renum_seg_spec sg next) as Hs. destruct (renum_seg sg next) as [m nx].
    destruct Hs as (S1 & S2 & S3 & S4).
    specialize (IH nx). destruct (renum segs nx) as [ms nx']. destruct IH as (H1 & H2 & H3 & H4).
    assert (Hsurv: survivors (sg ++ concat segs) = survivors sg + survivors (concat segs)).
    { unfold survivors. now rewrite filter_app, app_length. }
    assert (Hsomes: forall a b, somes (a ++ b) = somes a ++ somes b).
    { induction a as [|[x|] a IHa]; intros b; cbn; [reflexivity|now rewrite IHa|apply IHa]. }
    cbn [concat length]. rewrite Hsurv. repeat split.
    + now rewrite H1.
    + lia.
    + rewrite Hsomes, S3, H3, S2. rewrite seq_app. reflexivity.
    + destruct s; cbn [nth]; [apply S4|apply H4].
    + destruct s; cbn [nth]; [apply S4|apply H4].
Qed.
Print Assumptions C05_renumber.
