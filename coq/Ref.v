(* SPIKE (round 0): C20 - reference counting of an mmap-opened segment (segment.go: AddRef/DecRef/Close/closeActual).
   Each operation runs under Segment.m, hence is one atomic step; concurrency = interleaving of steps. *)
From Coq Require Import List ZArith Lia Bool.
Import ListNotations.
Open Scope Z_scope.

Inductive op := AddRef | DecRef | Use.      (* Close = DecRef; Use = any reader holding a reference:
   a query, a stored-field visit, a merge taking the segment as input - successful or failing *)

Record st := { refs : Z; mapped : bool; releases : nat }.

Definition init : st := {| refs := 1; mapped := true; releases := 0 |}.   (* Open: refs starts at 1 *)

Definition step (s : st) (o : op) : st :=
  match o with
  | AddRef => {| refs := refs s + 1; mapped := mapped s; releases := releases s |}
  | DecRef =>
      let r := refs s - 1 in
      if r =? 0 then {| refs := r; mapped := false; releases := S (releases s) |}   (* closeActual *)
      else {| refs := r; mapped := mapped s; releases := releases s |}
  | Use => s
  end.

Definition run (s : st) (ops : list op) : st := fold_left step ops s.

(* the count after a sequence *)
Fixpoint count (r : Z) (ops : list op) : Z :=
  match ops with
  | [] => r
  | AddRef :: t => count (r + 1) t
  | DecRef :: t => count (r - 1) t
  | Use :: t => count r t
  end.

(* "the count stays positive until the end": every proper prefix leaves refs > 0 *)
Fixpoint positive_until_end (r : Z) (ops : list op) : Prop :=
  match ops with
  | [] => True
  | o :: t => let r' := match o with AddRef => r + 1 | DecRef => r - 1 | Use => r end in
              (t <> [] -> 0 < r') /\ positive_until_end r' t
  end.

Definition Inv (s : st) : Prop := 0 < refs s /\ mapped s = true /\ releases s = 0%nat.

Lemma step_inv s o : Inv s -> 0 < refs (step s o) -> Inv (step s o).
Proof.
  intros (Hr & Hm & Hz) Hpos. destruct o; cbn in *.
  - repeat split; auto; lia.
  - destruct (refs s - 1 =? 0) eqn:E; cbn in *; [lia|]. repeat split; auto.
  - repeat split; auto.
Qed.

(* C20: along any balanced history whose count stays positive until the end, the segment is mapped
   (readable) after every proper prefix, and the final operation releases it exactly once *)
Theorem C20_refcount : forall ops s, Inv s -> positive_until_end (refs s) ops -> count (refs s) ops = 0 ->
  (forall pre post, ops = pre ++ post -> post <> [] -> Inv (run s pre)) /\
  mapped (run s ops) = false /\ releases (run s ops) = 1%nat.
Proof.
  induction ops as [|o t IH]; intros s HI Hp Hc.
  - cbn in Hc. destruct HI; lia.
  - cbn [positive_until_end] in Hp. destruct Hp as [Hp1 Hp2].
    assert (Hrefs: refs (step s o) = match o with AddRef => refs s + 1 | DecRef => refs s - 1 | Use => refs s end).
    { destruct o; cbn; [reflexivity| |reflexivity]. destruct (refs s - 1 =? 0); reflexivity. }
    assert (Hc': count (refs (step s o)) t = 0).
    { rewrite Hrefs. destruct o; exact Hc. }
    destruct t as [|o2 t2].
    + (* last operation *)
      cbn in Hc'. split.
      * intros pre post He Hne. destruct pre as [|p pre]; [exact HI|].
        cbn in He. injection He as -> He. destruct pre; [|discriminate]. cbn in He. subst post. congruence.
      * cbn [run fold_left]. destruct o; cbn in *; [destruct HI; lia| |destruct HI; lia].
        destruct HI as (Hr & Hm & Hz). rewrite Hrefs in Hc'.
        assert (refs s - 1 =? 0 = true) as -> by lia. cbn. split; [reflexivity|]. now rewrite Hz.
    + assert (HI': Inv (step s o)).
      { apply step_inv; [exact HI|]. rewrite Hrefs. apply Hp1. discriminate. }
      rewrite <- Hrefs in Hp2.
      destruct (IH (step s o) HI' Hp2 Hc') as (H1 & H2 & H3).
      split; [|split; [exact H2|exact H3]].
      intros pre post He Hne. destruct pre as [|p pre]; [exact HI|].
      cbn in He. injection He as -> He. cbn [run fold_left]. apply (H1 pre post He Hne).
Qed.

(* non-vacuity: AddRef, DecRef, AddRef, DecRef, Close *)
Example c20_example : let ops := [AddRef; Use; DecRef; AddRef; Use; DecRef; DecRef] in
  Inv init /\ positive_until_end (refs init) ops /\ count (refs init) ops = 0.
Proof.
  unfold Inv, init. cbn [refs mapped releases positive_until_end count].
  repeat split; try reflexivity; try (intros _; reflexivity); try (intros; contradiction).
Qed.

(* why the atomicity of DecRef (decrement and zero test in one critical section, tie/RefTie.v) matters:
   if the decrement and the test are separate steps, two holders dropping the last two references
   can both observe zero and the segment is released twice *)
Inductive op2 := Dec2 | Test2.
Definition step2 (s : st) (o : op2) : st :=
  match o with
  | Dec2 => {| refs := refs s - 1; mapped := mapped s; releases := releases s |}
  | Test2 => if refs s =? 0 then {| refs := refs s; mapped := false; releases := S (releases s) |} else s
  end.
Theorem C20_split_decref_refuted :
  exists sched, releases (fold_left step2 sched (step init AddRef)) = 2%nat.
Proof. exists [Dec2; Dec2; Test2; Test2]. reflexivity. Qed.

Print Assumptions C20_refcount.
Print Assumptions C20_split_decref_refuted.
