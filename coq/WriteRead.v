(* C01 / C09: writer and reader of one postings list, composed.
   Writer (section_inverted_text_index.go writeDicts + intcoder.go): every hit's freq/norm entry is
   Added to the freq/norm chunkedIntCoder, every hit with locations Adds its location block to the
   location coder; Close; writePostings emits for each stream: uvarint nChunks, cumulative end
   offsets, the chunk bytes.  Reader (Layout.v): stream_chunks + decode_hits.
   Theorem: for every strictly ascending list of well-formed hits and every chunk size for which all
   documents fall inside the chunk table, reading what was written returns the hits. *)
From Coq Require Import List NArith ZArith Lia Bool Sorted Arith.
From Coq Require Import ZifyN ZifyNat ZifyBool.
Import ListNotations.
Require Import Opt Bytes Kernel Streams Chunks Spec Layout LayoutProof.
Open Scope N_scope.
Ltac Zify.zify_post_hook ::= Z.div_mod_to_equations.

Section WR.
Variable ft : list frec.
Variable cs : N.
Hypothesis Hcs : 0 < cs.
Variable total : nat.
Hypothesis Htotal : (0 < total)%nat.
Variable hits : list (shit).
Hypothesis Hsorted : StronglySorted N.lt (map fst hits).
Hypothesis Hwf : Forall wf_hit hits.
Hypothesis Hin : forall h, In h hits -> fst h / cs < N.of_nat total.

(* what the writer Adds to the two coders *)
Definition fitems : list (Chunks.item) := map (fun h => (fst h, enc_f h)) hits.
Definition litems : list (Chunks.item) := map (fun h => (fst h, enc_l h)) (filter (fun h => hasLocs (snd h)) hits).

Definition chunks_of_coder (items : list Chunks.item) : list bytes := map (cbytes cs items) (seq 0 total).

(* bytes of a stream as writePostings emits them from a closed coder *)
Definition stream_bytes (c : coder) : bytes :=
  uv (N.of_nat (length (c_lens c))) ++ flat_map uv (Chunks.cum_ends (c_lens c)) ++ c_final c.

Lemma eqb_chunk d c : Nat.eqb (N.to_nat (d / cs)) (N.to_nat c) = (d / cs =? c).
Proof.
  destruct (N.eqb_spec (d / cs) c) as [->|Hne]; [apply Nat.eqb_refl|]. apply Nat.eqb_neq.
  intros H. apply Hne. now apply Nnat.N2Nat.inj.
Qed.

Lemma cbytes_f_gen c : forall l, cbytes cs (map (fun h => (fst h, enc_f h)) l) (N.to_nat c) = F cs c l.
Proof.
  unfold cbytes, F. induction l as [|h l IH]; [reflexivity|].
  cbn [map filter]. unfold ichunk at 1. cbn [fst]. rewrite eqb_chunk. unfold in_chunk at 1.
  destruct (fst h / cs =? c); cbn [flat_map snd]; now rewrite IH.
Qed.
Lemma cbytes_f c : cbytes cs fitems (N.to_nat c) = F cs c hits.
Proof. apply cbytes_f_gen. Qed.

Lemma cbytes_l_gen c : forall l,
  cbytes cs (map (fun h => (fst h, enc_l h)) (filter (fun h => hasLocs (snd h)) l)) (N.to_nat c) = Lb cs c l.
Proof.
  unfold cbytes, Lb. induction l as [|h l IH]; [reflexivity|].
  cbn [filter]. destruct (hasLocs (snd h)) eqn:EL.
  - cbn [map filter]. unfold ichunk at 1. cbn [fst]. rewrite eqb_chunk. unfold in_chunk at 1.
    destruct (fst h / cs =? c); cbn [flat_map snd]; now rewrite IH.
  - assert (El: enc_l h = []) by (unfold enc_l; now rewrite EL).
    unfold in_chunk at 1. destruct (fst h / cs =? c); [|exact IH].
    cbn [flat_map]. rewrite El. cbn [app]. exact IH.
Qed.
Lemma cbytes_l c : cbytes cs litems (N.to_nat c) = Lb cs c hits.
Proof. apply cbytes_l_gen. Qed.

Lemma nthN_map_seq {A} (g : nat -> A) n : forall a c, (N.to_nat c < n)%nat ->
  nthN (map g (seq a n)) c = Some (g (a + N.to_nat c)%nat).
Proof.
  induction n as [|n IH]; intros a c Hc; [lia|]. cbn [seq map nthN].
  destruct (c =? 0) eqn:E.
  - apply N.eqb_eq in E. subst. cbn. now rewrite Nat.add_0_r.
  - apply N.eqb_neq in E. rewrite IH by lia. f_equal. f_equal. lia.
Qed.
Lemma nthN_map_seq_out {A} (g : nat -> A) n : forall a c, (n <= N.to_nat c)%nat -> nthN (map g (seq a n)) c = None.
Proof.
  induction n as [|n IH]; intros a c Hc; [reflexivity|]. cbn [seq map nthN].
  assert ((c =? 0) = false) as -> by lia. apply IH. lia.
Qed.

Lemma chunk_of_f c : chunk_of (chunks_of_coder fitems) c = F cs c hits.
Proof.
  unfold chunk_of, chunks_of_coder. destruct (Nat.lt_ge_cases (N.to_nat c) total) as [Hc|Hc].
  - rewrite nthN_map_seq by exact Hc. cbn [Nat.add]. apply cbytes_f.
  - rewrite nthN_map_seq_out by exact Hc. symmetry.
    apply (proj1 (none_in_chunk cs c hits ltac:(intros h Hh; specialize (Hin h Hh); lia))).
Qed.
Lemma chunk_of_l c : chunk_of (chunks_of_coder litems) c = Lb cs c hits.
Proof.
  unfold chunk_of, chunks_of_coder. destruct (Nat.lt_ge_cases (N.to_nat c) total) as [Hc|Hc].
  - rewrite nthN_map_seq by exact Hc. cbn [Nat.add]. apply cbytes_l.
  - rewrite nthN_map_seq_out by exact Hc. symmetry.
    apply (proj2 (none_in_chunk cs c hits ltac:(intros h Hh; specialize (Hin h Hh); lia))).
Qed.

(* the reader's decoder applied to the chunk tables the writer's coders hold *)
Theorem decode_of_coder_chunks :
  decode_hits ft cs (chunks_of_coder fitems) (chunks_of_coder litems) (map fst hits) (None, [], []) =
  mapopt (spec_hit ft) hits.
Proof.
  apply (postings_stream_roundtrip ft cs Hcs (chunks_of_coder fitems) (chunks_of_coder litems) hits chunk_of_f chunk_of_l Hsorted Hwf).
Qed.
End WR.
Print Assumptions decode_of_coder_chunks.

(* ---------- from the imperative coder to the bytes, and back ---------- *)
Section WR2.
Variable ft : list frec.
Variable cs : N.
Hypothesis Hcs : 0 < cs.
Variable total : nat.
Hypothesis Htotal : (0 < total)%nat.
Hypothesis Htot_small : N.of_nat total < max_count.

Lemma cum_same acc lens : Chunks.cum_from acc lens = LayoutProof.cum_from acc lens.
Proof. revert acc; induction lens as [|l r IH]; intros acc; cbn; [reflexivity|now rewrite IH]. Qed.

Lemma list_eq_nth (a b : list N) : length a = length b -> (forall j, (j < length a)%nat -> nth j a 0 = nth j b 0) -> a = b.
Proof.
  revert b; induction a as [|x a IH]; intros [|y b] Hl Hn; cbn in Hl; try lia; [reflexivity|].
  f_equal; [apply (Hn O); cbn; lia|]. apply IH; [lia|]. intros j Hj. apply (Hn (S j)). cbn. lia.
Qed.

Lemma stream_of_coder (items : list Chunks.item) : Mono cs items ->
  (forall it, In it items -> (ichunk cs it < total)%nat) ->
  stream_bytes (run cs total items) = enc_stream (chunks_of_coder cs total items).
Proof.
  intros HM Ht. destruct (coder_ok cs Hcs total items Htotal HM Ht) as (Hf & Hl & Hn).
  unfold stream_bytes, enc_stream, chunks_of_coder. rewrite Hf, Hl, map_length, seq_length.
  assert (Hlens: c_lens (run cs total items) = map nlenb (map (cbytes cs items) (seq 0 total))).
  { apply list_eq_nth; [now rewrite !map_length, seq_length|].
    intros j Hj. rewrite Hl in Hj. rewrite Hn by exact Hj.
    rewrite map_map. rewrite (nth_indep _ 0 (nlenb (cbytes cs items 0))) by (rewrite map_length, seq_length; exact Hj).
    rewrite (map_nth (fun k => nlenb (cbytes cs items k)) (seq 0 total) O j). rewrite seq_nth by exact Hj. reflexivity. }
  rewrite Hlens. unfold Chunks.cum_ends. now rewrite cum_same.
Qed.

Variable hits : list shit.
Hypothesis Hsorted : StronglySorted N.lt (map fst hits).
Hypothesis Hwf : Forall wf_hit hits.
Hypothesis Hin : forall h, In h hits -> fst h / cs < N.of_nat total.

Lemma sorted_mono (f : shit -> bytes) : forall l, StronglySorted N.lt (map fst l) -> Mono cs (map (fun h => (fst h, f h)) l).
Proof.
  intros l HS l1 a l2 Heq x Hx.
  (* a and x come from hits y, z with doc z < doc y *)
  assert (Hlt: fst x <= fst a).
  { revert l1 Heq x Hx HS. induction l as [|h l IH]; intros l1 Heq x Hx HS; [destruct l1; discriminate|].
    destruct l1 as [|y l1]; [destruct Hx|]. cbn [map app] in Heq. injection Heq as Hy Heq.
    cbn [map] in HS. inversion HS as [|? ? HS' HF]; subst.
    destruct Hx as [<-|Hx].
    - cbn [fst]. rewrite Forall_forall in HF.
      assert (In (fst a) (map fst l)).
      { assert (Ha: In a (l1 ++ a :: l2)) by (apply in_or_app; right; now left).
        rewrite <- Heq in Ha. apply in_map_iff in Ha as (h0 & <- & Hh0). cbn [fst]. now apply in_map. }
      specialize (HF _ H). lia.
    - eapply IH; eauto. }
  unfold ichunk. pose proof (N.div_le_mono (fst x) (fst a) cs ltac:(lia) Hlt). lia.
Qed.

Lemma sorted_filter (p : shit -> bool) : forall l, StronglySorted N.lt (map fst l) -> StronglySorted N.lt (map fst (filter p l)).
Proof.
  induction l as [|h l IH]; intros HS; [constructor|]. cbn [map] in HS. inversion HS as [|? ? HS' HF]; subst.
  cbn [filter]. destruct (p h); [|now apply IH]. cbn [map]. constructor; [now apply IH|].
  rewrite Forall_forall in *. intros d Hd. apply HF. apply in_map_iff in Hd as (y & <- & Hy).
  apply filter_In in Hy as [Hy _]. now apply in_map.
Qed.

(* C01 / C09: reading what the writer wrote returns the postings list *)
Theorem postings_write_read : forall pre1 rest1 pre2 rest2, pre1 <> [] -> pre2 <> [] ->
  Forall u64 (LayoutProof.cum_from 0 (map nlenb (chunks_of_coder cs total (fitems hits)))) ->
  Forall u64 (LayoutProof.cum_from 0 (map nlenb (chunks_of_coder cs total (litems hits)))) ->
  (do fch <- stream_chunks (pre1 ++ stream_bytes (run cs total (fitems hits)) ++ rest1) (N.of_nat (length pre1));
   do lch <- stream_chunks (pre2 ++ stream_bytes (run cs total (litems hits)) ++ rest2) (N.of_nat (length pre2));
   decode_hits ft cs fch lch (map fst hits) (None, [], [])) = mapopt (spec_hit ft) hits.
Proof.
  intros pre1 rest1 pre2 rest2 Hp1 Hp2 Hu1 Hu2.
  assert (Hit: forall f l it, (forall h, In h l -> fst h / cs < N.of_nat total) -> In it (map (fun h : shit => (fst h, f h)) l) -> (ichunk cs it < total)%nat).
  { intros f l it Hl Hi. apply in_map_iff in Hi as (h & <- & Hh). unfold ichunk. cbn [fst]. specialize (Hl h Hh). lia. }
  rewrite (stream_of_coder (fitems hits)); [|apply sorted_mono; exact Hsorted|intros it; apply Hit; exact Hin].
  rewrite (stream_of_coder (litems hits)).
  2:{ apply sorted_mono. apply sorted_filter. exact Hsorted. }
  2:{ intros it. apply Hit. intros h Hh. apply Hin. now apply filter_In in Hh. }
  rewrite chunked_stream_roundtrip; [|exact Hp1|unfold chunks_of_coder; now rewrite map_length, seq_length|exact Hu1].
  cbn [bindo].
  rewrite chunked_stream_roundtrip; [|exact Hp2|unfold chunks_of_coder; now rewrite map_length, seq_length|exact Hu2].
  cbn [bindo].
  apply (decode_of_coder_chunks ft cs Hcs total Htotal hits Hsorted Hwf Hin).
Qed.
End WR2.
Print Assumptions postings_write_read.
