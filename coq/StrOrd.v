(* byte strings under bytes.Compare (Spec.scmp): a strict total order *)
From Coq Require Import List NArith Lia Bool.
Import ListNotations.
Require Import Spec.
Open Scope N_scope.

Lemma scmp_refl a : scmp a a = Eq.
Proof. induction a as [|x a IH]; cbn; [reflexivity|]. now rewrite N.compare_refl. Qed.

Lemma scmp_eq a : forall b, scmp a b = Eq -> a = b.
Proof.
  induction a as [|x a IH]; intros [|y b] H; cbn in H; try discriminate; [reflexivity|].
  destruct (x ?= y) eqn:E; try discriminate. apply N.compare_eq in E. subst. f_equal. now apply IH.
Qed.

Lemma scmp_antisym a : forall b, scmp b a = CompOpp (scmp a b).
Proof.
  induction a as [|x a IH]; intros [|y b]; cbn; try reflexivity.
  rewrite (N.compare_antisym x y). destruct (x ?= y); cbn; auto.
Qed.

Lemma scmp_lt_gt a b : scmp a b = Lt <-> scmp b a = Gt.
Proof. rewrite (scmp_antisym a b). destruct (scmp a b); cbn; split; congruence. Qed.

Lemma scmp_lt_trans a : forall b c, scmp a b = Lt -> scmp b c = Lt -> scmp a c = Lt.
Proof.
  induction a as [|x a IH]; intros [|y b] [|z c] H1 H2; cbn in *; try discriminate; try reflexivity.
  destruct (x ?= y) eqn:E1; try discriminate.
  - apply N.compare_eq in E1. subst y. destruct (x ?= z) eqn:E2; try discriminate; [|reflexivity]. eapply IH; eauto.
  - destruct (y ?= z) eqn:E2; try discriminate.
    + apply N.compare_eq in E2. subst z. now rewrite E1.
    + apply N.compare_lt_iff in E1. apply N.compare_lt_iff in E2. assert (Hxz: x < z) by (eapply N.lt_trans; eauto). apply N.compare_lt_iff in Hxz. now rewrite Hxz.
Qed.

Lemma scmp_nil_le b : scmp [] b <> Gt.
Proof. destruct b; cbn; discriminate. Qed.

Lemma scmp_lt_irrefl a : scmp a a <> Lt.
Proof. rewrite scmp_refl. discriminate. Qed.
