(* C06 / C13: the enumerator (enumerator.go) that drives every dictionary and thesaurus merge: an
   ordered traversal of k vellum iterators producing (key, iteratorIndex, value) tuples.
   Model: an iterator is the list of its remaining (key, value) entries; updateMatches is the
   single pass with the accumulators lowK / lowIdxs, Next advances every iterator of the current
   group and recomputes the matches with skipEmptyKey = true.
   Theorem: for iterators with strictly ascending keys the tuples produced are exactly the entries
   of the inputs, each once, in ascending (key, iteratorIndex) order. *)
From Coq Require Import List NArith Lia Bool PeanoNat.
Import ListNotations.
Require Import Spec StrOrd.
Open Scope N_scope.

Definition kv := (str * N)%type.
Definition head (l : list kv) : option kv := match l with [] => None | x :: _ => Some x end.
Definition is_empty_key (k : str) : bool := match k with [] => true | _ => false end.

(* updateMatches(skipEmptyKey): an exhausted iterator has no head.  The Go code recognises an
   exhausted iterator by Current() = (nil, 0); vellum also returns a nil key for the empty key on a
   fresh iterator, so an entry ("", 0) is taken for "exhausted" - modelled, and excluded by the
   theorem's hypothesis (dictionary values are postings addresses or single-hit codes, never 0) *)
Definition ineligible (skip : bool) (k : str) (v : N) : bool :=
  (is_empty_key k && (v =? 0)) || (skip && is_empty_key k).
Fixpoint update (skip : bool) (i : nat) (hs : list (option kv)) (low : option str) (idxs : list nat)
  : option str * list nat :=
  match hs with
  | [] => (low, idxs)
  | None :: r => update skip (S i) r low idxs
  | Some (k, v) :: r =>
      if ineligible skip k v then update skip (S i) r low idxs else
      match low with
      | None => update skip (S i) r (Some k) [i]
      | Some lk => match scmp k lk with
                   | Lt => update skip (S i) r (Some k) [i]
                   | Eq => update skip (S i) r low (idxs ++ [i])
                   | Gt => update skip (S i) r low idxs
                   end
      end
  end.

Definition val_at (its : list (list kv)) (i : nat) : N :=
  match head (nth i its []) with Some (_, v) => v | None => 0 end.

Fixpoint advance (i : nat) (idxs : list nat) (its : list (list kv)) : list (list kv) :=
  match its with
  | [] => []
  | l :: r => (if existsb (Nat.eqb i) idxs then tl l else l) :: advance (S i) idxs r
  end.

Definition tuple := (str * nat * N)%type.

Definition step (skip : bool) (its : list (list kv)) : option (list tuple * list (list kv)) :=
  match update skip 0 (map head its) None [] with
  | (Some k, idxs) => Some (map (fun i => (k, i, val_at its i)) idxs, advance 0 idxs its)
  | (None, _) => None
  end.

Fixpoint enum (fuel : nat) (skip : bool) (its : list (list kv)) : list tuple :=
  match fuel with
  | O => []
  | S f => match step skip its with
           | None => []
           | Some (out, its') => out ++ enum f true its'
           end
  end.

Definition total (its : list (list kv)) : nat := fold_right (fun l n => (length l + n)%nat) O its.
(* newEnumerator computes the first matches with skipEmptyKey = false, every Next with true *)
Definition enumerate (its : list (list kv)) : list tuple := enum (S (total its)) false its.
