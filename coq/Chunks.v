(* SPIKE (round 0): chunk table (modifyLengthsToEndOffsets / readChunkBoundary / loadChunk) and the
   imperative chunkedIntCoder (Add / AddBytes / Close) against its functional meaning. *)
From Coq Require Import List NArith Lia Bool Arith PeanoNat.
From Coq Require Import ZifyN ZifyNat ZifyBool.
Import ListNotations.
Require Import Bytes.
Open Scope N_scope.

Definition nlen {A} (l : list A) : N := N.of_nat (length l).

(* modifyLengthsToEndOffsets *)
Fixpoint cum_from (acc : N) (lens : list N) : list N :=
  match lens with [] => [] | l :: r => (acc + l) :: cum_from (acc + l) r end.
Definition cum_ends := cum_from 0.

(* readChunkBoundary, with the start of chunk 0 given *)
Definition cstart (base : N) (c : nat) (ends : list N) : N :=
  match c with O => base | S c' => nth c' ends 0 end.

(* loadChunk: the bytes of chunk c *)
Definition load_chunk (base : N) (c : nat) (ends : list N) (data : bytes) : bytes :=
  let s := cstart base c ends in
  firstn (N.to_nat (nth c ends 0 - s)) (skipn (N.to_nat s) data).

Lemma load_chunk_gen : forall chunks c acc pre rest,
  length pre = N.to_nat acc -> (c < length chunks)%nat ->
  load_chunk acc c (cum_from acc (map nlen chunks)) (pre ++ concat chunks ++ rest) = nth c chunks [].
Proof.
  induction chunks as [|ch chs IH]; intros c acc pre rest Hp Hc; [cbn in Hc; lia|].
  destruct c as [|c'].
  - unfold load_chunk. cbn [cstart map cum_from nth concat].
    replace (acc + nlen ch - acc) with (nlen ch) by lia.
    rewrite <- Hp, skipn_app, skipn_all, Nat.sub_diag. cbn [skipn app].
    unfold nlen. rewrite Nnat.Nat2N.id. rewrite <- app_assoc.
    rewrite firstn_app, Nat.sub_diag, firstn_all. cbn [firstn]. now rewrite app_nil_r.
  - cbn [length] in Hc.
    specialize (IH c' (acc + nlen ch) (pre ++ ch) rest).
    rewrite app_length in IH. unfold nlen in IH at 1.
    specialize (IH ltac:(unfold nlen; lia) ltac:(lia)).
    cbn [map cum_from concat nth].
    unfold load_chunk in *. cbn [cstart nth].
    replace (pre ++ (ch ++ concat chs) ++ rest) with ((pre ++ ch) ++ concat chs ++ rest)
      by (rewrite <- !app_assoc; reflexivity).
    destruct c' as [|c'']; cbn [cstart nth] in *; exact IH.
Qed.

Theorem load_chunk_ok chunks c rest : (c < length chunks)%nat ->
  load_chunk 0 c (cum_ends (map nlen chunks)) (concat chunks ++ rest) = nth c chunks [].
Proof. intros. apply (load_chunk_gen chunks c 0 [] rest); [reflexivity|assumption]. Qed.

(* ---------- the imperative coder ---------- *)
Section Coder.
Variable cs : N.
Hypothesis Hcs : 0 < cs.

Definition item := (N * bytes)%type.   (* (docNum, already-encoded varints) *)
Definition ichunk (it : item) : nat := N.to_nat (fst it / cs).

Record coder := { c_final : bytes; c_buf : bytes; c_lens : list N; c_cur : nat }.

Fixpoint set_nth (k : nat) (v : N) (l : list N) : list N :=
  match l, k with
  | [], _ => []
  | _ :: r, O => v :: r
  | x :: r, S k' => x :: set_nth k' v r
  end.

(* Close: record the length of the current chunk and append its bytes *)
Definition close (c : coder) : coder :=
  {| c_final := c_final c ++ c_buf c; c_buf := c_buf c;
     c_lens := set_nth (c_cur c) (nlen (c_buf c)) (c_lens c); c_cur := c_cur c |}.

(* Add / AddBytes *)
Definition add (c : coder) (it : item) : coder :=
  let ch := ichunk it in
  let c1 := if Nat.eqb ch (c_cur c) then c
            else let c' := close c in
                 {| c_final := c_final c'; c_buf := []; c_lens := c_lens c'; c_cur := ch |} in
  {| c_final := c_final c1; c_buf := c_buf c1 ++ snd it; c_lens := c_lens c1; c_cur := c_cur c1 |}.

Definition init (total : nat) : coder :=
  {| c_final := []; c_buf := []; c_lens := repeat 0 total; c_cur := O |}.

Definition run (total : nat) (items : list item) : coder := close (fold_left add items (init total)).

(* functional meaning *)
Definition cbytes (items : list item) (k : nat) : bytes :=
  flat_map snd (filter (fun it => Nat.eqb (ichunk it) k) items).

Lemma cbytes_app items it k :
  cbytes (items ++ [it]) k = cbytes items k ++ (if Nat.eqb (ichunk it) k then snd it else []).
Proof.
  unfold cbytes. rewrite filter_app, flat_map_app. cbn [filter].
  destruct (Nat.eqb (ichunk it) k); cbn [flat_map]; now rewrite ?app_nil_r.
Qed.

Lemma set_nth_length k v l : length (set_nth k v l) = length l.
Proof. revert k; induction l as [|x l IH]; intros [|k]; cbn; auto. Qed.

Lemma nth_set_nth k v l j : (k < length l)%nat ->
  nth j (set_nth k v l) 0 = if Nat.eqb j k then v else nth j l 0.
Proof.
  revert k j; induction l as [|x l IH]; intros k j Hk; [cbn in Hk; lia|].
  destruct k as [|k]; destruct j as [|j]; cbn [set_nth nth Nat.eqb]; auto.
  apply IH. cbn in Hk. lia.
Qed.

Definition mx (pre : list item) : nat := fold_right (fun it m => Nat.max (ichunk it) m) O pre.

Lemma mx_ge pre it : In it pre -> (ichunk it <= mx pre)%nat.
Proof. induction pre as [|x pre IH]; intros []; cbn [mx fold_right]; [subst; lia|specialize (IH H); fold (mx pre); lia]. Qed.

Lemma mx_le pre b : (forall x, In x pre -> (ichunk x <= b)%nat) -> (mx pre <= b)%nat.
Proof.
  induction pre as [|x pre IH]; intros H; cbn [mx fold_right]; [lia|]. fold (mx pre).
  specialize (H x (or_introl eq_refl)) as Hx. specialize (IH ltac:(intros y Hy; apply H; now right)). lia.
Qed.

Lemma mx_snoc pre it : mx (pre ++ [it]) = Nat.max (mx pre) (ichunk it).
Proof. induction pre as [|x pre IH]; cbn [mx fold_right app]; [lia|]. fold (mx (pre ++ [it])) (mx pre). lia. Qed.

Definition Inv (total : nat) (pre : list item) (c : coder) : Prop :=
  let k := c_cur c in
  k = mx pre /\ (k < total)%nat /\ length (c_lens c) = total /\
  c_final c = concat (map (cbytes pre) (seq 0 k)) /\
  c_buf c = cbytes pre k /\
  (forall j, nth j (c_lens c) 0 = if (j <? k)%nat then nlen (cbytes pre j) else 0).

Lemma cbytes_none pre k : (forall it, In it pre -> ichunk it <> k) -> cbytes pre k = [].
Proof.
  intros H. unfold cbytes. induction pre as [|x pre IH]; [reflexivity|]. cbn [filter].
  assert (Nat.eqb (ichunk x) k = false) as -> by (apply Nat.eqb_neq; apply H; now left).
  apply IH. intros it Hi. apply H. now right.
Qed.

Lemma concat_map_seq_ext (f g : nat -> bytes) a n :
  (forall j, (a <= j < a + n)%nat -> f j = g j) -> concat (map f (seq a n)) = concat (map g (seq a n)).
Proof.
  revert a; induction n as [|n IH]; intros a H; [reflexivity|]. cbn [seq map concat].
  rewrite H by lia. f_equal. apply IH. intros j Hj. apply H. lia.
Qed.

Lemma concat_map_seq_nil (f : nat -> bytes) a n :
  (forall j, (a <= j < a + n)%nat -> f j = []) -> concat (map f (seq a n)) = [].
Proof.
  revert a; induction n as [|n IH]; intros a H; [reflexivity|]. cbn [seq map concat].
  rewrite H by lia. cbn [app]. apply IH. intros j Hj. apply H. lia.
Qed.

Lemma concat_map_seq_split (f : nat -> bytes) a b : (a <= b)%nat ->
  concat (map f (seq 0 b)) = concat (map f (seq 0 a)) ++ concat (map f (seq a (b - a))).
Proof.
  intros H. replace b with (a + (b - a))%nat at 1 by lia.
  rewrite seq_app, map_app, concat_app. reflexivity.
Qed.

Lemma cbytes_snoc_other pre it j : ichunk it <> j -> cbytes (pre ++ [it]) j = cbytes pre j.
Proof.
  intros H. rewrite cbytes_app. assert (Nat.eqb (ichunk it) j = false) as -> by now apply Nat.eqb_neq.
  now rewrite app_nil_r.
Qed.

Lemma add_inv total pre c it : Inv total pre c ->
  (forall x, In x pre -> (ichunk x <= ichunk it)%nat) -> (ichunk it < total)%nat ->
  Inv total (pre ++ [it]) (add c it).
Proof.
  intros (Hk & Hkt & Hlen & Hfin & Hbuf & Hlens) Hmono Hit.
  pose proof (mx_le pre (ichunk it) Hmono) as Hle.
  unfold add. destruct (Nat.eqb (ichunk it) (c_cur c)) eqn:E.
  - apply Nat.eqb_eq in E. unfold Inv. cbn [c_cur c_final c_buf c_lens].
    split; [rewrite mx_snoc; lia|]. split; [exact Hkt|]. split; [exact Hlen|].
    split; [|split].
    + rewrite Hfin. apply concat_map_seq_ext. intros j Hj. symmetry. apply cbytes_snoc_other. lia.
    + rewrite cbytes_app, Hbuf. assert (Nat.eqb (ichunk it) (c_cur c) = true) as -> by (apply Nat.eqb_eq; lia).
      reflexivity.
    + intros j. rewrite Hlens. destruct (j <? c_cur c)%nat eqn:Ej; [|reflexivity].
      apply Nat.ltb_lt in Ej. rewrite cbytes_snoc_other by lia. reflexivity.
  - apply Nat.eqb_neq in E.
    assert (Hgt: (c_cur c < ichunk it)%nat) by lia.
    unfold Inv, close. cbn [c_cur c_final c_buf c_lens].
    split; [rewrite mx_snoc; lia|]. split; [exact Hit|]. split; [now rewrite set_nth_length|].
    assert (Hnone: forall j, (c_cur c < j)%nat -> cbytes pre j = []).
    { intros j Hj. apply cbytes_none. intros x Hx. pose proof (mx_ge pre x Hx). lia. }
    split; [|split].
    + rewrite (concat_map_seq_split _ (S (c_cur c)) (ichunk it)) by lia.
      rewrite seq_S, map_app, concat_app. cbn [map concat]. rewrite app_nil_r.
      rewrite (concat_map_seq_nil _ (S (c_cur c))).
      2:{ intros j Hj. rewrite cbytes_snoc_other by lia. apply Hnone. lia. }
      rewrite app_nil_r. rewrite Hfin, Hbuf. f_equal.
      * apply concat_map_seq_ext. intros j Hj. symmetry. apply cbytes_snoc_other. lia.
      * symmetry. apply cbytes_snoc_other. lia.
    + rewrite cbytes_app, Nat.eqb_refl, Hnone by lia. reflexivity.
    + intros j. rewrite nth_set_nth by lia. rewrite Hlens.
      destruct (Nat.eqb j (c_cur c)) eqn:Ej.
      * apply Nat.eqb_eq in Ej. subst j. assert ((c_cur c <? ichunk it)%nat = true) as -> by (apply Nat.ltb_lt; lia).
        rewrite cbytes_snoc_other by lia. now rewrite Hbuf.
      * apply Nat.eqb_neq in Ej. destruct (j <? c_cur c)%nat eqn:Ej2.
        -- apply Nat.ltb_lt in Ej2. assert ((j <? ichunk it)%nat = true) as -> by (apply Nat.ltb_lt; lia).
           rewrite cbytes_snoc_other by lia. reflexivity.
        -- apply Nat.ltb_ge in Ej2. destruct (j <? ichunk it)%nat eqn:Ej3; [|reflexivity].
           apply Nat.ltb_lt in Ej3. rewrite cbytes_snoc_other by lia. rewrite Hnone by lia. reflexivity.
Qed.

Definition Mono (items : list item) : Prop :=
  forall l1 a l2, items = l1 ++ a :: l2 -> forall x, In x l1 -> (ichunk x <= ichunk a)%nat.

Lemma fold_inv total : forall items pre c, Inv total pre c -> Mono (pre ++ items) ->
  (forall it, In it items -> (ichunk it < total)%nat) ->
  Inv total (pre ++ items) (fold_left add items c).
Proof.
  induction items as [|it items IH]; intros pre c HI HM Ht; cbn [fold_left].
  - now rewrite app_nil_r.
  - replace (pre ++ it :: items) with ((pre ++ [it]) ++ items) by (rewrite <- app_assoc; reflexivity).
    apply IH.
    + apply add_inv; [exact HI| |apply Ht; now left].
      intros x Hx. apply (HM pre it items eq_refl x Hx).
    + rewrite <- app_assoc. exact HM.
    + intros x Hx. apply Ht. now right.
Qed.

Lemma init_inv total : (0 < total)%nat -> Inv total [] (init total).
Proof.
  intros H. unfold Inv, init. cbn [c_cur c_final c_buf c_lens mx fold_right seq map concat].
  repeat split; auto using repeat_length.
  all: try (intros j; cbn; destruct j; rewrite ?nth_repeat; try reflexivity; destruct total; reflexivity).
Qed.

(* chunkedIntCoder, run over all Add calls of one term and closed, yields exactly the per-chunk
   concatenations and their lengths *)
Theorem coder_ok total items : (0 < total)%nat -> Mono items ->
  (forall it, In it items -> (ichunk it < total)%nat) ->
  let c := run total items in
  c_final c = concat (map (cbytes items) (seq 0 total)) /\
  length (c_lens c) = total /\
  forall j, (j < total)%nat -> nth j (c_lens c) 0 = nlen (cbytes items j).
Proof.
  intros Ht HM Hlt. unfold run.
  pose proof (fold_inv total items [] (init total) (init_inv total Ht) HM Hlt) as HI.
  cbn [app] in HI. set (c := fold_left add items (init total)) in *.
  destruct HI as (Hk & Hkt & Hlen & Hfin & Hbuf & Hlens).
  assert (Hnone: forall j, (c_cur c < j)%nat -> cbytes items j = []).
  { intros j Hj. apply cbytes_none. intros x Hx. pose proof (mx_ge items x Hx). lia. }
  unfold close. cbn [c_final c_lens]. split; [|split].
  - rewrite (concat_map_seq_split _ (S (c_cur c)) total) by lia.
    rewrite seq_S, map_app, concat_app. cbn [map concat]. rewrite app_nil_r.
    rewrite (concat_map_seq_nil _ (S (c_cur c))); [|intros j Hj; apply Hnone; lia].
    rewrite app_nil_r, Hfin, Hbuf. reflexivity.
  - now rewrite set_nth_length.
  - intros j Hj. rewrite nth_set_nth by lia. rewrite Hlens.
    destruct (Nat.eqb j (c_cur c)) eqn:E.
    + apply Nat.eqb_eq in E. subst j. now rewrite Hbuf.
    + apply Nat.eqb_neq in E. destruct (j <? c_cur c)%nat eqn:E2; [reflexivity|].
      apply Nat.ltb_ge in E2. rewrite Hnone by lia. reflexivity.
Qed.
End Coder.

Print Assumptions load_chunk_ok.
Print Assumptions coder_ok.
