(* SPIKE (round 0): C16 - the per-segment vector index cache (faiss_vector_cache.go) : what the shared entry
   holds vs what is computed per call, reference counting, eviction, Clear. *)
From Coq Require Import List Arith Lia Bool PeanoNat ZArith.
Import ListNotations.

Section Cache.
Definition vid := nat.
Definition doc := nat.
Variable tbl : list (vid * doc).                        (* the id -> doc table stored in the section *)
Variable engine : nat -> (vid -> bool) -> list vid.     (* top-k among admissible vectors of the index *)

Record entry := { e_map : list (vid * doc); e_refs : Z }.
Record st := { cache : option entry; created : nat; released : nat; handles : nat }.
Definition init : st := {| cache := None; created := 0; released := 0; handles := 0 |}.

Definition lookup (m : list (vid * doc)) (v : vid) : option doc :=
  option_map snd (find (fun p => Nat.eqb (fst p) v) m).

Definition excl_of (m : list (vid * doc)) (except : doc -> bool) : list vid :=
  map fst (filter (fun p => except (snd p)) m).

(* what a caller gets from InterpretVectorIndex *)
Record handle := { h_map : list (vid * doc); h_excl : list vid }.

(* createAndCacheLOCKED as pinned: vectors of excluded documents are left OUT of the shared map *)
Definition open_pinned (s : st) (except : doc -> bool) : st * handle :=
  match cache s with
  | Some e => ({| cache := Some {| e_map := e_map e; e_refs := (e_refs e + 1)%Z |}; created := created s;
                  released := released s; handles := S (handles s) |},
               {| h_map := e_map e; h_excl := excl_of (e_map e) except |})
  | None => let m := filter (fun p => negb (except (snd p))) tbl in
            ({| cache := Some {| e_map := m; e_refs := 1 |}; created := S (created s);
                released := released s; handles := S (handles s) |},
             {| h_map := m; h_excl := excl_of tbl except |})
  end.

(* the repair: the shared map is always complete; the exclusion list is per call *)
Definition open_fixed (s : st) (except : doc -> bool) : st * handle :=
  match cache s with
  | Some e => ({| cache := Some {| e_map := e_map e; e_refs := (e_refs e + 1)%Z |}; created := created s;
                  released := released s; handles := S (handles s) |},
               {| h_map := e_map e; h_excl := excl_of (e_map e) except |})
  | None => ({| cache := Some {| e_map := tbl; e_refs := 1 |}; created := S (created s);
                released := released s; handles := S (handles s) |},
             {| h_map := tbl; h_excl := excl_of tbl except |})
  end.

(* search + addIDsToPostingsList *)
Definition search (h : handle) (k : nat) : list (doc * vid) :=
  flat_map (fun v => match lookup (h_map h) v with Some d => [(d, v)] | None => [] end)
           (engine k (fun v => negb (existsb (Nat.eqb v) (h_excl h)))).

Definition close_handle (s : st) : st :=
  match cache s with
  | Some e => {| cache := Some {| e_map := e_map e; e_refs := (e_refs e - 1)%Z |}; created := created s;
                 released := released s; handles := pred (handles s) |}
  | None => {| cache := None; created := created s; released := released s; handles := pred (handles s) |}
  end.

(* cleanup(): evict when the tracker says idle (oracle) AND nobody holds a reference *)
Definition tick (s : st) (idle : bool) : st :=
  match cache s with
  | Some e => if idle && (e_refs e <=? 0)%Z
              then {| cache := None; created := created s; released := S (released s); handles := handles s |}
              else s
  | None => s
  end.

(* Clear() on segment close *)
Definition seg_close (s : st) : st :=
  match cache s with
  | Some _ => {| cache := None; created := created s; released := S (released s); handles := handles s |}
  | None => s
  end.

Inductive op := Open (except : doc -> bool) | CloseH | Tick (idle : bool).

Definition step (opn : st -> (doc -> bool) -> st * handle) (s : st) (o : op) : st :=
  match o with Open e => fst (opn s e) | CloseH => close_handle s | Tick i => tick s i end.

(* handles are closed only when open *)
Fixpoint balanced (n : nat) (ops : list op) : Prop :=
  match ops with
  | [] => True
  | Open _ :: r => balanced (S n) r
  | CloseH :: r => 0 < n /\ balanced (pred n) r
  | Tick _ :: r => balanced n r
  end.

Definition LInv (s : st) : Prop :=
  match cache s with
  | Some e => e_refs e = Z.of_nat (handles s) /\ created s = S (released s)
  | None => handles s = 0 /\ created s = released s
  end.

Lemma step_linv opn s o : (opn = open_pinned \/ opn = open_fixed) -> LInv s ->
  (match o with CloseH => 0 < handles s | _ => True end) -> LInv (step opn s o).
Proof.
  intros Hop HI Hb. destruct o as [e| |i]; cbn [step].
  - destruct Hop as [-> | ->]; unfold open_pinned, open_fixed, LInv in *;
      destruct (cache s) as [en|]; cbn; destruct HI as [H1 H2]; split; try lia.
  - unfold close_handle, LInv in *. destruct (cache s) as [en|]; cbn; destruct HI as [H1 H2]; split; try lia.
  - unfold tick, LInv in *. destruct (cache s) as [en|] eqn:Ec; [|now rewrite Ec].
    destruct HI as [H1 H2]. destruct (i && (e_refs en <=? 0)%Z) eqn:E; [|now rewrite Ec].
    cbn. apply andb_true_iff in E as [_ E]. apply Z.leb_le in E. split; lia.
Qed.

(* C16 (lifetime): an index is never released while a handle is open, every created index is released at
   most once, and after all handles are closed and the segment is closed none remains *)
Theorem C16_lifetime opn : (opn = open_pinned \/ opn = open_fixed) ->
  forall ops s, LInv s -> balanced (handles s) ops ->
  let s' := fold_left (step opn) ops s in
  LInv s' /\ (0 < handles s' -> cache s' <> None) /\
  (handles s' = 0 -> created (seg_close s') = released (seg_close s') /\ cache (seg_close s') = None).
Proof.
  intros Hop. induction ops as [|o ops IH]; intros s HI Hb; cbn [fold_left]; cbv zeta.
  - split; [exact HI|]. unfold LInv, seg_close in *. destruct (cache s) as [e|] eqn:Ec; cbn.
    + destruct HI. split; [discriminate|]. intros _. split; [lia|reflexivity].
    + destruct HI. split; [lia|]. intros _. rewrite Ec. split; [lia|reflexivity].
  - apply IH.
    + apply step_linv; [exact Hop|exact HI|]. destruct o; cbn in Hb; tauto.
    + destruct o as [e| |i]; cbn [step balanced] in *.
      * destruct Hop as [-> | ->]; unfold open_pinned, open_fixed; destruct (cache s); cbn; exact Hb.
      * unfold close_handle. destruct (cache s); cbn; tauto.
      * unfold tick. destruct (cache s) as [en|]; [|exact Hb]. destruct (i && (e_refs en <=? 0)%Z); cbn; exact Hb.
Qed.

(* what a search must return: top-k among vectors of non-excluded documents, mapped to their documents *)
Definition spec (except : doc -> bool) (k : nat) : list (doc * vid) :=
  search {| h_map := tbl; h_excl := excl_of tbl except |} k.

(* repaired cache: the answer does not depend on the history *)
Theorem C16_history_independent : forall ops s except k, 
  (match cache s with Some e => e_map e = tbl | None => True end) ->
  let s' := fold_left (step open_fixed) ops s in
  search (snd (open_fixed s' except)) k = spec except k.
Proof.
  induction ops as [|o ops IH]; intros s except k HM; cbn [fold_left].
  - unfold open_fixed, spec. destruct (cache s) as [e|]; cbn [snd]; [now rewrite HM|reflexivity].
  - apply IH. destruct o as [e| |i]; cbn [step].
    + unfold open_fixed. destruct (cache s) as [en|]; cbn; [exact HM|reflexivity].
    + unfold close_handle. destruct (cache s) as [en|]; cbn; [exact HM|exact I].
    + unfold tick. destruct (cache s) as [en|] eqn:Ec; [|now rewrite Ec].
      destruct (i && (e_refs en <=? 0)%Z); [exact I|now rewrite Ec].
Qed.
End Cache.

(* pinned cache: a first query with a non-empty exclusion bitmap poisons later queries *)
Definition tbl3 : list (nat * nat) := [(0, 0); (1, 1); (2, 2)].
Definition engine_ids (k : nat) (adm : nat -> bool) : list nat := firstn k (filter adm [0; 1; 2]).

Theorem C16_history_refuted :
  exists ops except k,
    let s' := fold_left (step (open_pinned tbl3)) ops init in
    search engine_ids (snd (open_pinned tbl3 s' except)) k <> spec tbl3 engine_ids except k.
Proof.
  exists [Open (fun d => Nat.eqb d 0); CloseH], (fun _ => false), 3. vm_compute. discriminate.
Qed.
Print Assumptions C16_lifetime.
Print Assumptions C16_history_independent.
Print Assumptions C16_history_refuted.
