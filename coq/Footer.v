(* SPIKE (round 0): CRC-32/IEEE (hash/crc32.Update as used by CountHashWriter), big-endian words,
   the v16 footer (persistFooter / loadConfig). *)
From Coq Require Import List NArith Lia Bool Arith PeanoNat.
From Coq Require Import ZifyN ZifyNat ZifyBool.
Import ListNotations.
Require Import Bytes.
Open Scope N_scope.

(* ---- CRC-32 (reflected 0xEDB88320), bitwise ---- *)
Definition poly : N := 3988292384.
Definition ff32 : N := 4294967295.

Fixpoint crc_bits (k : nat) (c : N) : N :=
  match k with
  | O => c
  | S k' => crc_bits k' (if N.odd c then N.lxor (N.shiftr c 1) poly else N.shiftr c 1)
  end.
Definition crc_byte (c b : N) : N := crc_bits 8 (N.lxor c b).
Definition crc_raw (c : N) (bs : bytes) : N := fold_left crc_byte bs c.
(* crc32.Update(crc, IEEETable, p) *)
Definition crc_update (crc : N) (bs : bytes) : N := N.lxor (crc_raw (N.lxor crc ff32) bs) ff32.
Definition crc32 (bs : bytes) : N := crc_update 0 bs.

Lemma lxor_ff_invol x : N.lxor (N.lxor x ff32) ff32 = x.
Proof. rewrite N.lxor_assoc, N.lxor_nilpotent, N.lxor_0_r. reflexivity. Qed.

(* CountHashWriter keeps a running CRC: updating with a then b equals updating with a ++ b *)
Theorem crc_update_app c a b : crc_update (crc_update c a) b = crc_update c (a ++ b).
Proof. unfold crc_update, crc_raw. rewrite lxor_ff_invol, fold_left_app. reflexivity. Qed.

(* the standard check value: CRC-32("123456789") = 0xCBF43926 *)
Example crc_check : crc32 [49;50;51;52;53;54;55;56;57] = 3421780262.
Proof. vm_compute. reflexivity. Qed.

(* ---- big-endian fixed-width words ---- *)
Fixpoint be (k : nat) (n : N) : bytes :=
  match k with
  | O => []
  | S k' => (n / 256 ^ N.of_nat k') :: be k' (n mod 256 ^ N.of_nat k')
  end.
Fixpoint unbe (k : nat) (bs : bytes) : option (N * bytes) :=
  match k with
  | O => Some (0, bs)
  | S k' => match bs with
            | [] => None
            | b :: r => match unbe k' r with
                        | Some (v, r') => Some (b * 256 ^ N.of_nat k' + v, r')
                        | None => None
                        end
            end
  end.

Lemma unbe_be k : forall n rest, n < 256 ^ N.of_nat k -> unbe k (be k n ++ rest) = Some (n, rest).
Proof.
  induction k as [|k IH]; intros n rest Hn.
  - cbn in *. assert (n = 0) by lia. subst. reflexivity.
  - cbn [be unbe app]. rewrite IH.
    + f_equal. f_equal. pose proof (N.div_mod n (256 ^ N.of_nat k)) as H.
      assert (256 ^ N.of_nat k <> 0) by (apply N.pow_nonzero; lia). specialize (H H0). lia.
    + apply N.mod_lt. apply N.pow_nonzero. lia.
Qed.

Lemma be_length k n : length (be k n) = k.
Proof. revert n; induction k as [|k IH]; intros n; cbn [be length]; [reflexivity|now rewrite IH]. Qed.

(* ---- the v16 footer ---- *)
Record footer := { numDocs : N; storedIdx : N; fieldsIdx : N; sectionsIdx : N; dvOff : N; chunkMode : N; version : N }.

Definition wf_footer (f : footer) : Prop :=
  numDocs f < 256 ^ 8 /\ storedIdx f < 256 ^ 8 /\ fieldsIdx f < 256 ^ 8 /\ sectionsIdx f < 256 ^ 8 /\
  dvOff f < 256 ^ 8 /\ chunkMode f < 256 ^ 4 /\ version f < 256 ^ 4.

Definition footer_body (f : footer) : bytes :=
  be 8 (numDocs f) ++ be 8 (storedIdx f) ++ be 8 (fieldsIdx f) ++ be 8 (sectionsIdx f) ++ be 8 (dvOff f) ++
  be 4 (chunkMode f) ++ be 4 (version f).

(* persistSegmentBaseToWriter: body, then the footer fields, then the running CRC *)
Definition persist (mem : bytes) (f : footer) : bytes :=
  let body := footer_body f in
  mem ++ body ++ be 4 (crc_update (crc32 mem) body).

Definition footer_size : nat := 52.

(* loadConfig: fixed positions from the end *)
Definition parse (file : bytes) : option (bytes * footer * N) :=
  let n := length file in
  if (n <? footer_size)%nat then None else
  let mem := firstn (n - footer_size) file in
  let ft := skipn (n - footer_size) file in
  match unbe 8 ft with None => None | Some (nd, r1) =>
  match unbe 8 r1 with None => None | Some (si, r2) =>
  match unbe 8 r2 with None => None | Some (fi, r3) =>
  match unbe 8 r3 with None => None | Some (se, r4) =>
  match unbe 8 r4 with None => None | Some (dv, r5) =>
  match unbe 4 r5 with None => None | Some (cm, r6) =>
  match unbe 4 r6 with None => None | Some (ve, r7) =>
  match unbe 4 r7 with None => None | Some (cr, _) =>
    Some (mem, {| numDocs := nd; storedIdx := si; fieldsIdx := fi; sectionsIdx := se; dvOff := dv;
                  chunkMode := cm; version := ve |}, cr)
  end end end end end end end end.

Theorem footer_roundtrip mem f : wf_footer f -> crc_update (crc32 mem) (footer_body f) < 256 ^ 4 ->
  parse (persist mem f) = Some (mem, f, crc32 (mem ++ footer_body f)).
Proof.
  intros (H1 & H2 & H3 & H4 & H5 & H6 & H7) Hc.
  assert (Hcrc: crc32 (mem ++ footer_body f) = crc_update (crc32 mem) (footer_body f)).
  { unfold crc32. now rewrite crc_update_app. }
  rewrite Hcrc. unfold parse, persist.
  set (cv := crc_update (crc32 mem) (footer_body f)) in *.
  assert (Hl: length (footer_body f ++ be 4 cv) = footer_size).
  { unfold footer_body. rewrite !app_length, !be_length. reflexivity. }
  rewrite app_length, Hl.
  assert ((length mem + footer_size <? footer_size)%nat = false) as -> by (apply Nat.ltb_ge; lia).
  replace (length mem + footer_size - footer_size)%nat with (length mem) by lia.
  rewrite firstn_app, Nat.sub_diag, firstn_all. cbn [firstn]. rewrite app_nil_r.
  rewrite skipn_app, skipn_all, Nat.sub_diag. cbn [skipn app].
  unfold footer_body. rewrite <- !app_assoc.
  rewrite unbe_be by assumption. rewrite unbe_be by assumption. rewrite unbe_be by assumption.
  rewrite unbe_be by assumption. rewrite unbe_be by assumption. rewrite unbe_be by assumption.
  rewrite unbe_be by assumption.
  rewrite <- (app_nil_r (be 4 cv)). rewrite unbe_be by exact Hc.
  destruct f; reflexivity.
Qed.

Print Assumptions footer_roundtrip.
Print Assumptions crc_update_app.

(* ---- the CRC always fits 32 bits, so the footer theorem needs no side condition ---- *)
Lemma lxor_lt_pow2 a b n : a < 2 ^ n -> b < 2 ^ n -> N.lxor a b < 2 ^ n.
Proof.
  intros Ha Hb.
  destruct (N.eq_dec (N.lxor a b) 0) as [->|Hne]; [apply N.neq_0_lt_0; apply N.pow_nonzero; lia|].
  assert (Hn: 0 < n).
  { destruct (N.eq_dec n 0) as [->|]; [|lia]. change (2 ^ 0) with 1 in *.
    assert (a = 0) by lia. assert (b = 0) by lia. subst. cbn in Hne. congruence. }
  apply N.log2_lt_pow2; [lia|].
  eapply N.le_lt_trans; [apply N.log2_lxor|].
  apply N.max_lub_lt.
  - destruct (N.eq_dec a 0) as [->|Ha0]; [exact Hn|]. apply N.log2_lt_pow2; lia.
  - destruct (N.eq_dec b 0) as [->|Hb0]; [exact Hn|]. apply N.log2_lt_pow2; lia.
Qed.

Lemma shiftr1_lt c : c < 2 ^ 32 -> N.shiftr c 1 < 2 ^ 32.
Proof. intros H. rewrite N.shiftr_div_pow2. change (2 ^ 1) with 2. apply N.div_lt_upper_bound; lia. Qed.

Lemma crc_bits_lt k : forall c, c < 2 ^ 32 -> crc_bits k c < 2 ^ 32.
Proof.
  induction k as [|k IH]; intros c Hc; cbn [crc_bits]; [exact Hc|]. apply IH.
  destruct (N.odd c); [|now apply shiftr1_lt].
  apply lxor_lt_pow2; [now apply shiftr1_lt|reflexivity].
Qed.

Lemma crc_raw_lt bs : Forall (fun b => b < 256) bs -> forall c, c < 2 ^ 32 -> crc_raw c bs < 2 ^ 32.
Proof.
  induction 1 as [|b bs Hb _ IH]; intros c Hc; cbn [crc_raw fold_left]; [exact Hc|].
  apply IH. unfold crc_byte. apply crc_bits_lt. apply lxor_lt_pow2; [exact Hc|].
  eapply N.lt_trans; [exact Hb|reflexivity].
Qed.

Lemma crc_update_lt crc bs : Forall (fun b => b < 256) bs -> crc < 2 ^ 32 -> crc_update crc bs < 2 ^ 32.
Proof.
  intros Hb Hc. unfold crc_update. apply lxor_lt_pow2; [|reflexivity].
  apply crc_raw_lt; [exact Hb|]. apply lxor_lt_pow2; [exact Hc|reflexivity].
Qed.

Lemma be_lt256 k : forall n, n < 256 ^ N.of_nat k -> Forall (fun b => b < 256) (be k n).
Proof.
  induction k as [|k IH]; intros n Hn; cbn [be]; [constructor|].
  constructor.
  - rewrite Nnat.Nat2N.inj_succ, N.pow_succ_r' in Hn. apply N.div_lt_upper_bound; [apply N.pow_nonzero; lia|lia].
  - apply IH. apply N.mod_lt. apply N.pow_nonzero. lia.
Qed.

Lemma footer_body_bytes f : wf_footer f -> Forall (fun b => b < 256) (footer_body f).
Proof.
  intros (H1 & H2 & H3 & H4 & H5 & H6 & H7). unfold footer_body.
  repeat (apply Forall_app; split); apply be_lt256; assumption.
Qed.

(* the footer theorem without the CRC-width side condition, for byte images *)
Theorem footer_roundtrip_bytes mem f : wf_footer f -> Forall (fun b => b < 256) mem ->
  parse (persist mem f) = Some (mem, f, crc32 (mem ++ footer_body f)).
Proof.
  intros Hw Hm. apply footer_roundtrip; [exact Hw|].
  change (256 ^ 4) with (2 ^ 32). apply crc_update_lt; [now apply footer_body_bytes|].
  unfold crc32. apply crc_update_lt; [exact Hm|reflexivity].
Qed.
Print Assumptions footer_roundtrip_bytes.
