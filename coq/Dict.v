(* SPIKE (round 0): C08 - DictionaryIterator.Next decodes each entry's count into a reused scratch
   PostingsList (dict.go:168-188, posting.go:271-323, 235-249).  Faithful model of the pinned code and of
   the planned repair. *)
From Coq Require Import List NArith Lia Bool.
Import ListNotations.
Open Scope N_scope.

Inductive fstval :=
| General (card : N)            (* offset of a postings record whose bitmap has `card` members *)
| OneHit (doc norm : N).        (* 1-hit encoding; norm <> 0 by W3 *)

(* the fields of the scratch PostingsList that Count() looks at (except = nil during enumeration) *)
Record tmp := { t_card : option N; t_doc1 : N; t_norm1 : N }.
Definition tmp0 : tmp := {| t_card := None; t_doc1 := 0; t_norm1 := 0 |}.

(* PostingsList.read as pinned: the general branch leaves docNum1Hit / normBits1Hit untouched *)
Definition read_pinned (t : tmp) (v : fstval) : tmp :=
  match v with
  | OneHit d n => {| t_card := t_card t; t_doc1 := d; t_norm1 := n |}
  | General c => {| t_card := Some c; t_doc1 := t_doc1 t; t_norm1 := t_norm1 t |}
  end.

(* the repair: the general branch clears the single-hit fields *)
Definition read_fixed (t : tmp) (v : fstval) : tmp :=
  match v with
  | OneHit d n => {| t_card := t_card t; t_doc1 := d; t_norm1 := n |}
  | General c => {| t_card := Some c; t_doc1 := 0; t_norm1 := 0 |}
  end.

(* PostingsList.Count with a nil exclusion bitmap *)
Definition count (t : tmp) : N :=
  if t_norm1 t =? 0 then match t_card t with Some c => c | None => 0 end else 1.

Fixpoint enumerate (rd : tmp -> fstval -> tmp) (t : tmp) (vs : list fstval) : list N :=
  match vs with
  | [] => []
  | v :: r => let t' := rd t v in count t' :: enumerate rd t' r
  end.

Definition true_count (v : fstval) : N := match v with General c => c | OneHit _ _ => 1 end.
Definition wf (v : fstval) : Prop := match v with OneHit _ n => n <> 0 | General _ => True end.

(* pinned code: a single-hit entry followed by a general entry reports 1 instead of the cardinality *)
Theorem C08_counts_refuted :
  exists vs, Forall wf vs /\ enumerate read_pinned tmp0 vs <> map true_count vs.
Proof.
  exists [OneHit 0 1; General 5]. split.
  - repeat constructor; cbn; lia.
  - vm_compute. discriminate.
Qed.

(* repaired code: every entry is reported with its true count, whatever was visited before *)
Theorem C08_counts_fixed : forall vs t, Forall wf vs -> enumerate read_fixed t vs = map true_count vs.
Proof.
  induction vs as [|v vs IH]; intros t H; [reflexivity|].
  inversion H; subst. cbn [enumerate map]. f_equal; [|now apply IH].
  destruct v as [c|d n]; cbn in *; [reflexivity|].
  unfold count. cbn. destruct (n =? 0) eqn:E; [apply N.eqb_eq in E; contradiction|reflexivity].
Qed.
Print Assumptions C08_counts_refuted.
Print Assumptions C08_counts_fixed.

(* ---- the dictionary iterator over a whole dictionary: FST.Search(aut, start, end) selects the
   accepted terms in range, in ascending order; each is decoded into the reused scratch list ---- *)
Require Import Spec Automata.
Definition dict_iter (rd : tmp -> fstval -> tmp) (entries : list (str * fstval)) (a : aut) (lo hi : option str)
  : list (str * N) :=
  let sel := filter (fun e => accepts a (fst e) && in_range lo hi (fst e)) entries in
  combine (map fst sel) (enumerate rd tmp0 (map snd sel)).

Definition dict_spec (entries : list (str * fstval)) (a : aut) (lo hi : option str) : list (str * N) :=
  map (fun e => (fst e, true_count (snd e)))
      (filter (fun e => accepts a (fst e) && in_range lo hi (fst e)) entries).

Theorem C08_dictionary_enumeration : forall entries a lo hi, Forall (fun e => wf (snd e)) entries ->
  dict_iter read_fixed entries a lo hi = dict_spec entries a lo hi.
Proof.
  intros entries a lo hi Hwf. unfold dict_iter, dict_spec.
  set (sel := filter _ entries).
  assert (Hsel: Forall wf (map snd sel)).
  { apply Forall_forall. intros v Hv. apply in_map_iff in Hv as (e & <- & He).
    apply filter_In in He as [He _]. rewrite Forall_forall in Hwf. exact (Hwf e He). }
  rewrite C08_counts_fixed by exact Hsel.
  clear. induction sel as [|e sel IH]; [reflexivity|]. cbn [map combine]. now rewrite IH.
Qed.
Print Assumptions C08_dictionary_enumeration.
