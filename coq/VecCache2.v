(* C16, concurrency of the first open (faiss_vector_cache.go loadFromCache / createAndCacheLOCKED):
   an open is two critical sections - (1) under the read lock: look the entry up; on a hit take a
   reference; on a miss commit to nothing; (2) under the write lock: RE-CHECK the entry; on a hit
   take a reference, otherwise load the index, insert the entry with one reference.
   Threads interleave at the granularity of critical sections.  With the re-check, every
   interleaving keeps the accounting of VecCache.v (exactly one live index per cache entry, reference
   count = open handles); without it two threads that both missed each load an index and one of them
   is never released. *)
From Coq Require Import List Arith Lia Bool PeanoNat ZArith.
Import ListNotations.
Require Import VecCache.

Section Two.
Variable tbl : list (vid * doc).

(* pending = threads that missed under the read lock and have not yet entered the write lock *)
Inductive op2 := Look (except : doc -> bool) | Enter (except : doc -> bool) | Close2 | Tick2 (idle : bool).

Definition hit (s : st) : st :=
  match cache s with
  | Some e => {| cache := Some {| e_map := e_map e; e_refs := (e_refs e + 1)%Z |}; created := created s;
                 released := released s; handles := S (handles s) |}
  | None => s
  end.

(* recheck = true: the code as it is; recheck = false: createAndCacheLOCKED without the re-check
   (insertLOCKED declines to replace the entry, the caller still gets - and later "closes" - its own index) *)
Definition step2 (recheck : bool) (sp : st * nat) (o : op2) : st * nat :=
  let (s, p) := sp in
  match o with
  | Look _ => match cache s with Some _ => (hit s, p) | None => (s, S p) end
  | Enter e =>
      match p with
      | O => (s, p)                                  (* nobody is waiting: not a step of any thread *)
      | S p' =>
        if recheck then (fst (open_fixed tbl s e), p')
        else match cache s with
             | None => (fst (open_fixed tbl s e), p')
             | Some en => ({| cache := Some en; created := S (created s); released := released s;
                              handles := S (handles s) |}, p')
             end
      end
  | Close2 => (close_handle s, p)
  | Tick2 i => (tick s i, p)
  end.

(* handles are closed only when open *)
Fixpoint ok2 (rc : bool) (sp : st * nat) (ops : list op2) : Prop :=
  match ops with
  | [] => True
  | o :: r => (match o with Close2 => 0 < handles (fst sp) | _ => True end) /\ ok2 rc (step2 rc sp o) r
  end.

Lemma step2_linv sp o : LInv (fst sp) ->
  (match o with Close2 => 0 < handles (fst sp) | _ => True end) -> LInv (fst (step2 true sp o)).
Proof.
  destruct sp as [s p]. cbn [fst]. intros HI Hb. destruct o as [e|e| |i]; cbn [step2].
  - destruct (cache s) as [en|] eqn:Ec; cbn [fst]; [|exact HI].
    unfold hit, LInv in *. rewrite Ec in *. cbn. destruct HI. split; lia.
  - destruct p as [|p']; cbn [fst]; [exact HI|].
    exact (step_linv tbl (open_fixed tbl) s (Open e) (or_intror eq_refl) HI I).
  - exact (step_linv tbl (open_fixed tbl) s CloseH (or_intror eq_refl) HI Hb).
  - exact (step_linv tbl (open_fixed tbl) s (Tick i) (or_intror eq_refl) HI I).
Qed.

(* C16 (lifetime, all interleavings of the two critical sections of an open, closes and expiry
   passes): the accounting invariant of VecCache.v holds after every step; hence an index exists
   while a handle is open and, once the handles and the segment are closed, every index created has
   been released exactly once *)
Theorem C16_double_checked_open : forall ops s p, LInv s -> ok2 true (s, p) ops ->
  let s' := fst (fold_left (step2 true) ops (s, p)) in
  LInv s' /\ (0 < handles s' -> cache s' <> None) /\
  (handles s' = 0 -> created (seg_close s') = released (seg_close s') /\ cache (seg_close s') = None).
Proof.
  induction ops as [|o ops IH]; intros s p HI Hok; cbn [fold_left]; cbv zeta.
  - cbn [fst]. exact (C16_lifetime tbl (open_fixed tbl) (or_intror eq_refl) [] s HI I).
  - destruct Hok as [Hb Hok]. pose proof (step2_linv (s, p) o HI Hb) as HI'.
    destruct (step2 true (s, p) o) as [s1 p1] eqn:E. cbn [fst] in HI'. apply (IH s1 p1 HI' Hok).
Qed.

(* without the re-check: two threads miss, both load an index, one is never released *)
Theorem C16_no_recheck_refuted : exists ops,
  ok2 false (init, 0) ops /\
  let s' := fst (fold_left (step2 false) ops (init, 0)) in
  handles s' = 0 /\ created (seg_close s') <> released (seg_close s').
Proof.
  exists [Look (fun _ => false); Look (fun _ => false); Enter (fun _ => false); Enter (fun _ => false); Close2; Close2].
  cbn. repeat split; try lia.
Qed.
End Two.
Print Assumptions C16_double_checked_open.
Print Assumptions C16_no_recheck_refuted.
