(* SPIKE (round 0): C11 - ownership discipline of visitDocumentCtxPool (segment.go:531-644, merge.go:383).
   sync.Pool: Get returns any pooled object or a fresh one; Put adds.  Every pool operation is atomic;
   a schedule is any interleaving of the threads' operations. *)
From Coq Require Import List Arith Lia Bool PeanoNat.
Import ListNotations.

Definition obj := nat.
Definition thread := nat.

Inductive act :=
| Get (t : thread) (o : obj)     (* t receives o (chosen by the pool) *)
| Put (t : thread) (o : obj).

Record st := { pool : list obj; held : list (thread * obj); next_fresh : obj }.
Definition init : st := {| pool := []; held := []; next_fresh := 0 |}.

Fixpoint remove1 (o : obj) (l : list obj) : list obj :=
  match l with [] => [] | x :: r => if Nat.eqb x o then r else x :: remove1 o r end.
Fixpoint removeh (t : thread) (o : obj) (l : list (thread * obj)) : list (thread * obj) :=
  match l with
  | [] => []
  | (t', o') :: r => if Nat.eqb t' t && Nat.eqb o' o then r else (t', o') :: removeh t o r
  end.

(* a Get is legal if o is pooled, or is the next fresh object *)
Definition step (s : st) (a : act) : option st :=
  match a with
  | Get t o =>
      if existsb (Nat.eqb o) (pool s)
      then Some {| pool := remove1 o (pool s); held := (t, o) :: held s; next_fresh := next_fresh s |}
      else if Nat.eqb o (next_fresh s)
      then Some {| pool := pool s; held := (t, o) :: held s; next_fresh := S (next_fresh s) |}
      else None
  | Put t o => Some {| pool := o :: pool s; held := removeh t o (held s); next_fresh := next_fresh s |}
  end.

Fixpoint run (s : st) (tr : list act) : option st :=
  match tr with [] => Some s | a :: r => match step s a with Some s' => run s' r | None => None end end.

Definition copies (o : obj) (s : st) : nat :=
  count_occ Nat.eq_dec (pool s) o + count_occ Nat.eq_dec (map snd (held s)) o.

(* each scratch object is in the pool at most once XOR held by at most one caller *)
Definition exclusive (s : st) : Prop := forall o, copies o s <= 1.

(* a Put is disciplined if the caller holds the object it returns *)
Definition disciplined (s : st) (a : act) : Prop :=
  match a with Put t o => In (t, o) (held s) | Get _ _ => True end.

(* VisitStoredFields whose visitor stops at `_id`, as pinned: Get; Put (early-stop branch); Put (defer) *)
Definition visit_early_pinned (t : thread) (o : obj) : list act := [Get t o; Put t o; Put t o].
(* as repaired: Get; Put (defer) *)
Definition visit_early_fixed (t : thread) (o : obj) : list act := [Get t o; Put t o].

(* pinned code: after one early-terminated visit, two later callers are handed the same object *)
Theorem C11_exclusive_refuted :
  exists tr s, run init tr = Some s /\ ~ exclusive s.
Proof.
  exists (visit_early_pinned 1 0 ++ [Get 2 0; Get 3 0]).
  eexists. split; [vm_compute; reflexivity|].
  intros H. specialize (H 0). vm_compute in H. lia.
Qed.

Lemma count_remove1 o x l : count_occ Nat.eq_dec (remove1 x l) o =
  if Nat.eqb o x then pred (count_occ Nat.eq_dec l o) else count_occ Nat.eq_dec l o.
Proof.
  induction l as [|y l IH]; cbn [remove1 count_occ]; [destruct (Nat.eqb o x); reflexivity|].
  destruct (Nat.eqb y x) eqn:E.
  - apply Nat.eqb_eq in E. subst y. destruct (Nat.eq_dec x o) as [->|Hne].
    + rewrite Nat.eqb_refl. reflexivity.
    + assert (Nat.eqb o x = false) as -> by (apply Nat.eqb_neq; auto). reflexivity.
  - cbn [count_occ]. rewrite IH. destruct (Nat.eq_dec y o) as [->|Hne].
    + assert (Nat.eqb o x = false) as -> by (apply Nat.eqb_neq; apply Nat.eqb_neq in E; auto). reflexivity.
    + reflexivity.
Qed.

Lemma existsb_count o l : existsb (Nat.eqb o) l = true -> 1 <= count_occ Nat.eq_dec l o.
Proof.
  induction l as [|y l IH]; cbn [existsb count_occ]; [discriminate|].
  intros H. apply orb_true_iff in H as [H|H].
  - apply Nat.eqb_eq in H. subst. destruct (Nat.eq_dec y y); [lia|contradiction].
  - specialize (IH H). destruct (Nat.eq_dec y o); lia.
Qed.

Lemma count_removeh t o l o' : In (t, o) l ->
  count_occ Nat.eq_dec (map snd (removeh t o l)) o' =
  if Nat.eqb o' o then pred (count_occ Nat.eq_dec (map snd l) o') else count_occ Nat.eq_dec (map snd l) o'.
Proof.
  induction l as [|[t1 o1] l IH]; intros Hin; [destruct Hin|].
  cbn [removeh]. destruct (Nat.eqb t1 t && Nat.eqb o1 o) eqn:E.
  - apply andb_true_iff in E as [E1 E2]. apply Nat.eqb_eq in E2. subst o1.
    cbn [map snd count_occ]. destruct (Nat.eq_dec o o') as [->|Hne].
    + rewrite Nat.eqb_refl. reflexivity.
    + assert (Nat.eqb o' o = false) as -> by (apply Nat.eqb_neq; auto). reflexivity.
  - destruct Hin as [Hin|Hin].
    + injection Hin as -> ->. rewrite !Nat.eqb_refl in E. discriminate.
    + cbn [map snd count_occ]. rewrite (IH Hin). destruct (Nat.eq_dec o1 o') as [->|Hne]; [|reflexivity].
      destruct (Nat.eqb o' o) eqn:E2; [|reflexivity].
      apply Nat.eqb_eq in E2. subst o'.
      assert (1 <= count_occ Nat.eq_dec (map snd l) o).
      { apply (count_occ_In Nat.eq_dec). apply in_map_iff. exists (t, o). auto. }
      lia.
Qed.

Definition fresh_ok (s : st) : Prop := forall o, next_fresh s <= o -> copies o s = 0.

(* one atomic step of any thread preserves exclusivity, provided Puts are disciplined *)
Lemma step_exclusive s a s' : exclusive s -> fresh_ok s -> disciplined s a -> step s a = Some s' ->
  exclusive s' /\ fresh_ok s'.
Proof.
  intros Hex Hfr Hd Hs. destruct a as [t o|t o]; cbn [step] in Hs.
  - destruct (existsb (Nat.eqb o) (pool s)) eqn:Ee.
    + injection Hs as <-. pose proof (existsb_count o (pool s) Ee) as Hc.
      assert (Hcop: forall o', copies o' {| pool := remove1 o (pool s); held := (t, o) :: held s; next_fresh := next_fresh s |} = copies o' s).
      { intros o'. unfold copies. cbn [pool held map snd count_occ]. rewrite count_remove1.
        destruct (Nat.eq_dec o o') as [->|Hne].
        - rewrite Nat.eqb_refl. lia.
        - assert (Nat.eqb o' o = false) as -> by (apply Nat.eqb_neq; auto). reflexivity. }
      split; intros o'; [rewrite Hcop; apply Hex|intros H; rewrite Hcop; now apply Hfr].
    + destruct (Nat.eqb o (next_fresh s)) eqn:En; [|discriminate]. injection Hs as <-.
      apply Nat.eqb_eq in En. subst o. split.
      * intros o'. unfold copies. cbn [pool held map snd count_occ].
        destruct (Nat.eq_dec (next_fresh s) o') as [<-|Hne].
        -- pose proof (Hfr (next_fresh s) (le_n _)) as H0. unfold copies in H0. lia.
        -- apply Hex.
      * intros o' Ho. unfold copies. cbn [pool held map snd count_occ next_fresh] in *.
        destruct (Nat.eq_dec (next_fresh s) o'); [lia|]. apply Hfr. lia.
  - injection Hs as <-. cbn in Hd.
    assert (Hcop: forall o', copies o' {| pool := o :: pool s; held := removeh t o (held s); next_fresh := next_fresh s |} = copies o' s).
    { intros o'. unfold copies. cbn [pool held count_occ]. rewrite (count_removeh t o (held s) o' Hd).
      destruct (Nat.eq_dec o o') as [->|Hne].
      - rewrite Nat.eqb_refl.
        assert (1 <= count_occ Nat.eq_dec (map snd (held s)) o').
        { apply (count_occ_In Nat.eq_dec). apply in_map_iff. exists (t, o'). auto. }
        lia.
      - assert (Nat.eqb o' o = false) as -> by (apply Nat.eqb_neq; auto). reflexivity. }
    split; intros o'; [rewrite Hcop; apply Hex|intros H; rewrite Hcop; now apply Hfr].
Qed.

(* hence: along every schedule all of whose Puts are disciplined, exclusivity holds at every point *)
Theorem C11_exclusive : forall tr s s', exclusive s -> fresh_ok s ->
  (forall pre a post s1, tr = pre ++ a :: post -> run s pre = Some s1 -> disciplined s1 a) ->
  run s tr = Some s' -> exclusive s'.
Proof.
  induction tr as [|a tr IH]; intros s s' Hex Hfr Hd Hr.
  - cbn in Hr. now injection Hr as <-.
  - cbn [run] in Hr. destruct (step s a) as [s1|] eqn:Es; [|discriminate].
    destruct (step_exclusive s a s1 Hex Hfr (Hd [] a tr s eq_refl eq_refl) Es) as [Hex1 Hfr1].
    apply (IH s1 s' Hex1 Hfr1); [|exact Hr].
    intros pre b post s2 He Hrun. apply (Hd (a :: pre) b post s2); [now rewrite He|].
    cbn [run]. now rewrite Es.
Qed.
Print Assumptions C11_exclusive_refuted.
Print Assumptions C11_exclusive.

(* ---- API level: every reader call that uses the pool is "Get the object, work, Put it back once"
   (VisitStoredFields with or without early stop, DocID, the stored-field pass of a merge) ---- *)
Inductive call := Disciplined | EarlyVisitPinned.
Definition acts_of (t : thread) (o : obj) (c : call) : list act :=
  match c with Disciplined => [Get t o; Put t o] | EarlyVisitPinned => visit_early_pinned t o end.
(* sequential execution: the pool hands out its most recently returned object, or a fresh one *)
Definition choose (s : st) : obj := match pool s with o :: _ => o | [] => next_fresh s end.
Fixpoint run_calls (s : st) (t : thread) (cs : list call) : option st :=
  match cs with
  | [] => Some s
  | c :: r => match run s (acts_of t (choose s) c) with Some s' => run_calls s' (S t) r | None => None end
  end.
Definition max_copies (s : st) : nat :=
  fold_right (fun o m => Nat.max (copies o s) m) 0 (pool s ++ map snd (held s)).
