(* SPIKE (round 0): C02 - stored-field block of one document: persistStoredFieldValues / writeStoredFields
   (meta varints with cumulative offsets + data) and visitStoredFields (segment.go:546-620). *)
From Coq Require Import List NArith Lia Bool Arith PeanoNat.
From Coq Require Import ZifyN ZifyNat ZifyBool.
Import ListNotations.
Require Import Bytes.
Open Scope N_scope.

Definition nlen {A} (l : list A) : N := N.of_nat (length l).

Record sval := { s_fid : N; s_typ : N; s_val : bytes; s_ap : list N }.

Definition wf_sval (v : sval) : Prop :=
  u64 (s_fid v) /\ u64 (s_typ v) /\ u64 (nlen (s_val v)) /\ u64 (nlen (s_ap v)) /\ Forall u64 (s_ap v).

(* the metadata of the values of one document, `off` = bytes of data already emitted (curr) *)
Fixpoint enc_meta (off : N) (vs : list sval) : bytes :=
  match vs with
  | [] => []
  | v :: r => uv (s_fid v) ++ uv (s_typ v) ++ uv off ++ uv (nlen (s_val v)) ++ uv (nlen (s_ap v)) ++
              flat_map uv (s_ap v) ++ enc_meta (off + nlen (s_val v)) r
  end.
Definition data_of (vs : list sval) : bytes := concat (map s_val vs).

(* the reader loop: until the meta reader hits EOF *)
Fixpoint dec_meta (fuel : nat) (meta data : bytes) : option (list sval) :=
  match meta with
  | [] => Some []
  | _ =>
    match fuel with
    | O => None
    | S f =>
      match dec_uv meta with None => None | Some (fid, m1) =>
      match dec_uv m1 with None => None | Some (typ, m2) =>
      match dec_uv m2 with None => None | Some (off, m3) =>
      match dec_uv m3 with None => None | Some (len, m4) =>
      match dec_uv m4 with None => None | Some (nap, m5) =>
      match dec_uvs (N.to_nat nap) m5 with None => None | Some (ap, m6) =>
        let v := {| s_fid := fid; s_typ := typ;
                    s_val := firstn (N.to_nat len) (skipn (N.to_nat off) data); s_ap := ap |} in
        match dec_meta f m6 data with Some vs => Some (v :: vs) | None => None end
      end end end end end end
    end
  end.

Lemma to_nat_nlen {A} (l : list A) : N.to_nat (nlen l) = length l.
Proof. unfold nlen. apply Nnat.Nat2N.id. Qed.

Lemma slice_mid {A} (pre x post : list A) :
  firstn (length x) (skipn (length pre) (pre ++ x ++ post)) = x.
Proof.
  rewrite skipn_app, skipn_all, Nat.sub_diag. cbn [skipn app].
  rewrite firstn_app, Nat.sub_diag, firstn_all. cbn [firstn]. apply app_nil_r.
Qed.

Lemma dec_enc_meta : forall vs pre post fuel,
  Forall wf_sval vs -> u64 (nlen (pre ++ data_of vs)) -> (length vs <= fuel)%nat ->
  dec_meta fuel (enc_meta (nlen pre) vs) (pre ++ data_of vs ++ post) = Some vs.
Proof.
  induction vs as [|v vs IH]; intros pre post fuel Hw Hlen Hf.
  - destruct fuel; reflexivity.
  - inversion Hw as [|? ? (W1 & W2 & W3 & W4 & W5) Hw']; subst.
    destruct fuel as [|f]; [cbn in Hf; lia|].
    cbn [enc_meta dec_meta].
    destruct (uv (s_fid v) ++ _) eqn:E.
    { apply app_eq_nil in E as [E _]. now apply uv_nonempty in E. }
    rewrite <- E. clear E.
    assert (Hoff: u64 (nlen pre)).
    { unfold u64, nlen in *. rewrite app_length in Hlen. lia. }
    rewrite dec_uv_app by assumption. rewrite dec_uv_app by assumption.
    rewrite dec_uv_app by assumption. rewrite dec_uv_app by assumption.
    rewrite dec_uv_app by assumption.
    rewrite to_nat_nlen. rewrite dec_uvs_app by assumption.
    unfold data_of in *. cbn [map concat] in *.
    rewrite !to_nat_nlen.
    replace (pre ++ (s_val v ++ concat (map s_val vs)) ++ post)
      with (pre ++ s_val v ++ (concat (map s_val vs) ++ post)) by (rewrite <- !app_assoc; reflexivity).
    rewrite slice_mid.
    replace (nlen pre + nlen (s_val v)) with (nlen (pre ++ s_val v)) by (unfold nlen; rewrite app_length; lia).
    replace (pre ++ s_val v ++ concat (map s_val vs) ++ post)
      with ((pre ++ s_val v) ++ concat (map s_val vs) ++ post) by (rewrite <- !app_assoc; reflexivity).
    rewrite IH.
    + destruct v; reflexivity.
    + assumption.
    + rewrite <- app_assoc. exact Hlen.
    + cbn in Hf. lia.
Qed.

(* C02 (codec): the values of a document decode in order, each with its type, bytes and array positions *)
Theorem stored_roundtrip vs : Forall wf_sval vs -> u64 (nlen (data_of vs)) ->
  dec_meta (length vs) (enc_meta 0 vs) (data_of vs) = Some vs.
Proof.
  intros Hw Hl. pose proof (dec_enc_meta vs [] [] (length vs) Hw Hl (le_n _)) as H.
  cbn [app nlen length] in H. now rewrite app_nil_r in H.
Qed.

(* the visitor: called on `_id` first, then on each value until it answers false *)
Fixpoint visit {A} (items : list A) (answers : list bool) : list A :=
  match items, answers with
  | x :: r, true :: a => x :: visit r a
  | x :: _, false :: _ => [x]
  | _, _ => []
  end.

Lemma visit_prefix {A} (items : list A) answers : exists k, visit items answers = firstn k items.
Proof.
  revert answers; induction items as [|x r IH]; intros [|[|] a]; cbn [visit]; try (now exists O).
  - destruct (IH a) as [k ->]. now exists (S k).
  - now exists 1%nat.
Qed.
Print Assumptions stored_roundtrip.
