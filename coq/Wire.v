(* Conversions between the wire format (Sx) and the model's data types. *)
From Coq Require Import List NArith Bool.
Import ListNotations.
Require Import Opt Sx Spec.
Open Scope N_scope.


(* ---- input side ---- *)
Definition loc_of_sx (s : sx) : option loc :=
  match s with
  | L [B f; A p; A st; A en; ap] => do a <- getLA ap; Some {| l_field := f; l_pos := p; l_start := st; l_end := en; l_ap := a |}
  | _ => None
  end.
Definition tok_of_sx (s : sx) : option tok :=
  match s with
  | L [B t; A fr; L ls] => do l <- mapo loc_of_sx ls; Some {| t_term := t; t_freq := fr; t_locs := l |}
  | _ => None
  end.
Definition syn_of_sx (s : sx) : option syndef :=
  match s with
  | L [B t; L ss] => do l <- mapo getB ss; Some {| sy_term := t; sy_syns := l |}
  | _ => None
  end.
Definition vec_of_sx (s : sx) : option (option vecdef) :=
  match s with
  | L [] => Some None
  | L [A d; B sim; B opt; data] => do l <- getLA data; Some (Some {| v_dims := d; v_sim := sim; v_opt := opt; v_data := l |})
  | _ => None
  end.
(* (name stored dv typ val ap len toks syns vec) *)
Definition field_of_sx (s : sx) : option field :=
  match s with
  | L [B nm; st; dv; A ty; B v; ap; A ln; L tks; L sy; vc] =>
      do st' <- getBool st; do dv' <- getBool dv; do a <- getLA ap; do t <- mapo tok_of_sx tks;
      do y <- mapo syn_of_sx sy; do vv <- vec_of_sx vc;
      Some {| f_name := nm; f_stored := st'; f_dv := dv'; f_typ := ty; f_val := v; f_ap := a; f_len := ln;
              f_toks := t; f_syn := y; f_vec := vv; f_shape := None |}
  | L [B nm; st; dv; A ty; B v; ap; A ln; L tks; L sy; vc; L [B sh]] =>        (* a geo-shape field *)
      do st' <- getBool st; do dv' <- getBool dv; do a <- getLA ap; do t <- mapo tok_of_sx tks;
      do y <- mapo syn_of_sx sy; do vv <- vec_of_sx vc;
      Some {| f_name := nm; f_stored := st'; f_dv := dv'; f_typ := ty; f_val := v; f_ap := a; f_len := ln;
              f_toks := t; f_syn := y; f_vec := vv; f_shape := Some sh |}
  | _ => None
  end.
Definition doc_of_sx (s : sx) : option doc :=
  match s with
  | L [L cs; L fs] => do c <- mapo field_of_sx cs; do f <- mapo field_of_sx fs; Some {| d_comps := c; d_fields := f |}
  | _ => None
  end.
Definition batch_of_sx (s : sx) : option batch := match s with L ds => mapo doc_of_sx ds | _ => None end.

(* ---- output side ---- *)
Definition sx_of_loc (l : loc) : sx := L [B (l_field l); A (l_pos l); A (l_start l); A (l_end l); sxLA (l_ap l)].
Definition sx_of_hit (h : hit) : sx := L [A (h_doc h); A (h_freq h); A (h_norm h); L (map sx_of_loc (h_locs h))].
Definition sx_of_sval (v : sval) : sx := L [B (s_field v); A (s_typ v); B (s_val v); sxLA (s_ap v)].
Definition sx_of_dict (d : list (str * list hit)) : sx := L (map (fun e => L [B (fst e); L (map sx_of_hit (snd e))]) d).
Definition sx_of_content (c : content) : sx :=
  L [ A (c_ndocs c);
      L (map B (c_fields c));
      L (map (fun e => L [B (fst e); sx_of_dict (snd e)]) (c_dicts c));
      L (map (fun d => L (map sx_of_sval d)) (c_stored c));
      L (map B (c_dvfields c));
      L (map (fun e => L [B (fst e); L (map (fun de => L [A (fst de); L (map B (snd de))]) (snd e))]) (c_dv c));
      L (map (fun e => L [B (fst e); L (map (fun te => L [B (fst te); L (map (fun p => L [B (fst p); A (snd p)]) (snd te))]) (snd e))]) (c_thes c)) ].

(* and back (merge requests carry contents) *)
Definition hit_of_sx (s : sx) : option hit :=
  match s with
  | L [A d; A fr; A nm; L ls] => do l <- mapo loc_of_sx ls; Some {| h_doc := d; h_freq := fr; h_norm := nm; h_locs := l |}
  | _ => None
  end.
Definition sval_of_sx (s : sx) : option sval :=
  match s with
  | L [B f; A t; B v; ap] => do a <- getLA ap; Some {| s_field := f; s_typ := t; s_val := v; s_ap := a |}
  | _ => None
  end.
Definition dict_of_sx (s : sx) : option (list (str * list hit)) :=
  match s with
  | L es => mapo (fun e => match e with L [B t; L hs] => do h <- mapo hit_of_sx hs; Some (t, h) | _ => None end) es
  | _ => None
  end.
Definition content_of_sx (s : sx) : option content :=
  match s with
  | L [A n; L fs; L ds; L st; L dvf; L dv; L th] =>
      do fs' <- mapo getB fs;
      do ds' <- mapo (fun e => match e with L [B f; d] => do d' <- dict_of_sx d; Some (f, d') | _ => None end) ds;
      do st' <- mapo (fun d => match d with L vs => mapo sval_of_sx vs | _ => None end) st;
      do dvf' <- mapo getB dvf;
      do dv' <- mapo (fun e => match e with
                               | L [B f; L des] =>
                                   do x <- mapo (fun de => match de with L [A d; L ts] => do t <- mapo getB ts; Some (d, t) | _ => None end) des;
                                   Some (f, x)
                               | _ => None end) dv;
      do th' <- mapo (fun e => match e with
                               | L [B f; L tes] =>
                                   do x <- mapo (fun te => match te with
                                                           | L [B t; L ps] =>
                                                               do p <- mapo (fun q => match q with L [B s; A d] => Some (s, d) | _ => None end) ps;
                                                               Some (t, p)
                                                           | _ => None end) tes;
                                   Some (f, x)
                               | _ => None end) th;
      Some {| c_ndocs := n; c_fields := fs'; c_dicts := ds'; c_stored := st'; c_dvfields := dvf'; c_dv := dv'; c_thes := th' |}
  | _ => None
  end.
