(* The doc-value pass of the builder (writeDicts): walking the field's terms in ascending order, each
   term is appended to the buffer docTermMap[docNum] of every document in the term's postings list;
   afterwards every document with a non-empty buffer gets a doc-value entry.  So the doc values are
   computed FROM THE POSTINGS - this file proves that the result is the specification's
   Spec.spec_dv_field (the document's own merged terms, ascending), i.e. that the inverted lists and
   the doc values of a built segment describe the same relation (C03 next to C01). *)
From Coq Require Import List NArith Bool Permutation.
Import ListNotations.
Require Import ZV.Spec ZV.StrOrd ZV.EnumProof ZV.MergeLoop ZV.MergeRefine ZV.BuildAlg ZV.BuildRefine.
Open Scope N_scope.

(* ---------- the hits of a key in the specification's dictionary, document by document ---------- *)
Definition doc_hit (f : str) (k : str) (nd : N * doc) : list hit :=
  match doc_tfs (snd nd) f with
  | Some (len, tfs) => match mget k tfs with Some v => [mkhit (fst nd) len v] | None => [] end
  | None => []
  end.

Lemma spec_hits f k : forall (nds : list (N * doc)) dc, skeys dc ->
  skeys (fold_left (add_doc_hits f) nds dc) /\
  oget hit (mget k (fold_left (add_doc_hits f) nds dc)) = oget hit (mget k dc) ++ flat_map (doc_hit f k) nds.
Proof.
  induction nds as [|[n d] nds IH]; intros dc Hs; cbn [fold_left flat_map]; [split; [exact Hs|symmetry; apply app_nil_r]|].
  rewrite add_doc_hits_is_fold. cbn [fst snd].
  assert (Hd: doc_hit f k (n, d) = match doc_tfs d f with
                                   | Some (len, tfs) => match mget k tfs with Some v => [mkhit n len v] | None => [] end
                                   | None => []
                                   end) by reflexivity.
  rewrite Hd. clear Hd.
  destruct (doc_tfs d f) as [[len tfs]|] eqn:E.
  - destruct (doc_tfs_inv d f len tfs E) as [Hst _].
    destruct (IH _ (spec_doc_skeys n len tfs dc Hs)) as [A B]. split; [exact A|].
    rewrite B, spec_doc_get; [|exact Hs|now apply skeys_nodup].
    destruct (mget k tfs) as [v|]; [|reflexivity].
    change (oget hit (Some (oget hit (mget k dc) ++ [mkhit n len v]))) with (oget hit (mget k dc) ++ [mkhit n len v]).
    now rewrite <- app_assoc.
  - destruct (IH dc Hs) as [A B]. split; [exact A|exact B].
Qed.

Lemma doc_hit_doc f k nd h : In h (doc_hit f k nd) -> h_doc h = fst nd.
Proof.
  unfold doc_hit. destruct (doc_tfs (snd nd) f) as [[len tfs]|]; [|intros []].
  destruct (mget k tfs) as [v|]; [|intros []]. intros [<-|[]]. reflexivity.
Qed.

Lemma indexed_from_fst_lt {X} : forall (l : list X) i n x, In (n, x) (indexed_from i l) -> i <= n.
Proof.
  induction l as [|y l IH]; intros i n x H; [destruct H|]. cbn [indexed_from] in H. destruct H as [E|H].
  - injection E as <- _. apply N.le_refl.
  - eapply N.le_trans; [|eapply IH; exact H]. apply N.le_add_r.
Qed.

(* among the documents of a batch the hit of document n for key k comes from document n alone *)
Lemma in_postings_indexed f k : forall (b : list doc) i n d,
  In (n, d) (indexed_from i b) ->
  in_postings n (flat_map (doc_hit f k) (indexed_from i b)) = match doc_hit f k (n, d) with [] => false | _ => true end.
Proof.
  induction b as [|d0 b IH]; intros i n d Hin; [destruct Hin|].
  cbn [indexed_from flat_map] in *. unfold in_postings in *. rewrite existsb_app.
  destruct Hin as [E|Hin].
  - injection E as <- <-.
    assert (R: existsb (fun h => h_doc h =? i) (flat_map (doc_hit f k) (indexed_from (i + 1) b)) = false).
    { apply Bool.not_true_is_false. intros Ht. apply existsb_exists in Ht. destruct Ht as [h [Hh Eh]].
      apply in_flat_map in Hh. destruct Hh as [[n' d'] [Hnd Hh]]. apply doc_hit_doc in Hh. cbn [fst] in Hh.
      apply N.eqb_eq in Eh. apply indexed_from_fst_lt in Hnd. rewrite <- Hh, Eh in Hnd.
      apply (N.lt_irrefl i). eapply N.lt_le_trans; [|exact Hnd]. rewrite N.add_1_r. apply N.lt_succ_diag_r. }
    rewrite R, orb_false_r.
    destruct (doc_hit f k (i, d0)) as [|h r] eqn:Eh; [reflexivity|].
    cbn [existsb]. assert (Hd: h_doc h = i) by (apply (doc_hit_doc f k (i, d0)); rewrite Eh; now left).
    rewrite Hd, N.eqb_refl. reflexivity.
  - assert (L: existsb (fun h => h_doc h =? n) (doc_hit f k (i, d0)) = false).
    { apply Bool.not_true_is_false. intros Ht. apply existsb_exists in Ht. destruct Ht as [h [Hh Eh]].
      apply doc_hit_doc in Hh. cbn [fst] in Hh. apply N.eqb_eq in Eh.
      apply indexed_from_fst_lt in Hin. rewrite <- Eh, Hh in Hin.
      apply (N.lt_irrefl i). eapply N.lt_le_trans; [|exact Hin]. rewrite N.add_1_r. apply N.lt_succ_diag_r. }
    rewrite L. cbn [orb]. now apply IH.
Qed.

Lemma filter_sorted (p : str -> bool) : forall l, ssorted l -> ssorted (filter p l).
Proof.
  induction l as [|x r IH]; intros H; cbn [filter]; [exact I|]. cbn [ssorted] in H. destruct H as [Hx Hr].
  destruct (p x); [|now apply IH]. cbn [ssorted]. split; [|now apply IH].
  intros y Hy. apply filter_In in Hy. now apply Hx.
Qed.

Lemma terms_with_as_filter n : forall dict : list (str * list hit), skeys dict ->
  terms_with n dict = filter (fun k => in_postings n (oget hit (mget k dict))) (map fst dict).
Proof.
  intros dict Hs. unfold terms_with.
  rewrite (assoc_canon [] dict Hs) at 1.
  set (g := fun k => (k, match mget k dict with Some v => v | None => [] end)).
  induction (map fst dict) as [|k ks IH]; [reflexivity|].
  cbn [map filter]. unfold g at 1. cbn [snd]. unfold oget.
  destruct (in_postings n match mget k dict with Some v => v | None => [] end); cbn [map fst]; now rewrite IH.
Qed.

Lemma flat_map_ext_in' {A B} (g h : A -> list B) : forall l, (forall x, In x l -> g x = h x) -> flat_map g l = flat_map h l.
Proof.
  induction l as [|x l IH]; intros H; [reflexivity|]. cbn [flat_map].
  rewrite (H x (or_introl eq_refl)), IH; [reflexivity|]. intros y Hy. apply H. now right.
Qed.

Theorem dv_from_postings_is_spec : forall b f,
  (forall d, In d b -> doc_shape d f = None) ->
  dv_from_postings (indexed b) (spec_dict b f) = spec_dv_field b f.
Proof.
  intros b f Hshape. unfold dv_from_postings, spec_dv_field, spec_dict.
  destruct (spec_hits f [] (indexed b) [] I) as [Hs _].
  set (sd := fold_left (add_doc_hits f) (indexed b) []) in *.
  apply flat_map_ext_in'. intros [n d] Hin. cbn [fst snd].
  assert (Hd: In d b) by (eapply indexed_from_in; exact Hin).
  rewrite (Hshape d Hd).
  (* the buffer of document n is the sorted key list of its own token frequencies *)
  assert (T: terms_with n sd = match doc_tfs d f with Some (_, tfs) => map fst tfs | None => [] end).
  { rewrite (terms_with_as_filter n sd Hs).
    assert (Hget: forall k, in_postings n (oget hit (mget k sd)) =
                            match doc_hit f k (n, d) with [] => false | _ => true end).
    { intros k. destruct (spec_hits f k (indexed b) [] I) as [_ B]. fold sd in B. rewrite B. cbn [mget oget app].
      now apply in_postings_indexed. }
    destruct (doc_tfs d f) as [[len tfs]|] eqn:E.
    - destruct (doc_tfs_inv d f len tfs E) as [Hst Hk].
      apply ssorted_unique; [apply filter_sorted; now apply skeys_sorted|now apply skeys_sorted|].
      intros t. rewrite filter_In, Hget. unfold doc_hit. cbn [fst snd]. rewrite E.
      rewrite (mget_in_keys t tfs), (mget_in_keys t sd).
      unfold sd. rewrite (spec_keys f (indexed b) [] I t). cbn [mget].
      destruct (mget t tfs) as [v|] eqn:Et.
      + split; [intros _; discriminate|]. intros _. split; [|reflexivity]. right.
        apply in_flat_map. exists (n, d). split; [exact Hin|]. cbn [snd]. apply Hk. congruence.
      + split; [intros [_ Hf]; discriminate|]. intros Hf. congruence.
    - assert (Hnone: forall k, in_postings n (oget hit (mget k sd)) = false).
      { intros k. rewrite Hget. unfold doc_hit. cbn [snd]. now rewrite E. }
      induction (map fst sd) as [|k ks IH]; [reflexivity|]. cbn [filter]. now rewrite Hnone. }
  rewrite T. destruct (doc_tfs d f) as [[len [|e tfs]]|]; reflexivity.
Qed.

(* non-vacuity: two documents, three terms, one shared *)
Example dv_example :
  let t s fr := {| t_term := s; t_freq := fr; t_locs := [] |} in
  let fld toks := {| f_name := [120]; f_stored := false; f_dv := true; f_typ := 116; f_val := []; f_ap := [];
                     f_len := 3; f_toks := toks; f_syn := []; f_vec := None; f_shape := None |} in
  let b := [ {| d_comps := []; d_fields := [fld [t [98] 2; t [97] 1]] |}; {| d_comps := []; d_fields := [] |};
             {| d_comps := []; d_fields := [fld [t [99] 1; t [98] 1]] |} ] in
  dv_from_postings (indexed b) (spec_dict b [120]) = [(0, [[97]; [98]]); (2, [[98]; [99]])] /\
  spec_dv_field b [120] = [(0, [[97]; [98]]); (2, [[98]; [99]])].
Proof. vm_compute. split; reflexivity. Qed.

(* the instance the correspondence run executes next to zapx (request 22) *)
Theorem dv_run_is_spec b : (forall d f, In d b -> doc_shape d f = None) -> dv_run b = c_dv (spec_of_batch b).
Proof.
  intros H. unfold dv_run, spec_of_batch. cbn [c_dv]. apply map_ext. intros f. f_equal.
  apply dv_from_postings_is_spec. intros d Hd. now apply H.
Qed.
