From Coq Require Import List NArith Lia Bool PeanoNat.
Import ListNotations.
Require Import Spec StrOrd Enum.
Open Scope N_scope.

(* ---- updateMatches ---- *)
Fixpoint elig (skip : bool) (i : nat) (hs : list (option kv)) : list (nat * str) :=
  match hs with
  | [] => []
  | None :: r => elig skip (S i) r
  | Some (k, v) :: r => if ineligible skip k v then elig skip (S i) r else (i, k) :: elig skip (S i) r
  end.

Definition lowest (l : list (nat * str)) (k : str) : Prop :=
  (exists i, In (i, k) l) /\ forall j k', In (j, k') l -> scmp k' k <> Lt.
Definition idxs_of (l : list (nat * str)) (k : str) : list nat :=
  map fst (filter (fun p => seqb (snd p) k) l).
Definition Inv (done : list (nat * str)) (low : option str) (idxs : list nat) : Prop :=
  match low with
  | None => done = [] /\ idxs = []
  | Some k => lowest done k /\ idxs = idxs_of done k
  end.

Lemma seqb_refl k : seqb k k = true.
Proof. unfold seqb. now rewrite scmp_refl. Qed.
Lemma seqb_true a b : seqb a b = true -> a = b.
Proof. unfold seqb. destruct (scmp a b) eqn:E; try discriminate. intros _. now apply scmp_eq. Qed.

Lemma idxs_of_app l1 l2 k : idxs_of (l1 ++ l2) k = idxs_of l1 k ++ idxs_of l2 k.
Proof. unfold idxs_of. now rewrite filter_app, map_app. Qed.

Lemma idxs_of_none l k : (forall j k', In (j, k') l -> k' <> k) -> idxs_of l k = [].
Proof.
  induction l as [|[j k'] l IH]; intros H; [reflexivity|]. unfold idxs_of in *. cbn [filter snd].
  destruct (seqb k' k) eqn:E.
  - apply seqb_true in E. exfalso. apply (H j k'); [now left|exact E].
  - apply IH. intros j0 k0 Hin. apply (H j0 k0). now right.
Qed.

Lemma inv_step done low idxs i k : Inv done low idxs ->
  Inv (done ++ [(i, k)])
      (match low with None => Some k | Some lk => match scmp k lk with Lt => Some k | _ => low end end)
      (match low with None => [i] | Some lk => match scmp k lk with Lt => [i] | Eq => idxs ++ [i] | Gt => idxs end end).
Proof.
  unfold Inv. destruct low as [lk|].
  - intros [[[i0 Hi0] Hlow] Hidx]. destruct (scmp k lk) eqn:E.
    + apply scmp_eq in E. subst lk. split.
      * split; [exists i0; apply in_or_app; now left|].
        intros j k' Hin. apply in_app_or in Hin as [Hin|[Hin|[]]]; [now apply (Hlow j)|].
        injection Hin as _ <-. apply scmp_lt_irrefl.
      * rewrite idxs_of_app, Hidx. f_equal. unfold idxs_of. cbn. now rewrite seqb_refl.
    + split.
      * split; [exists i; apply in_or_app; right; now left|].
        intros j k' Hin. apply in_app_or in Hin as [Hin|[Hin|[]]].
        -- intros Hlt. apply (Hlow j k' Hin). eapply scmp_lt_trans; eauto.
        -- injection Hin as _ <-. apply scmp_lt_irrefl.
      * rewrite idxs_of_app. rewrite (idxs_of_none done k).
        -- unfold idxs_of. cbn. now rewrite seqb_refl.
        -- intros j k' Hin ->. apply (Hlow j k Hin). exact E.
    + split.
      * split; [exists i0; apply in_or_app; now left|].
        intros j k' Hin. apply in_app_or in Hin as [Hin|[Hin|[]]]; [now apply (Hlow j)|].
        injection Hin as _ <-. rewrite E. discriminate.
      * rewrite idxs_of_app, Hidx. unfold idxs_of at 2. cbn. unfold seqb. rewrite E. cbn. now rewrite app_nil_r.
  - intros [-> ->]. cbn [app]. split.
    + split; [exists i; now left|]. intros j k' [Hin|[]]. injection Hin as _ <-. apply scmp_lt_irrefl.
    + unfold idxs_of. cbn. now rewrite seqb_refl.
Qed.

Lemma update_inv : forall hs skip i low idxs done, Inv done low idxs ->
  Inv (done ++ elig skip i hs) (fst (update skip i hs low idxs)) (snd (update skip i hs low idxs)).
Proof.
  induction hs as [|h hs IH]; intros skip i low idxs done HI; cbn [update elig].
  - now rewrite app_nil_r.
  - destruct h as [[k v]|]; [|now apply IH].
    destruct (ineligible skip k v); [now apply IH|].
    replace (done ++ (i, k) :: elig skip (S i) hs) with ((done ++ [(i, k)]) ++ elig skip (S i) hs) by (now rewrite <- app_assoc).
    pose proof (inv_step done low idxs i k HI) as HS.
    destruct low as [lk|]; [destruct (scmp k lk)|]; apply IH; exact HS.
Qed.

Lemma update_spec skip hs : 
  match update skip 0 hs None [] with
  | (None, idxs) => elig skip 0 hs = [] /\ idxs = []
  | (Some k, idxs) => lowest (elig skip 0 hs) k /\ idxs = idxs_of (elig skip 0 hs) k
  end.
Proof.
  pose proof (update_inv hs skip 0%nat None [] [] (conj eq_refl eq_refl)) as H. cbn [app] in H.
  destruct (update skip 0 hs None []) as [[k|] idxs]; exact H.
Qed.

(* ---- the eligible heads of a list of iterators ---- *)
Lemma elig_in : forall hs skip i0 i k, In (i, k) (elig skip i0 hs) <->
  (i0 <= i)%nat /\ exists v, nth_error hs (i - i0) = Some (Some (k, v)) /\ ineligible skip k v = false.
Proof.
  induction hs as [|h hs IH]; intros skip i0 i k; cbn [elig].
  - split; [intros []|]. intros (_ & v & H & _). destruct (i - i0)%nat; discriminate.
  - assert (Hrest: In (i, k) (elig skip (S i0) hs) <->
              (S i0 <= i)%nat /\ exists v, nth_error (h :: hs) (i - i0) = Some (Some (k, v)) /\ ineligible skip k v = false).
    { rewrite IH. split; intros (Hle & v & Hn & He); (split; [exact Hle|]); exists v; (split; [|exact He]).
      - replace (i - i0)%nat with (S (i - S i0)) by lia. exact Hn.
      - replace (i - i0)%nat with (S (i - S i0)) in Hn by lia. exact Hn. }
    destruct h as [[kh vh]|].
    + destruct (ineligible skip kh vh) eqn:Es.
      * rewrite Hrest. split.
        -- intros (Hle & R). split; [lia|exact R].
        -- intros (Hle & v & Hn & He). destruct (Nat.eq_dec i i0) as [->|Hne].
           ++ rewrite Nat.sub_diag in Hn. cbn in Hn. injection Hn as -> ->. congruence.
           ++ split; [lia|]. exists v. now split.
      * cbn [In]. rewrite Hrest. split.
        -- intros [Heq|(Hle & R)].
           ++ injection Heq as <- <-. split; [lia|]. exists vh. rewrite Nat.sub_diag. now split.
           ++ split; [lia|exact R].
        -- intros (Hle & v & Hn & He). destruct (Nat.eq_dec i i0) as [->|Hne].
           ++ rewrite Nat.sub_diag in Hn. cbn in Hn. injection Hn as -> ->. now left.
           ++ right. split; [lia|]. exists v. now split.
    + rewrite Hrest. split.
      * intros (Hle & R). split; [lia|exact R].
      * intros (Hle & v & Hn & He). destruct (Nat.eq_dec i i0) as [->|Hne].
        -- rewrite Nat.sub_diag in Hn. discriminate.
        -- split; [lia|]. exists v. now split.
Qed.

(* indices of eligible heads are strictly ascending *)
Fixpoint asc_nat (l : list nat) : Prop :=
  match l with [] => True | x :: r => (forall y, In y r -> (x < y)%nat) /\ asc_nat r end.

Lemma elig_ge : forall hs skip i0 i k, In (i, k) (elig skip i0 hs) -> (i0 <= i)%nat.
Proof. intros hs skip i0 i k H. apply elig_in in H. tauto. Qed.

Lemma idxs_of_in l k i : In i (idxs_of l k) <-> In (i, k) l.
Proof.
  unfold idxs_of. rewrite in_map_iff. split.
  - intros ([j k'] & <- & Hf). apply filter_In in Hf as [Hin E]. cbn in E. apply seqb_true in E. now subst.
  - intros H. exists (i, k). split; [reflexivity|]. apply filter_In. split; [exact H|]. cbn. apply seqb_refl.
Qed.

Lemma idxs_of_asc : forall hs skip i0 k, asc_nat (idxs_of (elig skip i0 hs) k).
Proof.
  induction hs as [|h hs IH]; intros skip i0 k; cbn [elig]; [exact I|].
  destruct h as [[kh vh]|]; [|apply IH]. destruct (ineligible skip kh vh); [apply IH|].
  unfold idxs_of. cbn [filter snd]. destruct (seqb kh k) eqn:E; [|apply IH].
  cbn [map fst asc_nat]. split; [|apply IH].
  intros y Hy. fold (idxs_of (elig skip (S i0) hs) k) in Hy. apply idxs_of_in in Hy. apply elig_ge in Hy. lia.
Qed.

(* ---- advance ---- *)
Lemma advance_nth : forall its i0 idxs j,
  nth_error (advance i0 idxs its) j =
  option_map (fun l => if existsb (Nat.eqb (i0 + j)) idxs then tl l else l) (nth_error its j).
Proof.
  induction its as [|l its IH]; intros i0 idxs j; cbn [advance].
  - destruct j; reflexivity.
  - destruct j as [|j]; cbn [nth_error option_map].
    + now rewrite Nat.add_0_r.
    + rewrite IH. now replace (S i0 + j)%nat with (i0 + S j)%nat by lia.
Qed.

Lemma existsb_eqb_in i l : existsb (Nat.eqb i) l = true <-> In i l.
Proof.
  rewrite existsb_exists. split.
  - intros (x & Hin & E). apply Nat.eqb_eq in E. now subst.
  - intros H. exists i. split; [exact H|apply Nat.eqb_refl].
Qed.

(* ---- sortedness notions ---- *)
Fixpoint asc (l : list kv) : Prop :=
  match l with [] => True | (k, _) :: r => (forall k' v', In (k', v') r -> scmp k k' = Lt) /\ asc r end.

Definition tlt (a b : tuple) : Prop :=
  let '(k, i, _) := a in let '(k', i', _) := b in scmp k k' = Lt \/ (k = k' /\ (i < i')%nat).
Fixpoint sorted_t (l : list tuple) : Prop :=
  match l with [] => True | t :: r => (forall t', In t' r -> tlt t t') /\ sorted_t r end.

Lemma sorted_t_app a b : sorted_t a -> sorted_t b -> (forall x y, In x a -> In y b -> tlt x y) -> sorted_t (a ++ b).
Proof.
  induction a as [|t a IH]; intros Ha Hb Hab; [exact Hb|]. cbn [app sorted_t] in *. destruct Ha as [H1 H2]. split.
  - intros t' Hin. apply in_app_or in Hin as [Hin|Hin]; [now apply H1|]. apply Hab; [now left|exact Hin].
  - apply IH; auto. intros x y Hx Hy. apply Hab; [now right|exact Hy].
Qed.

Definition entry_of (its : list (list kv)) (k : str) (i : nat) (v : N) : Prop :=
  exists l, nth_error its i = Some l /\ In (k, v) l.

(* no entry ("", 0) - see Enum.ineligible *)
Definition nozero (its : list (list kv)) : Prop :=
  forall l k v, In l its -> In (k, v) l -> ineligible false k v = false.

Definition nohead_empty (its : list (list kv)) : Prop :=
  forall l k v, In l its -> head l = Some (k, v) -> k <> [].

Lemma elig_noskip : forall its i0, nohead_empty its -> elig true i0 (map head its) = elig false i0 (map head its).
Proof.
  induction its as [|l its IH]; intros i0 Hn; [reflexivity|]. cbn [map elig].
  assert (Hn': nohead_empty its) by (intros l' k v Hin; apply Hn; now right).
  destruct (head l) as [[k v]|] eqn:Eh; [|now apply IH].
  assert (k <> []) by (apply (Hn l k v); [now left|exact Eh]).
  destruct k as [|b k]; [congruence|]. cbn [ineligible is_empty_key andb orb]. f_equal. now apply IH.
Qed.

(* ---- one step ---- *)
Lemma total_advance_le : forall its i0 idxs, (total (advance i0 idxs its) <= total its)%nat.
Proof.
  induction its as [|l its IH]; intros i0 idxs; cbn [advance total fold_right]; [lia|].
  specialize (IH (S i0) idxs). fold (total (advance (S i0) idxs its)). fold (total its).
  destruct (existsb (Nat.eqb i0) idxs); [destruct l; cbn [tl length]; lia|lia].
Qed.

Lemma total_advance_lt : forall its i0 idxs j l, nth_error its j = Some l -> l <> [] -> In (i0 + j)%nat idxs ->
  (total (advance i0 idxs its) < total its)%nat.
Proof.
  induction its as [|l0 its IH]; intros i0 idxs j l Hn Hne Hin; [destruct j; discriminate|].
  cbn [advance total fold_right]. fold (total (advance (S i0) idxs its)). fold (total its).
  destruct j as [|j].
  - cbn in Hn. injection Hn as ->. rewrite Nat.add_0_r in Hin. apply existsb_eqb_in in Hin. rewrite Hin.
    pose proof (total_advance_le its (S i0) idxs). destruct l; [congruence|cbn [tl length]; lia].
  - cbn in Hn. assert (total (advance (S i0) idxs its) < total its)%nat.
    { eapply IH; eauto. now replace (S i0 + j)%nat with (i0 + S j)%nat by lia. }
    pose proof (total_advance_le its (S i0) idxs). destruct (existsb (Nat.eqb i0) idxs); [destruct l0; cbn [tl length]; lia|lia].
Qed.

Lemma asc_tl l : asc l -> asc (tl l).
Proof. destruct l as [|[k v] l]; cbn; tauto. Qed.

Lemma asc_nat_sorted k (f : nat -> N) : forall l, asc_nat l -> sorted_t (map (fun i => (k, i, f i)) l).
Proof.
  induction l as [|x l IH]; intros H; [exact I|]. cbn [map sorted_t asc_nat] in *. destruct H as [H1 H2]. split; [|now apply IH].
  intros t' Hin. apply in_map_iff in Hin as (y & <- & Hy). cbn. right. split; [reflexivity|now apply H1].
Qed.

Lemma elig_heads its i k : nozero its -> (In (i, k) (elig false 0 (map head its)) <->
  exists l v, nth_error its i = Some l /\ head l = Some (k, v)).
Proof.
  intros Hz. rewrite elig_in. rewrite Nat.sub_0_r. split.
  - intros (_ & v & Hn & _). rewrite nth_error_map in Hn. destruct (nth_error its i) as [l|]; [|discriminate].
    cbn in Hn. injection Hn as Hn. exists l, v. now split.
  - intros (l & v & Hn & Hh). split; [lia|]. exists v. split.
    + rewrite nth_error_map, Hn. cbn. now rewrite Hh.
    + apply (Hz l k v); [eapply nth_error_In; eauto|]. destruct l; [discriminate|]. cbn in Hh. injection Hh as ->. now left.
Qed.

Lemma val_at_head its i l k v : nth_error its i = Some l -> head l = Some (k, v) -> val_at its i = v.
Proof. intros Hn Hh. unfold val_at. rewrite (nth_error_nth its i [] Hn). now rewrite Hh. Qed.

Lemma asc_head_lt l k v k0 v0 : asc l -> head l = Some (k, v) -> In (k0, v0) (tl l) -> scmp k k0 = Lt.
Proof. destruct l as [|[kh vh] l]; cbn; [discriminate|]. intros [H _] E Hin. injection E as -> ->. eapply H; eauto. Qed.

Lemma step_spec skip its : Forall asc its -> nozero its -> (skip = true -> nohead_empty its) ->
  match step skip its with
  | None => forall k i v, ~ entry_of its k i v
  | Some (out, its') => exists k,
      sorted_t out /\
      (forall t, In t out -> fst (fst t) = k) /\
      (forall k0 i v, entry_of its k0 i v <-> In (k0, i, v) out \/ entry_of its' k0 i v) /\
      (forall k0 i v, entry_of its' k0 i v -> scmp k k0 = Lt) /\
      Forall asc its' /\ nozero its' /\ (total its' < total its)%nat
  end.
Proof.
  intros Hasc Hz Hskip. unfold step.
  assert (HE: elig skip 0 (map head its) = elig false 0 (map head its)).
  { destruct skip; [|reflexivity]. apply elig_noskip. now apply Hskip. }
  pose proof (update_spec skip (map head its)) as U. rewrite HE in U.
  destruct (update skip 0 (map head its) None []) as [[k|] idxs].
  - destruct U as [[[i0 Hi0] Hlow] Hidx]. exists k.
    assert (Hin_idx: forall i, In i idxs <-> exists l v, nth_error its i = Some l /\ head l = Some (k, v)).
    { intros i. rewrite Hidx, idxs_of_in. now apply elig_heads. }
    assert (Hits': forall i, nth_error (advance 0 idxs its) i =
                       option_map (fun l => if existsb (Nat.eqb i) idxs then tl l else l) (nth_error its i)).
    { intros i. now rewrite advance_nth. }
    split; [|split; [|split; [|split; [|split; [|split]]]]].
    + apply asc_nat_sorted. rewrite Hidx. apply idxs_of_asc.
    + intros t Hin. apply in_map_iff in Hin as (i & <- & _). reflexivity.
    + intros k0 i v. unfold entry_of. rewrite Hits'. split.
      * intros (l & Hn & Hin). rewrite Hn. cbn [option_map].
        destruct (existsb (Nat.eqb i) idxs) eqn:Ex.
        -- apply existsb_eqb_in in Ex. pose proof Ex as Ex'. apply Hin_idx in Ex' as (l' & vh & Hn' & Hh). rewrite Hn in Hn'. injection Hn' as <-.
           destruct l as [|[kh vh'] l]; [destruct Hin|]. cbn in Hh. injection Hh as -> ->. destruct Hin as [Heq|Hin].
           ++ injection Heq as <- <-. left. apply in_map_iff. exists i. split; [|exact Ex].
              f_equal. eapply val_at_head; eauto. reflexivity.
           ++ right. exists l. split; [reflexivity|exact Hin].
        -- right. exists l. split; [reflexivity|exact Hin].
      * intros [Hin|(l' & Hn & Hin)].
        -- apply in_map_iff in Hin as (i' & Heq & Hi'). injection Heq as Ek Ei Ev. subst k0 i v.
           apply Hin_idx in Hi' as (l & vh & Hn & Hh). exists l. split; [exact Hn|].
           rewrite (val_at_head its i' l k vh Hn Hh). destruct l as [|[kh vh'] l]; [discriminate|]. cbn in Hh. injection Hh as -> ->. now left.
        -- destruct (nth_error its i) as [l|] eqn:En; [|discriminate]. cbn in Hn. injection Hn as <-. exists l. split; [reflexivity|].
           destruct (existsb (Nat.eqb i) idxs); [|exact Hin]. destruct l; [destruct Hin|now right].
    + intros k0 i v (l' & Hn & Hin). rewrite Hits' in Hn.
      destruct (nth_error its i) as [l|] eqn:En; [|discriminate]. cbn in Hn. injection Hn as <-.
      assert (Hal: asc l) by (eapply Forall_forall; [exact Hasc|eapply nth_error_In; eauto]).
      destruct (existsb (Nat.eqb i) idxs) eqn:Ex.
      * apply existsb_eqb_in in Ex. apply Hin_idx in Ex as (l0 & vh & Hn0 & Hh). rewrite En in Hn0. injection Hn0 as <-.
        eapply asc_head_lt; eauto.
      * destruct l as [|[kh vh] l]; [destruct Hin|].
        assert (HinE: In (i, kh) (elig false 0 (map head its))) by (apply elig_heads; [exact Hz|]; exists ((kh, vh) :: l), vh; now split).
        pose proof (Hlow i kh HinE) as Hge.
        assert (Hne: kh <> k).
        { intros ->. assert (In i idxs) by (apply Hin_idx; exists ((k, vh) :: l), vh; now split).
          apply existsb_eqb_in in H. congruence. }
        assert (Hlt: scmp k kh = Lt).
        { destruct (scmp kh k) eqn:E; [apply scmp_eq in E; congruence|congruence|now apply scmp_lt_gt]. }
        destruct Hin as [Heq|Hin]; [injection Heq as <- <-; exact Hlt|].
        eapply scmp_lt_trans; [exact Hlt|]. cbn in Hal. destruct Hal as [Hal _]. eapply Hal; eauto.
    + apply Forall_forall. intros l' Hin. apply In_nth_error in Hin as (i & Hn). rewrite Hits' in Hn.
      destruct (nth_error its i) as [l|] eqn:En; [|discriminate]. cbn in Hn. injection Hn as <-.
      assert (Hal: asc l) by (eapply Forall_forall; [exact Hasc|eapply nth_error_In; eauto]).
      destruct (existsb (Nat.eqb i) idxs); [now apply asc_tl|exact Hal].
    + intros l' k0 v0 Hin Hin0. apply In_nth_error in Hin as (i & Hn). rewrite Hits' in Hn.
      destruct (nth_error its i) as [l|] eqn:En; [|discriminate]. cbn in Hn. injection Hn as <-.
      apply (Hz l k0 v0); [eapply nth_error_In; eauto|].
      destruct (existsb (Nat.eqb i) idxs); [|exact Hin0]. destruct l; [destruct Hin0|now right].
    + apply elig_heads in Hi0 as (l & v & Hn & Hh); [|exact Hz].
      apply (total_advance_lt its 0 idxs i0 l Hn); [destruct l; [discriminate|discriminate]|].
      cbn. apply Hin_idx. exists l, v. now split.
  - destruct U as [HEn _]. intros k i v (l & Hn & Hin).
    destruct l as [|[kh vh] l]; [destruct Hin|].
    assert (In (i, kh) (elig false 0 (map head its))) by (apply elig_heads; [exact Hz|]; exists ((kh, vh) :: l), vh; now split).
    rewrite HEn in H. destruct H.
Qed.

(* ---- the whole enumeration ---- *)
Lemma scmp_nil_r k : scmp k [] <> Lt.
Proof. destruct k; cbn; discriminate. Qed.

Lemma enum_spec : forall fuel its skip, Forall asc its -> nozero its -> (skip = true -> nohead_empty its) -> (total its < fuel)%nat ->
  sorted_t (enum fuel skip its) /\ (forall k i v, In (k, i, v) (enum fuel skip its) <-> entry_of its k i v).
Proof.
  induction fuel as [|fuel IH]; intros its skip Hasc Hz Hskip Hf; [lia|].
  cbn [enum]. pose proof (step_spec skip its Hasc Hz Hskip) as S.
  destruct (step skip its) as [[out its']|].
  - destruct S as (k & Hso & Hk & Hmem & Hlb & Hasc' & Hz' & Htot).
    assert (Hne: nohead_empty its').
    { intros l' k' v' Hin Hh. apply In_nth_error in Hin as (i & Hn).
      assert (E: entry_of its' k' i v') by (exists l'; split; [exact Hn|]; destruct l'; [discriminate|]; cbn in Hh; injection Hh as ->; now left).
      apply Hlb in E. intros ->. now apply (scmp_nil_r k). }
    destruct (IH its' true Hasc' Hz' (fun _ => Hne) ltac:(lia)) as [Hs' Hm'].
    split.
    + apply sorted_t_app; [exact Hso|exact Hs'|].
      intros [[kx ix] vx] [[ky iy] vy] Hx Hy. cbn. left.
      apply Hk in Hx. cbn in Hx. subst kx. apply Hm' in Hy. now apply (Hlb ky iy vy).
    + intros k0 i v. rewrite in_app_iff, Hm'. symmetry. apply Hmem.
  - split; [exact I|]. intros k i v. split; [intros []|]. intros E. exfalso. eapply S; eauto.
Qed.

(* C06 / C13: the enumerator yields exactly the entries of its input iterators, each once, in
   ascending (key, iterator index) order *)
Theorem enumerate_spec : forall its, Forall asc its -> nozero its ->
  sorted_t (enumerate its) /\
  (forall k i v, In (k, i, v) (enumerate its) <-> exists l, nth_error its i = Some l /\ In (k, v) l).
Proof.
  intros its Hasc Hz. unfold enumerate. apply enum_spec; [exact Hasc|exact Hz|discriminate|lia].
Qed.
Print Assumptions enumerate_spec.

(* a strictly sorted list has no duplicates: "each once" *)
Lemma sorted_t_nodup : forall l, sorted_t l -> NoDup l.
Proof.
  induction l as [|t l IH]; intros H; [constructor|]. destruct H as [H1 H2]. constructor; [|now apply IH].
  intros Hin. specialize (H1 t Hin). destruct t as [[k i] v]. cbn in H1. destruct H1 as [H|[_ H]]; [now apply (scmp_lt_irrefl k)|lia].
Qed.

Example enumerate_example :
  enumerate [[([], 5); ([97], 1); ([99], 2)]; []; [([97], 7); ([98], 3)]; [([], 9)]] =
  [([], 0%nat, 5); ([], 3%nat, 9); ([97], 0%nat, 1); ([97], 2%nat, 7); ([98], 2%nat, 3); ([99], 0%nat, 2)].
Proof. vm_compute. reflexivity. Qed.

(* outside the hypothesis: an entry ("", 0) is taken for an exhausted iterator, and because that
   iterator is then never advanced, all its entries are lost (unreachable for zapx dictionaries,
   whose values are never 0; the correspondence run exercises this corner too) *)
Example enumerate_zero_quirk : enumerate [[([], 0); ([97], 1)]; [([98], 2)]] = [([98], 1%nat, 2)].
Proof. vm_compute. reflexivity. Qed.
