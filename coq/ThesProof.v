(* C12 / C13 / C09: the frozen reader's thesaurus decoder (Layout.thesaurus_at / syn_pairs /
   dec_synterm) inverts the documented encoding of a thesaurus (section_synonym_index.go
   writeThesauri / writeSynTermMap / writeSynonyms):
     uvarint |fst|, fst bytes (term -> address of its postings), then the id -> term table:
     uvarint n, n x (uvarint id, uvarint |term|, term);
   at each term's address: uvarint |bitmap|, a 64-bit roaring bitmap of codes (synonym id << 32 | doc).
   The vellum FST and the roaring64 container are Section oracles (decode . encode = id). *)
From Coq Require Import List NArith ZArith Lia Bool.
From Coq Require Import ZifyN ZifyNat ZifyBool.
Import ListNotations.
Require Import Opt Bytes Footer Kernel Spec Layout LayoutProof.
Open Scope N_scope.

Section Th.
Variable fst_enc : list (str * N) -> bytes.
Variable dec_fst : bytes -> option (list (str * N)).
Hypothesis fst_ok : forall kvs, dec_fst (fst_enc kvs) = Some kvs.
Variable roar64_enc : list N -> bytes.
Variable dec_roar64 : bytes -> option (list N).
Hypothesis roar64_ok : forall l, dec_roar64 (roar64_enc l) = Some l.

(* ---- the id -> term table ---- *)
Definition enc_synterm (e : N * str) : bytes := uv (fst e) ++ uv (nlenb (snd e)) ++ snd e.
Definition wf_synterm (e : N * str) : Prop := u64 (fst e) /\ u64 (nlenb (snd e)).

Lemma dec_synterm_ok e rest : wf_synterm e -> dec_synterm (enc_synterm e ++ rest) = Some (e, rest).
Proof.
  destruct e as [id t]. intros [H1 H2]. cbn [fst snd] in *. unfold dec_synterm, enc_synterm. cbn [fst snd].
  rewrite <- !app_assoc. rewrite dec_uv_app by exact H1. cbn [bindo].
  rewrite dec_uv_app by exact H2. cbn [bindo]. unfold nlenb. rewrite take_app. reflexivity.
Qed.

Lemma repeat_dec_synterms : forall tbl rest, Forall wf_synterm tbl ->
  repeat_dec (length tbl) dec_synterm (flat_map enc_synterm tbl ++ rest) = Some (tbl, rest).
Proof.
  induction tbl as [|e tbl IH]; intros rest H; [reflexivity|]. inversion H; subst.
  cbn [length flat_map repeat_dec]. rewrite <- app_assoc. rewrite dec_synterm_ok by assumption. cbn [bindo].
  rewrite IH by assumption. reflexivity.
Qed.

(* ---- one term's postings ---- *)
Definition code_of (p : N * N) : N := enc_pair32 (fst p) (snd p).
Definition wf_pair (tbl : list (N * str)) (p : N * N) : Prop :=
  fst p < 2 ^ 32 /\ snd p < 2 ^ 32 /\ exists t, assocN (fst p) tbl = Some t.
Definition resolve (tbl : list (N * str)) (p : N * N) : str * N :=
  (match assocN (fst p) tbl with Some t => t | None => [] end, snd p).
Definition enc_posts (ps : list (N * N)) : bytes :=
  let rb := roar64_enc (map code_of ps) in uv (nlenb rb) ++ rb.

Lemma mapopt_resolve tbl : forall ps, Forall (wf_pair tbl) ps ->
  mapopt (fun c => let '(sid, doc) := dec_pair32 c in do t <- assocN sid tbl; Some (t, doc)) (map code_of ps)
  = Some (map (resolve tbl) ps).
Proof.
  induction ps as [|[sid doc] ps IH]; intros H; [reflexivity|]. inversion H as [|? ? Hp Hps]; subst.
  destruct Hp as (H1 & H2 & t & Ht). cbn [fst snd] in *.
  cbn [map mapopt]. unfold code_of at 1. cbn [fst snd].
  destruct (pair32_roundtrip sid doc H1 H2) as [-> _]. rewrite Ht. cbn [bindo].
  rewrite IH by assumption. cbn [bindo]. unfold resolve at 2. cbn [fst snd]. now rewrite Ht.
Qed.

Lemma syn_pairs_ok file tbl off ps rest :
  Forall (wf_pair tbl) ps -> u64 (nlenb (roar64_enc (map code_of ps))) ->
  at_off file off = Some (enc_posts ps ++ rest) ->
  syn_pairs dec_roar64 file tbl off = Some (fold_right pins [] (map (resolve tbl) ps)).
Proof.
  intros Hw Hu Hat. unfold syn_pairs. rewrite Hat. cbn [bindo]. unfold enc_posts.
  rewrite <- app_assoc. rewrite dec_uv_app by exact Hu. cbn [bindo].
  unfold nlenb. rewrite take_app. cbn [bindo]. rewrite roar64_ok. cbn [bindo].
  rewrite mapopt_resolve by exact Hw. reflexivity.
Qed.

(* ---- the whole thesaurus ---- *)
Definition enc_thes (kvs : list (str * N)) (tbl : list (N * str)) : bytes :=
  let fb := fst_enc kvs in
  uv (nlenb fb) ++ fb ++ match kvs with [] => [] | _ => uv (N.of_nat (length tbl)) ++ flat_map enc_synterm tbl end.

Lemma mapopt_terms file tbl : forall (kvs : list (str * N)) (posts : list (list (N * N))),
  Forall2 (fun kv ps => Forall (wf_pair tbl) ps /\ u64 (nlenb (roar64_enc (map code_of ps))) /\
                        exists rest, at_off file (snd kv) = Some (enc_posts ps ++ rest)) kvs posts ->
  mapopt (fun kv => do ps <- syn_pairs dec_roar64 file tbl (snd kv); Some (fst kv, ps)) kvs =
  Some (map (fun x => (fst (fst x), fold_right pins [] (map (resolve tbl) (snd x)))) (combine kvs posts)).
Proof.
  induction kvs as [|kv kvs IH]; intros posts H; inversion H as [|? ps ? posts' Hh Ht]; subst; [reflexivity|].
  destruct Hh as (Hw & Hu & rest & Hat). cbn [mapopt combine map fst snd].
  rewrite (syn_pairs_ok file tbl (snd kv) ps rest Hw Hu Hat). cbn [bindo].
  rewrite (IH posts' Ht). reflexivity.
Qed.

Theorem thesaurus_roundtrip : forall file loc (kvs : list (str * N)) tbl (posts : list (list (N * N))) rest,
  u64 (nlenb (fst_enc kvs)) -> Forall wf_synterm tbl -> N.of_nat (length tbl) < max_count ->
  at_off file loc = Some (enc_thes kvs tbl ++ rest) ->
  Forall2 (fun kv ps => Forall (wf_pair tbl) ps /\ u64 (nlenb (roar64_enc (map code_of ps))) /\
                        exists rest', at_off file (snd kv) = Some (enc_posts ps ++ rest')) kvs posts ->
  thesaurus_at dec_fst dec_roar64 file loc =
  Some (map (fun x => (fst (fst x), fold_right pins [] (map (resolve tbl) (snd x)))) (combine kvs posts)).
Proof.
  intros file loc kvs tbl posts rest Hfu Htbl Hn Hat Hposts.
  unfold thesaurus_at. rewrite Hat. cbn [bindo]. unfold enc_thes. rewrite <- !app_assoc.
  rewrite dec_uv_app by exact Hfu. cbn [bindo]. unfold nlenb at 1. rewrite take_app. cbn [bindo].
  rewrite fst_ok. cbn [bindo].
  destruct kvs as [|kv kvs]; [inversion Hposts; reflexivity|].
  rewrite <- app_assoc. rewrite dec_uv_app by (unfold u64, max_count in *; lia). cbn [bindo].
  unfold count_ok. assert ((N.of_nat (length tbl) <? max_count) = true) as -> by lia. cbn [negb].
  rewrite Nnat.Nat2N.id. rewrite repeat_dec_synterms by exact Htbl. cbn [bindo].
  apply mapopt_terms. exact Hposts.
Qed.
End Th.
Print Assumptions thesaurus_roundtrip.

(* non-vacuity: with toy oracles (the FST blob [7] stands for the map "h" -> 20; a bitmap is the
   list of its codes) a file laid out as the theorem requires, and the reader's result on it *)
Example thesaurus_example :
  let dec_fst := fun b : bytes => match b with [7] => Some [([104], 20)] | _ => None end in
  let file := enc_thes (fun _ => [7]) [([104], 20)] [(0, [103])] ++ repeat 0 14 ++ enc_posts (fun l => l) [(0, 5)] in
  at_off file 20 = Some (enc_posts (fun l => l) [(0, 5)] ++ []) /\
  Forall (wf_pair [(0, [103])]) [(0, 5)] /\
  thesaurus_at dec_fst (fun b => Some b) file 0 = Some [([104], [([103], 5)])].
Proof. cbv zeta. split; [vm_compute; reflexivity|]. split; [|vm_compute; reflexivity].
  repeat constructor; cbn; try lia. exists [103]. reflexivity. Qed.
