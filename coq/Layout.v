(* The v16 on-disk layout as a reader: parse_v16 decodes a complete file into the abstract
   `content`, following only the documented layout (DESIGN.md 3.5; frozen here, never regenerated).
   Third-party blobs (vellum FST, roaring, roaring64, snappy) are decoded by oracles given as Section
   variables; in the extracted binary they are answered by the harness co-process using those
   libraries directly. *)
From Coq Require Import List NArith Bool.
Import ListNotations.
Require Import Opt Bytes Kernel Footer Streams Spec Automata Dict.
Open Scope N_scope.


(* positional access by structural recursion on the bytes (no unary numbers, no measuring of the
   long remainder of the file) *)
Fixpoint skip_n (bs : bytes) (n : N) : option bytes :=
  match bs with
  | [] => if n =? 0 then Some [] else None
  | _ :: r => if n =? 0 then Some bs else skip_n r (n - 1)
  end.
Fixpoint take_n (bs : bytes) (n : N) (acc : bytes) : option (bytes * bytes) :=
  match bs with
  | [] => if n =? 0 then Some (rev' acc, []) else None
  | b :: r => if n =? 0 then Some (rev' acc, bs) else take_n r (n - 1) (b :: acc)
  end.
Definition at_off (file : bytes) (off : N) : option bytes := skip_n file off.
Definition take (n : N) (bs : bytes) : option (bytes * bytes) := take_n bs n [].
Fixpoint nthN {X} (l : list X) (n : N) : option X :=
  match l with
  | [] => None
  | x :: r => if n =? 0 then Some x else nthN r (n - 1)
  end.
Definition max_count : N := 4194304.      (* counts read from a file drive loops: larger ones are rejected *)

Fixpoint repeat_dec {X} (k : nat) (dec : bytes -> option (X * bytes)) (bs : bytes) : option (list X * bytes) :=
  match k with
  | O => Some ([], bs)
  | S k' => do (x, r) <- dec bs; do (xs, r') <- repeat_dec k' dec r; Some (x :: xs, r')
  end.

(* a count read from the file bounds a loop: reject counts larger than the file itself *)
Definition count_ok (file : bytes) (n : N) : bool := n <? max_count.

Definition none64 : N := 18446744073709551615.
Fixpoint somes_ {X} (l : list (option X)) : list X :=
  match l with [] => [] | Some x :: r => x :: somes_ r | None :: r => somes_ r end.

Section Parse.
Variable dec_fst : bytes -> option (list (str * N)).      (* ascending (key, value) pairs *)
Variable dec_roar : bytes -> option (list N).             (* ascending members *)
Variable dec_roar64 : bytes -> option (list N).
Variable dec_snappy : bytes -> option bytes.
Variable dvchunk : N.                                     (* doc-value chunk size (legacy chunk mode) *)

(* ---------- sections index and field records ---------- *)
Definition sec_inverted : N := 0.
Definition sec_vector : N := 1.
Definition sec_synonym : N := 2.

Definition dec_section (bs : bytes) : option ((N * N) * bytes) :=
  do (t, r) <- unbe 2 bs; do (a, r') <- unbe 8 r; Some ((t, a), r').

Definition frec := option (str * list (N * N)).

Definition field_record (file : bytes) (addr : N) : option frec :=
  if addr =? 0 then Some None                       (* rule L-0: a record at offset 0 is ignored *)
  else
    do bs <- at_off file addr;
    do (nl, r1) <- dec_uv bs;
    do (name, r2) <- take nl r1;
    do (ns, r3) <- dec_uv r2;
    if negb (count_ok file ns) then None else
    do (secs, _) <- repeat_dec (N.to_nat ns) dec_section r3;
    Some (Some (name, secs)).

Definition field_table (file : bytes) (secIdx : N) : option (list frec) :=
  do bs <- at_off file secIdx;
  do (nf, r) <- dec_uv bs;
  if negb (count_ok file nf) then None else
  do (addrs, _) <- repeat_dec (N.to_nat nf) (unbe 8) r;
  mapopt (field_record file) addrs.

Definition sec_addr (secs : list (N * N)) (t : N) : N :=
  match find (fun e => fst e =? t) secs with Some e => snd e | None => 0 end.

Definition field_name (ft : list frec) (id : N) : option str :=
  match nthN ft id with
  | Some (Some (name, _)) => Some name
  | _ => None
  end.

(* ---------- chunked integer streams ---------- *)
(* uvarint nChunks, nChunks cumulative end offsets, data; offset 0 = stream absent *)
Fixpoint slice_chunks (start : N) (ends : list N) (data : bytes) : option (list bytes) :=
  match ends with
  | [] => Some []
  | e :: r =>
      if e <? start then None else
      do sk <- skip_n data start;
      do (c, _) <- take (e - start) sk;
      do cs <- slice_chunks e r data;
      Some (c :: cs)
  end.

Definition stream_chunks (file : bytes) (off : N) : option (list bytes) :=
  if off =? 0 then Some [] else
  do bs <- at_off file off;
  do (n, r) <- dec_uv bs;
  if negb (count_ok file n) then None else
  do (ends, data) <- repeat_dec (N.to_nat n) dec_uv r;
  slice_chunks 0 ends data.

Definition chunk_of (chunks : list bytes) (c : N) : bytes := match nthN chunks c with Some b => b | None => [] end.

(* ---------- postings ---------- *)
Definition resolve_loc (ft : list frec) (l : Streams.loc) : option Spec.loc :=
  do nm <- field_name ft (Streams.l_field l);
  Some {| Spec.l_field := nm; Spec.l_pos := Streams.l_pos l; Spec.l_start := Streams.l_start l;
          Spec.l_end := Streams.l_end l; Spec.l_ap := Streams.l_ap l |}.

(* cursor: the chunk both streams are positioned in and their unread bytes *)
Definition cursor := (option N * bytes * bytes)%type.

Fixpoint decode_hits (ft : list frec) (cs : N) (fch lch : list bytes) (docs : list N) (cur : cursor)
  : option (list hit) :=
  match docs with
  | [] => Some []
  | d :: rest =>
      let c := d / cs in
      let '(cc, fr, lr) := cur in
      let '(fr, lr) := match cc with
                       | Some c0 => if c0 =? c then (fr, lr) else (chunk_of fch c, chunk_of lch c)
                       | None => (chunk_of fch c, chunk_of lch c)
                       end in
      do (fnl, fr') <- dec_tf fr;
      let '(freq, norm, hl) := fnl in
      do (ls, lr') <- (if hl then
                         do (sl, lr1) <- dec_locblock lr;
                         do rl <- mapopt (resolve_loc ft) sl;
                         Some (rl, lr1)
                       else Some ([], lr));
      do hs <- decode_hits ft cs fch lch rest (Some c, fr', lr');
      Some ({| h_doc := d; h_freq := freq; h_norm := norm; h_locs := ls |} :: hs)
  end.

Definition postings_at (file : bytes) (ft : list frec) (mode ndocs : N) (v : N) : option (list hit) :=
  if is1hit v then
    let '(d, nrm) := dec1hit v in
    Some [{| h_doc := d; h_freq := 1; h_norm := nrm; h_locs := [] |}]
  else
    do bs <- at_off file v;
    do (fo, r1) <- dec_uv bs;
    do (lo, r2) <- dec_uv r1;
    do (rl, r3) <- dec_uv r2;
    do (rb, _) <- take rl r3;
    do docs <- dec_roar rb;
    match chunk_size_spec mode (N.of_nat (length docs)) ndocs with
    | (_, true) => None
    | (cs, false) =>
        do fch <- stream_chunks file fo;
        do lch <- stream_chunks file lo;
        decode_hits ft cs fch lch docs (None, [], [])
    end.

Definition dict_at (file : bytes) (ft : list frec) (mode ndocs : N) (dictLoc : N) : option (list (str * list hit)) :=
  if dictLoc =? 0 then Some [] else
  do bs <- at_off file dictLoc;
  do (fl, r) <- dec_uv bs;
  do (fb, _) <- take fl r;
  do kvs <- dec_fst fb;
  mapopt (fun kv => do hs <- postings_at file ft mode ndocs (snd kv); Some (fst kv, hs)) kvs.

(* the dictionary of one field as (term, kind of FST value): what DictionaryIterator decodes *)
Definition fstval_at (file : bytes) (v : N) : option fstval :=
  if is1hit v then let '(d, nrm) := dec1hit v in Some (OneHit d nrm)
  else
    do bs <- at_off file v;
    do (_, r1) <- dec_uv bs;
    do (_, r2) <- dec_uv r1;
    do (rl, r3) <- dec_uv r2;
    do (rb, _) <- take rl r3;
    do docs <- dec_roar rb;
    Some (General (N.of_nat (length docs))).

Definition dict_entries (file : bytes) (field : str) : option (list (str * fstval)) :=
  do (pm, _) <- Footer.parse file;
  let '(_, ft0) := pm in
  do ft <- field_table file (sectionsIdx ft0);
  match find (fun fr => seqb (fst fr) field) (somes_ ft) with
  | None => Some []
  | Some (_, secs) =>
      let inv := sec_addr secs sec_inverted in
      if inv =? 0 then Some [] else
      do bs <- at_off file inv;
      do (_, r1) <- dec_uv bs;
      do (_, r2) <- dec_uv r1;
      do (dl, _) <- dec_uv r2;
      if dl =? 0 then Some [] else
      do ds <- at_off file dl;
      do (fl, r) <- dec_uv ds;
      do (fb, _) <- take fl r;
      do kvs <- dec_fst fb;
      mapopt (fun kv => do fv <- fstval_at file (snd kv); Some (fst kv, fv)) kvs
  end.

(* ---------- doc values ---------- *)
(* split on the 0xff separator: every term is followed by one *)
Fixpoint split_terms (cur : bytes) (bs : bytes) : list str :=
  match bs with
  | [] => []
  | b :: r => if b =? 255 then rev' cur :: split_terms [] r else split_terms (b :: cur) r
  end.

Fixpoint dv_docs (k : N) (start : N) (metas : list (N * N)) (data : bytes) : option (list (N * list str)) :=
  match metas with
  | [] => Some []
  | (doc, e) :: r =>
      if (e <? start) || negb (doc / dvchunk =? k) then None else
      do sk <- skip_n data start;
      do (seg, _) <- take (e - start) sk;
      do rest <- dv_docs k e r data;
      Some ((doc, fold_right sins [] (split_terms [] seg)) :: rest)
  end.

Definition dec_dvmeta (bs : bytes) : option ((N * N) * bytes) :=
  do (d, r) <- dec_uv bs; do (e, r') <- dec_uv r; Some ((d, e), r').

Definition dv_chunk (k : N) (chunk : bytes) : option (list (N * list str)) :=
  do (nd, r) <- dec_uv chunk;
  if negb (nd <? max_count) then None else
  do (metas, comp) <- repeat_dec (N.to_nat nd) dec_dvmeta r;
  do data <- dec_snappy comp;
  dv_docs k 0 metas data.

Fixpoint dv_chunks (k : N) (start : N) (ends : list N) (region : bytes) : option (list (N * list str)) :=
  match ends with
  | [] => Some []
  | e :: r =>
      if e <? start then None else
      do here <- (if e =? start then Some []
                  else do sk <- skip_n region start; do (c, _) <- take (e - start) sk; dv_chunk k c);
      do rest <- dv_chunks (k + 1) e r region;
      Some (here ++ rest)
  end.

Definition dv_at (file : bytes) (dvStart dvEnd : N) : option (list (N * list str)) :=
  if (dvEnd <? dvStart + 16) then None else
  do bs <- at_off file dvStart;
  do (region, _) <- take (dvEnd - dvStart) bs;
  let n := dvEnd - dvStart in
  do s8 <- skip_n region (n - 8);
  do (nch, _) <- unbe 8 s8;
  do s16 <- skip_n region (n - 16);
  do (ol, _) <- unbe 8 s16;
  if (n - 16 <? ol) || negb (count_ok file nch) then None else
  do so <- skip_n region (n - 16 - ol);
  do (ends, _) <- repeat_dec (N.to_nat nch) dec_uv so;
  dv_chunks 0 0 ends region.

(* ---------- stored fields ---------- *)
Fixpoint dec_stored_meta (fuel : nat) (ft : list frec) (meta : bytes) (data : bytes) : option (list sval) :=
  match meta with
  | [] => Some []
  | _ =>
    match fuel with
    | O => None
    | S f =>
      do (fid, r1) <- dec_uv meta;
      do (typ, r2) <- dec_uv r1;
      do (off, r3) <- dec_uv r2;
      do (len, r4) <- dec_uv r3;
      do (na, r5) <- dec_uv r4;
      if negb (na <? max_count) then None else
      do (ap, r6) <- dec_uvs (N.to_nat na) r5;
      do nm <- field_name ft fid;
      do bs <- at_off data off;
      do (v, _) <- take len bs;
      do rest <- dec_stored_meta f ft r6 data;
      Some ({| s_field := nm; s_typ := typ; s_val := v; s_ap := ap |} :: rest)
    end
  end.

Definition stored_doc (file : bytes) (ft : list frec) (storedIdx : N) (d : N) : option (list sval) :=
  do ib <- at_off file (storedIdx + 8 * d);
  do (so, _) <- unbe 8 ib;
  do bs <- at_off file so;
  do (ml, r1) <- dec_uv bs;
  do (dl, r2) <- dec_uv r1;
  do (meta, r3) <- take ml r2;
  do (data, _) <- take dl r3;
  do (idl, mrest) <- dec_uv meta;
  do (idv, comp) <- take idl data;
  do un <- dec_snappy comp;
  do vals <- dec_stored_meta (length meta) ft mrest un;
  Some ({| s_field := id_name; s_typ := 116; s_val := idv; s_ap := [] |} :: vals).

Fixpoint nseq (start : N) (k : nat) : list N :=
  match k with O => [] | S k' => start :: nseq (start + 1) k' end.

(* ---------- thesauri ---------- *)
Definition dec_synterm (bs : bytes) : option ((N * str) * bytes) :=
  do (id, r1) <- dec_uv bs; do (tl, r2) <- dec_uv r1; do (t, r3) <- take tl r2; Some ((id, t), r3).

Fixpoint assocN (k : N) (l : list (N * str)) : option str :=
  match l with [] => None | (k', v) :: r => if k =? k' then Some v else assocN k r end.

Definition syn_pairs (file : bytes) (idmap : list (N * str)) (off : N) : option (list (str * N)) :=
  do bs <- at_off file off;
  do (rl, r) <- dec_uv bs;
  do (rb, _) <- take rl r;
  do codes <- dec_roar64 rb;
  do ps <- mapopt (fun c => let '(sid, doc) := dec_pair32 c in do t <- assocN sid idmap; Some (t, doc)) codes;
  Some (fold_right pins [] ps).

Definition thesaurus_at (file : bytes) (thesLoc : N) : option (list (str * list (str * N))) :=
  do bs <- at_off file thesLoc;
  do (fl, r) <- dec_uv bs;
  do (fb, r2) <- take fl r;
  do kvs <- dec_fst fb;
  (* a thesaurus that lost every definition in a merge has an empty term map and NO id table at all
     (writeSynTermMap writes nothing for an empty table): no term, hence nothing to look up *)
  match kvs with [] => Some [] | _ =>
  do (ns, r3) <- dec_uv r2;
  if negb (count_ok file ns) then None else
  do (idmap, _) <- repeat_dec (N.to_nat ns) dec_synterm r3;
  mapopt (fun kv => do ps <- syn_pairs file idmap (snd kv); Some (fst kv, ps)) kvs
  end.

(* ---------- per field ---------- *)
Record pfield := { pf_name : str; pf_dict : list (str * list hit); pf_dv : option (list (N * list str));
                   pf_thes : option (list (str * list (str * N))) }.

Definition parse_field (file : bytes) (ft : list frec) (mode ndocs : N) (fr : str * list (N * N)) : option pfield :=
  let '(name, secs) := fr in
  let inv := sec_addr secs sec_inverted in
  do idv <- (if inv =? 0 then Some ([], None)
             else
               do bs <- at_off file inv;
               do (dvS, r1) <- dec_uv bs;
               do (dvE, r2) <- dec_uv r1;
               do (dl, _) <- dec_uv r2;
               do dict <- dict_at file ft mode ndocs dl;
               do dv <- (if dvS =? none64 then Some None else do x <- dv_at file dvS dvE; Some (Some x));
               Some (dict, dv));
  let syn := sec_addr secs sec_synonym in
  do th <- (if syn =? 0 then Some None
            else
              do bs <- at_off file syn;
              do (_, r1) <- dec_uv bs;
              do (_, r2) <- dec_uv r1;
              do (tl, _) <- dec_uv r2;
              do t <- thesaurus_at file tl;
              Some (Some t));
  Some {| pf_name := name; pf_dict := fst idv; pf_dv := snd idv; pf_thes := th |}.

Fixpoint somes {X} (l : list (option X)) : list X :=
  match l with [] => [] | Some x :: r => x :: somes r | None :: r => somes r end.

(* canonical order of fields: "_id" first, the rest ascending *)
Definition canon_fields (names : list str) : list str :=
  let s := ssort names in
  (if existsb (seqb id_name) s then [id_name] else []) ++ filter (fun x => negb (seqb x id_name)) s.

Definition by_name {X} (get : pfield -> option X) (pfs : list pfield) (names : list str) : list (str * X) :=
  flat_map (fun nm => match find (fun p => seqb (pf_name p) nm) pfs with
                      | Some p => match get p with Some x => [(nm, x)] | None => [] end
                      | None => [] end) names.

Definition sort_stored (d : list sval) : list sval :=
  match d with
  | [] => []
  | idv :: rest =>
      idv :: flat_map (fun nm => filter (fun v => seqb (s_field v) nm) rest) (ssort (map s_field rest))
  end.

Definition parse_v16 (file : bytes) : option content :=
  do (pm, crc) <- Footer.parse file;
  let '(mem, ft0) := pm in
  if negb (version ft0 =? 16) then None else
  if negb (crc =? crc32 (firstn (length file - 4) file)) then None else
  do ft <- field_table file (sectionsIdx ft0);
  let nd := numDocs ft0 in
  if negb (count_ok file nd) then None else
  do pfs <- mapopt (parse_field file ft (chunkMode ft0) nd) (somes ft);
  do stored <- mapopt (stored_doc file ft (storedIdx ft0)) (nseq 0 (N.to_nat nd));
  let names := canon_fields (map pf_name pfs) in
  Some {| c_ndocs := nd;
          c_fields := names;
          c_dicts := nonempty_dicts (by_name (fun p => Some (pf_dict p)) pfs names);
          c_stored := map sort_stored stored;
          c_dvfields := map fst (by_name pf_dv pfs names);
          c_dv := by_name pf_dv pfs names;
          c_thes := filter (fun e => match snd e with [] => false | _ => true end) (by_name pf_thes pfs names) |}.
End Parse.
