(* Structural tie for C01 / C06 / C07 / C09: writer and reader derive a postings list's chunk size
   from the same three quantities.  `gotrans skel` regenerates from /repo the argument texts of every
   getChunkSize call that is not the legacy doc-value one, and of the two postings loads of the merge
   term loop.  The reader (PostingsList.read) must pass the FULL cardinality of the bitmap it has just
   loaded - not the count left after exclusions; the builder the cardinality of the bitmap it writes;
   the merge the sum newCard of what survives, i.e. the first load of the term loop must apply the
   segment's deletions.  Deliberately syntactic (see DESIGN.md): renaming a variable breaks it. *)
From Coq Require Import List String.
Import ListNotations.
Require Import ZV.gen.Skeleton.
Open Scope string_scope.

Fixpoint lookup (k : string) (l : list (string * list string)) : option (list string) :=
  match l with [] => None | (k', v) :: r => if String.eqb k k' then Some v else lookup k r end.

Lemma tie_chunk_cardinality :
  lookup "PostingsList.read" chunk_size_calls = Some ["d.sb.chunkMode"; "rv.postings.GetCardinality()"; "d.sb.numDocs"] /\
  lookup "invertedIndexOpaque.writeDicts" chunk_size_calls = Some ["io.chunkMode"; "cardinality"; "uint64(len(io.results))"] /\
  lookup "mergeAndPersistInvertedSection" chunk_size_calls = Some ["chunkMode"; "newCard"; "newSegDocCount"] /\
  List.length chunk_size_calls = 3%nat /\
  merge_postings_loads = [["lowItrVals[i]"; "drops[idx]"; "nil"]; ["postingsOffset"; "drops[itrI]"; "postings"]].
Proof. timeout 240 (vm_compute; repeat split; reflexivity). Qed.
Print Assumptions tie_chunk_cardinality.
