(* Translator tie (one group per file so that a broken obligation does not mask the others):
   definitions of gen/KernelGen.v (regenerated from /repo's Go source on every run) are proved equal
   to the hand-written / frozen ones.  Every automatic step is bounded: a changed Go function must
   make these proofs FAIL, not loop. *)
From Coq Require Import List NArith ZArith Lia Bool.
From Coq Require Import ZifyN ZifyBool ZifyNat.
Require Import ZV.gen.KernelGen ZV.Kernel ZV.Bytes.
Import ListNotations.
Open Scope N_scope.
Ltac Zify.zify_post_hook ::= Z.div_mod_to_equations.
Ltac trefl := timeout 240 reflexivity.
Ltac tlia := timeout 240 lia.
Ltac tnia := timeout 240 nia.

(* numUvarintBytes x = number of bytes binary.PutUvarint emits for x *)
Lemma numUvarint_loop : forall f1 f2 x n, x < 128 ^ N.of_nat f1 -> x < 128 ^ N.of_nat f2 -> f2 <> O -> n + N.of_nat f1 < 2 ^ 64 ->
  snd (go_numUvarintBytes_loop0 f1 x n) + 1 = n + N.of_nat (length (uv_enc f2 x)).
Proof.
  induction f1 as [|f1 IH]; intros f2 x n H1 H2 Hf Hn.
  - change (128 ^ N.of_nat 0) with 1 in H1. assert (x = 0) by tlia. subst. destruct f2; [congruence|]. cbn. tlia.
  - destruct f2 as [|f2]; [congruence|].
    cbn [go_numUvarintBytes_loop0 uv_enc].
    destruct (128 <=? x) eqn:E.
    + assert ((x <? 128) = false) as -> by tlia. cbn [length].
      rewrite N.shiftr_div_pow2. change (2 ^ 7) with 128.
      unfold wrap. rewrite (N.mod_small (n + 1)) by tlia.
      rewrite Nnat.Nat2N.inj_succ, N.pow_succ_r' in H1.
      rewrite Nnat.Nat2N.inj_succ, N.pow_succ_r' in H2.
      assert (Hq1: x / 128 < 128 ^ N.of_nat f1) by (apply N.div_lt_upper_bound; tlia).
      assert (Hq2: x / 128 < 128 ^ N.of_nat f2) by (apply N.div_lt_upper_bound; tlia).
      assert (Hf2: f2 <> O).
      { intros ->. change (128 ^ N.of_nat 0) with 1 in Hq2. assert (x / 128 = 0) by tlia. tlia. }
      rewrite (IH f2 (x / 128) (n + 1) Hq1 Hq2 Hf2) by tlia.
      tlia.
    + assert ((x <? 128) = true) as -> by tlia. cbn [snd length]. tlia.
Qed.

Lemma tie_numUvarintBytes x : x < 2 ^ 64 -> go_numUvarintBytes x = N.of_nat (length (uv x)).
Proof.
  intros Hx. unfold go_numUvarintBytes, uv.
  pose proof (numUvarint_loop 64 10 x 0) as H.
  destruct (go_numUvarintBytes_loop0 64 x 0) as [x' n'] eqn:E. cbn [snd] in H.
  unfold wrap.
  assert (Hle: n' + 1 = 0 + N.of_nat (length (uv_enc 10 x))).
  { apply H.
    - eapply N.lt_trans; [exact Hx|]. trefl.
    - eapply N.lt_trans; [exact Hx|]. trefl.
    - discriminate.
    - trefl. }
  assert (Hlen: (length (uv_enc 10 x) <= 10)%nat).
  { clear. generalize 10%nat. intros f. revert x. induction f as [|f IH]; intros x; cbn; [tlia|].
    destruct (x <? 128); cbn; [tlia|]. specialize (IH (x / 128)). tlia. }
  rewrite N.mod_small by tlia. tlia.
Qed.
Print Assumptions tie_numUvarintBytes.
