(* Structural tie for C20: the reference-counting functions regenerated from /repo by `gotrans skel`
   have the shape Ref.v models: AddRef and DecRef run wholly inside Segment.m (one atomic step
   each), DecRef calls closeActual only inside that critical section, Close is DecRef, and a merge
   (a reader of its inputs) neither takes nor drops references of its inputs.
   ids: 31 Lock, 32 Unlock, 33 closeActual, 34 AddRef, 35 DecRef, 36 mergeSegmentBases *)
From Coq Require Import List NArith Bool.
Import ListNotations.
Require Import ZV.Skel ZV.gen.Skeleton.
Open Scope N_scope.
Ltac tvm := timeout 240 (vm_compute; repeat split; reflexivity).

(* every call (Some f) and return (None) of a skeleton, in syntactic order *)
Fixpoint flat (s : sk) : list (option N) :=
  match s with
  | KCall f => [Some f]
  | KDefer f => [Some f]
  | KSeq l => (fix go (l : list sk) : list (option N) := match l with [] => [] | x :: r => flat x ++ go r end) l
  | KIf a b => flat a ++ flat b
  | KIfErr a => flat a
  | KLoop a => flat a
  | KRet _ => [None]
  end.
Definition is_lock (e : option N) : bool := match e with Some 31 => true | Some 32 => true | None => true | _ => false end.
Definition mentions (c : N) (s : sk) : bool := existsb (fun e => match e with Some f => f =? c | None => false end) (flat s).

(* the body is one critical section: Lock is the first call, Unlock the last, and nothing locks,
   unlocks or returns in between (so every other call and the counter update happen under the mutex) *)
Definition critical (s : sk) : bool :=
  match flat s with
  | Some 31 :: r =>
      match rev r with
      | None :: Some 32 :: inner => negb (existsb is_lock inner)
      | Some 32 :: inner => negb (existsb is_lock inner)
      | _ => false
      end
  | _ => false
  end.

Lemma tie_refcount_atomic :
  critical sk_Segment_AddRef = true /\ mentions 33 sk_Segment_AddRef = false /\
  critical sk_Segment_DecRef = true /\
  (sk_Segment_DecRef = KSeq [KCall 31; KIf (KSeq [KCall 33]) (KSeq []); KCall 32; KRet true]) /\
  (sk_Segment_Close = KSeq [KCall 35; KRet false]) /\
  (* a merge reads its inputs without touching their reference counts *)
  mentions 33 sk_ZapPlugin_Merge = false /\ mentions 34 sk_ZapPlugin_Merge = false /\
  mentions 35 sk_ZapPlugin_Merge = false /\ mentions 33 sk_mergeSegmentBases = false /\
  mentions 34 sk_mergeSegmentBases = false /\ mentions 35 sk_mergeSegmentBases = false.
Proof. tvm. Qed.
Print Assumptions tie_refcount_atomic.
