(* Translator tie (one group per file so that a broken obligation does not mask the others):
   definitions of gen/KernelGen.v (regenerated from /repo's Go source on every run) are proved equal
   to the hand-written / frozen ones.  Every automatic step is bounded: a changed Go function must
   make these proofs FAIL, not loop. *)
From Coq Require Import List NArith ZArith Lia Bool.
From Coq Require Import ZifyN ZifyBool ZifyNat.
Require Import ZV.gen.KernelGen ZV.Kernel ZV.Bytes.
Import ListNotations.
Open Scope N_scope.
Ltac Zify.zify_post_hook ::= Z.div_mod_to_equations.
Ltac trefl := timeout 240 reflexivity.
Ltac tlia := timeout 240 lia.
Ltac tnia := timeout 240 nia.

Lemma tie_encodeSynonym sid doc : sid < 2 ^ 32 -> go_encodeSynonym sid doc = enc_pair32 sid doc.
Proof.
  intros Hs. unfold go_encodeSynonym, enc_pair32, wrap. rewrite N.mod_small; [trefl|].
  rewrite N.shiftl_mul_pow2. change (2 ^ 64) with (2 ^ 32 * 2 ^ 32). tnia.
Qed.
Print Assumptions tie_encodeSynonym.

Lemma tie_decodeSynonym c : go_decodeSynonym c = dec_pair32 c.
Proof. trefl. Qed.
Print Assumptions tie_decodeSynonym.
