(* Translator tie (one group per file so that a broken obligation does not mask the others):
   definitions of gen/KernelGen.v (regenerated from /repo's Go source on every run) are proved equal
   to the hand-written / frozen ones.  Every automatic step is bounded: a changed Go function must
   make these proofs FAIL, not loop. *)
From Coq Require Import List NArith ZArith Lia Bool.
From Coq Require Import ZifyN ZifyBool ZifyNat.
Require Import ZV.gen.KernelGen ZV.Kernel ZV.Bytes.
Import ListNotations.
Open Scope N_scope.
Ltac Zify.zify_post_hook ::= Z.div_mod_to_equations.
Ltac trefl := timeout 240 reflexivity.
Ltac tlia := timeout 240 lia.
Ltac tnia := timeout 240 nia.

Lemma lor_1_even v : N.even v = true -> N.lor v 1 = v + 1.
Proof.
  intros He. rewrite <- N.lxor_lor.
  - symmetry. apply N.add_nocarry_lxor. apply N.bits_inj_0. intros i. rewrite N.land_spec.
    destruct (N.eq_dec i 0) as [->|Hi].
    + rewrite N.bit0_odd, <- N.negb_even, He. trefl.
    + assert (N.testbit 1 i = false) as ->; [|apply andb_false_r].
      apply N.bits_above_log2. change (N.log2 1) with 0. tlia.
  - apply N.bits_inj_0. intros i. rewrite N.land_spec.
    destruct (N.eq_dec i 0) as [->|Hi].
    + rewrite N.bit0_odd, <- N.negb_even, He. trefl.
    + assert (N.testbit 1 i = false) as ->; [|apply andb_false_r].
      apply N.bits_above_log2. change (N.log2 1) with 0. tlia.
Qed.

Lemma tie_encodeFreqHasLocs freq hl : freq < 2 ^ 63 -> go_encodeFreqHasLocs freq hl = enc_fhl freq hl.
Proof.
  intros Hf. unfold go_encodeFreqHasLocs, enc_fhl, wrap. rewrite N.shiftl_mul_pow2. change (2 ^ 1) with 2.
  rewrite N.mod_small by (change (2 ^ 64) with (2 * 2 ^ 63); tlia).
  destruct hl; [|tlia].
  rewrite lor_1_even; [tlia|]. rewrite N.mul_comm. rewrite N.even_mul. trefl.
Qed.
Print Assumptions tie_encodeFreqHasLocs.

Lemma tie_decodeFreqHasLocs v : go_decodeFreqHasLocs v = dec_fhl v.
Proof.
  unfold go_decodeFreqHasLocs, dec_fhl. rewrite N.shiftr_div_pow2. change (2 ^ 1) with 2. f_equal.
  change 1 with (N.ones 1). rewrite N.land_ones. change (2 ^ 1) with 2.
  rewrite <- N.bit0_mod, N.bit0_odd. destruct (N.odd v); trefl.
Qed.
Print Assumptions tie_decodeFreqHasLocs.
