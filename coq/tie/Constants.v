(* Translator tie (one group per file so that a broken obligation does not mask the others):
   definitions of gen/KernelGen.v (regenerated from /repo's Go source on every run) are proved equal
   to the hand-written / frozen ones.  Every automatic step is bounded: a changed Go function must
   make these proofs FAIL, not loop. *)
From Coq Require Import List NArith ZArith Lia Bool.
From Coq Require Import ZifyN ZifyBool ZifyNat.
Require Import ZV.gen.KernelGen ZV.Kernel ZV.Bytes.
Import ListNotations.
Open Scope N_scope.
Ltac Zify.zify_post_hook ::= Z.div_mod_to_equations.
Ltac trefl := timeout 240 reflexivity.
Ltac tlia := timeout 240 lia.
Ltac tnia := timeout 240 nia.

Lemma tie_constants :
  go_Version = 16 /\ go_FooterSize = 52 /\ go_fieldNotUninverted = 2 ^ 64 - 1 /\ go_termNotEncoded = 0 /\
  go_docDropped = 2 ^ 64 - 1 /\ go_mask31Bits = m31 /\ go_FSTValEncoding1Hit = onehit_tag /\
  go_FSTValEncodingMask = 13835058055282163712 /\ go_FSTValEncodingGeneral = 0 /\
  go_DocNum1HitFinished = 2 ^ 64 - 1 /\ go_LegacyChunkMode = 1024 /\ go_DefaultChunkMode = 1026 /\
  go_termSeparator = 255 /\ go_SectionInvertedTextIndex = 0 /\ go_SectionFaissVectorIndex = 1 /\ go_SectionSynonymIndex = 2.
Proof. timeout 240 (repeat split; reflexivity). Qed.
Print Assumptions tie_constants.
