(* Structural tie for C19 (VecFault.v): in the build and merge routines of the vector section,
   regenerated from /repo by `gotrans skel`, EVERY call into the vector engine (13 IndexFactory,
   14 ReadIndexFromBuffer, 15 ReconstructBatch, 16 SetDirectMap, 17 Train, 18 AddWithIDs,
   19 WriteIndexIntoBuffer) is immediately followed by `if err != nil { ...; return err }`;
   and the merge releases the input indexes as a whole (event 12), never a part of them (45). *)
From Coq Require Import List NArith Bool.
Import ListNotations.
Require Import ZV.Skel ZV.gen.Skeleton ZV.tie.RefTie.
Open Scope N_scope.
Ltac tvm := timeout 240 (vm_compute; repeat split; reflexivity).

Definition is_engine (f : N) : bool := (13 <=? f) && (f <=? 19).
Definition err_return (s : sk) : bool :=
  match s with KSeq l => match rev l with KRet true :: _ => true | _ => false end | _ => false end.

Fixpoint engine_checked (s : sk) : bool :=
  match s with
  | KCall f => negb (is_engine f)          (* an engine call outside a sequence cannot be checked *)
  | KDefer _ | KRet _ => true
  | KIf a b => engine_checked a && engine_checked b
  | KIfErr a => engine_checked a
  | KLoop a => engine_checked a
  | KSeq l =>
      (fix go (l : list sk) : bool :=
         match l with
         | [] => true
         | KCall f :: rest =>
             if is_engine f then
               match rest with
               | KIfErr a :: r => err_return a && engine_checked a && go r
               | _ => false
               end
             else go rest
         | x :: r => engine_checked x && go r
         end) l
  end.

Definition engine_calls (s : sk) : list N :=
  flat_map (fun e => match e with Some f => if is_engine f then [f] else [] | None => [] end) (flat s).

Lemma tie_vector_engine_checked :
  engine_checked sk_vectorIndexOpaque_mergeAndWriteVectorIndexes = true /\
  engine_checked sk_vectorIndexOpaque_writeVectorIndexes = true /\
  (* the engine-call program VecFault.v models: reads and reconstructions of the inputs, then
     factory, [direct map, train], add, serialise *)
  engine_calls sk_vectorIndexOpaque_mergeAndWriteVectorIndexes = [14; 15; 13; 16; 17; 18; 19] /\
  engine_calls sk_vectorIndexOpaque_writeVectorIndexes = [13; 16; 17; 18; 19] /\
  mentions 45 sk_vectorIndexOpaque_mergeAndWriteVectorIndexes = false.
Proof. tvm. Qed.
Print Assumptions tie_vector_engine_checked.
