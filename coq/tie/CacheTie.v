(* Structural tie for C16 (VecCache2.v): the vector cache's open, regenerated from /repo by
   `gotrans skel`, is the two critical sections the model interleaves - a look-up under the read
   lock, and on a miss the write lock followed by createAndCacheLOCKED, which RE-CHECKS the entry
   (and returns it) before it loads an index and inserts it.
   ids: 14 ReadIndexFromBuffer, 31 Lock, 32 Unlock, 38 entry.load, 39 insertLOCKED, 40 RLock,
        41 RUnlock, 42 createAndCacheLOCKED *)
From Coq Require Import List NArith Bool.
Import ListNotations.
Require Import ZV.Skel ZV.gen.Skeleton ZV.tie.RefTie.
Open Scope N_scope.
Ltac tvm := timeout 240 (vm_compute; repeat split; reflexivity).

Definition calls (s : sk) : list N := flat_map (fun e => match e with Some f => [f] | None => [] end) (flat s).
Definition ends_in_return (l : list sk) : bool := match last l (KSeq []) with KRet _ => true | _ => false end.

(* the miss path of loadFromCache: leave the read lock, take the write lock until return, create *)
Definition miss_path (s : sk) : bool :=
  match s with
  | KSeq (KCall 40 :: KIf hitb (KSeq []) :: KCall 41 :: KCall 31 :: KDefer 32 :: KCall 42 :: KRet _ :: nil) =>
      negb (existsb (N.eqb 42) (calls hitb)) && negb (existsb (N.eqb 14) (calls hitb))
  | _ => false
  end.

(* the hit path: the entry is loaded (its use recorded, its three parts read together) as the FIRST
   step under the read lock, exactly once, before that lock is given up *)
Definition hit_path (s : sk) : bool :=
  match s with
  | KSeq (KCall 40 :: KIf (KSeq (KCall 38 :: rest)) (KSeq []) :: _) =>
      negb (existsb (N.eqb 38) (calls (KSeq rest))) && existsb (N.eqb 41) (calls (KSeq rest))
  | _ => false
  end.

(* createAndCacheLOCKED: `if entry != nil { entry.load ...; return }` comes first; only then the
   index is read (checked) and inserted *)
Definition recheck_first (s : sk) : bool :=
  match s with
  | KSeq (KIf (KSeq (KCall 38 :: body)) (KSeq []) :: rest) =>
      ends_in_return body && negb (existsb (N.eqb 14) (calls (KSeq body))) &&
      match calls (KSeq rest) with [14; 39] => true | _ => false end
  | _ => false
  end.

Lemma tie_cache_double_check :
  miss_path sk_vectorIndexCache_loadFromCache = true /\
  hit_path sk_vectorIndexCache_loadFromCache = true /\
  recheck_first sk_vectorIndexCache_createAndCacheLOCKED = true.
Proof. tvm. Qed.
Print Assumptions tie_cache_double_check.
