(* Translator tie (one group per file so that a broken obligation does not mask the others):
   definitions of gen/KernelGen.v (regenerated from /repo's Go source on every run) are proved equal
   to the hand-written / frozen ones.  Every automatic step is bounded: a changed Go function must
   make these proofs FAIL, not loop. *)
From Coq Require Import List NArith ZArith Lia Bool.
From Coq Require Import ZifyN ZifyBool ZifyNat.
Require Import ZV.gen.KernelGen ZV.Kernel ZV.Bytes.
Import ListNotations.
Open Scope N_scope.
Ltac Zify.zify_post_hook ::= Z.div_mod_to_equations.
Ltac trefl := timeout 240 reflexivity.
Ltac tlia := timeout 240 lia.
Ltac tnia := timeout 240 nia.

(* the order in which persistFooter writes the footer and the positions loadConfig reads it from are
   those of the frozen v16 layout: numDocs, storedIndexOffset, fieldsIndexOffset, sectionsIndexOffset,
   docValueOffset (u64), chunkMode, version, crc (u32), all big-endian, 52 bytes *)
Definition v16_footer_fields : list (N * N) := [(1, 8); (2, 8); (3, 8); (4, 8); (5, 8); (6, 4); (7, 4); (8, 4)].
Fixpoint positions_from_end (total : N) (fs : list (N * N)) : list (N * N * N * N * N) :=
  match fs with
  | [] => []
  | (tag, w) :: r => positions_from_end (total - w) r ++ [(tag, total, w, w, 0)]
  end.
Lemma tie_footer_order :
  go_footer_write_order = map (fun f => (fst f, snd f, 0)) v16_footer_fields /\
  go_footer_read_layout = positions_from_end 52 v16_footer_fields.
Proof. timeout 240 (split; reflexivity). Qed.
Print Assumptions tie_footer_order.
