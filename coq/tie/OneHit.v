(* Translator tie (one group per file so that a broken obligation does not mask the others):
   definitions of gen/KernelGen.v (regenerated from /repo's Go source on every run) are proved equal
   to the hand-written / frozen ones.  Every automatic step is bounded: a changed Go function must
   make these proofs FAIL, not loop. *)
From Coq Require Import List NArith ZArith Lia Bool.
From Coq Require Import ZifyN ZifyBool ZifyNat.
Require Import ZV.gen.KernelGen ZV.Kernel ZV.Bytes.
Import ListNotations.
Open Scope N_scope.
Ltac Zify.zify_post_hook ::= Z.div_mod_to_equations.
Ltac trefl := timeout 240 reflexivity.
Ltac tlia := timeout 240 lia.
Ltac tnia := timeout 240 nia.

Lemma land_m31_le n : N.land m31 n <= m31.
Proof.
  rewrite land_m31. change (2 ^ 31) with 2147483648. unfold m31.
  pose proof (N.mod_lt n 2147483648 ltac:(tlia)). tlia.
Qed.

Lemma tie_enc1hit d n : go_FSTValEncode1Hit d n = enc1hit d n.
Proof.
  unfold go_FSTValEncode1Hit, enc1hit, wrap. change go_FSTValEncoding1Hit with onehit_tag. change go_mask31Bits with m31.
  rewrite N.mod_small; [trefl|].
  rewrite N.shiftl_mul_pow2. pose proof (land_m31_le n) as H. unfold m31 in *.
  change (2 ^ 31) with 2147483648. change (2 ^ 64) with 18446744073709551616. tlia.
Qed.
Print Assumptions tie_enc1hit.

Lemma tie_dec1hit v : go_FSTValDecode1Hit v = dec1hit v.
Proof. trefl. Qed.
Print Assumptions tie_dec1hit.

Lemma tie_under32 x : go_under32Bits x = (x <=? m31).
Proof. trefl. Qed.
Print Assumptions tie_under32.
