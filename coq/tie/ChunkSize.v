(* Translator tie (one group per file so that a broken obligation does not mask the others):
   definitions of gen/KernelGen.v (regenerated from /repo's Go source on every run) are proved equal
   to the hand-written / frozen ones.  Every automatic step is bounded: a changed Go function must
   make these proofs FAIL, not loop. *)
From Coq Require Import List NArith ZArith Lia Bool.
From Coq Require Import ZifyN ZifyBool ZifyNat.
Require Import ZV.gen.KernelGen ZV.Kernel ZV.Bytes.
Import ListNotations.
Open Scope N_scope.
Ltac Zify.zify_post_hook ::= Z.div_mod_to_equations.
Ltac trefl := timeout 240 reflexivity.
Ltac tlia := timeout 240 lia.
Ltac tnia := timeout 240 nia.

Lemma tie_getChunkSize mode card maxDocs : card < 2 ^ 64 ->
  go_getChunkSize mode card maxDocs = chunk_size_spec mode card maxDocs.
Proof.
  intros Hc. unfold go_getChunkSize, chunk_size_spec, wrap.
  rewrite (N.mod_small (card / 1024 + 1)); [trefl|].
  assert (card / 1024 < 2 ^ 54).
  { apply N.div_lt_upper_bound; [tlia|]. change (1024 * 2 ^ 54) with (2 ^ 64). exact Hc. }
  change (2 ^ 64) with (2 ^ 54 * 1024). tlia.
Qed.
Print Assumptions tie_getChunkSize.
