(* Structural tie: the control skeletons regenerated from /repo by `gotrans skel` satisfy the
   disciplines the resource theorems (C11, C17, C18, C19) rest on.  `guarded c s = true` is decided
   by computation on the generated tree and means, by Skel.guarded_sound, that on EVERY execution
   of that function each error return is immediately preceded by the cleanup call c. *)
From Coq Require Import List NArith Bool.
Import ListNotations.
Require Import ZV.Skel ZV.gen.Skeleton.
Open Scope N_scope.
Ltac tvm := timeout 240 (vm_compute; repeat split; reflexivity).

(* ids (frozen): 1 cleanup, 2 Flush, 3 Sync, 4 Close, 5 persistFooter, 6 mergeToWriter,
   7 persistSegmentBaseToWriter, 8 OpenFile, 10 pool Get, 11 pool Put, 12 freeReconstructedIndexes,
   13 IndexFactory, 14 ReadIndexFromBuffer, 15 ReconstructBatch, 16 SetDirectMap, 17 Train,
   18 AddWithIDs, 19 WriteIndexIntoBuffer, 20 flushVectorIndex, 22 writeVectorIndexes, 23 writeDicts,
   24 writeThesauri, 25/26 merge of the inverted / synonym section, 27 flushSectionMetadata,
   28 mergeAndWriteVectorIndexes, 29 visitStoredFields *)

Definition after_create (s : sk) : option sk :=
  match s with
  | KSeq (KCall 8 :: KIfErr (KSeq [KRet true]) :: rest) => Some (KSeq rest)
  | _ => None
  end.

(* C17/C18: once the file exists, every error return of Persist / Merge runs cleanup() first;
   the success return comes after Flush (merge), Sync and Close have been checked *)
Lemma tie_persist_cleanup :
  match after_create sk_PersistSegmentBase with Some r => guarded 1 r | None => false end = true.
Proof. tvm. Qed.
Print Assumptions tie_persist_cleanup.

Lemma tie_merge_cleanup :
  match after_create sk_mergeSegmentBases with Some r => guarded 1 r | None => false end = true.
Proof. tvm. Qed.
Print Assumptions tie_merge_cleanup.

(* hence, semantically: *)
Lemma merge_every_error_return_cleans_up : forall r p b,
  after_create sk_mergeSegmentBases = Some r -> runs r p b -> tok 1 false p = true.
Proof.
  intros r p b H. apply guarded_sound. pose proof tie_merge_cleanup as T. rewrite H in T. exact T.
Qed.
Lemma persist_every_error_return_cleans_up : forall r p b,
  after_create sk_PersistSegmentBase = Some r -> runs r p b -> tok 1 false p = true.
Proof.
  intros r p b H. apply guarded_sound. pose proof tie_persist_cleanup as T. rewrite H in T. exact T.
Qed.

(* C17: the order of the final steps: footer, checked Flush, [Sync, Close], success *)
Fixpoint top_calls (l : list sk) : list N :=
  match l with [] => [] | KCall f :: r => f :: top_calls r | _ :: r => top_calls r end.
Definition top (s : sk) : list N := match s with KSeq l => top_calls l | _ => [] end.
Definition last_is_success (s : sk) : bool := match s with KSeq l => match last l (KRet true) with KRet false => true | _ => false end | _ => false end.

Lemma tie_final_steps :
  top sk_persistSegmentBaseToWriter = [30; 5; 2] /\ last_is_success sk_persistSegmentBaseToWriter = true /\
  (* the counting writer in front of bufio.Writer hands every Write through as ONE write (IO.v
     models bufio.Writer fed with the image as a single piece, then the footer fields) *)
  match sk_bufWriter_Write with KSeq [KCall 30; KRet _] => True | _ => False end /\
  top sk_PersistSegmentBase = [8; 7; 3; 4] /\ last_is_success sk_PersistSegmentBase = true /\
  top sk_mergeSegmentBases = [8; 6; 5; 2; 3; 4] /\ last_is_success sk_mergeSegmentBases = true.
Proof. tvm. Qed.
Print Assumptions tie_final_steps.

(* every checked step of those functions is followed by `if err != nil { ... return err }` *)
Fixpoint calls_checked (l : list sk) : bool :=
  match l with
  | KCall _ :: ((KIfErr _ :: _) as r) => calls_checked r
  | KCall _ :: _ => false
  | _ :: r => calls_checked r
  | [] => true
  end.
Lemma tie_steps_checked :
  match sk_persistSegmentBaseToWriter, sk_PersistSegmentBase, sk_mergeSegmentBases with
  | KSeq a, KSeq b, KSeq c => calls_checked a && calls_checked b && calls_checked c
  | _, _, _ => false
  end = true.
Proof. tvm. Qed.
Print Assumptions tie_steps_checked.

(* C19 / C01: the sections' Persist return the error of what they write; Merge propagates *)
Lemma tie_section_errors :
  sk_faissVectorIndexSection_Persist = KSeq [KCall 22; KRet true] /\
  sk_invertedTextIndexSection_Persist = KSeq [KCall 23; KRet true] /\
  sk_synonymIndexSection_Persist = KSeq [KCall 24; KRet true] /\
  sk_invertedTextIndexSection_Merge = KSeq [KCall 25; KIfErr (KSeq [KRet true]); KRet false] /\
  sk_synonymIndexSection_Merge = KSeq [KCall 26; KIfErr (KSeq [KRet true]); KRet false].
Proof. tvm. Qed.
Print Assumptions tie_section_errors.

(* the vector Merge checks both of its steps inside the per-field loop *)
Fixpoint find_checked (f : N) (s : sk) : bool :=
  match s with
  | KSeq l => (fix go (l : list sk) : bool :=
                 match l with
                 | KCall g :: ((KIfErr (KSeq [KRet true]) :: _) as r) => (g =? f) || go r
                 | x :: r => find_checked f x || go r
                 | [] => false
                 end) l
  | KIf a b => find_checked f a || find_checked f b
  | KIfErr a | KLoop a => find_checked f a
  | _ => false
  end.
Lemma tie_vector_merge_errors :
  find_checked 27 sk_faissVectorIndexSection_Merge = true /\ find_checked 28 sk_faissVectorIndexSection_Merge = true.
Proof. tvm. Qed.
Print Assumptions tie_vector_merge_errors.

(* C11: pool discipline of the stored-field readers *)
Fixpoint count_ev (is : sk -> bool) (s : sk) : nat :=
  (if is s then 1 else 0)%nat +
  match s with
  | KSeq l => (fix go (l : list sk) : nat := match l with [] => O | x :: r => (count_ev is x + go r)%nat end) l
  | KIf a b => (count_ev is a + count_ev is b)%nat
  | KIfErr a | KLoop a => count_ev is a
  | _ => O
  end.
Definition is_get (s : sk) : bool := match s with KCall 10 => true | _ => false end.
Definition is_put (s : sk) : bool := match s with KCall 11 | KDefer 11 => true | _ => false end.

Lemma tie_pool_discipline :
  sk_SegmentBase_VisitStoredFields = KSeq [KCall 10; KDefer 11; KCall 29; KRet false] /\
  count_ev is_get sk_SegmentBase_visitStoredFields = 0%nat /\ count_ev is_put sk_SegmentBase_visitStoredFields = 0%nat /\
  count_ev is_get sk_SegmentBase_DocID = 1%nat /\ count_ev is_put sk_SegmentBase_DocID = 1%nat.
Proof. tvm. Qed.
Print Assumptions tie_pool_discipline.

(* C11: the merge owns one scratch object from before its first visit until it returns (so the
   value bytes its visitor keeps stay its own until they are copied), and visits through the
   internal visitor (29), never through the public one (37) that returns the object to the pool *)
Definition is_pubvisit (s : sk) : bool := match s with KCall 37 => true | _ => false end.
Definition is_visit (s : sk) : bool := match s with KCall 29 => true | _ => false end.
Lemma tie_merge_pool :
  match sk_mergeStoredAndRemap with KSeq (KCall 10 :: KDefer 11 :: _) => true | _ => false end = true /\
  count_ev is_get sk_mergeStoredAndRemap = 1%nat /\ count_ev is_put sk_mergeStoredAndRemap = 1%nat /\
  count_ev is_pubvisit sk_mergeStoredAndRemap = 0%nat /\ count_ev is_visit sk_mergeStoredAndRemap = 1%nat.
Proof. tvm. Qed.
Print Assumptions tie_merge_pool.

(* C19: mergeAndWriteVectorIndexes - before the inputs' indexes are freed unconditionally, every
   error return frees them; then IndexFactory is checked and its index is closed by a defer *)
Fixpoint split_at_call (f : N) (l : list sk) : option (list sk * list sk) :=
  match l with
  | [] => None
  | KCall g :: r => if g =? f then Some ([], r)
                    else match split_at_call f r with Some (a, b) => Some (KCall g :: a, b) | None => None end
  | x :: r => match split_at_call f r with Some (a, b) => Some (x :: a, b) | None => None end
  end.
Lemma tie_vector_merge_cleanup :
  match sk_vectorIndexOpaque_mergeAndWriteVectorIndexes with
  | KSeq l => match split_at_call 12 l with
              | Some (pre, post) =>
                  guarded 12 (KSeq pre) &&
                  match post with
                  | KCall 13 :: KIfErr (KSeq [KRet true]) :: KDefer 4 :: _ => true
                  | _ => false
                  end
              | None => false
              end
  | _ => false
  end = true.
Proof. tvm. Qed.
Print Assumptions tie_vector_merge_cleanup.

(* C19: writeVectorIndexes - per field, IndexFactory is checked and followed by the deferred Close *)
Fixpoint factory_then_defer (s : sk) : bool :=
  match s with
  | KSeq l => (fix go (l : list sk) : bool :=
                 match l with
                 | KCall 13 :: KIfErr (KSeq [KRet true]) :: KDefer 4 :: _ => true
                 | x :: r => factory_then_defer x || go r
                 | [] => false
                 end) l
  | KIf a b => factory_then_defer a || factory_then_defer b
  | KIfErr a | KLoop a => factory_then_defer a
  | _ => false
  end.
Lemma tie_vector_build_cleanup : factory_then_defer sk_vectorIndexOpaque_writeVectorIndexes = true.
Proof. tvm. Qed.
Print Assumptions tie_vector_build_cleanup.
