(* Structural tie for C18 (Cancel.v): in every merge routine regenerated from /repo by
   `gotrans skel`, each poll of the close channel is the whole condition of an `if` (event 21,
   never the "buried" form 44) whose branch ends in `return ..., ErrClosed` (marker 43 + error
   return) and has no else-branch.  Hence a poll that sees the channel closed makes the routine
   return the closed error - the only way Cancel.v's "cancelled" outcome arises - and every such
   return unwinds through the callers' error paths (tie_merge_cleanup, tie_vector_merge_cleanup). *)
From Coq Require Import List NArith Bool.
Import ListNotations.
Require Import ZV.Skel ZV.gen.Skeleton ZV.tie.RefTie.
Open Scope N_scope.
Ltac tvm := timeout 240 (vm_compute; repeat split; reflexivity).

Definition cancels (s : sk) : bool :=
  match s with
  | KSeq (KCall 43 :: r) => match rev r with KRet true :: _ => true | _ => false end
  | _ => false
  end.

Fixpoint polls_ok (s : sk) : bool :=
  match s with
  | KCall 21 => false                  (* a poll that is not followed by its `if` *)
  | KCall 44 => false                  (* a poll buried in a larger condition *)
  | KCall _ | KDefer _ | KRet _ => true
  | KIf a b => polls_ok a && polls_ok b
  | KIfErr a => polls_ok a
  | KLoop a => polls_ok a
  | KSeq l =>
      (fix go (l : list sk) : bool :=
         match l with
         | [] => true
         | KCall 21 :: rest =>
             match rest with
             | KIf a (KSeq []) :: r => cancels a && polls_ok a && go r
             | _ => false
             end
         | x :: r => polls_ok x && go r
         end) l
  end.

Definition polls (s : sk) : nat := length (filter (fun e => match e with Some 21 => true | _ => false end) (flat s)).

Lemma tie_poll_discipline :
  (* no other function of the package polls the close channel (a poll inside a writer, a visitor
     or a helper cannot return the closed error from the merge routine) *)
  polls_elsewhere = 0 /\
  polls_ok sk_mergeToWriter = true /\ polls_ok sk_mergeStoredAndRemap = true /\
  polls_ok sk_mergeAndPersistInvertedSection = true /\ polls_ok sk_mergeAndPersistSynonymSection = true /\
  polls_ok sk_faissVectorIndexSection_Merge = true /\ polls_ok sk_vectorIndexOpaque_mergeAndWriteVectorIndexes = true /\
  (* the polls the property's anchors list are all there: before anything is written, per stored
     segment, per field/segment, per term batch, per doc-value field, per vector segment *)
  (1 <= polls sk_mergeToWriter)%nat /\ (1 <= polls sk_mergeStoredAndRemap)%nat /\
  (3 <= polls sk_mergeAndPersistInvertedSection)%nat /\ (2 <= polls sk_mergeAndPersistSynonymSection)%nat /\
  (1 <= polls sk_faissVectorIndexSection_Merge)%nat /\ (2 <= polls sk_vectorIndexOpaque_mergeAndWriteVectorIndexes)%nat.
Proof. timeout 240 (vm_compute; repeat split; try reflexivity; repeat constructor). Qed.
Print Assumptions tie_poll_discipline.
