(* SPIKE (round 0): abstract model of zapx PostingsIterator (general encoding) and its spec.
   Mirrors posting.go: nextDocNumAtOrAfter (filtered path), nextDocNumAtOrAfterClean,
   currChunkNext, nextAtOrAfter.  Streams are modelled as "remaining entries of the loaded chunk". *)
From Coq Require Import List NArith Lia Bool.
Import ListNotations.
Open Scope N_scope.

Section Iter.
Variable loc : Type.

Record entry := { e_freq : N; e_norm : N; e_locs : list loc }.
Definition hit := (N * entry)%type.
Definition hasLocs (e : entry) : bool := match e_locs e with [] => false | _ => true end.

Variable P : list hit.          (* the postings list, strictly ascending by doc *)
Variable cs : N.                (* chunk size, > 0 *)
Variable inclFN inclLocs : bool.

Definition chunk (d : N) : N := d / cs.

Definition in_chunk (c : N) (h : hit) : bool := chunk (fst h) =? c.

Fixpoint takeWhile {A} (f : A -> bool) (l : list A) : list A :=
  match l with [] => [] | x :: r => if f x then x :: takeWhile f r else [] end.
Fixpoint dropWhile {A} (f : A -> bool) (l : list A) : list A :=
  match l with [] => [] | x :: r => if f x then dropWhile f r else l end.

Definition locblocks (es : list entry) : list (list loc) :=
  map e_locs (filter hasLocs es).

Record rdr := { r_chunk : N; r_f : list entry; r_l : list (list loc) }.

(* loadChunk: position both streams at the start of chunk c *)
Definition load (c : N) : rdr :=
  let es := map snd (filter (in_chunk c) P) in
  {| r_chunk := c; r_f := es; r_l := if inclLocs then locblocks es else [] |}.

Definition dflt : entry := {| e_freq := 0; e_norm := 0; e_locs := [] |}.

(* read one freq/norm entry: (freq, norm-if-freq>0, hasLocs) *)
Definition pop_f (r : rdr) : entry * rdr :=
  match r_f r with
  | [] => (dflt, r)
  | e :: rest => (e, {| r_chunk := r_chunk r; r_f := rest; r_l := r_l r |})
  end.
Definition pop_l (r : rdr) : list loc * rdr :=
  match r_l r with
  | [] => ([], r)
  | b :: rest => (b, {| r_chunk := r_chunk r; r_f := r_f r; r_l := rest |})
  end.

Definition ensure (c : N) (rd : option rdr) : rdr :=
  match rd with
  | Some r => if r_chunk r =? c then r else load c
  | None => load c
  end.

(* currChunkNext *)
Definition currChunkNext (c : N) (rd : option rdr) : option rdr :=
  let r := ensure c rd in
  let '(e, r1) := pop_f r in
  if inclLocs && hasLocs e then Some (snd (pop_l r1)) else Some r1.

Record st := { allr : list hit; actr : list N; shared : bool; rd : option rdr }.

(* the loop of the filtered path: advance `all` until it reaches n *)
Fixpoint sync_all (n nChunk : N) (al : list hit) (rd : option rdr) : option (list hit * option rdr) :=
  match al with
  | [] => None
  | h :: r =>
      if fst h =? n then Some (r, rd)
      else let rd' := if inclFN && (nChunk * cs <=? fst h) then currChunkNext nChunk rd else rd in
           sync_all n nChunk r rd'
  end.

Definition finish_load (nChunk : N) (rd : option rdr) : option rdr :=
  if inclFN then Some (ensure nChunk rd) else rd.

(* nextDocNumAtOrAfter, filtered path *)
Definition next_filtered (s : st) (target : N) : st * option N :=
  let ac := dropWhile (fun d => d <? target) (actr s) in
  match ac, allr s with
  | [], _ => ({| allr := allr s; actr := ac; shared := false; rd := rd s |}, None)
  | _, [] => ({| allr := allr s; actr := ac; shared := false; rd := rd s |}, None)
  | n :: ac', _ =>
      let nChunk := chunk n in
      match sync_all n nChunk (allr s) (rd s) with
      | None => ({| allr := []; actr := ac'; shared := false; rd := rd s |}, None)
      | Some (al', rd') =>
          ({| allr := al'; actr := ac'; shared := false; rd := finish_load nChunk rd' |}, Some n)
      end
  end.

(* clean path: Actual and all are the same iterator, only allr is kept *)
Fixpoint clean_scan (target n nChunk : N) (same : nat) (al : list hit) : (N * N * nat * list hit) :=
  match al with
  | [] => (n, nChunk, same, [])
  | h :: r =>
      if n <? target then
        let n' := fst h in
        let c' := chunk n' in
        clean_scan target n' c' (if c' =? nChunk then S same else O) r
      else (n, nChunk, same, al)
  end.

Fixpoint iterN {A} (k : nat) (f : A -> A) (a : A) : A :=
  match k with O => a | S k' => iterN k' f (f a) end.

Definition next_clean (s : st) (target : N) : st * option N :=
  if negb inclFN then
    match dropWhile (fun h => fst h <? target) (allr s) with
    | [] => ({| allr := []; actr := []; shared := true; rd := rd s |}, None)
    | h :: r => ({| allr := r; actr := []; shared := true; rd := rd s |}, Some (fst h))
    end
  else
  match allr s with
  | [] => (s, None)
  | h :: r =>
      let '(n, nChunk, same, al') := clean_scan target (fst h) (chunk (fst h)) O r in
      if n <? target then ({| allr := al'; actr := []; shared := true; rd := rd s |}, None)
      else
        let rd1 := iterN same (currChunkNext nChunk) (rd s) in
        ({| allr := al'; actr := []; shared := true; rd := Some (ensure nChunk rd1) |}, Some n)
  end.

Definition nextDocNum (s : st) (target : N) : st * option N :=
  if shared s then next_clean s target else next_filtered s target.

(* nextAtOrAfter *)
Definition out := option (N * N * N * list loc)%type.

Definition nextAtOrAfter (s : st) (target : N) : st * out :=
  let '(s1, r) := nextDocNum s target in
  match r with
  | None => (s1, None)
  | Some n =>
      if negb inclFN then (s1, Some (n, 0, 0, []))
      else match rd s1 with
           | None => (s1, Some (n, 0, 0, []))   (* unreachable: finish_load/ensure *)
           | Some r0 =>
               let '(e, r1) := pop_f r0 in
               let nrm := if e_freq e =? 0 then 0 else e_norm e in
               if inclLocs && hasLocs e then
                 let '(b, r2) := pop_l r1 in
                 ({| allr := allr s1; actr := actr s1; shared := shared s1; rd := Some r2 |},
                  Some (n, e_freq e, nrm, b))
               else
                 ({| allr := allr s1; actr := actr s1; shared := shared s1; rd := Some r1 |},
                  Some (n, e_freq e, nrm, []))
           end
  end.

(* ---- specification ---- *)
Variable E : N -> bool.   (* exclusion *)

Definition view (h : hit) : (N * N * N * list loc) :=
  let e := snd h in
  if negb inclFN then (fst h, 0, 0, [])
  else (fst h, e_freq e, (if e_freq e =? 0 then 0 else e_norm e),
        if inclLocs then e_locs e else []).

Definition live : list hit := filter (fun h => negb (E (fst h))) P.

Definition spec_step (l : list hit) (target : N) : list hit * out :=
  match dropWhile (fun h => fst h <? target) l with
  | [] => ([], None)
  | h :: r => (r, Some (view h))
  end.

Fixpoint run_spec (l : list hit) (ops : list N) : list out :=
  match ops with
  | [] => []
  | t :: r => let '(l', o) := spec_step l t in o :: run_spec l' r
  end.

Fixpoint run_impl (s : st) (ops : list N) : list out :=
  match ops with
  | [] => []
  | t :: r => let '(s', o) := nextAtOrAfter s t in o :: run_impl s' r
  end.

(* initial states, as PostingsList.iterator builds them *)
Definition init_clean : st := {| allr := P; actr := []; shared := true; rd := None |}.
Definition init_filtered : st := {| allr := P; actr := map fst live; shared := false; rd := None |}.

End Iter.
