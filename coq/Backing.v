(* C01: the builder's shared backing arrays (section_inverted_text_index.go realloc / process).
   realloc runs a COUNTING pass (numTermsPerPostingsList[pid], numLocsPerPostingsList[pid]) and carves
   one backing array into per-postings-list slices `backing[off:off]` whose capacity runs to the end
   of the array; process then `append`s to those slices, i.e. writes cell off+len and bumps len.
   If a list received more appends than were counted for it, it would silently overwrite the first
   cells of its neighbour.  Theorem: whenever the counts are upper bounds of the appends per list,
   after ANY sequence of appends every list holds exactly the values appended to it, in order. *)
From Coq Require Import List Arith Lia Bool.
Import ListNotations.

Section Backing.
Variable A : Type.
Variable dflt : A.

(* offsets of the carved slices: prefix sums of the counts *)
Fixpoint offsets (acc : nat) (counts : list nat) : list nat :=
  match counts with [] => [] | c :: r => acc :: offsets (acc + c) r end.

Fixpoint set_nth (k : nat) (x : A) (l : list A) : list A :=
  match l, k with
  | [], _ => []
  | _ :: r, O => x :: r
  | y :: r, S k' => y :: set_nth k' x r
  end.

Record st := { cells : list A; lens : list nat }.

Definition off (counts : list nat) (pid : nat) : nat := nth pid (offsets 0 counts) 0.

(* append to the slice of list pid: write the cell just past its current length *)
Definition append (counts : list nat) (s : st) (pid : nat) (x : A) : st :=
  {| cells := set_nth (off counts pid + nth pid (lens s) 0) x (cells s);
     lens := (fix bump (k : nat) (l : list nat) : list nat :=
                match l, k with
                | [], _ => []
                | n :: r, O => S n :: r
                | n :: r, S k' => n :: bump k' r
                end) pid (lens s) |}.

Definition run (counts : list nat) (s : st) (ops : list (nat * A)) : st :=
  fold_left (fun s op => append counts s (fst op) (snd op)) ops s.

(* what list pid reads back: its slice *)
Definition slice (counts : list nat) (s : st) (pid : nat) : list A :=
  firstn (nth pid (lens s) 0) (skipn (off counts pid) (cells s)).

Definition appended (ops : list (nat * A)) (pid : nat) : list A :=
  map snd (filter (fun op => Nat.eqb (fst op) pid) ops).

Definition init (counts : list nat) : st :=
  {| cells := repeat dflt (fold_right plus 0 counts); lens := repeat 0 (length counts) |}.
End Backing.

Section Proofs.
Variable A : Type.
Variable dflt : A.
Variable counts : list nat.
Notation n := (length counts).
Notation total := (fold_right plus 0 counts).

Lemma set_nth_length k (x : A) l : length (set_nth A k x l) = length l.
Proof. revert k; induction l as [|y l IH]; intros [|k]; cbn; auto. Qed.
Lemma nth_set_nth_eq k (x : A) l : k < length l -> nth k (set_nth A k x l) dflt = x.
Proof. revert k; induction l as [|y l IH]; intros [|k] H; cbn in *; try lia; auto. apply IH. lia. Qed.
Lemma nth_set_nth_neq k j (x : A) l : j <> k -> nth j (set_nth A k x l) dflt = nth j l dflt.
Proof. revert k j; induction l as [|y l IH]; intros [|k] [|j] H; cbn; auto; try lia. Qed.

(* offsets: off p + counts p <= off q for p < q; off p + counts p <= total *)
Lemma offsets_nth : forall cs acc p, p < length cs ->
  nth p (offsets acc cs) 0 = acc + fold_right plus 0 (firstn p cs).
Proof.
  induction cs as [|c cs IH]; intros acc p Hp; [cbn in Hp; lia|].
  destruct p; cbn [offsets nth firstn fold_right]; [lia|]. rewrite IH by (cbn in Hp; lia). lia.
Qed.
Lemma sum_firstn_le : forall (cs : list nat) p, fold_right plus 0 (firstn p cs) <= fold_right plus 0 cs.
Proof. induction cs as [|c cs IH]; intros [|p]; cbn; try lia. specialize (IH p). lia. Qed.
Lemma sum_firstn_S : forall (cs : list nat) p, p < length cs ->
  fold_right plus 0 (firstn (S p) cs) = fold_right plus 0 (firstn p cs) + nth p cs 0.
Proof.
  induction cs as [|c cs IH]; intros p Hp; [cbn in Hp; lia|]. destruct p.
  - cbn. lia.
  - change (firstn (S (S p)) (c :: cs)) with (c :: firstn (S p) cs).
    change (firstn (S p) (c :: cs)) with (c :: firstn p cs). cbn [fold_right nth].
    rewrite IH by (cbn in Hp; lia). lia.
Qed.
Lemma sum_firstn_mono : forall (cs : list nat) p q, p <= q -> fold_right plus 0 (firstn p cs) <= fold_right plus 0 (firstn q cs).
Proof.
  induction cs as [|c cs IH]; intros p q H; [destruct p, q; cbn; lia|].
  destruct p, q; cbn [firstn fold_right]; try lia. specialize (IH p q ltac:(lia)). lia.
Qed.

Definition offp (p : nat) : nat := off counts p.
Lemma offp_eq p : p < n -> offp p = fold_right plus 0 (firstn p counts).
Proof. intros H. unfold offp, off. rewrite offsets_nth by exact H. lia. Qed.

Lemma region_in_total p : p < n -> offp p + nth p counts 0 <= total.
Proof. intros H. rewrite offp_eq by exact H. rewrite <- sum_firstn_S by exact H. apply sum_firstn_le. Qed.
Lemma regions_disjoint p q : p < q -> q < n -> offp p + nth p counts 0 <= offp q.
Proof.
  intros H Hq. rewrite !offp_eq by lia. rewrite <- sum_firstn_S by lia. apply sum_firstn_mono. lia.
Qed.

(* lens bump *)
Definition bump := (fix bump (k : nat) (l : list nat) : list nat :=
                match l, k with
                | [], _ => []
                | m :: r, O => S m :: r
                | m :: r, S k' => m :: bump k' r
                end).
Lemma bump_length k l : length (bump k l) = length l.
Proof. revert k; induction l as [|m l IH]; intros [|k]; cbn; auto. Qed.
Lemma nth_bump_eq k l : k < length l -> nth k (bump k l) 0 = S (nth k l 0).
Proof. revert k; induction l as [|m l IH]; intros [|k] H; cbn in *; try lia; auto. apply IH. lia. Qed.
Lemma nth_bump_neq k j l : j <> k -> nth j (bump k l) 0 = nth j l 0.
Proof. revert k j; induction l as [|m l IH]; intros [|k] [|j] H; cbn; auto; try lia. Qed.

Definition app_of (ops : list (nat * A)) (p : nat) : list A := appended A ops p.

Lemma app_of_snoc ops op p : app_of (ops ++ [op]) p = app_of ops p ++ (if Nat.eqb (fst op) p then [snd op] else []).
Proof. unfold app_of, appended. rewrite filter_app, map_app. cbn [filter]. destruct (Nat.eqb (fst op) p); reflexivity. Qed.

(* the invariant, pointwise *)
Definition Inv (done : list (nat * A)) (s : st A) : Prop :=
  length (lens A s) = n /\ length (cells A s) = total /\
  (forall p, p < n -> nth p (lens A s) 0 = length (app_of done p) /\ length (app_of done p) <= nth p counts 0) /\
  (forall p j, p < n -> j < length (app_of done p) -> nth (offp p + j) (cells A s) dflt = nth j (app_of done p) dflt).

Lemma init_inv : Inv [] (init A dflt counts).
Proof.
  unfold Inv, init. cbn [lens cells]. rewrite !repeat_length. repeat split; auto.
  - rewrite nth_repeat. reflexivity.
  - cbn. lia.
  - intros p j _ Hj. cbn in Hj. lia.
Qed.

Lemma append_inv done s pid x : Inv done s -> pid < n -> length (app_of done pid) < nth pid counts 0 ->
  Inv (done ++ [(pid, x)]) (append A counts s pid x).
Proof.
  intros (Hl & Hc & Hlen & Hcell) Hp Hroom.
  destruct (Hlen pid Hp) as [Hlp _].
  assert (Hpos: offp pid + nth pid (lens A s) 0 < total).
  { pose proof (region_in_total pid Hp). rewrite Hlp. lia. }
  unfold Inv, append. cbn [lens cells]. fold bump. fold (offp pid).
  split; [now rewrite bump_length|]. split; [now rewrite set_nth_length|]. split.
  - intros p Hpn. rewrite app_of_snoc. cbn [fst snd]. destruct (Hlen p Hpn) as [H1 H2].
    destruct (Nat.eqb pid p) eqn:E.
    + apply Nat.eqb_eq in E. subst p. rewrite nth_bump_eq by lia. rewrite app_length. cbn [length]. lia.
    + apply Nat.eqb_neq in E. rewrite nth_bump_neq by lia. rewrite app_nil_r. auto.
  - intros p j Hpn Hj. rewrite app_of_snoc in *. cbn [fst snd] in *.
    destruct (Hlen p Hpn) as [H1 H2].
    destruct (Nat.eqb pid p) eqn:E.
    + apply Nat.eqb_eq in E. subst p. rewrite app_length in Hj. cbn [length] in Hj.
      destruct (Nat.eq_dec j (length (app_of done pid))) as [->|Hne].
      * rewrite Hlp. rewrite nth_set_nth_eq by (rewrite Hc; lia).
        rewrite app_nth2 by lia. rewrite Nat.sub_diag. reflexivity.
      * rewrite nth_set_nth_neq by lia. rewrite app_nth1 by lia. apply Hcell; [exact Hpn|lia].
    + apply Nat.eqb_neq in E. rewrite app_nil_r in *.
      rewrite nth_set_nth_neq; [apply Hcell; assumption|].
      (* the written cell lies in pid's region, the read cell in p's region: disjoint *)
      destruct (Hlen pid Hp) as [_ Hb]. 
      destruct (Nat.lt_ge_cases p pid) as [Hlt|Hge].
      * pose proof (regions_disjoint p pid Hlt Hp). lia.
      * assert (pid < p) by lia. pose proof (regions_disjoint pid p H Hpn). rewrite Hlp. lia.
Qed.

(* the counts bound the appends of every prefix *)
Definition bounded (ops : list (nat * A)) : Prop :=
  forall p, p < n -> length (app_of ops p) <= nth p counts 0.

Lemma bounded_prefix ops op : bounded (ops ++ [op]) -> bounded ops.
Proof.
  intros H p Hp. specialize (H p Hp). rewrite app_of_snoc, app_length in H. lia.
Qed.

Lemma run_inv : forall ops done s, Inv done s -> Forall (fun op => fst op < n) ops -> bounded (done ++ ops) ->
  Inv (done ++ ops) (run A counts s ops).
Proof.
  induction ops as [|[pid x] ops IH]; intros done s HI Hf Hb; cbn [run fold_left].
  - now rewrite app_nil_r.
  - inversion Hf; subst. cbn [fst] in *.
    replace (done ++ (pid, x) :: ops) with ((done ++ [(pid, x)]) ++ ops) in * by (now rewrite <- app_assoc).
    apply IH; [|assumption|assumption].
    apply append_inv; [exact HI|assumption|].
    (* room: from the bound on the longer prefix *)
    assert (Hb1: bounded (done ++ [(pid, x)])).
    { clear - Hb. revert Hb. generalize (done ++ [(pid, x)]). intros l Hb.
      induction ops as [|o ops IHo] using rev_ind; [now rewrite app_nil_r in Hb|].
      apply IHo. rewrite app_assoc in Hb. now apply bounded_prefix in Hb. }
    specialize (Hb1 pid H1). rewrite app_of_snoc, app_length in Hb1. cbn [fst snd] in Hb1. rewrite Nat.eqb_refl in Hb1. cbn in Hb1. lia.
Qed.

Lemma nth_firstn_lt : forall (l : list A) k j, j < k -> nth j (firstn k l) dflt = nth j l dflt.
Proof. induction l as [|y l IH]; intros [|k] [|j] H; cbn; auto; try lia. apply IH. lia. Qed.
Lemma nth_skipn_add : forall k (l : list A) j, nth j (skipn k l) dflt = nth (k + j) l dflt.
Proof.
  induction k as [|k IH]; intros l j; [reflexivity|].
  destruct l as [|y l]; cbn [skipn Nat.add nth]; [destruct j; reflexivity|]. apply IH.
Qed.

(* C01 (backing arrays): every postings list reads back exactly what was appended to it *)
Theorem backing_no_overlap : forall ops, Forall (fun op => fst op < n) ops -> bounded ops ->
  forall p, p < n -> slice A counts (run A counts (init A dflt counts) ops) p = app_of ops p.
Proof.
  intros ops Hf Hb p Hp.
  pose proof (run_inv ops [] (init A dflt counts) init_inv Hf Hb) as (Hl & Hc & Hlen & Hcell). cbn [app] in *.
  destruct (Hlen p Hp) as [H1 H2].
  unfold slice. rewrite H1. fold (offp p).
  apply (nth_ext _ _ dflt dflt).
  - rewrite firstn_length, skipn_length. pose proof (region_in_total p Hp). lia.
  - intros j Hj. rewrite firstn_length, skipn_length in Hj.
    rewrite nth_firstn_lt by lia. rewrite nth_skipn_add. apply Hcell; [exact Hp|lia].
Qed.
End Proofs.
Print Assumptions backing_no_overlap.

(* without the bound a list overwrites its neighbour: the model can exhibit the failure *)
Example overflow_overwrites :
  slice nat [1; 1] (run nat [1; 1] (init nat 0 [1; 1]) [(1, 7); (0, 5); (0, 6)]) 1 <> appended nat [(1, 7); (0, 5); (0, 6)] 1.
Proof. vm_compute. discriminate. Qed.
