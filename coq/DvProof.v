(* C03 / C09: the frozen reader's doc-value decoder (Layout.dv_chunk / dv_chunks / dv_at) inverts the
   documented doc-value encoding (contentcoder.go chunkedContentCoder): a chunk is
     uvarint nDocs, nDocs x (uvarint docNum, uvarint cumulative end offset), snappy(data)
   where data is the concatenation, per document, of its terms each followed by 0xff; the field's
   region is the chunks, the cumulative chunk end offsets as uvarints, the byte length of those
   varints (u64 BE) and the number of chunks (u64 BE). *)
From Coq Require Import List NArith ZArith Lia Bool Sorted.
From Coq Require Import ZifyN ZifyNat ZifyBool.
Import ListNotations.
Require Import Opt Bytes Footer Spec Layout LayoutProof.
Open Scope N_scope.

Section Dv.
Variable snappy_enc : bytes -> bytes.
Variable dec_snappy : bytes -> option bytes.
Hypothesis snappy_ok : forall x, dec_snappy (snappy_enc x) = Some x.
Variable dvchunk : N.

(* ---- terms of one document ---- *)
Definition enc_terms (ts : list str) : bytes := flat_map (fun t => t ++ [255]) ts.
Definition no_sep (t : str) : Prop := Forall (fun b => b <> 255) t.

Lemma split_terms_acc : forall t cur rest, no_sep t ->
  split_terms cur (t ++ 255 :: rest) = (rev' cur ++ t) :: split_terms [] rest.
Proof.
  induction t as [|b t IH]; intros cur rest Hn; cbn [app split_terms].
  - rewrite N.eqb_refl. now rewrite app_nil_r.
  - inversion Hn; subst. assert ((b =? 255) = false) as -> by (apply N.eqb_neq; assumption).
    rewrite IH by assumption. f_equal. unfold rev'. rewrite <- !rev_alt. cbn [rev]. now rewrite <- app_assoc.
Qed.

Lemma split_enc_terms : forall ts, Forall no_sep ts -> split_terms [] (enc_terms ts) = ts.
Proof.
  induction ts as [|t ts IH]; intros H; [reflexivity|]. inversion H; subst.
  unfold enc_terms. cbn [flat_map]. rewrite <- app_assoc. cbn [app].
  rewrite split_terms_acc by assumption. cbn [rev' rev_append app]. f_equal. apply IH. assumption.
Qed.

(* strictly ascending, duplicate-free term lists are fixed points of the parser's normalisation *)
Fixpoint ssorted (l : list str) : Prop :=
  match l with
  | [] => True
  | x :: r => (forall y, In y r -> scmp x y = Lt) /\ ssorted r
  end.
Lemma sins_head x l : (forall y, In y l -> scmp x y = Lt) -> sins x l = x :: l.
Proof. destruct l as [|y l]; intros H; [reflexivity|]. cbn [sins]. now rewrite (H y (or_introl eq_refl)). Qed.
Lemma norm_sorted : forall l, ssorted l -> fold_right sins [] l = l.
Proof.
  induction l as [|x l IH]; intros H; [reflexivity|]. destruct H as [H1 H2].
  cbn [fold_right]. rewrite IH by exact H2. now apply sins_head.
Qed.

(* ---- one chunk ---- *)
Definition docent := (N * list str)%type.                 (* (docNum, its terms, ascending) *)
Definition doc_bytes (d : docent) : bytes := enc_terms (snd d).

Fixpoint metas_from (acc : N) (ds : list docent) : list (N * N) :=
  match ds with
  | [] => []
  | d :: r => let e := acc + nlenb (doc_bytes d) in (fst d, e) :: metas_from e r
  end.
Definition enc_meta (m : N * N) : bytes := uv (fst m) ++ uv (snd m).
Definition enc_chunk (ds : list docent) : bytes :=
  uv (N.of_nat (length ds)) ++ flat_map enc_meta (metas_from 0 ds) ++ snappy_enc (flat_map doc_bytes ds).

Definition wf_doc (k : N) (d : docent) : Prop :=
  fst d / dvchunk = k /\ u64 (fst d) /\ Forall no_sep (snd d) /\ ssorted (snd d).

Lemma dec_metas : forall ms rest, Forall (fun m => u64 (fst m) /\ u64 (snd m)) ms ->
  repeat_dec (length ms) dec_dvmeta (flat_map enc_meta ms ++ rest) = Some (ms, rest).
Proof.
  induction ms as [|m ms IH]; intros rest H; [reflexivity|]. inversion H as [|? ? H12 H3]; subst. destruct H12 as [H1 H2].
  cbn [length flat_map repeat_dec]. unfold dec_dvmeta at 1, enc_meta at 1. rewrite <- !app_assoc.
  rewrite dec_uv_app by exact H1. cbn [bindo]. rewrite dec_uv_app by exact H2. cbn [bindo].
  rewrite IH by exact H3. destruct m; reflexivity.
Qed.

Lemma dv_docs_ok k : forall ds pre post, Forall (wf_doc k) ds ->
  dv_docs dvchunk k (N.of_nat (length pre)) (metas_from (N.of_nat (length pre)) ds) (pre ++ flat_map doc_bytes ds ++ post) = Some ds.
Proof.
  induction ds as [|d ds IH]; intros pre post H; [reflexivity|]. inversion H as [|? ? Hd Hr]; subst. destruct Hd as (Hk & Hu & Hs & Hso).
  cbn [metas_from dv_docs flat_map fst].
  assert ((N.of_nat (length pre) + nlenb (doc_bytes d) <? N.of_nat (length pre)) = false) as -> by (unfold nlenb; lia).
  rewrite Hk, N.eqb_refl. cbn [negb orb].
  rewrite skip_n_app. cbn [bindo].
  replace (N.of_nat (length pre) + nlenb (doc_bytes d) - N.of_nat (length pre)) with (N.of_nat (length (doc_bytes d))) by (unfold nlenb; lia).
  rewrite <- app_assoc. rewrite take_app. cbn [bindo].
  specialize (IH (pre ++ doc_bytes d) post Hr). rewrite app_length, Nnat.Nat2N.inj_add in IH.
  replace (pre ++ doc_bytes d ++ flat_map doc_bytes ds ++ post) with ((pre ++ doc_bytes d) ++ flat_map doc_bytes ds ++ post) by (now rewrite <- app_assoc).
  unfold nlenb. rewrite IH. cbn [bindo].
  unfold doc_bytes at 1. rewrite split_enc_terms by exact Hs. rewrite norm_sorted by exact Hso. destruct d; reflexivity.
Qed.

Lemma metas_u64 : forall ds acc, Forall (fun d => u64 (fst d)) ds -> u64 (acc + nlenb (flat_map doc_bytes ds)) ->
  Forall (fun m => u64 (fst m) /\ u64 (snd m)) (metas_from acc ds).
Proof.
  induction ds as [|d ds IH]; intros acc H Hb; [constructor|]. inversion H; subst.
  cbn [metas_from flat_map] in *. unfold nlenb in *. rewrite app_length, Nnat.Nat2N.inj_add in Hb.
  constructor; [cbn [fst snd]; split; [assumption|unfold u64 in *; lia]|].
  apply IH; [assumption|]. unfold u64 in *. lia.
Qed.
Lemma metas_length acc ds : length (metas_from acc ds) = length ds.
Proof. revert acc; induction ds as [|d ds IH]; intros acc; cbn; [reflexivity|now rewrite IH]. Qed.

Theorem dv_chunk_roundtrip k ds : Forall (wf_doc k) ds -> N.of_nat (length ds) < max_count ->
  u64 (nlenb (flat_map doc_bytes ds)) ->
  dv_chunk dec_snappy dvchunk k (enc_chunk ds) = Some ds.
Proof.
  intros Hw Hn Hb. unfold dv_chunk, enc_chunk.
  rewrite dec_uv_app by (unfold u64, max_count in *; lia). cbn [bindo].
  assert ((N.of_nat (length ds) <? max_count) = true) as -> by lia. cbn [negb].
  rewrite Nnat.Nat2N.id. rewrite <- (metas_length 0 ds) at 1.
  rewrite dec_metas.
  2:{ apply metas_u64; [|exact Hb]. eapply Forall_impl; [|exact Hw]. intros d (_ & Hu & _). exact Hu. }
  cbn [bindo]. rewrite snappy_ok. cbn [bindo].
  pose proof (dv_docs_ok k ds [] [] Hw) as H. cbn [length N.of_nat app] in H. now rewrite app_nil_r in H.
Qed.

(* ---- the field's whole doc-value region ---- *)
Definition chunk_bytes (ds : list docent) : bytes := match ds with [] => [] | _ => enc_chunk ds end.

Definition wf_chunk (k : N) (ds : list docent) : Prop :=
  Forall (wf_doc k) ds /\ N.of_nat (length ds) < max_count /\ u64 (nlenb (flat_map doc_bytes ds)).

Lemma chunk_bytes_nonempty ds : ds <> [] -> chunk_bytes ds <> [].
Proof.
  destruct ds as [|d ds]; [congruence|]. intros _. unfold chunk_bytes, enc_chunk.
  pose proof (uv_nonempty (N.of_nat (length (d :: ds)))) as H. destruct (uv (N.of_nat (length (d :: ds)))); [congruence|discriminate].
Qed.

Lemma dv_chunks_ok : forall chunks k pre rest,
  (forall j ds, nth_error chunks j = Some ds -> wf_chunk (k + N.of_nat j) ds) ->
  dv_chunks dec_snappy dvchunk k (N.of_nat (length pre))
            (LayoutProof.cum_from (N.of_nat (length pre)) (map nlenb (map chunk_bytes chunks)))
            (pre ++ concat (map chunk_bytes chunks) ++ rest) = Some (concat chunks).
Proof.
  induction chunks as [|ds chunks IH]; intros k pre rest Hw; [reflexivity|].
  cbn [map LayoutProof.cum_from dv_chunks concat].
  assert ((N.of_nat (length pre) + nlenb (chunk_bytes ds) <? N.of_nat (length pre)) = false) as -> by (unfold nlenb; lia).
  assert (Hw0: wf_chunk k ds) by (specialize (Hw O ds eq_refl); now rewrite N.add_0_r in Hw).
  assert (Hrest: forall j ds', nth_error chunks j = Some ds' -> wf_chunk (k + 1 + N.of_nat j) ds').
  { intros j ds' Hj. specialize (Hw (S j) ds' Hj). now replace (k + N.of_nat (S j)) with (k + 1 + N.of_nat j) in Hw by lia. }
  specialize (IH (k + 1) (pre ++ chunk_bytes ds) rest Hrest). rewrite app_length, Nnat.Nat2N.inj_add in IH.
  replace (pre ++ (chunk_bytes ds ++ concat (map chunk_bytes chunks)) ++ rest)
    with ((pre ++ chunk_bytes ds) ++ concat (map chunk_bytes chunks) ++ rest) by (now rewrite <- !app_assoc).
  destruct ds as [|d ds].
  - change (chunk_bytes []) with (@nil N) in *. change (nlenb []) with 0. cbn [length N.of_nat] in IH.
    rewrite !N.add_0_r in *. rewrite N.eqb_refl. cbn [bindo]. rewrite IH. reflexivity.
  - change (nlenb (chunk_bytes (d :: ds))) with (N.of_nat (length (chunk_bytes (d :: ds)))).
    assert (Hne: (N.of_nat (length pre) + N.of_nat (length (chunk_bytes (d :: ds))) =? N.of_nat (length pre)) = false).
    { apply N.eqb_neq. pose proof (chunk_bytes_nonempty (d :: ds) ltac:(discriminate)) as Hn.
      destruct (chunk_bytes (d :: ds)); [congruence|cbn [length]; lia]. }
    rewrite Hne.
    rewrite <- app_assoc. rewrite skip_n_app. cbn [bindo].
    replace (N.of_nat (length pre) + N.of_nat (length (chunk_bytes (d :: ds))) - N.of_nat (length pre)) with (N.of_nat (length (chunk_bytes (d :: ds)))) by lia.
    rewrite take_app. cbn [bindo]. destruct Hw0 as (W1 & W2 & W3).
    change (chunk_bytes (d :: ds)) with (enc_chunk (d :: ds)) at 1.
    rewrite (dv_chunk_roundtrip k (d :: ds) W1 W2 W3). cbn [bindo].
    rewrite app_assoc. rewrite IH. reflexivity.
Qed.

Definition enc_region (chunks : list (list docent)) : bytes :=
  let cb := map chunk_bytes chunks in
  let ends := flat_map uv (LayoutProof.cum_from 0 (map nlenb cb)) in
  concat cb ++ ends ++ be 8 (nlenb ends) ++ be 8 (N.of_nat (length chunks)).

Theorem dv_region_roundtrip : forall fpre chunks frest,
  (forall j ds, nth_error chunks j = Some ds -> wf_chunk (N.of_nat j) ds) ->
  N.of_nat (length chunks) < max_count ->
  Forall u64 (LayoutProof.cum_from 0 (map nlenb (map chunk_bytes chunks))) ->
  nlenb (flat_map uv (LayoutProof.cum_from 0 (map nlenb (map chunk_bytes chunks)))) < 256 ^ 8 ->
  dv_at dec_snappy dvchunk (fpre ++ enc_region chunks ++ frest) (N.of_nat (length fpre))
        (N.of_nat (length fpre) + nlenb (enc_region chunks)) = Some (concat chunks).
Proof.
  intros fpre chunks frest Hw Hn Hu Hol. unfold dv_at.
  set (cb := map chunk_bytes chunks). set (ends := flat_map uv (LayoutProof.cum_from 0 (map nlenb cb))).
  assert (Hreg: enc_region chunks = concat cb ++ ends ++ be 8 (nlenb ends) ++ be 8 (N.of_nat (length chunks))) by reflexivity.
  assert (Hlen: nlenb (enc_region chunks) = nlenb (concat cb) + nlenb ends + 16).
  { rewrite Hreg. unfold nlenb. rewrite !app_length, !be_length. lia. }
  assert ((N.of_nat (length fpre) + nlenb (enc_region chunks) <? N.of_nat (length fpre) + 16) = false) as -> by lia.
  unfold at_off. rewrite skip_n_app. cbn [bindo].
  replace (N.of_nat (length fpre) + nlenb (enc_region chunks) - N.of_nat (length fpre)) with (N.of_nat (length (enc_region chunks))) by (unfold nlenb; lia).
  rewrite take_app. cbn [bindo].
  (* the trailer *)
  set (n := N.of_nat (length (enc_region chunks))).
  assert (Hn8: n - 8 = N.of_nat (length (concat cb ++ ends ++ be 8 (nlenb ends)))).
  { subst n. fold (nlenb (enc_region chunks)). rewrite Hlen. unfold nlenb. rewrite !app_length, be_length. lia. }
  assert (Hn16: n - 16 = N.of_nat (length (concat cb ++ ends))).
  { subst n. fold (nlenb (enc_region chunks)). rewrite Hlen. unfold nlenb. rewrite !app_length. lia. }
  rewrite Hn8. rewrite Hreg at 1.
  replace (concat cb ++ ends ++ be 8 (nlenb ends) ++ be 8 (N.of_nat (length chunks)))
    with ((concat cb ++ ends ++ be 8 (nlenb ends)) ++ be 8 (N.of_nat (length chunks))) by (now rewrite <- !app_assoc).
  rewrite skip_n_app. cbn [bindo].
  rewrite <- (app_nil_r (be 8 (N.of_nat (length chunks)))). rewrite unbe_be by (unfold max_count in Hn; lia). cbn [bindo].
  rewrite Hn16. rewrite Hreg at 1.
  replace (concat cb ++ ends ++ be 8 (nlenb ends) ++ be 8 (N.of_nat (length chunks)))
    with ((concat cb ++ ends) ++ be 8 (nlenb ends) ++ be 8 (N.of_nat (length chunks))) by (now rewrite <- !app_assoc).
  rewrite skip_n_app. cbn [bindo]. rewrite unbe_be by exact Hol. cbn [bindo].
  assert ((N.of_nat (length (concat cb ++ ends)) <? nlenb ends) = false) as -> by (unfold nlenb; rewrite app_length; lia).
  unfold count_ok. assert ((N.of_nat (length chunks) <? max_count) = true) as -> by lia. cbn [orb negb].
  replace (N.of_nat (length (concat cb ++ ends)) - nlenb ends) with (N.of_nat (length (concat cb))) by (unfold nlenb; rewrite app_length; lia).
  rewrite Hreg at 1. rewrite skip_n_app. cbn [bindo].
  rewrite Nnat.Nat2N.id.
  replace (length chunks) with (length (LayoutProof.cum_from 0 (map nlenb cb))) at 1 by (subst cb; now rewrite cum_from_length, !map_length).
  subst ends. rewrite repeat_dec_uvs by exact Hu. cbn [bindo].
  rewrite Hreg.
  pose proof (dv_chunks_ok chunks 0 [] (flat_map uv (LayoutProof.cum_from 0 (map nlenb cb)) ++ be 8 (nlenb (flat_map uv (LayoutProof.cum_from 0 (map nlenb cb)))) ++ be 8 (N.of_nat (length chunks)))) as H.
  cbn [length N.of_nat app] in H. apply H. intros j ds Hj. rewrite N.add_0_l. now apply Hw.
Qed.
End Dv.
Print Assumptions dv_chunk_roundtrip.
Print Assumptions dv_region_roundtrip.

(* non-vacuity: a concrete three-chunk region (middle chunk empty) meets every premise, and the
   frozen reader evaluates to the documents on it *)
Definition ex_chunks : list (list docent) :=
  [[(0, [[97]; [98; 99]]); (3, [[100]])]; []; [(2049, [[97; 97]; [122]])]].
Example dv_region_example :
  (forall j ds, nth_error ex_chunks j = Some ds -> wf_chunk 1024 (N.of_nat j) ds) /\
  dv_at (fun x => Some x) 1024 ([7; 7] ++ enc_region (fun x => x) ex_chunks ++ [9]) 2
        (2 + nlenb (enc_region (fun x => x) ex_chunks)) = Some (concat ex_chunks).
Proof.
  split; [|vm_compute; reflexivity].
  intros j ds Hj. destruct j as [|[|[|j]]]; cbn in Hj; try (destruct j; discriminate); injection Hj as <-;
    unfold wf_chunk, wf_doc, max_count, u64, no_sep; cbn [ssorted fst snd length]; repeat split; repeat constructor;
    try (cbn; lia); try discriminate;
    try (intros y Hy; cbn in Hy; repeat (destruct Hy as [<-|Hy]; [reflexivity|]); contradiction).
Qed.
