(* C07: ReplaceActual.  The only caller pattern replaces the iterator's actual bitmap, before the
   first Next/Advance, by a SUBSET A of it (the unadorned conjunction / disjunction optimisation).
   After the replacement the iterator is on the exclusion path (ActualBM is no longer the postings
   bitmap) with `Actual` ranging over A and `all` over the whole list.  It then returns exactly the
   hits whose documents are in A. *)
From Coq Require Import List NArith Bool Sorted.
Import ListNotations.
Require Import Iter IterProof.
Open Scope N_scope.

Section Replace.
Variable loc : Type.
Variable P : list (hit loc).
Variable cs : N.
Variable inclFN inclLocs : bool.
Hypothesis Hcs : 0 < cs.
Hypothesis HP : StronglySorted N.lt (map fst P).

Definition memb (d : N) (A : list N) : bool := existsb (N.eqb d) A.
Definition restrict (A : list N) : list (hit loc) := filter (fun h => memb (fst h) A) P.

(* the state ReplaceActual leaves behind on a fresh iterator *)
Definition init_replaced (A : list N) : st loc := {| allr := P; actr := A; shared := false; rd := None |}.

(* A is "a subset of the actual bitmap, as a bitmap": the documents of P that are in A, ascending *)
Definition is_subset_bitmap (A : list N) : Prop := map fst (restrict A) = A.

Theorem C07_replace_actual : forall A, is_subset_bitmap A ->
  forall ops, run_impl loc P cs inclFN inclLocs (init_replaced A) ops = run_spec loc inclFN inclLocs (restrict A) ops.
Proof.
  intros A HA ops.
  pose proof (C07_filtered loc P cs inclFN inclLocs Hcs HP (fun d => negb (memb d A)) ops) as H.
  assert (Hl: live loc P (fun d => negb (memb d A)) = restrict A).
  { unfold live, restrict. apply filter_ext. intros h. now rewrite negb_involutive. }
  rewrite Hl in H. rewrite <- H. f_equal.
  unfold init_filtered, init_replaced. rewrite Hl. now rewrite HA.
Qed.
End Replace.

(* non-vacuity: a three-hit list restricted to two of its documents *)
Example replace_ex :
  is_subset_bitmap unit [(1, {| e_freq := 1; e_norm := 1; e_locs := [] |}); (4, {| e_freq := 2; e_norm := 1; e_locs := [tt] |});
                         (9, {| e_freq := 1; e_norm := 3; e_locs := [] |})] [1; 9].
Proof. reflexivity. Qed.
Print Assumptions C07_replace_actual.
