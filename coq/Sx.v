(* Generic wire format between the Go harness and the extracted model:
   s-expressions over numbers (hex), byte strings (#hex) and lists, parsed and printed
   inside Coq so that the hand-written OCaml driver only moves characters. *)
From Coq Require Import List NArith Bool.
Import ListNotations.
Open Scope N_scope.

Inductive sx := A (n : N) | B (bs : list N) | L (l : list sx).

(* ---------- printing ---------- *)
Definition hexdig (d : N) : N := if d <? 10 then 48 + d else 87 + d.   (* '0'.. / 'a'.. *)

Fixpoint hex_acc (fuel : nat) (n : N) (acc : list N) : list N :=
  match fuel with
  | O => acc
  | S f => if n <? 16 then hexdig n :: acc else hex_acc f (n / 16) (hexdig (n mod 16) :: acc)
  end.
Definition hex_of_N (n : N) : list N := hex_acc (S (N.size_nat n)) n [].

Fixpoint hex_of_bytes (bs : list N) : list N :=
  match bs with
  | [] => []
  | b :: r => hexdig (b / 16) :: hexdig (b mod 16) :: hex_of_bytes r
  end.

Fixpoint print_acc (s : sx) (acc : list N) : list N :=
  match s with
  | A n => hex_of_N n ++ acc
  | B bs => 35 :: hex_of_bytes bs ++ acc
  | L l =>
      40 :: (fix go (l : list sx) (first : bool) (acc : list N) : list N :=
               match l with
               | [] => 41 :: acc
               | x :: r => (if first then print_acc x (go r false acc) else 32 :: print_acc x (go r false acc))
               end) l true acc
  end.
Definition print (s : sx) : list N := print_acc s [].

(* ---------- parsing ---------- *)
Definition nibble (c : N) : option N :=
  if (48 <=? c) && (c <=? 57) then Some (c - 48)
  else if (97 <=? c) && (c <=? 102) then Some (c - 87)
  else None.

Inductive tk := TNone | TNum (acc : N) | TBytes (racc : list N) (hi : option N).

Record pst := { stk : list (list sx); tok : tk; bad : bool }.

Definition push (x : sx) (s : list (list sx)) : option (list (list sx)) :=
  match s with
  | top :: r => Some ((x :: top) :: r)
  | [] => None
  end.

Definition finish (p : pst) : pst :=
  match tok p with
  | TNone => p
  | TNum n => match push (A n) (stk p) with
              | Some s => {| stk := s; tok := TNone; bad := bad p |}
              | None => {| stk := []; tok := TNone; bad := true |} end
  | TBytes r None => match push (B (rev' r)) (stk p) with
              | Some s => {| stk := s; tok := TNone; bad := bad p |}
              | None => {| stk := []; tok := TNone; bad := true |} end
  | TBytes _ (Some _) => {| stk := stk p; tok := TNone; bad := true |}
  end.

Definition pstep (p : pst) (c : N) : pst :=
  if c =? 40 then let q := finish p in {| stk := [] :: stk q; tok := TNone; bad := bad q |}
  else if c =? 41 then
    let q := finish p in
    match stk q with
    | top :: r => match push (L (rev' top)) r with
                  | Some s => {| stk := s; tok := TNone; bad := bad q |}
                  | None => {| stk := []; tok := TNone; bad := true |}
                  end
    | [] => {| stk := []; tok := TNone; bad := true |}
    end
  else if (c =? 32) || (c =? 10) || (c =? 13) then finish p
  else if c =? 35 then let q := finish p in {| stk := stk q; tok := TBytes [] None; bad := bad q |}
  else match nibble c with
       | None => {| stk := stk p; tok := tok p; bad := true |}
       | Some d =>
           match tok p with
           | TNone => {| stk := stk p; tok := TNum d; bad := bad p |}
           | TNum n => {| stk := stk p; tok := TNum (n * 16 + d); bad := bad p |}
           | TBytes r None => {| stk := stk p; tok := TBytes r (Some d); bad := bad p |}
           | TBytes r (Some h) => {| stk := stk p; tok := TBytes ((h * 16 + d) :: r) None; bad := bad p |}
           end
       end.

Definition parse (cs : list N) : option sx :=
  let p := finish (fold_left pstep cs {| stk := [[]]; tok := TNone; bad := false |}) in
  if bad p then None else
  match stk p with
  | [[x]] => Some x
  | _ => None
  end.

(* ---------- helpers for decoding requests ---------- *)
Definition getA (s : sx) : option N := match s with A n => Some n | _ => None end.
Definition getB (s : sx) : option (list N) := match s with B b => Some b | _ => None end.
Definition getL (s : sx) : option (list sx) := match s with L l => Some l | _ => None end.
Definition getBool (s : sx) : option bool := match s with A n => Some (negb (n =? 0)) | _ => None end.
Definition sxb (b : bool) : sx := A (if b then 1 else 0).

Fixpoint mapo {X Y} (f : X -> option Y) (l : list X) : option (list Y) :=
  match l with
  | [] => Some []
  | x :: r => match f x with
              | Some y => match mapo f r with Some ys => Some (y :: ys) | None => None end
              | None => None
              end
  end.
Definition getLA (s : sx) : option (list N) := match s with L l => mapo getA l | _ => None end.
Definition sxLA (l : list N) : sx := L (map A l).
Definition sxerr (code : N) : sx := L [A 3735928559; A code].   (* (deadbeef code) *)

Example print_parse_ex :
  parse (print (L [A 0; A 255; B [1; 171]; L []; L [A 18446744073709551615; B []]])) =
  Some (L [A 0; A 255; B [1; 171]; L []; L [A 18446744073709551615; B []]]).
Proof. vm_compute. reflexivity. Qed.
