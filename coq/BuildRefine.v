(* The builder's dictionary construction (section_inverted_text_index.go: realloc's visitField = pass 1,
   process(..., MaxUint16, docNum) = pass 2, writeDicts' walk over the sorted DictKeys) refines the
   specification Spec.spec_dict - for EVERY order in which Go's map iteration delivers the terms.

   pass 1  every term of every instance of the field, in any order and with any repetition, is given
           the next postings-list id the first time it is seen (dict[term] = pidNext; DictKeys gets
           the term); DictKeys is sorted afterwards;
   pass 2  per document, the merged token frequencies of the field are walked in any order (a
           permutation that may differ from document to document) and one hit is appended to the
           postings list of the term's id;
   output  the sorted keys, each with the postings list of its id.
   Theorem builder_refines_spec: the output is Spec.spec_dict, whatever the orders were. *)
From Coq Require Import List NArith Bool Permutation.
Import ListNotations.
Require Import ZV.Spec ZV.StrOrd ZV.EnumProof ZV.MergeLoop ZV.MergeRefine ZV.BuildAlg.
Open Scope N_scope.

(* ---------- strictly ascending string lists ---------- *)
Fixpoint ssorted (l : list str) : Prop :=
  match l with [] => True | x :: r => (forall y, In y r -> scmp x y = Lt) /\ ssorted r end.

Lemma ssorted_unique : forall l1 l2, ssorted l1 -> ssorted l2 -> (forall t, In t l1 <-> In t l2) -> l1 = l2.
Proof.
  induction l1 as [|x r1 IH]; intros [|y r2] H1 H2 Hm.
  - reflexivity.
  - exfalso. apply (proj2 (Hm y)). now left.
  - exfalso. apply (proj1 (Hm x)). now left.
  - cbn [ssorted] in H1, H2. destruct H1 as [Hx H1], H2 as [Hy H2].
    assert (x = y) as ->.
    { destruct (proj1 (Hm x) (or_introl eq_refl)) as [E|Hin]; [now symmetry|].
      destruct (proj2 (Hm y) (or_introl eq_refl)) as [E|Hin']; [exact E|].
      exfalso. pose proof (Hy x Hin) as A. pose proof (Hx y Hin') as B.
      apply scmp_lt_gt in A. rewrite A in B. discriminate. }
    f_equal. apply IH; [exact H1|exact H2|].
    intros t. split; intros Hin.
    + destruct (proj1 (Hm t) (or_intror Hin)) as [E|H]; [|exact H].
      exfalso. subst t. apply (scmp_lt_irrefl y). now apply Hx.
    + destruct (proj2 (Hm t) (or_intror Hin)) as [E|H]; [|exact H].
      exfalso. subst t. apply (scmp_lt_irrefl y). now apply Hy.
Qed.

Lemma sins_in x : forall l t, In t (sins x l) <-> t = x \/ In t l.
Proof.
  induction l as [|y r IH]; intros t; cbn [sins].
  - cbn. intuition.
  - destruct (scmp x y) eqn:E.
    + apply scmp_eq in E. subst y. cbn. intuition.
    + cbn. intuition.
    + cbn [In]. rewrite IH. intuition.
Qed.

Lemma sins_sorted x : forall l, ssorted l -> ssorted (sins x l).
Proof.
  induction l as [|y r IH]; intros H; cbn [sins].
  - cbn. split; [intros ? []|exact I].
  - cbn [ssorted] in H. destruct H as [Hy Hr]. destruct (scmp x y) eqn:E.
    + cbn [ssorted]. split; assumption.
    + cbn [ssorted]. split; [|split; assumption].
      intros z [<-|Hz]; [exact E|]. eapply scmp_lt_trans; [exact E|]. now apply Hy.
    + cbn [ssorted]. split; [|now apply IH].
      intros z Hz. apply sins_in in Hz. destruct Hz as [->|Hz]; [now apply scmp_lt_gt|now apply Hy].
Qed.

Lemma ssort_in l : forall t, In t (ssort l) <-> In t l.
Proof.
  induction l as [|x r IH]; intros t; cbn [ssort fold_right]; [reflexivity|].
  rewrite sins_in. fold (ssort r). rewrite IH. cbn. intuition.
Qed.
Lemma ssort_sorted l : ssorted (ssort l).
Proof. induction l as [|x r IH]; cbn [ssort fold_right]; [exact I|]. now apply sins_sorted. Qed.

(* ---------- association lists: lookups and membership ---------- *)
Section Assoc.
Context {V : Type}.
Implicit Types m : list (str * V).

Lemma mget_some_in k : forall m v, mget k m = Some v -> In (k, v) m.
Proof.
  induction m as [|[k0 v0] m IH]; intros v H; cbn [mget] in H; [discriminate|].
  destruct (seqb k k0) eqn:E; [apply seqb_true in E; subst k0; injection H as <-; now left|right; now apply IH].
Qed.
Lemma mget_none_notin k : forall m, mget k m = None -> ~ In k (map fst m).
Proof.
  induction m as [|[k0 v0] m IH]; intros H; cbn [mget] in H; [intros []|].
  destruct (seqb k k0) eqn:E; [discriminate|]. cbn [map fst In]. intros [->|Hin]; [now rewrite seqb_refl in E|now apply IH].
Qed.
Lemma mget_in_keys k m : In k (map fst m) <-> mget k m <> None.
Proof.
  split.
  - intros Hin H. now apply (mget_none_notin k m H).
  - intros H. destruct (mget k m) as [v|] eqn:E; [|congruence]. apply mget_some_in in E.
    apply in_map_iff. exists (k, v). split; [reflexivity|exact E].
Qed.
Lemma mget_nodup k : forall m v, NoDup (map fst m) -> In (k, v) m -> mget k m = Some v.
Proof.
  induction m as [|[k0 v0] m IH]; intros v Hn Hin; [destruct Hin|].
  destruct Hin as [E|Hin]; cbn [mget]; cbn [map fst] in Hn; inversion Hn as [|? ? Hnot Hn']; subst.
  - injection E as -> ->. now rewrite seqb_refl.
  - destruct (seqb k k0) eqn:E; [|now apply IH]. apply seqb_true in E. subst k0. exfalso. apply Hnot.
    apply in_map_iff. exists (k, v). split; [reflexivity|exact Hin].
Qed.
Lemma mget_perm k m m' : NoDup (map fst m) -> Permutation m' m -> mget k m' = mget k m.
Proof.
  intros Hn Hp.
  assert (Hn': NoDup (map fst m')).
  { eapply Permutation_NoDup; [apply Permutation_sym, Permutation_map, Hp|exact Hn]. }
  destruct (mget k m') as [v'|] eqn:E'.
  - symmetry. apply mget_nodup; [exact Hn|]. eapply Permutation_in; [exact Hp|]. now apply mget_some_in.
  - destruct (mget k m) as [v|] eqn:E; [|reflexivity]. exfalso.
    apply mget_some_in in E. apply Permutation_sym in Hp. eapply Permutation_in in E; [|exact Hp].
    rewrite (mget_nodup k m' v Hn' E) in E'. discriminate.
Qed.

Lemma skeys_sorted : forall m, skeys m -> ssorted (map fst m).
Proof.
  induction m as [|[k0 v0] m IH]; intros H; cbn [map fst ssorted]; [exact I|].
  cbn [skeys] in H. destruct H as [H1 H2]. split; [|now apply IH].
  intros y Hy. apply in_map_iff in Hy. destruct Hy as [[k v] [<- Hin]]. eapply H1; eauto.
Qed.
Lemma ssorted_nodup : forall l, ssorted l -> NoDup l.
Proof.
  induction l as [|x r IH]; intros H; [constructor|]. cbn [ssorted] in H. destruct H as [Hx Hr].
  constructor; [|now apply IH]. intros Hin. apply (scmp_lt_irrefl x). now apply Hx.
Qed.
Lemma skeys_nodup m : skeys m -> NoDup (map fst m).
Proof. intros H. now apply ssorted_nodup, skeys_sorted. Qed.
End Assoc.

(* a sorted association list is determined by its keys and its lookups *)
Lemma assoc_canon {V} (d : V) : forall m : list (str * V), skeys m ->
  m = map (fun k => (k, match mget k m with Some v => v | None => d end)) (map fst m).
Proof.
  induction m as [|[k0 v0] m IH]; intros H; [reflexivity|].
  cbn [skeys] in H. destruct H as [H1 H2]. cbn [map fst]. cbn [mget]. rewrite seqb_refl. f_equal.
  rewrite (IH H2) at 1. apply map_ext_in. intros k Hk.
  assert (E: seqb k k0 = false).
  { apply in_map_iff in Hk. destruct Hk as [[k' v'] [<- Hin]]. cbn [fst]. unfold seqb.
    pose proof (H1 k' v' Hin) as A. apply scmp_lt_gt in A. now rewrite A. }
  now rewrite E.
Qed.

(* ---------- pass 1 ---------- *)
Lemma existsb_seqb t l : existsb (seqb t) l = true <-> In t l.
Proof.
  rewrite existsb_exists. split.
  - intros [x [Hin E]]. apply seqb_true in E. now subst x.
  - intros Hin. exists t. split; [exact Hin|apply seqb_refl].
Qed.
Lemma alloc_in keys t x : In x (alloc keys t) <-> In x keys \/ x = t.
Proof.
  unfold alloc. destruct (existsb (seqb t) keys) eqn:E.
  - apply existsb_seqb in E. split; [now left|]. intros [H| ->]; assumption.
  - rewrite in_app_iff. cbn. intuition.
Qed.
Lemma pass1_in_gen : forall seq keys x, In x (fold_left alloc seq keys) <-> In x keys \/ In x seq.
Proof.
  induction seq as [|t r IH]; intros keys x; cbn [fold_left]; [cbn; intuition|].
  rewrite IH, alloc_in. cbn. intuition.
Qed.
Lemma pass1_in seq x : In x (pass1 seq) <-> In x seq.
Proof. unfold pass1. rewrite pass1_in_gen. cbn. intuition. Qed.

(* ---------- pass 2, one document ---------- *)
Lemma app_hit_keys p t h : map fst (app_hit p t h) = map fst p.
Proof. unfold app_hit. rewrite map_map. apply map_ext. intros [k v]. cbn. now destruct (seqb k t). Qed.
Lemma lookup_notin k : forall p, ~ In k (map fst p) -> lookup k p = [].
Proof.
  induction p as [|[k0 v0] p IH]; intros H; [reflexivity|]. cbn [lookup]. cbn [map fst In] in H.
  destruct (seqb k k0) eqn:E; [apply seqb_true in E; subst k0; exfalso; apply H; now left|].
  apply IH. intros Hin. apply H. now right.
Qed.
Lemma lookup_app_hit k t h : forall p, In k (map fst p) ->
  lookup k (app_hit p t h) = if seqb k t then lookup k p ++ [h] else lookup k p.
Proof.
  induction p as [|[k0 v0] p IH]; intros Hin; [destruct Hin|].
  cbn [app_hit map fst snd lookup]. destruct (seqb k k0) eqn:E.
  - apply seqb_true in E. subst k0. destruct (seqb k t) eqn:Et; cbn [lookup]; now rewrite seqb_refl.
  - assert (Hin': In k (map fst p)).
    { cbn [map fst In] in Hin. destruct Hin as [<-|H]; [now rewrite seqb_refl in E|exact H]. }
    specialize (IH Hin'). unfold app_hit in IH.
    destruct (seqb k0 t) eqn:E0; cbn [lookup]; rewrite E; exact IH.
Qed.

Lemma pass2_doc_lookup n len k : forall (es : tfmap) p, In k (map fst p) -> NoDup (map fst es) ->
  lookup k (fold_left (fun p e => app_hit p (fst e) (mkhit n len (snd e))) es p) =
  lookup k p ++ match mget k es with Some v => [mkhit n len v] | None => [] end.
Proof.
  induction es as [|[k0 v0] es IH]; intros p Hin Hn; cbn [fold_left mget]; [now rewrite app_nil_r|].
  cbn [map fst] in Hn. inversion Hn as [|? ? Hnot Hn']; subst.
  rewrite IH; [|now rewrite app_hit_keys|exact Hn']. cbn [fst snd]. rewrite lookup_app_hit by exact Hin.
  destruct (seqb k k0) eqn:E; [|reflexivity].
  apply seqb_true in E. subst k0.
  destruct (mget k es) as [v|] eqn:Eg; [|now rewrite app_nil_r].
  exfalso. apply Hnot. apply mget_in_keys. congruence.
Qed.
Lemma pass2_doc_keys n len : forall (es : tfmap) p,
  map fst (fold_left (fun p e => app_hit p (fst e) (mkhit n len (snd e))) es p) = map fst p.
Proof. induction es as [|e es IH]; intros p; cbn [fold_left]; [reflexivity|]. now rewrite IH, app_hit_keys. Qed.

(* ---------- the specification, one document ---------- *)
Definition spec_step (n len : N) (dc : list (str * list hit)) (e : str * (N * list loc)) :=
  let '(term, (fr, ls)) := e in
  mupd term (fun o => (match o with None => [] | Some hs => hs end) ++
                      [{| h_doc := n; h_freq := fr; h_norm := (if fr =? 0 then 0 else len); h_locs := ls |}]) dc.
Lemma spec_step_skeys n len dc e : skeys dc -> skeys (spec_step n len dc e).
Proof. destruct e as [t [fr ls]]. cbn. apply mupd_skeys. Qed.
Lemma spec_doc_skeys n len : forall es dc, skeys dc -> skeys (fold_left (spec_step n len) es dc).
Proof. induction es as [|e es IH]; intros dc H; cbn [fold_left]; [exact H|]. apply IH. now apply spec_step_skeys. Qed.
Lemma spec_doc_get n len k : forall (es : tfmap) dc, skeys dc -> NoDup (map fst es) ->
  mget k (fold_left (spec_step n len) es dc) =
  match mget k es with
  | Some v => Some (oget hit (mget k dc) ++ [mkhit n len v])
  | None => mget k dc
  end.
Proof.
  induction es as [|[k0 [fr ls]] es IH]; intros dc Hs Hn; cbn [fold_left mget]; [reflexivity|].
  cbn [map fst] in Hn. inversion Hn as [|? ? Hnot Hn']; subst.
  rewrite IH; [|now apply spec_step_skeys|exact Hn'].
  cbn [spec_step]. rewrite mget_mupd by exact Hs.
  destruct (seqb k k0) eqn:E.
  - apply seqb_true in E. subst k0.
    destruct (mget k es) as [v|] eqn:Eg; [exfalso; apply Hnot; apply mget_in_keys; congruence|].
    unfold mkhit, oget. cbn [fst snd]. now destruct (mget k dc).
  - reflexivity.
Qed.

Lemma add_doc_hits_is_fold f dict nd :
  add_doc_hits f dict nd = match doc_tfs (snd nd) f with
                           | None => dict
                           | Some (len, tfs) => fold_left (spec_step (fst nd) len) tfs dict
                           end.
Proof.
  unfold add_doc_hits. destruct (doc_tfs (snd nd) f) as [[len tfs]|]; [|reflexivity].
  revert dict. induction tfs as [|[t [fr ls]] tfs IH]; intros dict; cbn [fold_left]; [reflexivity|]. apply IH.
Qed.

(* ---------- the token-frequency maps of a document are sorted; their keys are the instance terms ---------- *)
Lemma mupd_has {V} k t (g : option V -> V) (acc : list (str * V)) : skeys acc ->
  (mget k (mupd t g acc) <> None <-> mget k acc <> None \/ k = t).
Proof.
  intros Hs. rewrite mget_mupd by exact Hs. destruct (seqb k t) eqn:E.
  - apply seqb_true in E. subst k. split; [intros _; now right|intros _; discriminate].
  - split; [intros H; now left|]. intros [H|H]; [exact H|]. subst k. now rewrite seqb_refl in E.
Qed.
Lemma base_tfs_inv f : forall toks (acc : tfmap), skeys acc ->
  let r := fold_left (fun acc t => mupd (t_term t) (fun _ => (t_freq t, map (base_loc f) (t_locs t))) acc) toks acc in
  skeys r /\ forall k, mget k r <> None <-> mget k acc <> None \/ In k (map t_term toks).
Proof.
  induction toks as [|t toks IH]; intros acc Hs; cbn [fold_left map In]; [split; [exact Hs|intros k; intuition]|].
  destruct (IH (mupd (t_term t) (fun _ => (t_freq t, map (base_loc f) (t_locs t))) acc) (mupd_skeys _ _ _ Hs)) as [A B].
  split; [exact A|]. intros k. rewrite B, mupd_has by exact Hs. intuition.
Qed.
Lemma merge_tok_inv f (acc : tfmap) t : skeys acc ->
  skeys (merge_tok f acc t) /\ forall k, mget k (merge_tok f acc t) <> None <-> mget k acc <> None \/ k = t_term t.
Proof. intros Hs. unfold merge_tok. split; [now apply mupd_skeys|]. intros k. now apply mupd_has. Qed.
Lemma merge_toks_inv f : forall toks (acc : tfmap), skeys acc ->
  let r := fold_left (merge_tok f) toks acc in
  skeys r /\ forall k, mget k r <> None <-> mget k acc <> None \/ In k (map t_term toks).
Proof.
  induction toks as [|t toks IH]; intros acc Hs; cbn [fold_left map In]; [split; [exact Hs|intros k; intuition]|].
  destruct (merge_tok_inv f acc t Hs) as [A0 B0].
  destruct (IH (merge_tok f acc t) A0) as [A B].
  split; [exact A|]. intros k. rewrite B, B0. intuition.
Qed.
Lemma merge_insts_inv f : forall insts (acc : tfmap), skeys acc ->
  let r := fold_left (fun acc i => fold_left (merge_tok f) (f_toks i) acc) insts acc in
  skeys r /\ forall k, mget k r <> None <-> mget k acc <> None \/ In k (flat_map (fun i => map t_term (f_toks i)) insts).
Proof.
  induction insts as [|i insts IH]; intros acc Hs; cbn [fold_left flat_map]; [split; [exact Hs|intros k; cbn; intuition]|].
  destruct (merge_toks_inv f (f_toks i) acc Hs) as [A B].
  destruct (IH _ A) as [C D]. split; [exact C|]. intros k. rewrite D, B, in_app_iff. intuition.
Qed.
Lemma doc_tfs_inv d f len tfs : doc_tfs d f = Some (len, tfs) ->
  skeys tfs /\ forall k, mget k tfs <> None <-> In k (inst_terms d f).
Proof.
  unfold doc_tfs, inst_terms. destruct (instances d f) as [|i0 rest]; [discriminate|]. intros H. injection H as _ <-.
  destruct (base_tfs_inv f (f_toks i0) [] I) as [A B]. fold (base_tfs f i0) in A, B.
  destruct (merge_insts_inv f rest _ A) as [C D]. split; [exact C|]. intros k.
  rewrite D, B. cbn [flat_map mget]. rewrite in_app_iff. intuition.
Qed.
Lemma doc_tfs_none d f : doc_tfs d f = None -> inst_terms d f = [].
Proof. unfold doc_tfs, inst_terms. now destruct (instances d f). Qed.

(* ---------- all documents ---------- *)
Lemma indexed_from_in {X} : forall (l : list X) i n x, In (n, x) (indexed_from i l) -> In x l.
Proof. induction l as [|y l IH]; intros i n x H; [destruct H|]. cbn in H. destruct H as [E|H]; [injection E as _ <-; now left|right; eapply IH; eauto]. Qed.
Lemma indexed_from_has {X} : forall (l : list X) i x, In x l -> exists n, In (n, x) (indexed_from i l).
Proof.
  induction l as [|y l IH]; intros i x H; [destruct H|]. cbn [indexed_from]. destruct H as [->|H].
  - exists i. now left.
  - destruct (IH (i + 1) x H) as [n Hn]. exists n. now right.
Qed.

Section Docs.
Variables (f : str) (ord : N -> tfmap) (keys : list str).

Definition Inv (p : post) (dc : list (str * list hit)) : Prop :=
  skeys dc /\ map fst p = keys /\ forall k, In k keys -> lookup k p = oget hit (mget k dc).

Lemma docs_inv : forall (nds : list (N * doc)) p dc,
  (forall n d len tfs, In (n, d) nds -> doc_tfs d f = Some (len, tfs) -> Permutation (ord n) tfs) ->
  Inv p dc -> Inv (fold_left (doc_pass2 f ord) nds p) (fold_left (add_doc_hits f) nds dc).
Proof.
  induction nds as [|[n d] nds IH]; intros p dc Hord HI; cbn [fold_left]; [exact HI|].
  apply IH; [intros; eapply Hord; [right|]; eauto|].
  destruct HI as (Hs & Hk & Hl). rewrite add_doc_hits_is_fold. unfold doc_pass2. cbn [fst snd].
  destruct (doc_tfs d f) as [[len tfs]|] eqn:E; [|repeat split; assumption].
  destruct (doc_tfs_inv d f len tfs E) as [Hst _].
  pose proof (Hord n d len tfs (or_introl eq_refl) E) as Hp.
  assert (Hn: NoDup (map fst tfs)) by now apply skeys_nodup.
  assert (Hn': NoDup (map fst (ord n))).
  { eapply Permutation_NoDup; [apply Permutation_sym, Permutation_map, Hp|exact Hn]. }
  split; [now apply spec_doc_skeys|]. split; [now rewrite pass2_doc_keys|].
  intros k Hin. rewrite pass2_doc_lookup; [|now rewrite Hk|exact Hn'].
  rewrite spec_doc_get by assumption. rewrite (mget_perm k tfs (ord n) Hn Hp), (Hl k Hin).
  destruct (mget k tfs); [reflexivity|now rewrite app_nil_r].
Qed.

End Docs.

Lemma spec_keys f : forall (nds : list (N * doc)) dc, skeys dc ->
  forall k, mget k (fold_left (add_doc_hits f) nds dc) <> None <->
            mget k dc <> None \/ In k (flat_map (fun nd => inst_terms (snd nd) f) nds).
Proof.
  induction nds as [|[n d] nds IH]; intros dc Hs k; cbn [fold_left flat_map]; [cbn; intuition|].
  rewrite add_doc_hits_is_fold. cbn [fst snd].
  destruct (doc_tfs d f) as [[len tfs]|] eqn:E.
  - destruct (doc_tfs_inv d f len tfs E) as [Hst Hk].
    rewrite IH by now apply spec_doc_skeys. rewrite spec_doc_get; [|exact Hs|now apply skeys_nodup].
    rewrite in_app_iff, <- Hk. destruct (mget k tfs); [|intuition].
    split; [intros _; right; left; discriminate|intros _; left; discriminate].
  - rewrite IH by exact Hs. rewrite (doc_tfs_none d f E). cbn. intuition.
Qed.

Lemma all_terms_indexed f : forall b i t,
  In t (flat_map (fun nd : N * doc => inst_terms (snd nd) f) (indexed_from i b)) <-> In t (all_terms b f).
Proof.
  induction b as [|d b IH]; intros i t; cbn [indexed_from flat_map all_terms]; [reflexivity|].
  rewrite !in_app_iff. cbn [snd]. unfold all_terms in IH. now rewrite IH.
Qed.

Lemma init_lookup k : forall keys, lookup k (map (fun k => (k, @nil hit)) keys) = [].
Proof. induction keys as [|k0 keys IH]; [reflexivity|]. cbn [map lookup]. now destruct (seqb k k0). Qed.

Theorem builder_refines_spec : forall b f seq1 ord,
  (forall t, In t seq1 <-> In t (all_terms b f)) ->
  (forall n d len tfs, In (n, d) (indexed b) -> doc_tfs d f = Some (len, tfs) -> Permutation (ord n) tfs) ->
  build b f seq1 ord = spec_dict b f.
Proof.
  intros b f seq1 ord Hseq Hord. unfold build, spec_dict.
  set (keys := pass1 seq1).
  assert (HI: Inv keys (map (fun k => (k, [])) keys) []).
  { split; [exact I|]. split; [rewrite map_map; cbn [fst]; apply map_id|]. intros k _. now rewrite init_lookup. }
  pose proof (docs_inv f ord keys (indexed b) _ _ Hord HI) as (Hs & Hk & Hl).
  set (p := fold_left (doc_pass2 f ord) (indexed b) (map (fun k => (k, [])) keys)) in *.
  set (sd := fold_left (add_doc_hits f) (indexed b) []) in *.
  assert (Hkeys: ssort keys = map fst sd).
  { apply ssorted_unique; [apply ssort_sorted|now apply skeys_sorted|].
    intros t. rewrite ssort_in. unfold keys. rewrite pass1_in, Hseq, mget_in_keys.
    unfold sd. rewrite (spec_keys f (indexed b) [] I). unfold indexed. rewrite all_terms_indexed. cbn [mget]. intuition. }
  etransitivity; [|symmetry; apply (assoc_canon [] sd Hs)]. rewrite Hkeys. apply map_ext_in. intros k Hin.
  f_equal. rewrite Hl; [reflexivity|].
  rewrite <- Hkeys in Hin. exact (proj1 (ssort_in keys k) Hin).
Qed.

(* non-vacuity: a batch, a scrambled first-pass order with repetitions and reversed per-document orders *)
Example builder_example :
  let t1 := {| t_term := [98]; t_freq := 2; t_locs := [] |} in
  let t2 := {| t_term := [97]; t_freq := 1; t_locs := [] |} in
  let t3 := {| t_term := [99]; t_freq := 1; t_locs := [] |} in
  let fld toks := {| f_name := [120]; f_stored := false; f_dv := false; f_typ := 116; f_val := []; f_ap := [];
                     f_len := 3; f_toks := toks; f_syn := []; f_vec := None; f_shape := None |} in
  let b := [ {| d_comps := []; d_fields := [fld [t1; t2]] |}; {| d_comps := []; d_fields := [fld [t3; t1]; fld [t2]] |} ] in
  build b [120] [[99]; [98]; [97]; [98]; [97]]
        (fun n => rev (match doc_tfs (nth (N.to_nat n) b {| d_comps := []; d_fields := [] |}) [120] with Some (_, m) => m | None => [] end))
  = spec_dict b [120] /\ length (spec_dict b [120]) = 3%nat.
Proof. vm_compute. split; reflexivity. Qed.

(* ---------- an executable instance: the orders are scrambled by a seed ---------- *)
Lemma scramble_perm {X} s (l : list X) : Permutation (scramble s l) l.
Proof.
  unfold scramble, rot. set (k := Nat.modulo (N.to_nat s) (length l)).
  assert (P: Permutation (skipn k l ++ firstn k l) l).
  { rewrite <- (firstn_skipn k l) at 3. apply Permutation_app_comm. }
  destruct (N.odd s); [|exact P]. eapply Permutation_trans; [apply Permutation_sym, Permutation_rev|exact P].
Qed.
Lemma indexed_from_nth {X} : forall (l : list X) i n x, In (n, x) (indexed_from i l) ->
  i <= n /\ nth_error l (N.to_nat (n - i)) = Some x.
Proof.
  induction l as [|y l IH]; intros i n x H; [destruct H|]. cbn [indexed_from] in H. destruct H as [E|H].
  - injection E as <- <-. split; [apply N.le_refl|]. now rewrite N.sub_diag.
  - destruct (IH (i + 1) n x H) as [Hle Hn]. split; [eapply N.le_trans; [|exact Hle]; apply N.le_add_r|].
    replace (N.to_nat (n - i)) with (S (N.to_nat (n - (i + 1)))); [exact Hn|].
    rewrite <- N2Nat.inj_succ. f_equal. rewrite N.sub_add_distr, N.sub_1_r, N.succ_pred; [reflexivity|].
    intros E. apply N.sub_0_le in E. apply (N.lt_irrefl i). eapply N.lt_le_trans; [|exact E].
    eapply N.lt_le_trans; [apply N.lt_succ_diag_r|]. now rewrite <- N.add_1_r.
Qed.

Theorem run_build_is_spec b s : run_build b s = spec_dicts b.
Proof.
  unfold run_build, spec_dicts. f_equal. apply map_ext. intros f. f_equal.
  apply builder_refines_spec.
  - intros t. rewrite in_app_iff. split; [|now right].
    intros [H|H]; [|exact H]. eapply Permutation_in; [apply scramble_perm|exact H].
  - intros n d len tfs Hin E. unfold tfs_of.
    destruct (indexed_from_nth b 0 n d Hin) as [_ Hn]. rewrite N.sub_0_r in Hn. rewrite Hn, E. apply scramble_perm.
Qed.
