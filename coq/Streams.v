(* SPIKE (round 0): freq/norm and location entry codecs, chunk table, chunked stream.
   Mirrors: encodeFreqHasLocs, writeDicts' tfEncoder.Add / locEncoder.Add, readFreqNormHasLocs,
   readLocation, nextAtOrAfter's location loop, chunkedIntCoder.Write, newChunkedIntDecoder/loadChunk. *)
From Coq Require Import List NArith Lia Bool Arith PeanoNat.
From Coq Require Import ZifyN ZifyNat ZifyBool.
Import ListNotations.
Require Import Bytes.
Open Scope N_scope.

Record loc := { l_field : N; l_pos : N; l_start : N; l_end : N; l_ap : list N }.
Record entry := { e_freq : N; e_norm : N; e_locs : list loc }.
Definition hasLocs (e : entry) : bool := match e_locs e with [] => false | _ => true end.

Definition nlen {A} (l : list A) : N := N.of_nat (length l).

Definition wf_loc (l : loc) : Prop :=
  u64 (l_field l) /\ u64 (l_pos l) /\ u64 (l_start l) /\ u64 (l_end l) /\ u64 (nlen (l_ap l)) /\ Forall u64 (l_ap l).

(* ---- one location ---- *)
Definition enc_loc (l : loc) : bytes :=
  uv (l_field l) ++ uv (l_pos l) ++ uv (l_start l) ++ uv (l_end l) ++ uv (nlen (l_ap l)) ++ flat_map uv (l_ap l).

Definition dec_loc (bs : bytes) : option (loc * bytes) :=
  match dec_uv bs with None => None | Some (f, b1) =>
  match dec_uv b1 with None => None | Some (p, b2) =>
  match dec_uv b2 with None => None | Some (s, b3) =>
  match dec_uv b3 with None => None | Some (e, b4) =>
  match dec_uv b4 with None => None | Some (n, b5) =>
  match dec_uvs (N.to_nat n) b5 with None => None | Some (ap, b6) =>
    Some ({| l_field := f; l_pos := p; l_start := s; l_end := e; l_ap := ap |}, b6)
  end end end end end end.

Lemma dec_enc_loc l rest : wf_loc l -> dec_loc (enc_loc l ++ rest) = Some (l, rest).
Proof.
  intros (H1 & H2 & H3 & H4 & H5 & H6). unfold dec_loc, enc_loc.
  rewrite <- !app_assoc.
  rewrite dec_uv_app by assumption. rewrite dec_uv_app by assumption.
  rewrite dec_uv_app by assumption. rewrite dec_uv_app by assumption.
  rewrite dec_uv_app by assumption.
  unfold nlen. rewrite Nnat.Nat2N.id. rewrite dec_uvs_app by assumption.
  destruct l; reflexivity.
Qed.

Lemma enc_loc_nonempty l : enc_loc l <> [].
Proof. unfold enc_loc. pose proof (uv_nonempty (l_field l)). destruct (uv (l_field l)); [congruence|discriminate]. Qed.

(* ---- a block of locations, bounded by its byte length (numLocsBytes) ---- *)
Fixpoint dec_locs (fuel : nat) (bs : bytes) : option (list loc) :=
  match bs with
  | [] => Some []
  | _ => match fuel with
         | O => None
         | S f => match dec_loc bs with
                  | Some (l, r) => match dec_locs f r with Some ls => Some (l :: ls) | None => None end
                  | None => None
                  end
         end
  end.

Lemma dec_locs_ok : forall ls fuel, Forall wf_loc ls -> (length ls <= fuel)%nat ->
  dec_locs fuel (flat_map enc_loc ls) = Some ls.
Proof.
  induction ls as [|l ls IH]; intros fuel Hw Hf.
  - destruct fuel; reflexivity.
  - inversion Hw; subst. cbn [flat_map].
    destruct fuel as [|f]; [cbn in Hf; lia|].
    cbn [dec_locs].
    destruct (enc_loc l ++ flat_map enc_loc ls) eqn:E.
    { apply app_eq_nil in E as [E _]. now apply enc_loc_nonempty in E. }
    rewrite <- E. rewrite dec_enc_loc by assumption. rewrite IH; [reflexivity|assumption|cbn in Hf; lia].
Qed.

Definition enc_locblock (ls : list loc) : bytes :=
  let body := flat_map enc_loc ls in uv (nlen body) ++ body.

Definition dec_locblock (bs : bytes) : option (list loc * bytes) :=
  match dec_uv bs with
  | None => None
  | Some (nb, r) =>
      let k := N.to_nat nb in
      match dec_locs k (firstn k r) with
      | Some ls => Some (ls, skipn k r)
      | None => None
      end
  end.

Lemma flat_len_ge : forall ls, (length ls <= length (flat_map enc_loc ls))%nat.
Proof.
  induction ls as [|l ls IH]; [reflexivity|]. cbn [flat_map length]. rewrite app_length.
  pose proof (enc_loc_nonempty l). destruct (enc_loc l); [congruence|]. cbn [length]. lia.
Qed.

Lemma dec_enc_locblock ls rest : Forall wf_loc ls -> u64 (nlen (flat_map enc_loc ls)) ->
  dec_locblock (enc_locblock ls ++ rest) = Some (ls, rest).
Proof.
  intros Hw Hn. unfold dec_locblock, enc_locblock. rewrite <- app_assoc, dec_uv_app by assumption.
  unfold nlen. rewrite Nnat.Nat2N.id.
  rewrite firstn_app, Nat.sub_diag, firstn_all. cbn [firstn]. rewrite app_nil_r.
  rewrite dec_locs_ok; [|assumption|apply flat_len_ge].
  rewrite skipn_app, skipn_all, Nat.sub_diag. reflexivity.
Qed.

(* ---- one freq/norm entry ---- *)
Definition enc_tf (e : entry) : bytes :=
  uv (2 * e_freq e + (if hasLocs e then 1 else 0)) ++ (if e_freq e =? 0 then [] else uv (e_norm e)).

(* readFreqNormHasLocs: (freq, norm-or-0, hasLocs) *)
Definition dec_tf (bs : bytes) : option ((N * N * bool) * bytes) :=
  match dec_uv bs with
  | None => None
  | Some (fh, r) =>
      let freq := fh / 2 in
      let hl := N.odd fh in
      if freq =? 0 then Some ((0, 0, hl), r)
      else match dec_uv r with
           | Some (nrm, r') => Some ((freq, nrm, hl), r')
           | None => None
           end
  end.

Definition wf_tf (e : entry) : Prop := e_freq e < 2 ^ 62 /\ u64 (e_norm e).

Lemma dec_enc_tf e rest : wf_tf e ->
  dec_tf (enc_tf e ++ rest) =
  Some ((e_freq e, (if e_freq e =? 0 then 0 else e_norm e), hasLocs e), rest).
Proof.
  intros [Hf Hn]. unfold dec_tf, enc_tf. rewrite <- app_assoc.
  set (b := if hasLocs e then 1 else 0).
  assert (Hb: b < 2) by (subst b; destruct (hasLocs e); lia).
  rewrite dec_uv_app.
  2:{ unfold u64. change (2 ^ 64) with (4 * 2 ^ 62). lia. }
  assert (Hq: (2 * e_freq e + b) / 2 = e_freq e) by lia.
  assert (Ho: N.odd (2 * e_freq e + b) = hasLocs e).
  { subst b. destruct (hasLocs e).
    - rewrite N.add_comm, N.odd_add_mul_2. reflexivity.
    - rewrite N.add_0_r, N.odd_mul, N.odd_2. reflexivity. }
  rewrite Hq, Ho. destruct (e_freq e =? 0) eqn:E.
  - assert (e_freq e = 0) as -> by lia. reflexivity.
  - rewrite dec_uv_app by assumption. reflexivity.
Qed.
