(* C19: the engine-call programs of the vector section (section_faiss_vector_index.go).
   Build (writeVectorIndexes, per field): IndexFactory (deferred Close); for a clustered index
   SetDirectMap and Train; AddWithIDs; WriteIndexIntoBuffer.  Merge (mergeAndWriteVectorIndexes, per
   field): ReadIndexFromBuffer for every input with surviving vectors (kept in a table);
   ReconstructBatch for each; the inputs' indexes are freed; IndexFactory (deferred Close); SetDirectMap,
   Train; AddWithIDs; WriteIndexIntoBuffer.  Every early return after a failed call frees the table.
   Every engine call may fail (oracle: `fails op n` = the n-th call of op fails).
   The model tracks each native index individually: opened, closed how often. *)
From Coq Require Import List Arith Lia Bool.
Import ListNotations.

Inductive opk := Factory | SetDM | Train | Add | WriteIdx | ReadIdx | Recon.
Definition opk_eqb (a b : opk) : bool :=
  match a, b with
  | Factory, Factory | SetDM, SetDM | Train, Train | Add, Add | WriteIdx, WriteIdx | ReadIdx, ReadIdx | Recon, Recon => true
  | _, _ => false
  end.

(* the state: calls made so far per operation, number of indexes opened, and the ids closed *)
Record est := { calls : list (opk * nat); opened : nat; closed : list nat }.
Definition est0 : est := {| calls := []; opened := 0; closed := [] |}.

Fixpoint count (o : opk) (l : list (opk * nat)) : nat :=
  match l with [] => 0 | (o', n) :: r => if opk_eqb o o' then n else count o r end.
Fixpoint bump (o : opk) (l : list (opk * nat)) : list (opk * nat) :=
  match l with
  | [] => [(o, 1)]
  | (o', n) :: r => if opk_eqb o o' then (o', S n) :: r else (o', n) :: bump o r
  end.

Section Prog.
Variable fails : opk -> nat -> bool.       (* the n-th call (1-based) of an operation fails *)

(* one engine call: true = it failed *)
Definition call (o : opk) (s : est) : bool * est :=
  let n := S (count o (calls s)) in
  (fails o n, {| calls := bump o (calls s); opened := opened s; closed := closed s |}).
Definition open_idx (s : est) : nat * est :=
  (opened s, {| calls := calls s; opened := S (opened s); closed := closed s |}).
Definition close_idx (i : nat) (s : est) : est :=
  {| calls := calls s; opened := opened s; closed := i :: closed s |}.
Definition close_all (l : list nat) (s : est) : est := fold_left (fun s i => close_idx i s) l s.

(* the tail shared by build and merge: factory, [SetDirectMap, Train], AddWithIDs, Write; the new
   index is closed by the deferred Close on every path after its creation *)
Definition tail (ivf : bool) (s : est) : bool * est :=
  let '(f, s) := call Factory s in
  if f then (true, s) else
  let '(i, s) := open_idx s in
  let finish := fun (r : bool) (s : est) => (r, close_idx i s) in
  let '(f, s) := (if ivf then call SetDM s else (false, s)) in
  if f then finish true s else
  let '(f, s) := (if ivf then call Train s else (false, s)) in
  if f then finish true s else
  let '(f, s) := call Add s in
  if f then finish true s else
  let '(f, s) := call WriteIdx s in
  finish f s.

(* build: one field after the other; the first error is returned (Persist returns it: repaired code) *)
Fixpoint build_fields (fields : list bool (* clustered? *)) (s : est) : bool * est :=
  match fields with
  | [] => (false, s)
  | ivf :: r => let '(f, s) := tail ivf s in if f then (true, s) else build_fields r s
  end.
Definition build (swallow : bool) (fields : list bool) : bool * est :=
  let '(f, s) := build_fields fields est0 in ((if swallow then false else f), s).

(* merge, one field with n inputs that have surviving vectors *)
Fixpoint read_all (n : nat) (held : list nat) (s : est) : bool * list nat * est :=
  match n with
  | O => (false, held, s)
  | S n' => let '(f, s) := call ReadIdx s in
            if f then (true, held, close_all held s)            (* freeReconstructedIndexes *)
            else let '(i, s) := open_idx s in read_all n' (held ++ [i]) s
  end.
Fixpoint recon_all (n : nat) (held : list nat) (s : est) : bool * est :=
  match n with
  | O => (false, s)
  | S n' => let '(f, s) := call Recon s in
            if f then (true, close_all held s) else recon_all n' held s
  end.
Definition merge_field (n : nat) (ivf : bool) (s : est) : bool * est :=
  match n with
  | O => (false, s)                                             (* no valid index: nothing to do *)
  | _ =>
    let '(f, held, s) := read_all n [] s in
    if f then (true, s) else
    let '(f, s) := recon_all n held s in
    if f then (true, s) else
    tail ivf (close_all held s)
  end.
Fixpoint merge_fields (fields : list (nat * bool)) (s : est) : bool * est :=
  match fields with
  | [] => (false, s)
  | (n, ivf) :: r => let '(f, s) := merge_field n ivf s in if f then (true, s) else merge_fields r s
  end.
Definition merge (fields : list (nat * bool)) : bool * est := merge_fields fields est0.
End Prog.

(* every opened index is closed exactly once *)
Definition balanced (s : est) : Prop := forall i, count_occ Nat.eq_dec (closed s) i = if i <? opened s then 1 else 0.
Definition no_fault : opk -> nat -> bool := fun _ _ => false.

(* ======================= proofs ======================= *)
Lemma opk_eqb_refl o : opk_eqb o o = true. Proof. destruct o; reflexivity. Qed.
Lemma opk_eqb_eq a b : opk_eqb a b = true -> a = b. Proof. destruct a, b; cbn; congruence. Qed.

Lemma count_bump_same o l : count o (bump o l) = S (count o l).
Proof.
  induction l as [|[o' n] l IH]; cbn [bump count]; [now rewrite opk_eqb_refl|].
  destruct (opk_eqb o o') eqn:E; cbn [count]; rewrite E; [reflexivity|exact IH].
Qed.
Lemma count_bump_other o o' l : opk_eqb o' o = false -> count o' (bump o l) = count o' l.
Proof.
  intros H. induction l as [|[o2 n] l IH]; cbn [bump count]; [now rewrite H|].
  destruct (opk_eqb o o2) eqn:E; cbn [count].
  - apply opk_eqb_eq in E. subst o2. now rewrite H.
  - destruct (opk_eqb o' o2); [reflexivity|exact IH].
Qed.

Section Proofs.
Variable fails : opk -> nat -> bool.

Definition failed (s : est) : Prop := exists o n, 1 <= n <= count o (calls s) /\ fails o n = true.

(* every opened index is closed exactly once, or still held exactly once *)
Definition Bal (held : list nat) (s : est) : Prop :=
  forall i, count_occ Nat.eq_dec (closed s) i + count_occ Nat.eq_dec held i = if i <? opened s then 1 else 0.

Lemma call_spec o s : let '(f, s') := call fails o s in
  opened s' = opened s /\ closed s' = closed s /\
  (f = true -> failed s') /\ (f = false -> (failed s' <-> failed s)).
Proof.
  unfold call. cbn [opened closed]. repeat split.
  - intros Hf. exists o, (S (count o (calls s))). cbn [calls]. rewrite count_bump_same. split; [lia|exact Hf].
  - intros (o' & n & Hn & Hfn). cbn [calls] in Hn.
    destruct (opk_eqb o' o) eqn:E.
    + apply opk_eqb_eq in E. subst o'. rewrite count_bump_same in Hn.
      destruct (Nat.eq_dec n (S (count o (calls s)))) as [->|Hne]; [congruence|].
      exists o, n. split; [lia|exact Hfn].
    + rewrite (count_bump_other o o' _ E) in Hn. exists o', n. auto.
  - intros (o' & n & Hn & Hfn). exists o', n. split; [|exact Hfn]. cbn [calls].
    destruct (opk_eqb o' o) eqn:E.
    + apply opk_eqb_eq in E. subst o'. rewrite count_bump_same. lia.
    + now rewrite (count_bump_other o o' _ E).
Qed.

Lemma Bal_open held s : Bal held s -> Bal (held ++ [opened s]) (snd (open_idx s)).
Proof.
  intros H i. unfold open_idx. cbn [snd opened closed]. rewrite count_occ_app. cbn [count_occ].
  specialize (H i). destruct (Nat.eq_dec (opened s) i) as [<-|Hne].
  - assert ((opened s <? opened s) = false) as E by (apply Nat.ltb_ge; lia). rewrite E in H.
    assert ((opened s <? S (opened s)) = true) as -> by (apply Nat.ltb_lt; lia). lia.
  - destruct (i <? opened s) eqn:E.
    + apply Nat.ltb_lt in E. assert ((i <? S (opened s)) = true) as -> by (apply Nat.ltb_lt; lia). lia.
    + apply Nat.ltb_ge in E. assert ((i <? S (opened s)) = false) as -> by (apply Nat.ltb_ge; lia). lia.
Qed.

Lemma Bal_close_head i held s : Bal (i :: held) s -> Bal held (close_idx i s).
Proof.
  intros H j. unfold close_idx. cbn [closed opened count_occ]. specialize (H j). cbn [count_occ] in H.
  destruct (Nat.eq_dec i j); lia.
Qed.

Lemma close_all_spec held : forall s, Bal held s ->
  Bal [] (close_all held s) /\ opened (close_all held s) = opened s /\ calls (close_all held s) = calls s.
Proof.
  induction held as [|i held IH]; intros s H; cbn [close_all fold_left]; [auto|].
  destruct (IH (close_idx i s) (Bal_close_head i held s H)) as (H1 & H2 & H3).
  repeat split; assumption.
Qed.

Lemma failed_calls_eq s s' : calls s' = calls s -> (failed s' <-> failed s).
Proof. intros E. unfold failed. now rewrite E. Qed.

Lemma Bal_same held s s' : opened s' = opened s -> closed s' = closed s -> Bal held s -> Bal held s'.
Proof. intros E1 E2 H i. rewrite E1, E2. apply H. Qed.

Definition Good (r : bool * est) : Prop := Bal [] (snd r) /\ (fst r = true <-> failed (snd r)).

(* one optional call *)
Lemma opt_call_spec (b : bool) o s :
  let '(f, s') := (if b then call fails o s else (false, s)) in
  opened s' = opened s /\ closed s' = closed s /\ (f = true -> failed s') /\ (f = false -> (failed s' <-> failed s)).
Proof.
  destruct b; [apply call_spec|]. repeat split; try tauto; discriminate.
Qed.

Lemma tail_good ivf s : Bal [] s -> ~ failed s -> Good (tail fails ivf s).
Proof.
  intros HB HF. unfold tail.
  pose proof (call_spec Factory s) as C1. destruct (call fails Factory s) as [f1 s1].
  destruct C1 as (O1 & L1 & F1 & N1).
  destruct f1.
  { split; cbn [fst snd]; [eapply Bal_same; eauto|]. split; auto. }
  assert (HF1: ~ failed s1) by (rewrite (N1 eq_refl); exact HF).
  assert (HB1: Bal [] s1) by (eapply Bal_same; eauto).
  pose proof (Bal_open [] s1 HB1) as HB2. cbn [app] in HB2.
  unfold open_idx. cbn [fst snd] in *.
  set (s2 := {| calls := calls s1; opened := S (opened s1); closed := closed s1 |}) in *.
  assert (HF2: ~ failed s2) by (rewrite (failed_calls_eq s1 s2 eq_refl); exact HF1).
  (* a step helper: finishing closes the new index *)
  assert (Fin: forall r sx, opened sx = opened s2 -> closed sx = closed s2 -> (r = true <-> failed sx) ->
                Good (r, close_idx (opened s1) sx)).
  { intros r sx Ho Hc Hr. split; cbn [fst snd].
    - apply Bal_close_head. eapply Bal_same; eauto.
    - rewrite Hr. symmetry. apply failed_calls_eq. reflexivity. }
  pose proof (opt_call_spec ivf SetDM s2) as C2. destruct (if ivf then call fails SetDM s2 else (false, s2)) as [f2 s3].
  destruct C2 as (O2 & L2 & F2 & N2).
  destruct f2; [apply Fin; auto; split; auto|].
  assert (HF3: ~ failed s3) by (rewrite (N2 eq_refl); exact HF2).
  pose proof (opt_call_spec ivf Train s3) as C3. destruct (if ivf then call fails Train s3 else (false, s3)) as [f3 s4].
  destruct C3 as (O3 & L3 & F3 & N3).
  destruct f3; [apply Fin; try congruence; split; auto|].
  assert (HF4: ~ failed s4) by (rewrite (N3 eq_refl); exact HF3).
  pose proof (call_spec Add s4) as C4. destruct (call fails Add s4) as [f4 s5].
  destruct C4 as (O4 & L4 & F4 & N4).
  destruct f4; [apply Fin; try congruence; split; auto|].
  assert (HF5: ~ failed s5) by (rewrite (N4 eq_refl); exact HF4).
  pose proof (call_spec WriteIdx s5) as C5. destruct (call fails WriteIdx s5) as [f5 s6].
  destruct C5 as (O5 & L5 & F5 & N5).
  apply Fin; try congruence. destruct f5; split; auto; try discriminate.
  intros H. exfalso. apply HF5. now apply (N5 eq_refl).
Qed.

Lemma read_all_spec n : forall held s, Bal held s -> ~ failed s ->
  let '(f, held', s') := read_all fails n held s in
  (f = true -> Bal [] s' /\ failed s') /\ (f = false -> Bal held' s' /\ ~ failed s' /\ length held' = length held + n).
Proof.
  induction n as [|n IH]; intros held s HB HF; cbn [read_all].
  - split; [discriminate|]. intros _. repeat split; auto.
  - pose proof (call_spec ReadIdx s) as C. destruct (call fails ReadIdx s) as [f s1].
    destruct C as (O1 & L1 & F1 & N1).
    assert (HB1: Bal held s1) by (eapply Bal_same; eauto).
    destruct f.
    + split; [|discriminate]. intros _.
      destruct (close_all_spec held s1 HB1) as (H1 & H2 & H3). split; [exact H1|].
      apply (failed_calls_eq s1 _ H3). auto.
    + assert (HF1: ~ failed s1) by (rewrite (N1 eq_refl); exact HF).
      unfold open_idx. cbn [fst snd].
      pose proof (Bal_open held s1 HB1) as HB2. unfold open_idx in HB2. cbn [snd] in HB2.
      set (s2 := {| calls := calls s1; opened := S (opened s1); closed := closed s1 |}) in *.
      assert (HF2: ~ failed s2) by (rewrite (failed_calls_eq s1 s2 eq_refl); exact HF1).
      specialize (IH (held ++ [opened s1]) s2 HB2 HF2).
      destruct (read_all fails n (held ++ [opened s1]) s2) as [[f' held'] s'].
      destruct IH as [I1 I2]. split; [exact I1|]. intros Hf. destruct (I2 Hf) as (A & B & C).
      repeat split; auto. rewrite C, app_length. cbn. lia.
Qed.

Lemma recon_all_spec n held : forall s, Bal held s -> ~ failed s ->
  let '(f, s') := recon_all fails n held s in
  (f = true -> Bal [] s' /\ failed s') /\ (f = false -> Bal held s' /\ ~ failed s').
Proof.
  induction n as [|n IH]; intros s HB HF; cbn [recon_all].
  - split; [discriminate|auto].
  - pose proof (call_spec Recon s) as C. destruct (call fails Recon s) as [f s1].
    destruct C as (O1 & L1 & F1 & N1).
    assert (HB1: Bal held s1) by (eapply Bal_same; eauto).
    destruct f.
    + split; [|discriminate]. intros _.
      destruct (close_all_spec held s1 HB1) as (H1 & H2 & H3). split; [exact H1|].
      apply (failed_calls_eq s1 _ H3). auto.
    + assert (HF1: ~ failed s1) by (rewrite (N1 eq_refl); exact HF).
      apply IH; assumption.
Qed.

Lemma merge_field_good n ivf s : Bal [] s -> ~ failed s -> Good (merge_field fails n ivf s).
Proof.
  intros HB HF. unfold merge_field. destruct n as [|n].
  { split; cbn [fst snd]; [exact HB|]. split; [discriminate|tauto]. }
  pose proof (read_all_spec (S n) [] s HB HF) as R.
  destruct (read_all fails (S n) [] s) as [[f held] s1]. destruct R as [R1 R2].
  destruct f.
  { destruct (R1 eq_refl). split; cbn [fst snd]; [assumption|]. tauto. }
  destruct (R2 eq_refl) as (HB1 & HF1 & _).
  pose proof (recon_all_spec (S n) held s1 HB1 HF1) as Q.
  destruct (recon_all fails (S n) held s1) as [f2 s2]. destruct Q as [Q1 Q2].
  destruct f2.
  { destruct (Q1 eq_refl). split; cbn [fst snd]; [assumption|]. tauto. }
  destruct (Q2 eq_refl) as (HB2 & HF2).
  destruct (close_all_spec held s2 HB2) as (H1 & H2 & H3).
  apply tail_good; [exact H1|]. rewrite (failed_calls_eq s2 _ H3). exact HF2.
Qed.

Lemma merge_fields_good fields : forall s, Bal [] s -> ~ failed s -> Good (merge_fields fails fields s).
Proof.
  induction fields as [|[n ivf] fields IH]; intros s HB HF; cbn [merge_fields].
  - split; cbn [fst snd]; [exact HB|]. split; [discriminate|tauto].
  - pose proof (merge_field_good n ivf s HB HF) as G. destruct (merge_field fails n ivf s) as [f s1].
    destruct G as [G1 G2]. cbn [fst snd] in *. destruct f.
    + split; cbn [fst snd]; assumption.
    + apply IH; [exact G1|]. intros H. apply G2 in H. discriminate.
Qed.

Lemma build_fields_good fields : forall s, Bal [] s -> ~ failed s -> Good (build_fields fails fields s).
Proof.
  induction fields as [|ivf fields IH]; intros s HB HF; cbn [build_fields].
  - split; cbn [fst snd]; [exact HB|]. split; [discriminate|tauto].
  - pose proof (tail_good ivf s HB HF) as G. destruct (tail fails ivf s) as [f s1].
    destruct G as [G1 G2]. cbn [fst snd] in *. destruct f.
    + split; cbn [fst snd]; assumption.
    + apply IH; [exact G1|]. intros H. apply G2 in H. discriminate.
Qed.

Lemma est0_ok : Bal [] est0 /\ ~ failed est0.
Proof.
  split.
  - intros i. cbn. reflexivity.
  - intros (o & n & Hn & _). cbn in Hn. lia.
Qed.

Lemma Bal_nil_balanced s : Bal [] s -> balanced s.
Proof. intros H i. specialize (H i). cbn [count_occ] in H. lia. Qed.

(* C19 (merge): whatever engine call fails, the merge of the vector section reports an error exactly
   when a call it made failed, and every native index it opened has been closed exactly once *)
Theorem C19_merge_faults_surface : forall fields,
  let '(err, s) := merge fails fields in
  (err = true <-> failed s) /\ balanced s.
Proof.
  intros fields. unfold merge. destruct est0_ok as [B F].
  pose proof (merge_fields_good fields est0 B F) as G. destruct (merge_fields fails fields est0) as [err s].
  destruct G as [G1 G2]. split; [exact G2|now apply Bal_nil_balanced].
Qed.

(* C19 (build, repaired code: Persist returns the error) *)
Theorem C19_build_faults_surface : forall fields,
  let '(err, s) := build fails false fields in
  (err = true <-> failed s) /\ balanced s.
Proof.
  intros fields. unfold build. destruct est0_ok as [B F].
  pose proof (build_fields_good fields est0 B F) as G. destruct (build_fields fails fields est0) as [err s].
  destruct G as [G1 G2]. split; [exact G2|now apply Bal_nil_balanced].
Qed.
End Proofs.

(* pinned code: Persist dropped the error - a failing AddWithIDs goes unreported *)
Theorem C19_build_error_swallowed_refuted :
  exists fails fields, let '(err, s) := build fails true fields in err = false /\ failed fails s.
Proof.
  exists (fun o n => opk_eqb o Add && Nat.eqb n 1), [false]. cbn. split; [reflexivity|].
  exists Add, 1. cbn. split; [lia|reflexivity].
Qed.
Print Assumptions C19_merge_faults_surface.
Print Assumptions C19_build_faults_surface.
Print Assumptions C19_build_error_swallowed_refuted.
