(* The builder's stored-field pass (BuildAlg.stored_pass: instances appended to per-field buckets in
   visiting order, buckets emitted in field order) yields the specification's stored values of a
   document (Spec.stored_of field by field); stored_run is the instance run next to zapx (request 23). *)
From Coq Require Import List NArith Bool.
Import ListNotations.
Require Import ZV.Spec ZV.BuildAlg.
Open Scope N_scope.

Definition bucket_of (is : list field) (e : str * list sval) : str * list sval :=
  (fst e, snd e ++ map (sval_of (fst e)) (filter (fun i => f_stored i && seqb (f_name i) (fst e)) is)).

Lemma buckets_fold : forall (is : list field) bk, fold_left bucket_add is bk = map (bucket_of is) bk.
Proof.
  induction is as [|i is IH]; intros bk; cbn [fold_left].
  - unfold bucket_of. cbn [filter map]. rewrite <- (map_id bk) at 1. apply map_ext. intros [k v]. cbn. now rewrite app_nil_r.
  - rewrite IH. unfold bucket_add. destruct (f_stored i) eqn:Es.
    + rewrite map_map. apply map_ext. intros [k v]. unfold bucket_of. cbn [fst snd filter]. rewrite Es. cbn [andb].
      destruct (seqb (f_name i) k) eqn:E; cbn [fst snd]; rewrite ?E; cbn [map]; rewrite <- ?app_assoc; reflexivity.
    + apply map_ext. intros [k v]. unfold bucket_of. cbn [fst snd filter]. rewrite Es. reflexivity.
Qed.

Theorem stored_pass_is_spec fs d : stored_pass fs d = flat_map (stored_of d) fs.
Proof.
  unfold stored_pass. rewrite buckets_fold, !map_map. rewrite flat_map_concat_map.
  apply f_equal. apply map_ext. intros f. unfold bucket_of, stored_of. cbn [fst snd app]. reflexivity.
Qed.

Theorem stored_run_is_spec b : stored_run b = c_stored (spec_of_batch b).
Proof.
  unfold stored_run, spec_of_batch. cbn [c_stored]. apply map_ext. intros d.
  unfold spec_stored_doc. f_equal. apply stored_pass_is_spec.
Qed.

Example stored_example :
  let fld n st v := {| f_name := n; f_stored := st; f_dv := false; f_typ := 116; f_val := v; f_ap := []; f_len := 0;
                       f_toks := []; f_syn := []; f_vec := None; f_shape := None |} in
  stored_pass [[97]; [98]] {| d_comps := []; d_fields := [fld [98] true [1]; fld [97] true [2]; fld [98] false [3]; fld [98] true [4]] |}
  = [sval_of [97] (fld [97] true [2]); sval_of [98] (fld [98] true [1]); sval_of [98] (fld [98] true [4])].
Proof. vm_compute. reflexivity. Qed.
