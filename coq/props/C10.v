(* C10 - A build depends only on its batch, not on earlier or concurrent builds.
   Model (BuildReuse.v): the builder's pooled working memory with each reusable slice as its WHOLE
   backing array; realloc re-slices within capacity or allocates; process or-s doc-value flags and
   adds documents to pooled bitmaps; Reset clears the visible prefixes only.
   Theorem: for every history of builds (successful ones put their reset memory back into the pool,
   failed ones drop it), with whatever object the pool hands out at each build, every build writes
   exactly what a build on fresh memory writes.  The invariant that carries the induction: between
   builds everything within capacity is clear.  (C10_leak_without_reset shows the statement fails
   without Reset's clearing, i.e. the model can exhibit the leak.)
   Concurrent builds: each build owns the object it took from the pool (pool exclusivity, C11's
   theorem about disciplined Get/Put), so the sequential theorem applies to each; data-race freedom
   is observed with the race detector only. *)
From Coq Require Import List.
Require Import ZV.BuildReuse.
Import ListNotations.

Theorem C10_history_independent : forall es pl, Forall ResetInv pl -> Forall (fun e => wf_batch (batch_of e)) es ->
  hrun pl es = map (fun e => fst (build fresh (batch_of e))) es.
Proof. exact BuildReuse.C10_history_independent. Qed.
Print Assumptions C10_history_independent.

Theorem C10_one_build : forall p b, ResetInv p -> wf_batch b ->
  fst (build p b) = fst (build fresh b) /\ ResetInv (reset b (snd (build p b))).
Proof. exact build_reuse_eq_fresh. Qed.
Print Assumptions C10_one_build.

Theorem C10_nonvacuous : wf_batch big /\ wf_batch small /\
  hrun [] [Build None big true; Build (Some 0) small true] = [fst (build fresh big); fst (build fresh small)].
Proof. exact C10_example. Qed.
Print Assumptions C10_nonvacuous.

Require ZV.BuildRefine.
From Coq Require Permutation.

(* the builder's two passes (ids handed out in first-seen order, hits appended per document, keys
   sorted at the end) produce the specification's dictionary for EVERY order in which Go's map
   iteration delivers the terms - in the first pass (any order, any repetition) and, document by
   document, in the second (any permutation) *)
Theorem C10_builder_algorithm_refines_spec : forall b f seq1 ord,
  (forall t, List.In t seq1 <-> List.In t (BuildAlg.all_terms b f)) ->
  (forall n d len tfs, List.In (n, d) (Spec.indexed b) -> Spec.doc_tfs d f = Some (len, tfs) ->
                       Permutation.Permutation (ord n) tfs) ->
  BuildAlg.build b f seq1 ord = Spec.spec_dict b f.
Proof. exact BuildRefine.builder_refines_spec. Qed.
Print Assumptions C10_builder_algorithm_refines_spec.

(* the instance the correspondence run executes next to zapx (request 21: orders scrambled by a seed) *)
Theorem C10_builder_run_is_spec : forall b s, BuildAlg.run_build b s = Spec.spec_dicts b.
Proof. exact BuildRefine.run_build_is_spec. Qed.
Print Assumptions C10_builder_run_is_spec.
