(* C01 - Built segment answers every term query exactly as the input batch dictates.
   The full statement is
     forall b m, wf_batch b -> m in 1..1026 -> dicts (parse_v16 (emit (build m b))) = spec_dicts b
   (Spec.spec_dicts is the specification; Layout.parse_v16 the reader).  What is machine-checked
   here are the codec layers of that statement, for all inputs (names end in _partial); the
   remaining composition (builder's counting pass / backing arrays -> spec) is exercised by the
   correspondence run only.  See DESIGN.md 6 C01. *)
From Coq Require Import List NArith.
Require Import ZV.Bytes ZV.Kernel ZV.Streams ZV.Chunks ZV.Opt ZV.Spec ZV.Layout ZV.LayoutProof ZV.WriteRead.
Require ZV.Backing.
Import ListNotations.
Open Scope N_scope.

(* every uvarint the writer emits is read back, whatever follows it *)
Theorem C01_uvarint_roundtrip_partial : forall n rest, u64 n -> dec_uv (uv n ++ rest) = Some (n, rest).
Proof. exact dec_uv_app. Qed.
Print Assumptions C01_uvarint_roundtrip_partial.

(* a freq/norm entry: frequency, norm only when the frequency is positive, has-locations flag *)
Theorem C01_freqnorm_roundtrip_partial : forall e rest, wf_tf e ->
  dec_tf (enc_tf e ++ rest) = Some ((e_freq e, (if e_freq e =? 0 then 0 else e_norm e), hasLocs e), rest).
Proof. exact dec_enc_tf. Qed.
Print Assumptions C01_freqnorm_roundtrip_partial.

(* a location block, bounded by the byte count the writer computed with numUvarintBytes *)
Theorem C01_locations_roundtrip_partial : forall ls rest, Forall wf_loc ls -> u64 (Streams.nlen (flat_map enc_loc ls)) ->
  dec_locblock (enc_locblock ls ++ rest) = Some (ls, rest).
Proof. exact dec_enc_locblock. Qed.
Print Assumptions C01_locations_roundtrip_partial.

(* the chunk table: cumulative end offsets slice out exactly chunk c *)
Theorem C01_chunk_table_partial : forall chunks c rest, (c < length chunks)%nat ->
  load_chunk 0 c (cum_ends (map Chunks.nlen chunks)) (concat chunks ++ rest) = nth c chunks [].
Proof. exact load_chunk_ok. Qed.
Print Assumptions C01_chunk_table_partial.

(* the imperative chunkedIntCoder (Add closing the previous chunk on a chunk change, Close) run over
   any chunk-monotone sequence of adds yields the per-chunk concatenations and their lengths *)
Theorem C01_chunked_coder_partial : forall cs, 0 < cs -> forall total items, (0 < total)%nat -> Mono cs items ->
  (forall it, In it items -> (ichunk cs it < total)%nat) ->
  let c := run cs total items in
  c_final c = concat (map (cbytes cs items) (seq 0 total)) /\
  length (c_lens c) = total /\
  forall j, (j < total)%nat -> nth j (c_lens c) 0 = Chunks.nlen (cbytes cs items j).
Proof. intros cs Hcs. exact (coder_ok cs Hcs). Qed.
Print Assumptions C01_chunked_coder_partial.

(* writer and reader agree on the chunk of every document: the index stays inside the table *)
Theorem C01_chunk_index_in_table_partial : forall mode card maxDocs cs d,
  chunk_size_spec mode card maxDocs = (cs, false) -> d < maxDocs -> 0 < cs /\ d / cs < (maxDocs - 1) / cs + 1.
Proof. exact chunk_index_in_table. Qed.
Print Assumptions C01_chunk_index_in_table_partial.

(* the frozen reader's postings decoder inverts the documented chunked encoding: if chunk c of the
   freq/norm stream holds the entries of the hits whose document falls in chunk c (document order)
   and chunk c of the location stream holds the location blocks of those hits that have locations -
   which is what C01_chunked_coder_partial shows the writer's coder produces - then decoding the
   postings of a strictly ascending list of well-formed hits returns exactly those hits, each with
   its own frequency, norm (0 when the frequency is 0) and locations resolved to field names *)
Theorem C01_postings_stream_roundtrip : forall ft cs, 0 < cs -> forall fch lch (hits : list (shit)),
  (forall c, chunk_of fch c = F cs c hits) -> (forall c, chunk_of lch c = Lb cs c hits) ->
  Sorted.StronglySorted N.lt (map fst hits) -> Forall wf_hit hits ->
  decode_hits ft cs fch lch (map fst hits) (None, [], []) = Opt.mapopt (spec_hit ft) hits.
Proof. exact postings_stream_roundtrip. Qed.
Print Assumptions C01_postings_stream_roundtrip.

(* the framing of a chunked stream (uvarint nChunks, cumulative end offsets, data) read at its offset *)
Theorem C01_chunked_stream_framing : forall (pre : bytes) chunks rest,
  pre <> [] -> N.of_nat (length chunks) < max_count ->
  Forall u64 (LayoutProof.cum_from 0 (map nlenb chunks)) ->
  stream_chunks (pre ++ enc_stream chunks ++ rest) (N.of_nat (length pre)) = Some chunks.
Proof. exact chunked_stream_roundtrip. Qed.
Print Assumptions C01_chunked_stream_framing.

(* writer and reader composed for one postings list: the imperative chunkedIntCoder (Add closing the
   previous chunk on a chunk change; Close) fed with the freq/norm entries of all hits and the location
   blocks of the hits that have locations, framed as writePostings frames a stream, and read back by
   the frozen reader (stream_chunks + decode_hits), returns exactly the hits - for every strictly
   ascending list of well-formed hits and every chunk size whose table covers the documents
   (C01_chunk_index_in_table_partial shows the rule of getChunkSize does) *)
Theorem C01_postings_write_read : forall ft cs, 0 < cs -> forall total, (0 < total)%nat -> N.of_nat total < max_count ->
  forall hits : list shit, Sorted.StronglySorted N.lt (map fst hits) -> Forall wf_hit hits ->
  (forall h, In h hits -> fst h / cs < N.of_nat total) ->
  forall pre1 rest1 pre2 rest2, pre1 <> [] -> pre2 <> [] ->
  Forall u64 (LayoutProof.cum_from 0 (map nlenb (chunks_of_coder cs total (fitems hits)))) ->
  Forall u64 (LayoutProof.cum_from 0 (map nlenb (chunks_of_coder cs total (litems hits)))) ->
  (Opt.bindo (stream_chunks (pre1 ++ stream_bytes (run cs total (fitems hits)) ++ rest1) (N.of_nat (length pre1))) (fun fch =>
   Opt.bindo (stream_chunks (pre2 ++ stream_bytes (run cs total (litems hits)) ++ rest2) (N.of_nat (length pre2))) (fun lch =>
   decode_hits ft cs fch lch (map fst hits) (None, [], [])))) = Opt.mapopt (spec_hit ft) hits.
Proof. exact postings_write_read. Qed.
Print Assumptions C01_postings_write_read.

(* the builder's shared backing arrays: realloc's counting pass carves one array into per-list slices
   and process appends into them; whenever the counts are upper bounds of the appends per list, after
   ANY sequence of appends every postings list reads back exactly the values appended to it, in
   order (no list overwrites its neighbour).  Backing.overflow_overwrites shows the model exhibits the
   overwrite when a count is too small. *)
Theorem C01_backing_arrays_no_overlap : forall (A : Type) (dflt : A) (counts : list nat) ops,
  Forall (fun op => (fst op < length counts)%nat) ops -> Backing.bounded A counts ops ->
  forall p, (p < length counts)%nat ->
  Backing.slice A counts (Backing.run A counts (Backing.init A dflt counts) ops) p = Backing.appended A ops p.
Proof. exact Backing.backing_no_overlap. Qed.
Print Assumptions C01_backing_arrays_no_overlap.

(* one field's whole dictionary, writer and reader composed: the frozen reader (Layout.dict_at)
   maps every term of the FST to its postings - a single-hit value decodes to its one posting, a
   general value to the hits whose freq/norm and location streams the chunked coders wrote and whose
   documents are in the bitmap - for any number of terms and postings, every chunk mode and
   document count for which getChunkSize's rule gives a chunk size.  vellum and roaring are Section
   hypotheses (decode . encode = id). *)
Require ZV.DictProof.
Theorem C01_dictionary_write_read :
  forall (fst_enc : list (Spec.str * N) -> Bytes.bytes) (dec_fst : Bytes.bytes -> option (list (Spec.str * N))),
  (forall kvs, dec_fst (fst_enc kvs) = Some kvs) ->
  forall (roar_enc : list N -> Bytes.bytes) (dec_roar : Bytes.bytes -> option (list N)),
  (forall l, dec_roar (roar_enc l) = Some l) ->
  forall ft mode ndocs file dictLoc (kvs : list (Spec.str * N)) (want : list (list Spec.hit)) rest,
  dictLoc <> 0%N -> Bytes.u64 (LayoutProof.nlenb (fst_enc kvs)) ->
  Layout.at_off file dictLoc = Some (Bytes.uv (LayoutProof.nlenb (fst_enc kvs)) ++ fst_enc kvs ++ rest) ->
  List.Forall2 (fun kv hs => DictProof.entry_ok roar_enc ft mode ndocs file (snd kv) (Some hs)) kvs want ->
  Layout.dict_at dec_fst dec_roar file ft mode ndocs dictLoc = Some (List.combine (List.map fst kvs) want).
Proof. exact DictProof.dict_at_roundtrip. Qed.
Print Assumptions C01_dictionary_write_read.

Require ZV.BuildRefine.
From Coq Require Permutation.

(* the builder's two passes (ids handed out in first-seen order, hits appended per document, keys
   sorted at the end) produce the specification's dictionary for EVERY order in which Go's map
   iteration delivers the terms - in the first pass (any order, any repetition) and, document by
   document, in the second (any permutation) *)
Theorem C01_builder_algorithm_refines_spec : forall b f seq1 ord,
  (forall t, List.In t seq1 <-> List.In t (BuildAlg.all_terms b f)) ->
  (forall n d len tfs, List.In (n, d) (Spec.indexed b) -> Spec.doc_tfs d f = Some (len, tfs) ->
                       Permutation.Permutation (ord n) tfs) ->
  BuildAlg.build b f seq1 ord = Spec.spec_dict b f.
Proof. exact BuildRefine.builder_refines_spec. Qed.
Print Assumptions C01_builder_algorithm_refines_spec.

(* the instance the correspondence run executes next to zapx (request 21: orders scrambled by a seed) *)
Theorem C01_builder_run_is_spec : forall b s, BuildAlg.run_build b s = Spec.spec_dicts b.
Proof. exact BuildRefine.run_build_is_spec. Qed.
Print Assumptions C01_builder_run_is_spec.
