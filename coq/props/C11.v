(* C11 - A segment can be read by many goroutines at once with sequential answers.
   Model (Pool.v): the scratch-object pool shared by all readers (sync.Pool: Get returns a pooled
   object or a fresh one, Put adds; each operation atomic); a schedule is ANY interleaving of the
   threads' Get/Put operations.  Theorem: along every schedule all of whose Puts return an object the
   caller holds (every reader call of the current code: VisitStoredFields with or without early stop,
   DocID, the stored-field pass of a merge), each scratch object is at every point either pooled at
   most once or held by at most one caller - so no two concurrent calls ever share scratch memory.
   History: the pinned early-stopped visit put its object back twice; C11_pinned_code_refuted is the
   schedule that then hands one object to two callers (repaired in /repo, see known_findings.json).
   That each call's answer equals its sequential answer and the absence of data races are decided
   dynamically (race detector) - see DESIGN.md 10. *)
From Coq Require Import List.
Require Import ZV.Pool.
Import ListNotations.

Theorem C11_exclusive_scratch_objects : forall tr s s', exclusive s -> fresh_ok s ->
  (forall pre a post s1, tr = pre ++ a :: post -> run s pre = Some s1 -> disciplined s1 a) ->
  run s tr = Some s' -> exclusive s'.
Proof. exact C11_exclusive. Qed.
Print Assumptions C11_exclusive_scratch_objects.

Theorem C11_pinned_code_refuted : exists tr s, run init tr = Some s /\ ~ exclusive s.
Proof. exact C11_exclusive_refuted. Qed.
Print Assumptions C11_pinned_code_refuted.
