(* C17 - A failed write yields an error and no file; success means a complete file.
   Model (IO.v): bufio.Writer (buffer, large-write bypass, STICKY error) over a sink that accepts a
   bounded number of bytes, driven by ANY sequence of writes whose results may be ignored (write.go
   ignores several), closed by the final checked Flush (build.go / merge.go check it).
   Theorems, for every buffer capacity, every write sequence and every limit:
   if the final Flush reports success the sink holds exactly all the bytes in order; and if the sink
   cannot take all the bytes the final Flush reports an error.  With the footer theorems of C04 a
   successful output is therefore body ++ footer with the right CRC.
   That every error return after the file was created removes the file (cleanup closures) and that
   fsync / close errors are propagated is decided by the correspondence run (fault enumeration). *)
From Coq Require Import List.
Require Import ZV.IO.
Require ZV.IO2.
Import ListNotations.

Theorem C17_ok_is_complete : forall (byte : Type) c (s : sink byte) ps b',
  flush byte (run byte (fresh byte c s) ps) = (b', false) -> written byte (dst byte b') = written byte s ++ concat ps.
Proof. exact IO.C17_ok_is_complete. Qed.
Print Assumptions C17_ok_is_complete.

Theorem C17_fail_is_error : forall (byte : Type) c (s : sink byte) ps l b' e,
  limit byte s = Some l -> written byte s = [] -> l < length (concat ps) ->
  flush byte (run byte (fresh byte c s) ps) = (b', e) -> e = true.
Proof. exact IO.C17_fail_is_error. Qed.
Print Assumptions C17_fail_is_error.

(* the same for an ARBITRARY failure oracle (transient failures, destinations rejecting large writes,
   short writes): success of the final checked Flush means no destination write failed and the
   destination holds exactly all bytes; any failed destination write makes the final Flush fail *)
Theorem C17_any_failure_surfaces : forall (byte : Type) (accept : nat -> list byte -> nat) c (s : IO2.sink byte) ps,
  IO2.failed byte s = false ->
  let '(b', e) := IO2.flush byte accept (IO2.run byte accept (IO2.fresh byte c s) ps) in
  (e = false -> IO2.failed byte (IO2.dst byte b') = false /\ IO2.written byte (IO2.dst byte b') = IO2.written byte s ++ concat ps) /\
  (IO2.failed byte (IO2.dst byte b') = true -> e = true).
Proof. exact IO2.C17_any_failure_surfaces. Qed.
Print Assumptions C17_any_failure_surfaces.
