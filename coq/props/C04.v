(* C04 - Persisted and re-opened segment is indistinguishable from the in-memory one.
   Proved for all byte images and footers (Footer.v): the 52-byte footer written after the body
   decodes to the same fields, `mem` is exactly the body, and the stored CRC-32 is the CRC-32 of all
   preceding bytes (running CRC of CountHashWriter = CRC of the concatenation).  The order and widths
   of the footer fields on the Go side are re-extracted from persistFooter / loadConfig on every run
   and proved equal to the frozen v16 order (tie_footer_order).  Equality of the complete query
   surface of the opened and the in-memory segment is decided by the correspondence run. *)
From Coq Require Import List NArith.
Require Import ZV.Bytes ZV.Footer.
Import ListNotations.
Open Scope N_scope.

Theorem C04_footer_roundtrip : forall mem f, wf_footer f -> Forall (fun b => b < 256) mem ->
  Footer.parse (persist mem f) = Some (mem, f, crc32 (mem ++ footer_body f)).
Proof. exact footer_roundtrip_bytes. Qed.
Print Assumptions C04_footer_roundtrip.

Theorem C04_running_crc_is_crc_of_concatenation : forall c a b,
  crc_update (crc_update c a) b = crc_update c (a ++ b).
Proof. exact crc_update_app. Qed.
Print Assumptions C04_running_crc_is_crc_of_concatenation.

Require ZV.FieldsProof.

(* the fields section (persistFieldsSection): per field a record  uvarint(len name) name uvarint(#sections)
   { be16 type, be64 address }*, then the index  uvarint(#fields) { be64 record offset }*;  the frozen
   reader's field_table, pointed at the index, returns exactly the names and (type, address) pairs written *)
Theorem C04_fields_section_roundtrip : forall (pre rest : Bytes.bytes) fs,
  pre <> nil -> List.Forall FieldsProof.wf_field fs -> (N.of_nat (length fs) < Layout.max_count)%N ->
  (LayoutProof.nlenb pre + LayoutProof.nlenb (List.flat_map FieldsProof.enc_record fs) < 256 ^ 8)%N ->
  Layout.field_table (pre ++ FieldsProof.enc_fields (LayoutProof.nlenb pre) fs ++ rest)
                     (LayoutProof.nlenb pre + LayoutProof.nlenb (List.flat_map FieldsProof.enc_record fs))%N
  = Some (List.map Some fs).
Proof. exact FieldsProof.fields_section_roundtrip. Qed.
Print Assumptions C04_fields_section_roundtrip.
