(* C03 - Doc values return exactly each document's terms for doc-value fields.
   Theorem: for ANY sequence of (segment, document) visits that reuses one visit state, each visit
   returns the document's terms as decoded from that segment's chunk (the cache of the current
   chunk's header / uncompressed data is coherent after every step, including segment switches).
   The chunk byte codec and the list of doc-value fields are decided by the correspondence run. *)
From Coq Require Import List NArith.
Require Import ZV.DvVisit.
Import ListNotations.

Theorem C03_any_order :
  forall (bytes term : Type) (snappy_dec : bytes -> bytes) (slice_terms : bytes -> N -> N -> list term)
         (is_empty : bytes -> bool) (chunk_raw : seg -> N -> option (header * bytes)) (cs : N)
         (ops : list (seg * N)) (v : vstate bytes),
  Inv bytes snappy_dec chunk_raw v ->
  run bytes term snappy_dec slice_terms is_empty chunk_raw cs v ops =
  map (fun sd => spec bytes term snappy_dec slice_terms chunk_raw cs (fst sd) (snd sd)) ops.
Proof. exact C03_any_order. Qed.
Print Assumptions C03_any_order.

(* the fresh state satisfies the invariant, so the theorem applies to every history *)
Theorem C03_init_nonvacuous :
  forall (bytes : Type) (snappy_dec : bytes -> bytes) (chunk_raw : seg -> N -> option (header * bytes)),
  Inv bytes snappy_dec chunk_raw (vinit bytes).
Proof. exact Inv_init. Qed.
Print Assumptions C03_init_nonvacuous.
