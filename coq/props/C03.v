(* C03 - Doc values return exactly each document's terms for doc-value fields.
   Theorem: for ANY sequence of (segment, document) visits that reuses one visit state, each visit
   returns the document's terms as decoded from that segment's chunk (the cache of the current
   chunk's header / uncompressed data is coherent after every step, including segment switches).
   The chunk byte codec and the list of doc-value fields are decided by the correspondence run. *)
From Coq Require Import List NArith.
Require Import ZV.DvVisit.
Import ListNotations.

Theorem C03_any_order :
  forall (bytes term : Type) (snappy_dec : bytes -> bytes) (slice_terms : bytes -> N -> N -> list term)
         (is_empty : bytes -> bool) (chunk_raw : seg -> N -> option (header * bytes)) (cs : N)
         (ops : list (seg * N)) (v : vstate bytes),
  Inv bytes snappy_dec chunk_raw v ->
  run bytes term snappy_dec slice_terms is_empty chunk_raw cs v ops =
  map (fun sd => spec bytes term snappy_dec slice_terms chunk_raw cs (fst sd) (snd sd)) ops.
Proof. exact C03_any_order. Qed.
Print Assumptions C03_any_order.

(* the fresh state satisfies the invariant, so the theorem applies to every history *)
Theorem C03_init_nonvacuous :
  forall (bytes : Type) (snappy_dec : bytes -> bytes) (chunk_raw : seg -> N -> option (header * bytes)),
  Inv bytes snappy_dec chunk_raw (vinit bytes).
Proof. exact Inv_init. Qed.
Print Assumptions C03_init_nonvacuous.

(* the byte codec of a field's doc-value region: the frozen reader (Layout.dv_at, the parser the
   correspondence run applies to the files zapx writes) recovers exactly the documents' term lists
   from the documented encoding, for any number of chunks and documents; snappy is a Section
   hypothesis (decode . encode = id), see DESIGN trusted base *)
Require ZV.DvProof.
Theorem C03_docvalue_region_roundtrip :
  forall (snappy_enc : Bytes.bytes -> Bytes.bytes) (dec_snappy : Bytes.bytes -> option Bytes.bytes),
  (forall x, dec_snappy (snappy_enc x) = Some x) ->
  forall (dvchunk : N) (fpre : list N) (chunks : list (list DvProof.docent)) (frest : list N),
  (forall j ds, nth_error chunks j = Some ds -> DvProof.wf_chunk dvchunk (N.of_nat j) ds) ->
  (N.of_nat (length chunks) < Layout.max_count)%N ->
  Forall Bytes.u64 (LayoutProof.cum_from 0 (map LayoutProof.nlenb (map (DvProof.chunk_bytes snappy_enc) chunks))) ->
  (LayoutProof.nlenb (flat_map Bytes.uv (LayoutProof.cum_from 0 (map LayoutProof.nlenb (map (DvProof.chunk_bytes snappy_enc) chunks)))) < 256 ^ 8)%N ->
  Layout.dv_at dec_snappy dvchunk (fpre ++ DvProof.enc_region snappy_enc chunks ++ frest) (N.of_nat (length fpre))
    (N.of_nat (length fpre) + LayoutProof.nlenb (DvProof.enc_region snappy_enc chunks))%N = Some (concat chunks).
Proof. exact DvProof.dv_region_roundtrip. Qed.
Print Assumptions C03_docvalue_region_roundtrip.

Require ZV.BuildAlg ZV.DvBuild.

(* the builder computes the doc values FROM THE POSTINGS (writeDicts walks the sorted terms and
   appends each to the buffer of every document in its postings list): that is the specification's
   doc-value content, the document's own terms in ascending order - inverted lists and doc values of
   a built segment describe the same relation (geo-shape values aside, which are added afterwards) *)
Theorem C03_doc_values_from_postings : forall b f,
  (forall d, List.In d b -> Spec.doc_shape d f = None) ->
  BuildAlg.dv_from_postings (Spec.indexed b) (Spec.spec_dict b f) = Spec.spec_dv_field b f.
Proof. exact DvBuild.dv_from_postings_is_spec. Qed.
Print Assumptions C03_doc_values_from_postings.

(* the instance the correspondence run executes next to zapx (request 22) *)
Theorem C03_dv_run_is_spec : forall b, (forall d f, List.In d b -> Spec.doc_shape d f = None) ->
  BuildAlg.dv_run b = Spec.c_dv (Spec.spec_of_batch b).
Proof. exact DvBuild.dv_run_is_spec. Qed.
Print Assumptions C03_dv_run_is_spec.
