(* C20 - Opened segment stays readable until its last reference drops, then frees once.
   Nothing but the property theorem(s), each closed by `exact`, with Print Assumptions. *)
From Coq Require Import List ZArith.
Require Import ZV.Ref.
Import ListNotations.
Open Scope Z_scope.

(* For every history of AddRef / DecRef(=Close) / Use (a reader: query, visit, merge input - failing or not) operations on a freshly opened segment (refs = 1)
   whose count stays positive until the end and ends at zero: after every proper prefix the segment
   is still mapped with nothing released, and the final operation unmaps it exactly once.
   Each operation runs under the segment's mutex, i.e. is one atomic step, so a concurrent
   execution is one of these histories. *)
Theorem C20_refcount :
  forall ops s, Ref.Inv s -> Ref.positive_until_end (Ref.refs s) ops -> Ref.count (Ref.refs s) ops = 0 ->
  (forall pre post, ops = pre ++ post -> post <> [] -> Ref.Inv (Ref.run s pre)) /\
  Ref.mapped (Ref.run s ops) = false /\ Ref.releases (Ref.run s ops) = 1%nat.
Proof. exact Ref.C20_refcount. Qed.
Print Assumptions C20_refcount.

(* the hypotheses are satisfiable by a non-trivial history *)
Theorem C20_nonvacuous :
  let ops := [Ref.AddRef; Ref.Use; Ref.DecRef; Ref.AddRef; Ref.Use; Ref.DecRef; Ref.DecRef] in
  Ref.Inv Ref.init /\ Ref.positive_until_end (Ref.refs Ref.init) ops /\ Ref.count (Ref.refs Ref.init) ops = 0.
Proof. exact Ref.c20_example. Qed.
Print Assumptions C20_nonvacuous.

(* the atomicity the theorem assumes is necessary: with the decrement and the zero test as two
   separate steps there is a schedule releasing the segment twice (tie/RefTie.v checks the source
   keeps them in one critical section) *)
Theorem C20_split_decref_refuted :
  exists sched, Ref.releases (fold_left Ref.step2 sched (Ref.step Ref.init Ref.AddRef)) = 2%nat.
Proof. exact Ref.C20_split_decref_refuted. Qed.
Print Assumptions C20_split_decref_refuted.
