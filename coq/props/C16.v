(* C16 - Vector search ignores cache history; indexes live exactly as long as used.
   Model (VecCache.v): the per-segment cache entry (shared id -> document map, reference count), the
   per-call handle (map + exclusion list), open / search / close-handle / expiry pass (eviction iff
   an arbitrary idle oracle says so AND refs <= 0) / segment close.
   Theorems: (lifetime) for every history in which handles are closed only when open: the reference
   count equals the number of open handles, an index exists while a handle is open, every created
   index is released at most once, and after the handles and the segment are closed none remains;
   (history independence, repaired code) after ANY history, a search through a newly opened handle
   returns what a search on a fresh segment returns; (pinned code refuted) with the pinned
   createAndCacheLOCKED a first open with a non-empty exclusion bitmap poisons later searches -
   repaired in /repo (known_findings.json). *)
From Coq Require Import List ZArith.
Require Import ZV.VecCache.
Import ListNotations.

Theorem C16_lifetime : forall (tbl : list (vid * doc)) opn, (opn = open_pinned tbl \/ opn = open_fixed tbl) ->
  forall ops s, LInv s -> balanced (handles s) ops ->
  let s' := fold_left (step opn) ops s in
  LInv s' /\ (0 < handles s' -> cache s' <> None) /\
  (handles s' = 0 -> created (seg_close s') = released (seg_close s') /\ cache (seg_close s') = None).
Proof. exact VecCache.C16_lifetime. Qed.
Print Assumptions C16_lifetime.

Theorem C16_history_independent : forall (tbl : list (vid * doc)) (engine : nat -> (vid -> bool) -> list vid) ops s except k,
  (match cache s with Some e => e_map e = tbl | None => True end) ->
  let s' := fold_left (step (open_fixed tbl)) ops s in
  search engine (snd (open_fixed tbl s' except)) k = spec tbl engine except k.
Proof. exact VecCache.C16_history_independent. Qed.
Print Assumptions C16_history_independent.

Theorem C16_pinned_code_refuted : exists ops except k,
  let s' := fold_left (step (open_pinned tbl3)) ops init in
  search engine_ids (snd (open_pinned tbl3 s' except)) k <> spec tbl3 engine_ids except k.
Proof. exact C16_history_refuted. Qed.
Print Assumptions C16_pinned_code_refuted.

(* the first open under concurrency (VecCache2.v): an open is two critical sections (look-up under
   the read lock; on a miss, re-check + load + insert under the write lock); for EVERY interleaving
   of these sections of any number of threads with closes and expiry passes the accounting
   invariant holds; tie/CacheTie.v checks that the source has this shape, re-check included *)
Require ZV.VecCache2.
Theorem C16_double_checked_open : forall (tbl : list (vid * doc)) ops s p, LInv s -> VecCache2.ok2 tbl true (s, p) ops ->
  let s' := fst (fold_left (VecCache2.step2 tbl true) ops (s, p)) in
  LInv s' /\ (0 < handles s' -> cache s' <> None) /\
  (handles s' = 0 -> created (seg_close s') = released (seg_close s') /\ cache (seg_close s') = None).
Proof. exact VecCache2.C16_double_checked_open. Qed.
Print Assumptions C16_double_checked_open.

Theorem C16_no_recheck_refuted : forall (tbl : list (vid * doc)), exists ops,
  VecCache2.ok2 tbl false (init, 0) ops /\
  let s' := fst (fold_left (VecCache2.step2 tbl false) ops (init, 0)) in
  handles s' = 0 /\ created (seg_close s') <> released (seg_close s').
Proof. exact VecCache2.C16_no_recheck_refuted. Qed.
Print Assumptions C16_no_recheck_refuted.
