(* C18 - A cancelled merge never leaves or reports a partial file.
   Model (Cancel.v): a merge is any sequence of writes and polls of the close channel; the channel is
   closed at an arbitrary moment; a poll at or after that moment returns the closed error, which
   unwinds through the cleanup that removes the file.  Theorem: for EVERY event sequence and EVERY
   moment of the close the outcome is either "closed error, no file" or "success, all bytes written";
   closed before the call with a poll before the first... any poll: cancelled.
   The placement of the polls in the real merge and the cleanup on the ErrClosed path are decided by
   the correspondence run (the close is injected at every write boundary). *)
From Coq Require Import List.
Require Import ZV.Cancel.
Import ListNotations.

Theorem C18_cancel_outcomes : forall evs p, exec p 0 evs 0 = Cancelled \/ exec p 0 evs 0 = Done (total evs).
Proof. exact Cancel.C18_cancel_outcomes. Qed.
Print Assumptions C18_cancel_outcomes.

Theorem C18_closed_before_the_call : forall evs pre,
  Forall (fun e => match e with W _ => True | Poll => False end) pre ->
  exec 0 0 (pre ++ Poll :: evs) 0 = Cancelled.
Proof. exact Cancel.C18_closed_before. Qed.
Print Assumptions C18_closed_before_the_call.
