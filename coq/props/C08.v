(* C08 - Dictionary enumeration returns exactly the accepted terms with true counts.
   Model (Dict.v): DictionaryIterator.Next decodes every selected entry into ONE reused scratch
   postings list (fields: bitmap cardinality, single-hit doc, single-hit norm bits); PostingsList.read
   as in the current code; Count().  FST.Search is the ordered filter by (automaton accepts, range).
   Theorem: for every dictionary (any mixture of general and single-hit entries, the latter with
   non-zero norm bits, W3), every automaton and every range, the iterator reports exactly the
   accepted terms in range, in dictionary order, each with the size of its postings list - whatever
   entry was decoded into the scratch list before.
   History: on the pinned code the statement was false (C08_counts_refuted below is about the old
   read function: a single-hit entry followed by a general entry reported count 1); repaired in /repo
   by the commit recorded in known_findings.json. *)
From Coq Require Import List NArith.
Require Import ZV.Spec ZV.Automata ZV.Dict.
Import ListNotations.
Open Scope N_scope.

Theorem C08_dictionary_enumeration : forall entries a lo hi, Forall (fun e => wf (snd e)) entries ->
  dict_iter read_fixed entries a lo hi = dict_spec entries a lo hi.
Proof. exact Dict.C08_dictionary_enumeration. Qed.
Print Assumptions C08_dictionary_enumeration.

(* the pinned read function (kept as the record of the finding) *)
Theorem C08_pinned_code_refuted : exists vs, Forall wf vs /\ enumerate read_pinned tmp0 vs <> map true_count vs.
Proof. exact C08_counts_refuted. Qed.
Print Assumptions C08_pinned_code_refuted.

(* non-vacuity: a dictionary with a single-hit entry before a general one satisfies the hypothesis *)
Example C08_nonvacuous :
  Forall (fun e : str * fstval => wf (snd e)) [([97], OneHit 0 1); ([98], General 5)] /\
  dict_iter read_fixed [([97], OneHit 0 1); ([98], General 5)] AAll None None = [([97], 1); ([98], 5)].
Proof. split; [repeat constructor; cbn; discriminate|reflexivity]. Qed.
