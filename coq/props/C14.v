(* C14 - Vector search returns true scores of live documents, exactly top-k when exact.
   Specification (VecSpec.v): spec_search = the k best (by the engine's score order) among the vectors
   of documents that are not excluded and, with a filter, eligible.  Proved for all inputs: every
   result of the specification is an indexed vector of an admissible document, and there are at most k.
   The (document, score) code packed into the 64-bit postings (getVectorCode) decodes to the pair
   that went in, and Go's getVectorCode is re-translated and proved equal to it on every run.
   That zapx's search / searchWithFilter (exclusion list, inclusion list, selector choice, cluster
   loop) returns the specification's answer for an engine satisfying its contract is decided by the
   correspondence run against the stand-in engine (DESIGN.md 6 C14). *)
From Coq Require Import List NArith.
Require Import ZV.Kernel ZV.VecSpec.
Import ListNotations.
Open Scope N_scope.

Theorem C14_spec_results_admissible_partial : forall cands except eligible k c,
  In c (spec_search cands except eligible k) -> In c cands /\ admissible except eligible c = true.
Proof. exact spec_search_sound. Qed.
Print Assumptions C14_spec_results_admissible_partial.

Theorem C14_spec_at_most_k_partial : forall cands except eligible k,
  (length (spec_search cands except eligible k) <= N.to_nat k)%nat.
Proof. exact spec_search_length. Qed.
Print Assumptions C14_spec_at_most_k_partial.

Theorem C14_vector_code_roundtrip_partial : forall doc score, doc < 2 ^ 32 -> score < 2 ^ 32 ->
  dec_pair32 (enc_pair32 doc score) = (doc, score) /\ enc_pair32 doc score < 2 ^ 64.
Proof. exact pair32_roundtrip. Qed.
Print Assumptions C14_vector_code_roundtrip_partial.

(* the specification's answer is exactly the k best: ordered by the score key, of size
   min(k, number of admissible vectors), and every admissible vector left out is no better than
   any vector returned (ties at the cut are the only freedom - the correspondence run tolerates
   exactly those) *)
Require ZV.VecSpecProof.
Theorem C14_spec_is_top_k : forall cands except eligible k,
  let R := spec_search cands except eligible k in
  let A := filter (admissible except eligible) cands in
  VecSpecProof.nondec R /\ length R = Nat.min (N.to_nat k) (length A) /\
  (forall c, In c A -> In c R \/ forall r, In r R -> c_key r <= c_key c).
Proof. exact VecSpecProof.spec_search_topk. Qed.
Print Assumptions C14_spec_is_top_k.
