(* C13 - Merged thesauri contain exactly the surviving definitions.
   Proved: the merge re-assigns synonym ids by TERM STRING in first-seen order; whatever ids the
   inputs used and in whatever order the surviving pairs are met, every synonym gets an id and the
   id -> term table written with the merged thesaurus inverts the assignment (so inputs that give
   different internal ids to one synonym cannot be confused).  The document component of the code
   survives the 32|32-bit packing.  Content of merged thesauri is decided by the correspondence run
   against SpecMerge.merge_thes. *)
From Coq Require Import List NArith Bool.
Require Import ZV.Kernel ZV.SynIds.
Open Scope N_scope.

Theorem C13_id_reassignment_invertible_partial :
  forall (syn : Type) (eqb : syn -> syn -> bool), (forall a b, reflect (a = b) (eqb a b)) ->
  forall (seen : list syn) (s : syn), In s seen ->
  let m := fst (assign syn eqb seen (nil, 0%nat)) in
  exists i, lookup syn eqb m s = Some i /\ back syn m i = Some s.
Proof. exact syn_ids_roundtrip. Qed.
Print Assumptions C13_id_reassignment_invertible_partial.

Theorem C13_code_roundtrip_partial : forall sid doc, sid < 2 ^ 32 -> doc < 2 ^ 32 ->
  dec_pair32 (enc_pair32 sid doc) = (sid, doc) /\ enc_pair32 sid doc < 2 ^ 64.
Proof. exact pair32_roundtrip. Qed.
Print Assumptions C13_code_roundtrip_partial.

(* the enumerator that drives the term loop of every dictionary / thesaurus merge (Enum.v mirrors
   enumerator.go: updateMatches with its lowK / lowIdxs accumulators, Next with skipEmptyKey, the
   (nil, 0) test for exhausted iterators); tied to the code by the correspondence run through the
   verif hook VerifEnumerate (real vellum FSTs).  For any number of iterators with strictly
   ascending keys and no ("", 0) entry, the tuples produced are exactly the entries of the inputs
   (membership both ways), in strictly ascending (key, iterator index) order - hence each once. *)
Require ZV.Enum ZV.EnumProof.
Theorem C13_enumerator_ordered_union : forall its : list (list Enum.kv),
  List.Forall EnumProof.asc its -> EnumProof.nozero its ->
  EnumProof.sorted_t (Enum.enumerate its) /\
  (forall k i v, List.In (k, i, v) (Enum.enumerate its) <-> exists l, List.nth_error its i = Some l /\ List.In (k, v) l).
Proof. exact EnumProof.enumerate_spec. Qed.
Print Assumptions C13_enumerator_ordered_union.

Theorem C13_enumerator_each_once : forall l, EnumProof.sorted_t l -> List.NoDup l.
Proof. exact EnumProof.sorted_t_nodup. Qed.
Print Assumptions C13_enumerator_each_once.

(* refinement: with the surviving, renumbered (synonym, document) pairs behind every input entry,
   the term loop over the enumerator collects for every left-hand term exactly the set of pairs the
   executable specification SpecMerge.merge_thes holds (both sides as the sorted duplicate-free list
   fold_right pins []; the algorithm keeps them in a bitmap).  SpecMerge.merge_thes is what the
   correspondence run compares with the thesauri of the files zapx writes. *)
Require ZV.MergeLoop ZV.MergeRefine ZV.ThesMergeRefine ZV.SpecMerge ZV.Spec.
Theorem C13_merge_algorithm_refines_spec :
  forall (pl : nat -> N -> list ThesMergeRefine.pair) its cms th k,
  List.Forall EnumProof.asc its -> EnumProof.nozero its ->
  MergeRefine.rel_from ThesMergeRefine.pair pl 0 its (ThesMergeRefine.tgs_of cms th) ->
  List.Forall (fun tg : list (Spec.str * list ThesMergeRefine.pair) * (list ThesMergeRefine.pair -> list ThesMergeRefine.pair) => MergeRefine.skeys (fst tg)) (ThesMergeRefine.tgs_of cms th) ->
  ThesMergeRefine.norm (MergeLoop.assoc ThesMergeRefine.pair k (MergeLoop.merge_dict ThesMergeRefine.pair pl its)) =
  MergeRefine.oget ThesMergeRefine.pair (Spec.mget k (SpecMerge.merge_thes cms th)).
Proof. exact ThesMergeRefine.C13_merge_algorithm_refines_spec. Qed.
Print Assumptions C13_merge_algorithm_refines_spec.

Require ZV.ThesOrder.

(* the canonical (synonym, document) list of a term - what the specification holds and what the frozen
   reader's syn_pairs computes from the 64-bit codes - depends only on the SET of pairs: not on the
   order in which a builder or a merge hands out internal synonym ids, not on the order of the codes
   in the bitmap, not on repetitions *)
Theorem C13_pairs_depend_only_on_their_set : forall l1 l2,
  (forall t, List.In t l1 <-> List.In t l2) -> ThesOrder.canon l1 = ThesOrder.canon l2.
Proof. exact ThesOrder.canon_order_free. Qed.
Print Assumptions C13_pairs_depend_only_on_their_set.

Theorem C13_insertion_order_free : forall l,
  List.fold_left (fun a x => Spec.pins x a) l nil = ThesOrder.canon l.
Proof. exact ThesOrder.insertion_order_free. Qed.
Print Assumptions C13_insertion_order_free.
