(* C13 - Merged thesauri contain exactly the surviving definitions.
   Proved: the merge re-assigns synonym ids by TERM STRING in first-seen order; whatever ids the
   inputs used and in whatever order the surviving pairs are met, every synonym gets an id and the
   id -> term table written with the merged thesaurus inverts the assignment (so inputs that give
   different internal ids to one synonym cannot be confused).  The document component of the code
   survives the 32|32-bit packing.  Content of merged thesauri is decided by the correspondence run
   against SpecMerge.merge_thes. *)
From Coq Require Import List NArith Bool.
Require Import ZV.Kernel ZV.SynIds.
Open Scope N_scope.

Theorem C13_id_reassignment_invertible_partial :
  forall (syn : Type) (eqb : syn -> syn -> bool), (forall a b, reflect (a = b) (eqb a b)) ->
  forall (seen : list syn) (s : syn), In s seen ->
  let m := fst (assign syn eqb seen (nil, 0%nat)) in
  exists i, lookup syn eqb m s = Some i /\ back syn m i = Some s.
Proof. exact syn_ids_roundtrip. Qed.
Print Assumptions C13_id_reassignment_invertible_partial.

Theorem C13_code_roundtrip_partial : forall sid doc, sid < 2 ^ 32 -> doc < 2 ^ 32 ->
  dec_pair32 (enc_pair32 sid doc) = (sid, doc) /\ enc_pair32 sid doc < 2 ^ 64.
Proof. exact pair32_roundtrip. Qed.
Print Assumptions C13_code_roundtrip_partial.
