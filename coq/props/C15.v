(* C15 - Merged vector indexes hold exactly the survivors' vectors, renumbered.
   Specification (VecSpec.merge_vfields): per field, the vectors of surviving documents under the
   new numbering (SpecMerge.renum); a field without a surviving vector has no index.  Proved: the
   numbering it uses is the one of C05 (survivors consecutive in segment order then document order,
   dropped documents exactly those flagged).  That the merged segment's index holds exactly these
   vectors is decided by the correspondence run (searches on the re-opened merge output against the
   specification, chains of merges, engine accounting). *)
From Coq Require Import List Arith.
Require Import ZV.Renum.
Import ListNotations.

Theorem C15_renumbering_partial : forall segs next,
  let '(ms, nx) := renum segs next in
  length ms = length segs /\ nx = next + survivors (concat segs) /\
  somes (concat ms) = seq next (survivors (concat segs)) /\
  (forall s d, nth d (nth s ms []) None = None <-> nth d (nth s segs []) true = true).
Proof. exact C05_renumber. Qed.
Print Assumptions C15_renumbering_partial.
