(* C15 - Merged vector indexes hold exactly the survivors' vectors, renumbered.
   Specification (VecSpec.merge_vfields): per field, the vectors of surviving documents under the
   new numbering (SpecMerge.renum); a field without a surviving vector has no index.  Proved: the
   numbering it uses is the one of C05 (survivors consecutive in segment order then document order,
   dropped documents exactly those flagged).  That the merged segment's index holds exactly these
   vectors is decided by the correspondence run (searches on the re-opened merge output against the
   specification, chains of merges, engine accounting). *)
From Coq Require Import List Arith NArith.
Require Import ZV.Renum.
Import ListNotations.

Theorem C15_renumbering_partial : forall segs next,
  let '(ms, nx) := renum segs next in
  length ms = length segs /\ nx = next + survivors (concat segs) /\
  somes (concat ms) = seq next (survivors (concat segs)) /\
  (forall s d, nth d (nth s ms []) None = None <-> nth d (nth s segs []) true = true).
Proof. exact C05_renumber. Qed.
Print Assumptions C15_renumbering_partial.

(* the specification the merged segments are searched against: for every vector field, the merged
   field holds exactly the vectors of surviving documents under the new numbering - nothing else,
   nothing missing - and does not exist when no vector survives (C05 fixes the numbering) *)
Require ZV.VecSpec ZV.VecSpecProof ZV.SpecMerge ZV.Spec.
Theorem C15_merged_field_is_the_survivors : forall (cms : list (list VecSpec.vfield * list N)) (f : Spec.str),
  match VecSpec.merge_vfield cms f with
  | Some v => VecSpec.vf_name v = f /\ VecSpec.vf_vecs v <> nil /\
              (forall nd bits, In (nd, bits) (VecSpec.vf_vecs v) <-> VecSpecProof.input_vec cms f nd bits)
  | None => forall nd bits, ~ VecSpecProof.input_vec cms f nd bits
  end.
Proof. exact VecSpecProof.merge_vfield_spec. Qed.
Print Assumptions C15_merged_field_is_the_survivors.
