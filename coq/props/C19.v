(* C19 - Vector-engine failures surface as errors, never as silently missing vectors.
   Model (VecFault.v): the engine-call programs of the vector section - build (per field:
   IndexFactory, [SetDirectMap, Train], AddWithIDs, WriteIndexIntoBuffer, deferred Close) and merge
   (per field: ReadIndexFromBuffer per input, ReconstructBatch per input, free the inputs' indexes,
   then the same tail; every early return frees the table) - with EVERY call allowed to fail by an
   arbitrary oracle, and each native index tracked individually.
   Theorems, for every failure oracle and every shape (numbers of fields / inputs, exact or
   clustered): the operation reports an error exactly when one of the calls it made failed, and every
   native index it opened has been closed exactly once.
   History: on the pinned code the build path dropped the error (C19_pinned_build_refuted); repaired
   in /repo (known_findings.json).  That a failed merge leaves no file is C17's cleanup clause. *)
From Coq Require Import List.
Require Import ZV.VecFault.
Import ListNotations.

Theorem C19_merge_faults_surface : forall fails fields,
  let '(err, s) := merge fails fields in (err = true <-> failed fails s) /\ balanced s.
Proof. exact VecFault.C19_merge_faults_surface. Qed.
Print Assumptions C19_merge_faults_surface.

Theorem C19_build_faults_surface : forall fails fields,
  let '(err, s) := build fails false fields in (err = true <-> failed fails s) /\ balanced s.
Proof. exact VecFault.C19_build_faults_surface. Qed.
Print Assumptions C19_build_faults_surface.

Theorem C19_pinned_build_refuted :
  exists fails fields, let '(err, s) := build fails true fields in err = false /\ failed fails s.
Proof. exact C19_build_error_swallowed_refuted. Qed.
Print Assumptions C19_pinned_build_refuted.
