(* C07 - Postings iteration honours Next/Advance/exclusion/reuse for every call sequence.
   Model: Iter.v mirrors nextAtOrAfter / nextDocNumAtOrAfter (exclusion path) /
   nextDocNumAtOrAfterClean / currChunkNext / loadChunk over a postings list split in chunks, with
   TWO separate streams (freq/norm entries, location blocks) so that a forgotten skip is a wrong
   answer; Iter1.v mirrors the single-hit branch.  Theorems, for every strictly ascending postings
   list, every chunk size > 0, every flag combination, every exclusion set and EVERY sequence of
   Next/Advance targets: the implementation machine returns exactly what the specification
   (drop hits below the target, return the next live hit with its own details) returns.
   ReplaceActual with a subset (before the first call) is C07_replace_actual.
   Not a theorem (decided by the correspondence run only): independence from leftovers in reused
   PostingsList / iterator objects (the model's initial states are built from scratch). *)
From Coq Require Import List NArith Sorted.
Require Import ZV.Iter ZV.IterProof ZV.Iter1 ZV.IterReplace.
Import ListNotations.
Open Scope N_scope.

Theorem C07_no_exclusion : forall (loc : Type) (P : list (hit loc)) (cs : N) (inclFN inclLocs : bool),
  0 < cs -> StronglySorted N.lt (map fst P) ->
  forall ops, run_impl loc P cs inclFN inclLocs (init_clean loc P) ops = run_spec loc inclFN inclLocs P ops.
Proof. exact C07_clean. Qed.
Print Assumptions C07_no_exclusion.

Theorem C07_with_exclusion : forall (loc : Type) (P : list (hit loc)) (cs : N) (inclFN inclLocs : bool),
  0 < cs -> StronglySorted N.lt (map fst P) ->
  forall (E : N -> bool) ops,
  run_impl loc P cs inclFN inclLocs (init_filtered loc P E) ops = run_spec loc inclFN inclLocs (live loc P E) ops.
Proof. exact C07_filtered. Qed.
Print Assumptions C07_with_exclusion.

Theorem C07_single_hit_encoding : forall (loc : Type) (doc norm : N) (inclFN inclLocs : bool) (E : N -> bool) ops,
  run1 loc norm inclFN (init1 doc E) ops = run_spec loc inclFN inclLocs (live loc (P1 loc doc norm) E) ops.
Proof. exact C07_single_hit. Qed.
Print Assumptions C07_single_hit_encoding.

Theorem C07_replace_actual : forall (loc : Type) (P : list (hit loc)) (cs : N) (inclFN inclLocs : bool),
  0 < cs -> StronglySorted N.lt (map fst P) ->
  forall A, is_subset_bitmap loc P A ->
  forall ops, run_impl loc P cs inclFN inclLocs (init_replaced loc P A) ops = run_spec loc inclFN inclLocs (restrict loc P A) ops.
Proof. exact IterReplace.C07_replace_actual. Qed.
Print Assumptions C07_replace_actual.
