(* C05 - Merge renumbers survivors consecutively and carries their stored data over.
   Proved for all segment lists and deletion flags (model of the numbering loop of
   mergeStoredAndRemap / computeNewDocCount, Renum.v): one map per input, survivors numbered
   consecutively in segment order then document order, dropped documents exactly those flagged,
   count = number of survivors.  Stored data, Fields, DocID/DocNumbers and the reported size are
   decided by the correspondence run against SpecMerge.spec_merge (DESIGN.md 6 C05). *)
From Coq Require Import List Arith NArith.
Require Import ZV.Renum ZV.Spec ZV.SpecMerge ZV.SpecMergeProof.
Import ListNotations.

Theorem C05_renumber_partial : forall segs next,
  let '(ms, nx) := Renum.renum segs next in
  length ms = length segs /\
  nx = (next + Renum.survivors (concat segs))%nat /\
  Renum.somes (concat ms) = seq next (Renum.survivors (concat segs)) /\
  (forall s d, nth d (nth s ms []) None = None <-> nth d (nth s segs []) true = true).
Proof. exact C05_renumber. Qed.
Print Assumptions C05_renumber_partial.

(* the same facts for the EXECUTABLE specification the correspondence run compares the implementation
   with (SpecMerge.renum over N, deletion lists): one map per input, survivors consecutive from `next`
   in segment order then document order, the count, and dropped = exactly the deleted documents *)
Theorem C05_spec_renumbering : forall segs next, (next + total_docs segs < dropped)%N ->
  let '(ms, nx) := SpecMerge.renum segs next in
  length ms = length segs /\
  live_nums (concat ms) = nseqN next (total_surv segs) /\
  nx = (next + N.of_nat (total_surv segs))%N /\
  (forall s j n dr, nth_error segs s = Some (n, dr) -> (j < N.to_nat n)%nat ->
     (nth j (nth s ms []) dropped = dropped <-> memN (N.of_nat j) dr = true)).
Proof. exact SpecMergeProof.C05_spec_renumbering. Qed.
Print Assumptions C05_spec_renumbering.
