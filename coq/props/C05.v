(* C05 - Merge renumbers survivors consecutively and carries their stored data over.
   Proved for all segment lists and deletion flags (model of the numbering loop of
   mergeStoredAndRemap / computeNewDocCount, Renum.v): one map per input, survivors numbered
   consecutively in segment order then document order, dropped documents exactly those flagged,
   count = number of survivors.  Stored data, Fields, DocID/DocNumbers and the reported size are
   decided by the correspondence run against SpecMerge.spec_merge (DESIGN.md 6 C05). *)
From Coq Require Import List Arith.
Require Import ZV.Renum.
Import ListNotations.

Theorem C05_renumber_partial : forall segs next,
  let '(ms, nx) := renum segs next in
  length ms = length segs /\
  nx = next + survivors (concat segs) /\
  somes (concat ms) = seq next (survivors (concat segs)) /\
  (forall s d, nth d (nth s ms []) None = None <-> nth d (nth s segs []) true = true).
Proof. exact C05_renumber. Qed.
Print Assumptions C05_renumber_partial.
