(* C05 - Merge renumbers survivors consecutively and carries their stored data over.
   Proved for all segment lists and deletion flags (model of the numbering loop of
   mergeStoredAndRemap / computeNewDocCount, Renum.v): one map per input, survivors numbered
   consecutively in segment order then document order, dropped documents exactly those flagged,
   count = number of survivors.  Stored data, Fields, DocID/DocNumbers and the reported size are
   decided by the correspondence run against SpecMerge.spec_merge (DESIGN.md 6 C05). *)
From Coq Require Import List Arith NArith.
Require Import ZV.Renum ZV.Spec ZV.SpecMerge ZV.SpecMergeProof.
Import ListNotations.

Theorem C05_renumber_partial : forall segs next,
  let '(ms, nx) := Renum.renum segs next in
  length ms = length segs /\
  nx = (next + Renum.survivors (concat segs))%nat /\
  Renum.somes (concat ms) = seq next (Renum.survivors (concat segs)) /\
  (forall s d, nth d (nth s ms []) None = None <-> nth d (nth s segs []) true = true).
Proof. exact C05_renumber. Qed.
Print Assumptions C05_renumber_partial.

(* the same facts for the EXECUTABLE specification the correspondence run compares the implementation
   with (SpecMerge.renum over N, deletion lists): one map per input, survivors consecutive from `next`
   in segment order then document order, the count, and dropped = exactly the deleted documents *)
Theorem C05_spec_renumbering : forall segs next, (next + total_docs segs < dropped)%N ->
  let '(ms, nx) := SpecMerge.renum segs next in
  length ms = length segs /\
  live_nums (concat ms) = nseqN next (total_surv segs) /\
  nx = (next + N.of_nat (total_surv segs))%N /\
  (forall s j n dr, nth_error segs s = Some (n, dr) -> (j < N.to_nat n)%nat ->
     (nth j (nth s ms []) dropped = dropped <-> memN (N.of_nat j) dr = true)).
Proof. exact SpecMergeProof.C05_spec_renumbering. Qed.
Print Assumptions C05_spec_renumbering.

(* the byte-copy path of the merge (copyStoredDocs: identical field tables, nothing deleted) moves
   each document's stored block verbatim and writes a new index entry: a block decodes to the same
   stored values wherever it lies *)
Require ZV.StoredProof ZV.Layout ZV.LayoutProof ZV.Bytes ZV.Footer.
Theorem C05_stored_block_copy :
  forall (snappy_enc : Bytes.bytes -> Bytes.bytes) (dec_snappy : Bytes.bytes -> option Bytes.bytes),
  (forall x, dec_snappy (snappy_enc x) = Some x) ->
  forall ft f1 i1 d1 so1 r1 t1 f2 i2 d2 so2 r2 t2 idv (es : list StoredProof.ent),
  List.Forall (StoredProof.wf_ent ft) es -> Bytes.u64 (LayoutProof.nlenb (List.concat (List.map StoredProof.e_val es))) ->
  Bytes.u64 (LayoutProof.nlenb idv) ->
  Bytes.u64 (LayoutProof.nlenb (Bytes.uv (LayoutProof.nlenb idv) ++ StoredProof.enc_ents 0 es)) ->
  Bytes.u64 (LayoutProof.nlenb (idv ++ snappy_enc (List.concat (List.map StoredProof.e_val es)))) ->
  (so1 < 256 ^ 8)%N -> (so2 < 256 ^ 8)%N ->
  Layout.at_off f1 (i1 + 8 * d1)%N = Some (Footer.be 8 so1 ++ r1) -> Layout.at_off f1 so1 = Some (StoredProof.enc_doc snappy_enc idv es ++ t1) ->
  Layout.at_off f2 (i2 + 8 * d2)%N = Some (Footer.be 8 so2 ++ r2) -> Layout.at_off f2 so2 = Some (StoredProof.enc_doc snappy_enc idv es ++ t2) ->
  Layout.stored_doc dec_snappy f1 ft i1 d1 = Layout.stored_doc dec_snappy f2 ft i2 d2.
Proof. exact StoredProof.stored_block_copy. Qed.
Print Assumptions C05_stored_block_copy.
