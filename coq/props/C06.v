(* C06 - Merged index and doc values equal those of the surviving documents.
   Proved for all values: the single-hit dictionary encoding written by merges (31 norm bits,
   31 document bits, tag bits 10) decodes to what was encoded; its Go source is re-translated and
   re-proved equal on every run (KernelTie: tie_enc1hit, tie_dec1hit, tie_under32).  The codec
   lemmas of C01 cover the re-encoded entries.  The merge algorithm itself (term enumeration,
   byte-copy path, doc-value merge) is decided by the correspondence run against
   SpecMerge.spec_merge (DESIGN.md 6 C06). *)
From Coq Require Import NArith.
Require Import ZV.Kernel.
Open Scope N_scope.

Theorem C06_single_hit_roundtrip_partial : forall d n, d < 2 ^ 31 -> n < 2 ^ 31 ->
  dec1hit (enc1hit d n) = (d, n) /\ is1hit (enc1hit d n) = true.
Proof. exact onehit_roundtrip. Qed.
Print Assumptions C06_single_hit_roundtrip_partial.

(* the enumerator that drives the term loop of every dictionary / thesaurus merge (Enum.v mirrors
   enumerator.go: updateMatches with its lowK / lowIdxs accumulators, Next with skipEmptyKey, the
   (nil, 0) test for exhausted iterators); tied to the code by the correspondence run through the
   verif hook VerifEnumerate (real vellum FSTs).  For any number of iterators with strictly
   ascending keys and no ("", 0) entry, the tuples produced are exactly the entries of the inputs
   (membership both ways), in strictly ascending (key, iterator index) order - hence each once. *)
Require ZV.Enum ZV.EnumProof.
Theorem C06_enumerator_ordered_union : forall its : list (list Enum.kv),
  List.Forall EnumProof.asc its -> EnumProof.nozero its ->
  EnumProof.sorted_t (Enum.enumerate its) /\
  (forall k i v, List.In (k, i, v) (Enum.enumerate its) <-> exists l, List.nth_error its i = Some l /\ List.In (k, v) l).
Proof. exact EnumProof.enumerate_spec. Qed.
Print Assumptions C06_enumerator_ordered_union.

Theorem C06_enumerator_each_once : forall l, EnumProof.sorted_t l -> List.NoDup l.
Proof. exact EnumProof.sorted_t_nodup. Qed.
Print Assumptions C06_enumerator_each_once.

(* the term loop consuming the enumerator (MergeLoop.v mirrors the loop in
   mergeAndPersistInvertedSection: postings of consecutive tuples with one key are appended,
   finishTerm on every key change and at the end, nothing inserted when nothing survived), and the
   refinement: for every key, the dictionary this algorithm builds holds exactly what the executable
   specification SpecMerge.merge_dict holds - the specification the correspondence run compares
   with the files zapx writes.  `rel_from` relates iterator i to the i-th input dictionary that has
   the field: same keys in the same order, and the surviving postings behind a value are the
   specification's remapping of that entry's hits. *)
Require ZV.MergeLoop ZV.MergeRefine ZV.SpecMerge ZV.Spec.
Theorem C06_merge_algorithm_refines_spec :
  forall (pl : nat -> N -> list Spec.hit) its cms f k,
  List.Forall EnumProof.asc its -> EnumProof.nozero its ->
  MergeRefine.rel_from Spec.hit pl 0 its (MergeRefine.dgs_of cms f) ->
  List.Forall (fun dg : list (Spec.str * list Spec.hit) * (list Spec.hit -> list Spec.hit) => MergeRefine.skeys (fst dg)) (MergeRefine.dgs_of cms f) ->
  MergeLoop.assoc Spec.hit k (MergeLoop.merge_dict Spec.hit pl its) =
  MergeRefine.oget Spec.hit (Spec.mget k (SpecMerge.merge_dict cms f)).
Proof. exact MergeRefine.C06_merge_algorithm_refines_spec. Qed.
Print Assumptions C06_merge_algorithm_refines_spec.

Theorem C06_merged_dictionary_keys_ascending : forall (pl : nat -> N -> list Spec.hit) ts,
  EnumProof.sorted_t ts -> MergeLoop.asc_out Spec.hit None (MergeLoop.loop Spec.hit pl None nil ts).
Proof. exact (MergeLoop.merge_loop_ascending Spec.hit). Qed.
Print Assumptions C06_merged_dictionary_keys_ascending.
