(* C06 - Merged index and doc values equal those of the surviving documents.
   Proved for all values: the single-hit dictionary encoding written by merges (31 norm bits,
   31 document bits, tag bits 10) decodes to what was encoded; its Go source is re-translated and
   re-proved equal on every run (KernelTie: tie_enc1hit, tie_dec1hit, tie_under32).  The codec
   lemmas of C01 cover the re-encoded entries.  The merge algorithm itself (term enumeration,
   byte-copy path, doc-value merge) is decided by the correspondence run against
   SpecMerge.spec_merge (DESIGN.md 6 C06). *)
From Coq Require Import NArith.
Require Import ZV.Kernel.
Open Scope N_scope.

Theorem C06_single_hit_roundtrip_partial : forall d n, d < 2 ^ 31 -> n < 2 ^ 31 ->
  dec1hit (enc1hit d n) = (d, n) /\ is1hit (enc1hit d n) = true.
Proof. exact onehit_roundtrip. Qed.
Print Assumptions C06_single_hit_roundtrip_partial.
