(* C02 - Stored fields, external ids and id lookup round-trip for every document.
   Proved for all documents: the stored block's meta/data encoding decodes to the values in order
   with type, bytes and array positions unchanged; a visitor that may stop sees a prefix.
   Count / Fields / DocID / DocNumbers are decided by the correspondence run against
   Spec.spec_of_batch (see DESIGN.md 6 C02). *)
From Coq Require Import List NArith.
Require Import ZV.Bytes ZV.Stored.
Import ListNotations.
Open Scope N_scope.

Theorem C02_stored_block_roundtrip_partial : forall vs, Forall wf_sval vs -> u64 (Stored.nlen (data_of vs)) ->
  dec_meta (length vs) (enc_meta 0 vs) (data_of vs) = Some vs.
Proof. exact stored_roundtrip. Qed.
Print Assumptions C02_stored_block_roundtrip_partial.

Theorem C02_visitor_sees_prefix_partial : forall (A : Type) (items : list A) answers,
  exists k, visit items answers = firstn k items.
Proof. exact @visit_prefix. Qed.
Print Assumptions C02_visitor_sees_prefix_partial.
