(* C02 - Stored fields, external ids and id lookup round-trip for every document.
   Proved for all documents: the stored block's meta/data encoding decodes to the values in order
   with type, bytes and array positions unchanged; a visitor that may stop sees a prefix.
   Count / Fields / DocID / DocNumbers are decided by the correspondence run against
   Spec.spec_of_batch (see DESIGN.md 6 C02). *)
From Coq Require Import List NArith.
Require Import ZV.Bytes ZV.Stored.
Import ListNotations.
Open Scope N_scope.

Theorem C02_stored_block_roundtrip_partial : forall vs, Forall wf_sval vs -> u64 (Stored.nlen (data_of vs)) ->
  dec_meta (length vs) (enc_meta 0 vs) (data_of vs) = Some vs.
Proof. exact stored_roundtrip. Qed.
Print Assumptions C02_stored_block_roundtrip_partial.

Theorem C02_visitor_sees_prefix_partial : forall (A : Type) (items : list A) answers,
  exists k, visit items answers = firstn k items.
Proof. exact @visit_prefix. Qed.
Print Assumptions C02_visitor_sees_prefix_partial.

(* the byte codec of a document's stored fields: the frozen reader (Layout.stored_doc, the parser
   the correspondence run applies to the files zapx writes) recovers exactly the _id and the stored
   values (field, type, bytes, array positions) in order from the documented encoding, for any
   number of values; snappy is a Section hypothesis (decode . encode = id) *)
Require ZV.StoredProof ZV.Layout ZV.LayoutProof ZV.Bytes ZV.Footer.
Theorem C02_stored_document_roundtrip :
  forall (snappy_enc : Bytes.bytes -> Bytes.bytes) (dec_snappy : Bytes.bytes -> option Bytes.bytes),
  (forall x, dec_snappy (snappy_enc x) = Some x) ->
  forall (ft : list Layout.frec) file storedIdx d so idv (es : list StoredProof.ent) rest1 rest2,
  Forall (StoredProof.wf_ent ft) es ->
  Bytes.u64 (LayoutProof.nlenb (concat (map StoredProof.e_val es))) -> Bytes.u64 (LayoutProof.nlenb idv) ->
  Bytes.u64 (LayoutProof.nlenb (Bytes.uv (LayoutProof.nlenb idv) ++ StoredProof.enc_ents 0 es)) ->
  Bytes.u64 (LayoutProof.nlenb (idv ++ snappy_enc (concat (map StoredProof.e_val es)))) ->
  (so < 256 ^ 8)%N ->
  Layout.at_off file (storedIdx + 8 * d)%N = Some (Footer.be 8 so ++ rest1) ->
  Layout.at_off file so = Some (StoredProof.enc_doc snappy_enc idv es ++ rest2) ->
  Layout.stored_doc dec_snappy file ft storedIdx d =
    Some ({| Spec.s_field := Spec.id_name; Spec.s_typ := 116; Spec.s_val := idv; Spec.s_ap := [] |} :: map (StoredProof.sval_of ft) es).
Proof. exact StoredProof.stored_doc_roundtrip. Qed.
Print Assumptions C02_stored_document_roundtrip.

Require ZV.BuildAlg ZV.StoredBuild.

(* the builder's stored-field pass (instances appended to per-field buckets in visiting order, buckets
   emitted in field order) yields the specification's stored values, field by field *)
Theorem C02_stored_pass_is_spec : forall fs d, BuildAlg.stored_pass fs d = List.flat_map (Spec.stored_of d) fs.
Proof. exact StoredBuild.stored_pass_is_spec. Qed.
Print Assumptions C02_stored_pass_is_spec.

(* the instance the correspondence run executes next to zapx (request 23) *)
Theorem C02_stored_run_is_spec : forall b, BuildAlg.stored_run b = Spec.c_stored (Spec.spec_of_batch b).
Proof. exact StoredBuild.stored_run_is_spec. Qed.
Print Assumptions C02_stored_run_is_spec.
