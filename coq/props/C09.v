(* C09 - The v16 on-disk layout is stable in both directions.
   The reader written only from the documented layout is Layout.parse_v16 (frozen; never
   regenerated).  Machine-checked here, for all values: the byte-level codecs it is composed of
   invert what the documented writer emits (uvarint, big-endian words, footer + CRC, freq/norm and
   location entries, chunk tables, stored-field meta, single-hit and 32|32-bit codes).  The Go
   source's constants, chunk-size rule, single-hit packing, freq/hasLocs packing, synonym code and
   footer field order are re-translated on every run and proved equal to the frozen ones (ties).
   That every file written by the current code decodes to the content that went in, and that the
   current reader answers the frozen corpus unchanged, is decided by the correspondence run. *)
From Coq Require Import List NArith.
Require Import ZV.Bytes ZV.Kernel ZV.Footer ZV.Streams ZV.Chunks ZV.Stored ZV.Opt ZV.Spec ZV.Layout ZV.LayoutProof ZV.WriteRead.
Import ListNotations.
Open Scope N_scope.

Theorem C09_uvarint_partial : forall n rest, u64 n -> dec_uv (uv n ++ rest) = Some (n, rest).
Proof. exact dec_uv_app. Qed.
Print Assumptions C09_uvarint_partial.

Theorem C09_bigendian_partial : forall k n rest, n < 256 ^ N.of_nat k -> unbe k (be k n ++ rest) = Some (n, rest).
Proof. exact unbe_be. Qed.
Print Assumptions C09_bigendian_partial.

Theorem C09_footer_partial : forall mem f, wf_footer f -> Forall (fun b => b < 256) mem ->
  Footer.parse (persist mem f) = Some (mem, f, crc32 (mem ++ footer_body f)).
Proof. exact footer_roundtrip_bytes. Qed.
Print Assumptions C09_footer_partial.

Theorem C09_single_hit_partial : forall d n, d < 2 ^ 31 -> n < 2 ^ 31 ->
  dec1hit (enc1hit d n) = (d, n) /\ is1hit (enc1hit d n) = true.
Proof. exact onehit_roundtrip. Qed.
Print Assumptions C09_single_hit_partial.

Theorem C09_pair32_partial : forall hi lo, hi < 2 ^ 32 -> lo < 2 ^ 32 ->
  dec_pair32 (enc_pair32 hi lo) = (hi, lo) /\ enc_pair32 hi lo < 2 ^ 64.
Proof. exact pair32_roundtrip. Qed.
Print Assumptions C09_pair32_partial.

Theorem C09_freqnorm_partial : forall e rest, wf_tf e ->
  dec_tf (enc_tf e ++ rest) = Some ((e_freq e, (if e_freq e =? 0 then 0 else e_norm e), hasLocs e), rest).
Proof. exact dec_enc_tf. Qed.
Print Assumptions C09_freqnorm_partial.

Theorem C09_locations_partial : forall ls rest, Forall wf_loc ls -> u64 (Streams.nlen (flat_map enc_loc ls)) ->
  dec_locblock (enc_locblock ls ++ rest) = Some (ls, rest).
Proof. exact dec_enc_locblock. Qed.
Print Assumptions C09_locations_partial.

Theorem C09_chunk_table_partial : forall chunks c rest, (c < length chunks)%nat ->
  load_chunk 0 c (cum_ends (map Chunks.nlen chunks)) (concat chunks ++ rest) = nth c chunks [].
Proof. exact load_chunk_ok. Qed.
Print Assumptions C09_chunk_table_partial.

Theorem C09_stored_meta_partial : forall vs, Forall wf_sval vs -> u64 (Stored.nlen (data_of vs)) ->
  dec_meta (length vs) (enc_meta 0 vs) (data_of vs) = Some vs.
Proof. exact stored_roundtrip. Qed.
Print Assumptions C09_stored_meta_partial.

(* the frozen reader's postings decoder inverts the documented chunked encoding: if chunk c of the
   freq/norm stream holds the entries of the hits whose document falls in chunk c (document order)
   and chunk c of the location stream holds the location blocks of those hits that have locations -
   which is what C01_chunked_coder_partial (props/C01.v) shows the writer's coder produces - then decoding the
   postings of a strictly ascending list of well-formed hits returns exactly those hits, each with
   its own frequency, norm (0 when the frequency is 0) and locations resolved to field names *)
Theorem C09_postings_decoder_roundtrip : forall ft cs, 0 < cs -> forall fch lch (hits : list (shit)),
  (forall c, chunk_of fch c = F cs c hits) -> (forall c, chunk_of lch c = Lb cs c hits) ->
  Sorted.StronglySorted N.lt (map fst hits) -> Forall wf_hit hits ->
  decode_hits ft cs fch lch (map fst hits) (None, [], []) = Opt.mapopt (spec_hit ft) hits.
Proof. exact postings_stream_roundtrip. Qed.
Print Assumptions C09_postings_decoder_roundtrip.

(* the framing of a chunked stream (uvarint nChunks, cumulative end offsets, data) read at its offset *)
Theorem C09_chunked_stream_framing : forall (pre : bytes) chunks rest,
  pre <> [] -> N.of_nat (length chunks) < max_count ->
  Forall u64 (LayoutProof.cum_from 0 (map nlenb chunks)) ->
  stream_chunks (pre ++ enc_stream chunks ++ rest) (N.of_nat (length pre)) = Some chunks.
Proof. exact chunked_stream_roundtrip. Qed.
Print Assumptions C09_chunked_stream_framing.

(* writer and reader composed for one postings list: the imperative chunkedIntCoder (Add closing the
   previous chunk on a chunk change; Close) fed with the freq/norm entries of all hits and the location
   blocks of the hits that have locations, framed as writePostings frames a stream, and read back by
   the frozen reader (stream_chunks + decode_hits), returns exactly the hits - for every strictly
   ascending list of well-formed hits and every chunk size whose table covers the documents
   (C01_chunk_index_in_table_partial shows the rule of getChunkSize does) *)
Theorem C09_postings_write_read : forall ft cs, 0 < cs -> forall total, (0 < total)%nat -> N.of_nat total < max_count ->
  forall hits : list shit, Sorted.StronglySorted N.lt (map fst hits) -> Forall wf_hit hits ->
  (forall h, In h hits -> fst h / cs < N.of_nat total) ->
  forall pre1 rest1 pre2 rest2, pre1 <> [] -> pre2 <> [] ->
  Forall u64 (LayoutProof.cum_from 0 (map nlenb (chunks_of_coder cs total (fitems hits)))) ->
  Forall u64 (LayoutProof.cum_from 0 (map nlenb (chunks_of_coder cs total (litems hits)))) ->
  (Opt.bindo (stream_chunks (pre1 ++ stream_bytes (run cs total (fitems hits)) ++ rest1) (N.of_nat (length pre1))) (fun fch =>
   Opt.bindo (stream_chunks (pre2 ++ stream_bytes (run cs total (litems hits)) ++ rest2) (N.of_nat (length pre2))) (fun lch =>
   decode_hits ft cs fch lch (map fst hits) (None, [], [])))) = Opt.mapopt (spec_hit ft) hits.
Proof. exact postings_write_read. Qed.
Print Assumptions C09_postings_write_read.

(* one field's whole dictionary, writer and reader composed: the frozen reader (Layout.dict_at)
   maps every term of the FST to its postings - a single-hit value decodes to its one posting, a
   general value to the hits whose freq/norm and location streams the chunked coders wrote and whose
   documents are in the bitmap - for any number of terms and postings, every chunk mode and
   document count for which getChunkSize's rule gives a chunk size.  vellum and roaring are Section
   hypotheses (decode . encode = id). *)
Require ZV.DictProof.
Theorem C09_dictionary_write_read :
  forall (fst_enc : list (Spec.str * N) -> Bytes.bytes) (dec_fst : Bytes.bytes -> option (list (Spec.str * N))),
  (forall kvs, dec_fst (fst_enc kvs) = Some kvs) ->
  forall (roar_enc : list N -> Bytes.bytes) (dec_roar : Bytes.bytes -> option (list N)),
  (forall l, dec_roar (roar_enc l) = Some l) ->
  forall ft mode ndocs file dictLoc (kvs : list (Spec.str * N)) (want : list (list Spec.hit)) rest,
  dictLoc <> 0%N -> Bytes.u64 (LayoutProof.nlenb (fst_enc kvs)) ->
  Layout.at_off file dictLoc = Some (Bytes.uv (LayoutProof.nlenb (fst_enc kvs)) ++ fst_enc kvs ++ rest) ->
  List.Forall2 (fun kv hs => DictProof.entry_ok roar_enc ft mode ndocs file (snd kv) (Some hs)) kvs want ->
  Layout.dict_at dec_fst dec_roar file ft mode ndocs dictLoc = Some (List.combine (List.map fst kvs) want).
Proof. exact DictProof.dict_at_roundtrip. Qed.
Print Assumptions C09_dictionary_write_read.

Require ZV.FieldsProof.

(* the fields section (persistFieldsSection): per field a record  uvarint(len name) name uvarint(#sections)
   { be16 type, be64 address }*, then the index  uvarint(#fields) { be64 record offset }*;  the frozen
   reader's field_table, pointed at the index, returns exactly the names and (type, address) pairs written *)
Theorem C09_fields_section_roundtrip : forall (pre rest : Bytes.bytes) fs,
  pre <> nil -> List.Forall FieldsProof.wf_field fs -> (N.of_nat (length fs) < Layout.max_count)%N ->
  (LayoutProof.nlenb pre + LayoutProof.nlenb (List.flat_map FieldsProof.enc_record fs) < 256 ^ 8)%N ->
  Layout.field_table (pre ++ FieldsProof.enc_fields (LayoutProof.nlenb pre) fs ++ rest)
                     (LayoutProof.nlenb pre + LayoutProof.nlenb (List.flat_map FieldsProof.enc_record fs))%N
  = Some (List.map Some fs).
Proof. exact FieldsProof.fields_section_roundtrip. Qed.
Print Assumptions C09_fields_section_roundtrip.
