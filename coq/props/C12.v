(* C12 - Thesaurus lookups return exactly the defined synonyms.
   Proved: (1) the 64-bit synonym code (synonym id << 32 | document) decodes to the pair that was
   encoded, for all 32-bit ids and documents (Go's encodeSynonym / decodeSynonym are re-translated
   and proved equal to it on every run); (2) the first-seen id assignment of the builder gives every
   synonym it saw an id, and the id -> term table written for the reader inverts it, for ANY visiting
   order (Go map iteration order is arbitrary).  The set of (synonym, document) pairs per term and
   exclusion bitmap is decided by the correspondence run against Spec.spec_thes. *)
From Coq Require Import List NArith Bool.
Require Import ZV.Kernel ZV.SynIds.
Open Scope N_scope.

Theorem C12_synonym_code_roundtrip_partial : forall sid doc, sid < 2 ^ 32 -> doc < 2 ^ 32 ->
  dec_pair32 (enc_pair32 sid doc) = (sid, doc) /\ enc_pair32 sid doc < 2 ^ 64.
Proof. exact pair32_roundtrip. Qed.
Print Assumptions C12_synonym_code_roundtrip_partial.

Theorem C12_id_assignment_invertible_partial :
  forall (syn : Type) (eqb : syn -> syn -> bool), (forall a b, reflect (a = b) (eqb a b)) ->
  forall (seen : list syn) (s : syn), In s seen ->
  let m := fst (assign syn eqb seen (nil, 0%nat)) in
  exists i, lookup syn eqb m s = Some i /\ back syn m i = Some s.
Proof. exact syn_ids_roundtrip. Qed.
Print Assumptions C12_id_assignment_invertible_partial.
