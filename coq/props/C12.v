(* C12 - Thesaurus lookups return exactly the defined synonyms.
   Proved: (1) the 64-bit synonym code (synonym id << 32 | document) decodes to the pair that was
   encoded, for all 32-bit ids and documents (Go's encodeSynonym / decodeSynonym are re-translated
   and proved equal to it on every run); (2) the first-seen id assignment of the builder gives every
   synonym it saw an id, and the id -> term table written for the reader inverts it, for ANY visiting
   order (Go map iteration order is arbitrary).  The set of (synonym, document) pairs per term and
   exclusion bitmap is decided by the correspondence run against Spec.spec_thes. *)
From Coq Require Import List NArith Bool.
Require Import ZV.Kernel ZV.SynIds.
Open Scope N_scope.

Theorem C12_synonym_code_roundtrip_partial : forall sid doc, sid < 2 ^ 32 -> doc < 2 ^ 32 ->
  dec_pair32 (enc_pair32 sid doc) = (sid, doc) /\ enc_pair32 sid doc < 2 ^ 64.
Proof. exact pair32_roundtrip. Qed.
Print Assumptions C12_synonym_code_roundtrip_partial.

Theorem C12_id_assignment_invertible_partial :
  forall (syn : Type) (eqb : syn -> syn -> bool), (forall a b, reflect (a = b) (eqb a b)) ->
  forall (seen : list syn) (s : syn), In s seen ->
  let m := fst (assign syn eqb seen (nil, 0%nat)) in
  exists i, lookup syn eqb m s = Some i /\ back syn m i = Some s.
Proof. exact syn_ids_roundtrip. Qed.
Print Assumptions C12_id_assignment_invertible_partial.

(* the byte codec of a thesaurus: the frozen reader (Layout.thesaurus_at, the parser the
   correspondence run applies to the files zapx writes) recovers, for every left-hand term, exactly
   the (synonym, document) pairs whose codes are in the term's bitmap, resolved through the id ->
   term table written next to the FST - for any number of terms, ids and pairs.  The vellum FST and
   the 64-bit roaring container are Section hypotheses (decode . encode = id). *)
Require ZV.ThesProof ZV.Layout ZV.LayoutProof ZV.Bytes ZV.Spec.
Theorem C12_thesaurus_codec_roundtrip :
  forall (fst_enc : list (Spec.str * N) -> Bytes.bytes) (dec_fst : Bytes.bytes -> option (list (Spec.str * N))),
  (forall kvs, dec_fst (fst_enc kvs) = Some kvs) ->
  forall (roar64_enc : list N -> Bytes.bytes) (dec_roar64 : Bytes.bytes -> option (list N)),
  (forall l, dec_roar64 (roar64_enc l) = Some l) ->
  forall file loc (kvs : list (Spec.str * N)) tbl (posts : list (list (N * N))) rest,
  Bytes.u64 (LayoutProof.nlenb (fst_enc kvs)) -> List.Forall ThesProof.wf_synterm tbl ->
  (N.of_nat (length tbl) < Layout.max_count)%N ->
  Layout.at_off file loc = Some (ThesProof.enc_thes fst_enc kvs tbl ++ rest) ->
  List.Forall2 (fun kv ps => List.Forall (ThesProof.wf_pair tbl) ps /\
                        Bytes.u64 (LayoutProof.nlenb (roar64_enc (List.map ThesProof.code_of ps))) /\
                        exists rest', Layout.at_off file (snd kv) = Some (ThesProof.enc_posts roar64_enc ps ++ rest')) kvs posts ->
  Layout.thesaurus_at dec_fst dec_roar64 file loc =
  Some (List.map (fun x => (fst (fst x), List.fold_right Spec.pins nil (List.map (ThesProof.resolve tbl) (snd x)))) (List.combine kvs posts)).
Proof. exact ThesProof.thesaurus_roundtrip. Qed.
Print Assumptions C12_thesaurus_codec_roundtrip.

Require ZV.ThesOrder.

(* the canonical (synonym, document) list of a term - what the specification holds and what the frozen
   reader's syn_pairs computes from the 64-bit codes - depends only on the SET of pairs: not on the
   order in which a builder or a merge hands out internal synonym ids, not on the order of the codes
   in the bitmap, not on repetitions *)
Theorem C12_pairs_depend_only_on_their_set : forall l1 l2,
  (forall t, List.In t l1 <-> List.In t l2) -> ThesOrder.canon l1 = ThesOrder.canon l2.
Proof. exact ThesOrder.canon_order_free. Qed.
Print Assumptions C12_pairs_depend_only_on_their_set.

Theorem C12_insertion_order_free : forall l,
  List.fold_left (fun a x => Spec.pins x a) l nil = ThesOrder.canon l.
Proof. exact ThesOrder.insertion_order_free. Qed.
Print Assumptions C12_insertion_order_free.
