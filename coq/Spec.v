(* The declarative specification of a segment's content (what C01, C02, C03, C12 say a built
   segment must answer), as a function of the input batch.  No byte layout, no chunking, no pooled
   memory: short enough to read in minutes.  Everything else is tied to this. *)
From Coq Require Import List NArith Bool.
Import ListNotations.
Open Scope N_scope.

Definition str := list N.          (* byte strings: terms, field names, values *)

(* ---------- byte-wise order on strings ---------- *)
Fixpoint scmp (a b : str) : comparison :=
  match a, b with
  | [], [] => Eq
  | [], _ => Lt
  | _, [] => Gt
  | x :: a', y :: b' => match x ?= y with Eq => scmp a' b' | c => c end
  end.
Definition sltb (a b : str) : bool := match scmp a b with Lt => true | _ => false end.
Definition seqb (a b : str) : bool := match scmp a b with Eq => true | _ => false end.

(* sorted, duplicate-free insertion; association lists keyed by strings kept sorted *)
Fixpoint sins (x : str) (l : list str) : list str :=
  match l with
  | [] => [x]
  | y :: r => match scmp x y with Lt => x :: l | Eq => l | Gt => y :: sins x r end
  end.
Definition ssort (l : list str) : list str := fold_right sins [] l.

Fixpoint mupd {V} (k : str) (f : option V -> V) (m : list (str * V)) : list (str * V) :=
  match m with
  | [] => [(k, f None)]
  | (k', v) :: r => match scmp k k' with
                    | Lt => (k, f None) :: m
                    | Eq => (k', f (Some v)) :: r
                    | Gt => (k', v) :: mupd k f r
                    end
  end.
Fixpoint mget {V} (k : str) (m : list (str * V)) : option V :=
  match m with
  | [] => None
  | (k', v) :: r => if seqb k k' then Some v else mget k r
  end.

Fixpoint indexed_from {X} (i : N) (l : list X) : list (N * X) :=
  match l with [] => [] | x :: r => (i, x) :: indexed_from (i + 1) r end.
Definition indexed {X} (l : list X) : list (N * X) := indexed_from 0 l.
Definition nlen {X} (l : list X) : N := N.of_nat (length l).

(* ---------- the input: a batch of analysed documents ---------- *)
Record loc := { l_field : str; l_pos : N; l_start : N; l_end : N; l_ap : list N }.
Record tok := { t_term : str; t_freq : N; t_locs : list loc }.
Record syndef := { sy_term : str; sy_syns : list str }.
Record vecdef := { v_dims : N; v_sim : str; v_opt : str; v_data : list N (* float32 bit patterns *) }.
Record field := {
  f_name : str; f_stored : bool; f_dv : bool; f_typ : N; f_val : str; f_ap : list N;
  f_len : N; f_toks : list tok;
  f_syn : list syndef;           (* non-empty only for synonym fields of synonym documents *)
  f_vec : option vecdef;
  f_shape : option str }.        (* geo-shape fields: the encoded shape, an extra doc value *)
Record doc := { d_comps : list field; d_fields : list field }.
Definition batch := list doc.

Definition all_fields (d : doc) : list field := d_comps d ++ d_fields d.
Definition id_name : str := [95; 105; 100].    (* "_id" *)

(* ---------- the content of a segment ---------- *)
Record hit := { h_doc : N; h_freq : N; h_norm : N; h_locs : list loc }.
Record sval := { s_field : str; s_typ : N; s_val : str; s_ap : list N }.
Record content := {
  c_ndocs : N;
  c_fields : list str;                                  (* "_id" first, then ascending *)
  c_dicts : list (str * list (str * list hit));         (* per field with >= 1 term: ascending terms, hits ascending by doc *)
  c_stored : list (list sval);                          (* per document: _id first *)
  c_dvfields : list str;                                (* fields indexed with doc values *)
  c_dv : list (str * list (N * list str));              (* per dv field: documents with >= 1 term, terms ascending *)
  c_thes : list (str * list (str * list (str * N)));    (* thesaurus -> term -> (synonym, doc) pairs, ascending *)
}.

(* ---------- fields ---------- *)
Definition batch_names (b : batch) : list str :=
  flat_map (fun d => map f_name (all_fields d)) b.
Definition spec_fields (b : batch) : list str :=
  match b with
  | [] => []
  | _ => id_name :: filter (fun s => negb (seqb s id_name)) (ssort (batch_names b))
  end.

(* ---------- per-document merged token frequencies of one field name ---------- *)
Definition own (f : str) (l : loc) : loc :=
  {| l_field := f; l_pos := l_pos l; l_start := l_start l; l_end := l_end l; l_ap := l_ap l |}.
Definition base_loc (f : str) (l : loc) : loc := match l_field l with [] => own f l | _ => l end.

Definition tfmap := list (str * (N * list loc)).
Definition base_tfs (f : str) (i : field) : tfmap :=
  fold_left (fun acc t => mupd (t_term t) (fun _ => (t_freq t, map (base_loc f) (t_locs t))) acc) (f_toks i) [].
Definition merge_tok (f : str) (acc : tfmap) (t : tok) : tfmap :=
  mupd (t_term t)
       (fun o => match o with
                 | None => (t_freq t, map (own f) (t_locs t))
                 | Some (fr, ls) => (fr + t_freq t, ls ++ map (own f) (t_locs t))
                 end) acc.
Definition instances (d : doc) (f : str) : list field := filter (fun x => seqb (f_name x) f) (all_fields d).
Definition doc_tfs (d : doc) (f : str) : option (N * tfmap) :=
  match instances d f with
  | [] => None
  | i0 :: rest =>
      Some (fold_left (fun a i => a + f_len i) rest (f_len i0),
            fold_left (fun acc i => fold_left (merge_tok f) (f_toks i) acc) rest (base_tfs f i0))
  end.

(* ---------- C01: dictionaries and postings ---------- *)
Definition add_doc_hits (f : str) (dict : list (str * list hit)) (nd : N * doc) : list (str * list hit) :=
  match doc_tfs (snd nd) f with
  | None => dict
  | Some (len, tfs) =>
      fold_left (fun dc e =>
                   let '(term, (fr, ls)) := e in
                   mupd term (fun o => (match o with None => [] | Some hs => hs end) ++
                                       [{| h_doc := fst nd; h_freq := fr; h_norm := (if fr =? 0 then 0 else len); h_locs := ls |}]) dc)
                tfs dict
  end.
Definition spec_dict (b : batch) (f : str) : list (str * list hit) := fold_left (add_doc_hits f) (indexed b) [].
Definition nonempty_dicts (ds : list (str * list (str * list hit))) :=
  filter (fun e => match snd e with [] => false | _ => true end) ds.
Definition spec_dicts (b : batch) : list (str * list (str * list hit)) :=
  nonempty_dicts (map (fun f => (f, spec_dict b f)) (spec_fields b)).

(* ---------- C02: stored fields ---------- *)
Definition stored_of (d : doc) (f : str) : list sval :=
  map (fun i => {| s_field := f; s_typ := f_typ i; s_val := f_val i; s_ap := f_ap i |})
      (filter (fun i => f_stored i && seqb (f_name i) f) (d_fields d)).
Definition doc_id (d : doc) : str :=
  match stored_of d id_name with v :: _ => s_val v | [] => [] end.
Definition spec_stored_doc (fs : list str) (d : doc) : list sval :=
  {| s_field := id_name; s_typ := 116; s_val := doc_id d; s_ap := [] |} ::
  flat_map (stored_of d) (filter (fun s => negb (seqb s id_name)) fs).

(* ---------- C03: doc values ---------- *)
Definition is_dv_field (b : batch) (f : str) : bool :=
  existsb (fun d => existsb (fun i => f_dv i && seqb (f_name i) f) (all_fields d)) b.
(* the encoded shape of the document's geo-shape field f: the last instance that carries one *)
Definition doc_shape (d : doc) (f : str) : option str :=
  fold_left (fun acc i => match f_shape i with Some sh => if seqb (f_name i) f then Some sh else acc | None => acc end)
            (d_fields d) None.
Definition spec_dv_field (b : batch) (f : str) : list (N * list str) :=
  flat_map (fun nd => match doc_tfs (snd nd) f with
                      | Some (_, (_ :: _) as tfs) =>
                          [(fst nd, match doc_shape (snd nd) f with
                                    | Some sh => sins sh (map fst tfs)     (* one more doc value *)
                                    | None => map fst tfs
                                    end)]
                      | _ => []
                      end) (indexed b).

(* ---------- C12: thesauri ---------- *)
(* a field is a thesaurus iff some document defines synonyms under that name *)
Definition syn_pairs_field (nd : N * doc) (th : str) : list (str * (str * N)) :=
  flat_map (fun i => if seqb (f_name i) th
                     then flat_map (fun sd => map (fun s => (sy_term sd, (s, fst nd))) (sy_syns sd)) (f_syn i)
                     else []) (d_fields (snd nd)).
Fixpoint pins (x : str * N) (l : list (str * N)) : list (str * N) :=
  match l with
  | [] => [x]
  | y :: r => match scmp (fst x) (fst y) with
              | Lt => x :: l
              | Gt => y :: pins x r
              | Eq => match snd x ?= snd y with Lt => x :: l | Eq => l | Gt => y :: pins x r end
              end
  end.
Definition spec_thes_of (b : batch) (th : str) : list (str * list (str * N)) :=
  fold_left (fun m e => mupd (fst e) (fun o => pins (snd e) (match o with None => [] | Some l => l end)) m)
            (flat_map (fun nd => syn_pairs_field nd th) (indexed b)) [].
Definition is_thesaurus (b : batch) (f : str) : bool :=
  existsb (fun d => existsb (fun i => seqb (f_name i) f && match f_syn i with [] => false | _ => true end) (d_fields d)) b.
Definition spec_thes (b : batch) : list (str * list (str * list (str * N))) :=
  map (fun f => (f, spec_thes_of b f)) (filter (is_thesaurus b) (spec_fields b)).

(* ---------- the whole specification ---------- *)
Definition spec_of_batch (b : batch) : content :=
  let fs := spec_fields b in
  {| c_ndocs := nlen b;
     c_fields := fs;
     c_dicts := spec_dicts b;
     c_stored := map (spec_stored_doc fs) b;
     c_dvfields := filter (is_dv_field b) fs;
     c_dv := map (fun f => (f, spec_dv_field b f)) (filter (is_dv_field b) fs);
     c_thes := spec_thes b |}.
