From Coq Require Import ExtrOcamlBasic.
Require Import Handle.
Extraction Language OCaml.
Extraction "zmodel_core.ml" Handle.handle_chars.
