(* C14 / C15: the declarative specification of vector fields.
   - the vectors a batch puts into a field (every sub-vector of every vector field instance, with its
     document), and their renumbering by a merge;
   - nearest-neighbour search as a function of the admissible vectors and their scores.  Scores are
     computed by the engine (float arithmetic is the engine's business): the specification takes, for
     every indexed vector, its score with the query as an ORDER KEY (smaller key = better) together
     with the raw score bits that the result carries. *)
From Coq Require Import List NArith Bool.
Import ListNotations.
Require Import Spec SpecMerge.
Open Scope N_scope.

(* ---- content ---- *)
Record vfield := { vf_name : str; vf_dims : N; vf_sim : str; vf_opt : str; vf_vecs : list (N * list N) }.

Fixpoint chunks_of (fuel : nat) (d : nat) (l : list N) : list (list N) :=
  match fuel with
  | O => []
  | S f => match l with [] => [] | _ => firstn d l :: chunks_of f d (skipn d l) end
  end.

Definition field_vecs (nd : N * doc) (f : str) : list (N * list N) :=
  flat_map (fun i => if seqb (f_name i) f
                     then match f_vec i with
                          | Some v => map (fun sv => (fst nd, sv)) (chunks_of (length (v_data v)) (N.to_nat (v_dims v)) (v_data v))
                          | None => [] end
                     else []) (d_fields (snd nd)).

Definition vec_meta (b : batch) (f : str) : option vecdef :=
  hd_error (flat_map (fun d => flat_map (fun i => if seqb (f_name i) f then match f_vec i with Some v => [v] | None => [] end else [])
                                        (d_fields d)) b).

Definition spec_vfields (b : batch) : list vfield :=
  flat_map (fun f => match vec_meta b f with
                     | Some v => [{| vf_name := f; vf_dims := v_dims v; vf_sim := v_sim v; vf_opt := v_opt v;
                                     vf_vecs := flat_map (fun nd => field_vecs nd f) (indexed b) |}]
                     | None => [] end) (spec_fields b).

(* ---- merge: survivors' vectors under the new numbering; a field without survivors has no index ---- *)
Definition merge_vfield (cms : list (list vfield * list N)) (f : str) : option vfield :=
  let parts := flat_map (fun cm => match find (fun v => seqb (vf_name v) f) (fst cm) with
                                   | Some v => [(v, snd cm)] | None => [] end) cms in
  match parts with
  | [] => None
  | (v0, _) :: _ =>
      let vs := flat_map (fun p => flat_map (fun dv => if survives (snd p) (fst dv) then [(newnum (snd p) (fst dv), snd dv)] else [])
                                            (vf_vecs (fst p))) parts in
      match vs with
      | [] => None
      | _ => Some {| vf_name := f; vf_dims := vf_dims v0; vf_sim := vf_sim v0; vf_opt := vf_opt v0; vf_vecs := vs |}
      end
  end.

Definition merge_vfields (cs : list (list vfield)) (maps : list (list N)) : list vfield :=
  let cms := combine cs maps in
  let names := ssort (flat_map (fun c => map vf_name c) cs) in
  flat_map (fun f => match merge_vfield cms f with Some v => [v] | None => [] end) names.

(* ---- search ---- *)
(* a candidate: (document, order key of its score, score bits) *)
Definition cand := (N * N * N)%type.
Definition c_doc (c : cand) : N := fst (fst c).
Definition c_key (c : cand) : N := snd (fst c).

Fixpoint insert_by_key (c : cand) (l : list cand) : list cand :=
  match l with
  | [] => [c]
  | x :: r => if c_key c <? c_key x then c :: l else x :: insert_by_key c r
  end.
Definition sort_by_key (l : list cand) : list cand := fold_right insert_by_key [] l.

(* the vectors a search may return: not excluded, and eligible when a filter is given *)
Definition admissible (except : list N) (eligible : option (list N)) (c : cand) : bool :=
  negb (memN (c_doc c) except) &&
  match eligible with None => true | Some e => memN (c_doc c) e end.

Definition spec_search (cands : list cand) (except : list N) (eligible : option (list N)) (k : N) : list cand :=
  firstn (N.to_nat k) (sort_by_key (filter (admissible except eligible) cands)).

Lemma In_firstn {A} (x : A) n l : In x (firstn n l) -> In x l.
Proof. revert n; induction l as [|y l IH]; intros [|n] H; cbn in *; try contradiction. destruct H; [now left|right; eauto]. Qed.

Lemma spec_search_sound cands except eligible k c :
  In c (spec_search cands except eligible k) -> In c cands /\ admissible except eligible c = true.
Proof.
  unfold spec_search. intros H. apply In_firstn in H.
  assert (Hin: forall l x, In x (sort_by_key l) -> In x l).
  { induction l as [|y l IH]; intros x Hx; [exact Hx|]. cbn [sort_by_key fold_right] in Hx.
    assert (Hins: forall c0 m, In x (insert_by_key c0 m) -> x = c0 \/ In x m).
    { intros c0 m. induction m as [|z m IHm]; cbn [insert_by_key]; intros Hi.
      - destruct Hi as [<-|[]]. now left.
      - destruct (c_key c0 <? c_key z).
        + destruct Hi as [<-|Hi]; [now left|now right].
        + destruct Hi as [<-|Hi]; [right; now left|]. destruct (IHm Hi); [now left|right; now right]. }
    destruct (Hins _ _ Hx) as [->|H']; [now left|right; now apply IH]. }
  apply Hin in H. now apply filter_In in H.
Qed.

Lemma spec_search_length cands except eligible k : (length (spec_search cands except eligible k) <= N.to_nat k)%nat.
Proof. unfold spec_search. rewrite firstn_length. apply PeanoNat.Nat.le_min_l. Qed.
