(* option monad helpers shared by the model files *)
From Coq Require Import List.
Import ListNotations.
Definition bindo {X Y} (o : option X) (f : X -> option Y) : option Y := match o with Some x => f x | None => None end.
Notation "'do' x <- e ; k" := (bindo e (fun x => k)) (at level 200, x pattern, e at level 100, k at level 200).
Fixpoint mapopt {X Y} (f : X -> option Y) (l : list X) : option (list Y) :=
  match l with [] => Some [] | x :: r => do y <- f x; do ys <- mapopt f r; Some (y :: ys) end.
