(* C10: the builder's pooled working memory (new.go interimPool; section_inverted_text_index.go
   invertedIndexOpaque realloc / process / Reset).  Of the ~30 reusable members only a few are READ
   BEFORE WRITTEN by the next build and therefore can carry data from an earlier batch:
     IncludeDocValues  (re-sliced within capacity, then or-ed into),
     Postings          (pooled bitmaps, re-sliced within capacity or copied, then added into).
   (reusableFieldTFs / reusableFieldLens are cleared at the end of every document.)
   A reusable slice is modelled as its WHOLE backing array plus the visible length.
   Reset clears the visible part only - the invariant that makes this sufficient is that everything
   within capacity is clear between builds. *)
From Coq Require Import List Arith Bool Lia.
Import ListNotations.

Record pooled := { incl : list bool; post : list (list nat) }.      (* backing arrays *)
Definition fresh : pooled := {| incl := []; post := [] |}.

(* a batch, abstractly: number of fields, number of postings lists, and per document the
   (field id, wants doc values, postings-list ids) of its field instances *)
Definition adoc := list (nat * bool * list nat).
Record abatch := { nf : nat; np : nat; docs : list adoc }.

Fixpoint set_nth {A} (k : nat) (f : A -> A) (l : list A) : list A :=
  match l, k with
  | [], _ => []
  | x :: r, O => f x :: r
  | x :: r, S k' => x :: set_nth k' f r
  end.

(* realloc: re-slice within capacity, else allocate *)
Definition take_incl (p : pooled) (n : nat) : list bool :=
  if n <=? length (incl p) then incl p else repeat false n.
Definition take_post (p : pooled) (n : nat) : list (list nat) :=
  if n <=? length (post p) then post p else post p ++ repeat [] (n - length (post p)).

Definition visit_field (dn : nat) (st : list bool * list (list nat)) (fi : nat * bool * list nat)
  : list bool * list (list nat) :=
  let '(f, dv, pids) := fi in
  (set_nth f (fun b => b || dv) (fst st),
   fold_left (fun ps pid => set_nth pid (fun l => l ++ [dn]) ps) pids (snd st)).

Fixpoint visit_docs (dn : nat) (ds : list adoc) (st : list bool * list (list nat)) : list bool * list (list nat) :=
  match ds with
  | [] => st
  | d :: r => visit_docs (S dn) r (fold_left (visit_field dn) d st)
  end.

(* one build: what it writes (the visible prefixes) and the working memory it leaves *)
Definition build (p : pooled) (b : abatch) : (list bool * list (list nat)) * pooled :=
  let st := visit_docs 0 (docs b) (take_incl p (nf b), take_post p (np b)) in
  ((firstn (nf b) (fst st), firstn (np b) (snd st)), {| incl := fst st; post := snd st |}).

(* Reset: clears the VISIBLE prefix of each member (for i := range x { x[i] = zero }; x = x[:0]) *)
Fixpoint clear_prefix {A} (z : A) (n : nat) (l : list A) : list A :=
  match n, l with
  | S n', _ :: r => z :: clear_prefix z n' r
  | _, _ => l
  end.
Definition reset (b : abatch) (p : pooled) : pooled :=
  {| incl := clear_prefix false (nf b) (incl p); post := clear_prefix [] (np b) (post p) |}.

Definition ResetInv (p : pooled) : Prop := Forall (eq false) (incl p) /\ Forall (eq []) (post p).

Definition wf_batch (b : abatch) : Prop :=
  Forall (Forall (fun fi : nat * bool * list nat => let '(f, _, pids) := fi in f < nf b /\ Forall (fun pid => pid < np b) pids)) (docs b).

(* ---- proofs ---- *)
Lemma set_nth_length {A} k (f : A -> A) l : length (set_nth k f l) = length l.
Proof. revert k; induction l as [|x l IH]; intros [|k]; cbn; auto. Qed.

Lemma set_nth_app_l {A} k (f : A -> A) l1 l2 : k < length l1 -> set_nth k f (l1 ++ l2) = set_nth k f l1 ++ l2.
Proof.
  revert k; induction l1 as [|x l1 IH]; intros k Hk; [cbn in Hk; lia|].
  destruct k; cbn; [reflexivity|]. f_equal. apply IH. cbn in Hk. lia.
Qed.

Lemma firstn_set_nth {A} n k (f : A -> A) l : k < n -> firstn n (set_nth k f l) = set_nth k f (firstn n l).
Proof.
  revert n k; induction l as [|x l IH]; intros n k Hk; [destruct n, k; reflexivity|].
  destruct n; [lia|]. destruct k; cbn; [reflexivity|]. f_equal. apply IH. lia.
Qed.
Lemma skipn_set_nth {A} n k (f : A -> A) l : k < n -> skipn n (set_nth k f l) = skipn n l.
Proof.
  revert n k; induction l as [|x l IH]; intros n k Hk; [destruct n, k; reflexivity|].
  destruct n; [lia|]. destruct k; cbn; [reflexivity|]. apply IH. lia.
Qed.

(* the state during a build is (visible prefix of length n) ++ (untouched tail) *)
Definition split_ok (n m : nat) (st : list bool * list (list nat)) (v : list bool * list (list nat))
           (ti : list bool) (tp : list (list nat)) : Prop :=
  fst st = fst v ++ ti /\ snd st = snd v ++ tp /\ length (fst v) = n /\ length (snd v) = m.

Lemma fold_pids_split m dn pids : forall (ps v tp : list (list nat)), ps = v ++ tp -> length v = m -> Forall (fun pid => pid < m) pids ->
  fold_left (fun ps pid => set_nth pid (fun l => l ++ [dn]) ps) pids ps =
  fold_left (fun ps pid => set_nth pid (fun l => l ++ [dn]) ps) pids v ++ tp /\
  length (fold_left (fun ps pid => set_nth pid (fun l => l ++ [dn]) ps) pids v) = m.
Proof.
  induction pids as [|pid pids IH]; intros ps v tp Hps Hl Hf; cbn [fold_left]; [auto|].
  inversion Hf; subst. apply IH; [|now rewrite set_nth_length|assumption].
  apply set_nth_app_l. lia.
Qed.

Lemma visit_field_split n m dn fi st v ti tp :
  split_ok n m st v ti tp -> (let '(f, _, pids) := fi in f < n /\ Forall (fun pid => pid < m) pids) ->
  split_ok n m (visit_field dn st fi) (visit_field dn v fi) ti tp.
Proof.
  intros (H1 & H2 & H3 & H4) Hfi. destruct fi as [[f dv] pids]. destruct Hfi as [Hf Hp].
  unfold split_ok, visit_field. cbn [fst snd].
  destruct (fold_pids_split m dn pids (snd st) (snd v) tp H2 H4 Hp) as [E1 E2].
  repeat split.
  - rewrite H1. apply set_nth_app_l. lia.
  - exact E1.
  - now rewrite set_nth_length.
  - exact E2.
Qed.

Lemma fold_fields_split n m dn d : forall st v ti tp, split_ok n m st v ti tp ->
  Forall (fun fi : nat * bool * list nat => let '(f, _, pids) := fi in f < n /\ Forall (fun pid => pid < m) pids) d ->
  split_ok n m (fold_left (visit_field dn) d st) (fold_left (visit_field dn) d v) ti tp.
Proof.
  induction d as [|fi d IH]; intros st v ti tp Hs Hf; cbn [fold_left]; [exact Hs|].
  inversion Hf; subst. apply IH; [|assumption]. now apply visit_field_split.
Qed.

Lemma visit_docs_split n m ds : forall dn st v ti tp, split_ok n m st v ti tp ->
  Forall (Forall (fun fi : nat * bool * list nat => let '(f, _, pids) := fi in f < n /\ Forall (fun pid => pid < m) pids)) ds ->
  split_ok n m (visit_docs dn ds st) (visit_docs dn ds v) ti tp.
Proof.
  induction ds as [|d ds IH]; intros dn st v ti tp Hs Hf; cbn [visit_docs]; [exact Hs|].
  inversion Hf; subst. apply IH; [|assumption]. now apply fold_fields_split.
Qed.

Lemma Forall_eq_repeat {A} (z : A) l : Forall (eq z) l -> l = repeat z (length l).
Proof. induction 1 as [|x l Hx _ IH]; cbn; [reflexivity|]. subst. now f_equal. Qed.

Lemma clear_prefix_app {A} (z : A) v t : clear_prefix z (length v) (v ++ t) = repeat z (length v) ++ t.
Proof. induction v as [|x v IH]; cbn; [reflexivity|]. now f_equal. Qed.

Lemma firstn_clear {A} (z : A) l : Forall (eq z) l -> forall n, n <= length l -> firstn n l = repeat z n.
Proof.
  induction 1 as [|x l Hx _ IH]; intros n Hn; [cbn in Hn; assert (n = 0) by lia; subst; reflexivity|].
  destruct n; [reflexivity|]. cbn [firstn repeat]. subst. f_equal. apply IH. cbn in Hn. lia.
Qed.
Lemma skipn_clear {A} (z : A) l n : Forall (eq z) l -> Forall (eq z) (skipn n l).
Proof.
  intros H. rewrite <- (firstn_skipn n l) in H. apply Forall_app in H. tauto.
Qed.

(* a clear backing array, re-sliced or re-allocated, is "n clear cells ++ a clear tail" *)
Lemma take_incl_split p n : Forall (eq false) (incl p) ->
  exists t, take_incl p n = repeat false n ++ t /\ Forall (eq false) t.
Proof.
  intros H. unfold take_incl. destruct (n <=? length (incl p)) eqn:E.
  - apply Nat.leb_le in E. exists (skipn n (incl p)). split; [|now apply skipn_clear].
    rewrite <- (firstn_clear false (incl p) H n E). symmetry. apply firstn_skipn.
  - exists []. split; [now rewrite app_nil_r|constructor].
Qed.
Lemma take_post_split p n : Forall (eq []) (post p) ->
  exists t, take_post p n = repeat [] n ++ t /\ Forall (eq []) t.
Proof.
  intros H. unfold take_post. destruct (n <=? length (post p)) eqn:E.
  - apply Nat.leb_le in E. exists (skipn n (post p)). split; [|now apply skipn_clear].
    rewrite <- (firstn_clear [] (post p) H n E). symmetry. apply firstn_skipn.
  - apply Nat.leb_gt in E. exists []. split; [|constructor]. rewrite app_nil_r.
    rewrite (Forall_eq_repeat [] _ H) at 1. rewrite <- repeat_app. f_equal. lia.
Qed.

Definition visible (b : abatch) : list bool * list (list nat) :=
  visit_docs 0 (docs b) (repeat false (nf b), repeat [] (np b)).

Lemma build_shape p b : ResetInv p -> wf_batch b ->
  exists ti tp, Forall (eq false) ti /\ Forall (eq []) tp /\
    incl (snd (build p b)) = fst (visible b) ++ ti /\ post (snd (build p b)) = snd (visible b) ++ tp /\
    length (fst (visible b)) = nf b /\ length (snd (visible b)) = np b.
Proof.
  intros [Hi Hp] Hw.
  destruct (take_incl_split p (nf b) Hi) as (ti & Ei & Hti).
  destruct (take_post_split p (np b) Hp) as (tp & Ep & Htp).
  exists ti, tp. unfold build. cbn [snd incl post]. rewrite Ei, Ep.
  pose proof (visit_docs_split (nf b) (np b) (docs b) 0
                (repeat false (nf b) ++ ti, repeat [] (np b) ++ tp) (repeat false (nf b), repeat [] (np b)) ti tp) as H.
  destruct H as (H1 & H2 & H3 & H4).
  - unfold split_ok. cbn [fst snd]. now rewrite !repeat_length.
  - exact Hw.
  - unfold visible. repeat split; assumption.
Qed.

(* C10 (one step): a build on working memory that satisfies the reset invariant writes exactly what a
   build on fresh memory writes, and Reset re-establishes the invariant *)
Theorem build_reuse_eq_fresh p b : ResetInv p -> wf_batch b ->
  fst (build p b) = fst (build fresh b) /\ ResetInv (reset b (snd (build p b))).
Proof.
  intros HR Hw.
  assert (HF: ResetInv fresh) by (split; constructor).
  destruct (build_shape p b HR Hw) as (ti & tp & Hti & Htp & E1 & E2 & L1 & L2).
  destruct (build_shape fresh b HF Hw) as (ti' & tp' & _ & _ & E1' & E2' & _ & _).
  split.
  - unfold build in *. cbn [fst snd incl post] in *. rewrite E1, E2, E1', E2'.
    rewrite !firstn_app, <- L1, <- L2, !Nat.sub_diag, !firstn_all. cbn [firstn]. reflexivity.
  - unfold reset, ResetInv. cbn [incl post]. rewrite E1, E2, <- L1, <- L2, !clear_prefix_app. split.
    + apply Forall_app. split; [|exact Hti]. apply Forall_forall. intros x Hx. apply repeat_spec in Hx. now subst.
    + apply Forall_app. split; [|exact Htp]. apply Forall_forall. intros x Hx. apply repeat_spec in Hx. now subst.
Qed.

(* ---- histories: a pool of builder objects; each build takes any pooled object or a fresh one
   (sync.Pool), a successful build resets it and puts it back, a failed build drops it ---- *)
Inductive event := Build (pick : option nat) (b : abatch) (succeeds : bool).

Definition remove_nth {A} (k : nat) (l : list A) : list A := firstn k l ++ skipn (S k) l.

Definition hstep (pl : list pooled) (e : event) : (list bool * list (list nat)) * list pooled :=
  match e with
  | Build pick b ok =>
      let '(p, rest) := match pick with
                        | Some k => match nth_error pl k with Some p => (p, remove_nth k pl) | None => (fresh, pl) end
                        | None => (fresh, pl)
                        end in
      let '(out, p') := build p b in
      (out, if ok then reset b p' :: rest else rest)
  end.

Fixpoint hrun (pl : list pooled) (es : list event) : list (list bool * list (list nat)) :=
  match es with
  | [] => []
  | e :: r => let '(o, pl') := hstep pl e in o :: hrun pl' r
  end.

Definition batch_of (e : event) : abatch := match e with Build _ b _ => b end.

Lemma remove_nth_Forall {A} (P : A -> Prop) k l : Forall P l -> Forall P (remove_nth k l).
Proof.
  intros H. unfold remove_nth. apply Forall_app. split.
  - rewrite <- (firstn_skipn k l) in H. apply Forall_app in H. tauto.
  - rewrite <- (firstn_skipn (S k) l) in H. apply Forall_app in H. tauto.
Qed.

(* C10: whatever was built before (successfully or not), with whatever object the pool hands out,
   every build writes what a build on fresh memory writes *)
Theorem C10_history_independent : forall es pl, Forall ResetInv pl -> Forall (fun e => wf_batch (batch_of e)) es ->
  hrun pl es = map (fun e => fst (build fresh (batch_of e))) es.
Proof.
  induction es as [|e es IH]; intros pl Hpl Hw; [reflexivity|].
  inversion Hw as [|? ? Hwe Hwes]; subst. destruct e as [pick b ok]. cbn [hrun hstep batch_of map] in *.
  set (pr := match pick with
             | Some k => match nth_error pl k with Some p => (p, remove_nth k pl) | None => (fresh, pl) end
             | None => (fresh, pl) end).
  assert (Hpr: ResetInv (fst pr) /\ Forall ResetInv (snd pr)).
  { subst pr. destruct pick as [k|]; [|split; [split; constructor|exact Hpl]].
    destruct (nth_error pl k) as [p|] eqn:E; [|split; [split; constructor|exact Hpl]].
    split; [|now apply remove_nth_Forall]. cbn [fst].
    rewrite Forall_forall in Hpl. apply Hpl. eapply nth_error_In; eauto. }
  destruct pr as [p rest]. cbn [fst snd] in Hpr. destruct Hpr as [Hp Hrest].
  destruct (build_reuse_eq_fresh p b Hp Hwe) as [Heq Hinv].
  destruct (build p b) as [out p'] eqn:Eb. cbn [fst snd] in *.
  f_equal; [exact Heq|].
  apply IH; [|exact Hwes]. destruct ok; [constructor; assumption|assumption].
Qed.
Print Assumptions C10_history_independent.

(* non-vacuity and the role of the invariant: without Reset's clearing a large batch leaks into a
   small one *)
Definition big : abatch := {| nf := 2; np := 2; docs := [[(0, true, [0]); (1, true, [1])]; [(1, false, [1])]] |}.
Definition small : abatch := {| nf := 1; np := 1; docs := [[(0, false, [0])]] |}.
Example C10_leak_without_reset :
  fst (build (snd (build fresh big)) small) <> fst (build fresh small).
Proof. vm_compute. discriminate. Qed.
Example C10_example : wf_batch big /\ wf_batch small /\
  hrun [] [Build None big true; Build (Some 0) small true] = [fst (build fresh big); fst (build fresh small)].
Proof.
  split; [|split].
  - repeat constructor.
  - repeat constructor.
  - vm_compute. reflexivity.
Qed.
