(* The fields section (write.go persistFieldsSection -> segment.go loadFieldsNew / loadField):
   per field a record  uvarint(len name) name uvarint(#sections) { be16 type, be64 address }*,
   then the index  uvarint(#fields) { be64 offset of the record }*  to which the footer points.
   Theorem fields_section_roundtrip: the frozen reader's Layout.field_table, pointed at the index,
   returns exactly the names and (type, address) pairs that were written - for every list of fields
   and whatever precedes and follows the section.  (The reader's rule L-0 ignores a record at file
   offset 0; the section never starts there: the stored-fields region precedes it.) *)
From Coq Require Import List NArith Bool Lia.
Import ListNotations.
Require Import ZV.Opt ZV.Bytes ZV.Footer ZV.Layout ZV.LayoutProof ZV.Spec.
Open Scope N_scope.

Definition enc_section (s : N * N) : bytes := be 2 (fst s) ++ be 8 (snd s).
Definition enc_record (f : str * list (N * N)) : bytes :=
  uv (nlenb (fst f)) ++ fst f ++ uv (N.of_nat (length (snd f))) ++ flat_map enc_section (snd f).
(* record offsets: the running write position *)
Fixpoint rec_offsets (start : N) (fs : list (str * list (N * N))) : list N :=
  match fs with [] => [] | f :: r => start :: rec_offsets (start + nlenb (enc_record f)) r end.
Definition enc_fields (start : N) (fs : list (str * list (N * N))) : bytes :=
  flat_map enc_record fs ++ uv (N.of_nat (length fs)) ++ flat_map (be 8) (rec_offsets start fs).

Definition wf_section (s : N * N) : Prop := fst s < 256 ^ 2 /\ snd s < 256 ^ 8.
Definition wf_field (f : str * list (N * N)) : Prop :=
  u64 (nlenb (fst f)) /\ N.of_nat (length (snd f)) < max_count /\ Forall wf_section (snd f).

Lemma dec_section_app s rest : wf_section s -> dec_section (enc_section s ++ rest) = Some (s, rest).
Proof.
  intros [H1 H2]. unfold dec_section, enc_section. rewrite <- app_assoc.
  rewrite (unbe_be 2 (fst s) _ H1). cbn [bindo]. rewrite (unbe_be 8 (snd s) _ H2). cbn [bindo]. now destruct s.
Qed.

Lemma repeat_dec_sections : forall ss rest, Forall wf_section ss ->
  repeat_dec (length ss) dec_section (flat_map enc_section ss ++ rest) = Some (ss, rest).
Proof.
  induction ss as [|s ss IH]; intros rest H; [reflexivity|]. inversion H; subst.
  cbn [length flat_map repeat_dec]. rewrite <- app_assoc, dec_section_app by assumption. cbn [bindo].
  rewrite IH by assumption. reflexivity.
Qed.

Lemma repeat_dec_be8 : forall xs rest, Forall (fun x => x < 256 ^ 8) xs ->
  repeat_dec (length xs) (unbe 8) (flat_map (be 8) xs ++ rest) = Some (xs, rest).
Proof.
  induction xs as [|x xs IH]; intros rest H; [reflexivity|]. inversion H; subst.
  cbn [length flat_map repeat_dec]. rewrite <- app_assoc, (unbe_be 8 x) by assumption. cbn [bindo].
  rewrite IH by assumption. reflexivity.
Qed.

Lemma max_count_u64 n : n < max_count -> u64 n.
Proof. unfold max_count, u64. intros H. eapply N.lt_trans; [exact H|]. reflexivity. Qed.

(* one record, read at its offset *)
Lemma field_record_at (pre post : bytes) f : pre <> [] -> wf_field f ->
  field_record (pre ++ enc_record f ++ post) (nlenb pre) = Some (Some f).
Proof.
  intros Hne (Hn & Hc & Hs). unfold field_record.
  assert ((nlenb pre =? 0) = false) as ->.
  { apply N.eqb_neq. unfold nlenb. destruct pre; [contradiction|]. cbn [length]. lia. }
  unfold at_off, nlenb at 1. rewrite skip_n_app. cbn [bindo].
  unfold enc_record. rewrite <- !app_assoc. rewrite dec_uv_app by exact Hn. cbn [bindo].
  unfold nlenb. rewrite take_app. cbn [bindo].
  rewrite dec_uv_app by (now apply max_count_u64). cbn [bindo].
  unfold count_ok. apply N.ltb_lt in Hc. rewrite Hc. cbn [negb].
  rewrite Nnat.Nat2N.id, repeat_dec_sections by exact Hs. cbn [bindo]. now destruct f.
Qed.

(* all records, each read at its recorded offset *)
Lemma records_at : forall fs (pre post : bytes), pre <> [] -> Forall wf_field fs ->
  mapopt (field_record (pre ++ flat_map enc_record fs ++ post)) (rec_offsets (nlenb pre) fs) = Some (map Some fs).
Proof.
  induction fs as [|f fs IH]; intros pre post Hne H; [reflexivity|]. inversion H; subst.
  cbn [flat_map rec_offsets mapopt map]. rewrite <- app_assoc.
  rewrite (field_record_at pre (flat_map enc_record fs ++ post) f Hne) by assumption.
  specialize (IH (pre ++ enc_record f) post).
  assert (Hne': pre ++ enc_record f <> []) by (destruct pre; [contradiction|discriminate]).
  specialize (IH Hne' ltac:(assumption)).
  assert (E: nlenb (pre ++ enc_record f) = nlenb pre + nlenb (enc_record f)) by (unfold nlenb; rewrite app_length; lia).
  rewrite E in IH. rewrite <- app_assoc in IH. rewrite IH. reflexivity.
Qed.

Lemma rec_offsets_length start fs : length (rec_offsets start fs) = length fs.
Proof. revert start; induction fs as [|f fs IH]; intros start; cbn; [reflexivity|now rewrite IH]. Qed.

Lemma rec_offsets_bound : forall fs start bound,
  start + nlenb (flat_map enc_record fs) <= bound -> Forall (fun x => x < bound + 1) (rec_offsets start fs).
Proof.
  induction fs as [|f fs IH]; intros start bound H; [constructor|].
  cbn [flat_map rec_offsets] in *. unfold nlenb in *. rewrite app_length in H. constructor; [lia|].
  apply IH. lia.
Qed.

Theorem fields_section_roundtrip : forall (pre rest : bytes) fs,
  pre <> [] -> Forall wf_field fs -> N.of_nat (length fs) < max_count ->
  nlenb pre + nlenb (flat_map enc_record fs) < 256 ^ 8 ->
  field_table (pre ++ enc_fields (nlenb pre) fs ++ rest) (nlenb pre + nlenb (flat_map enc_record fs)) = Some (map Some fs).
Proof.
  intros pre rest fs Hne Hwf Hc Hsz. unfold field_table, enc_fields.
  set (recs := flat_map enc_record fs).
  replace (pre ++ (recs ++ uv (N.of_nat (length fs)) ++ flat_map (be 8) (rec_offsets (nlenb pre) fs)) ++ rest)
    with ((pre ++ recs) ++ uv (N.of_nat (length fs)) ++ flat_map (be 8) (rec_offsets (nlenb pre) fs) ++ rest)
    by (now rewrite <- !app_assoc).
  replace (nlenb pre + nlenb recs) with (N.of_nat (length (pre ++ recs))) by (unfold nlenb; rewrite app_length; lia).
  unfold at_off. rewrite skip_n_app. cbn [bindo].
  rewrite dec_uv_app by (now apply max_count_u64). cbn [bindo].
  unfold count_ok. pose proof Hc as Hc'. apply N.ltb_lt in Hc'. rewrite Hc'. cbn [negb].
  rewrite Nnat.Nat2N.id. rewrite <- (rec_offsets_length (nlenb pre) fs).
  rewrite repeat_dec_be8.
  - cbn [bindo].
    replace ((pre ++ recs) ++ uv (N.of_nat (length (rec_offsets (nlenb pre) fs))) ++ flat_map (be 8) (rec_offsets (nlenb pre) fs) ++ rest)
      with (pre ++ recs ++ (uv (N.of_nat (length (rec_offsets (nlenb pre) fs))) ++ flat_map (be 8) (rec_offsets (nlenb pre) fs) ++ rest))
      by (now rewrite <- !app_assoc).
    apply records_at; assumption.
  - eapply Forall_impl; [|apply (rec_offsets_bound fs (nlenb pre) (nlenb pre + nlenb recs)); apply N.le_refl].
    intros x Hx. cbn beta in Hx. fold recs in Hsz. revert Hsz Hx. generalize (256 ^ 8). intros; lia.
Qed.

(* non-vacuity: two fields with the three section slots zapx writes *)
Example fields_example :
  let fs := [([95; 105; 100], [(0, 17); (1, 0); (2, 0)]); ([98; 111; 100; 121], [(0, 40); (1, 0); (2, 0)])] in
  let pre := [1; 2; 3] in
  field_table (pre ++ enc_fields (nlenb pre) fs ++ [9; 9]) (nlenb pre + nlenb (flat_map enc_record fs)) = Some (map Some fs).
Proof. vm_compute. reflexivity. Qed.
