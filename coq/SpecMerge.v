(* The declarative specification of Merge (C05, C06, C13): the content of the merged segment as a
   function of the contents of the inputs and their deletion sets, and the returned doc-number maps. *)
From Coq Require Import List NArith Bool.
Import ListNotations.
Require Import Spec.
Open Scope N_scope.

Definition dropped : N := 18446744073709551615.        (* the all-ones sentinel *)

Definition memN (x : N) (l : list N) : bool := existsb (N.eqb x) l.

(* survivors numbered consecutively in segment order, then document order *)
Fixpoint renum_seg (k : nat) (d : N) (drops : list N) (next : N) : list N * N :=
  match k with
  | O => ([], next)
  | S k' => if memN d drops
            then let '(m, nx) := renum_seg k' (d + 1) drops next in (dropped :: m, nx)
            else let '(m, nx) := renum_seg k' (d + 1) drops (next + 1) in (next :: m, nx)
  end.
Fixpoint renum (segs : list (N * list N)) (next : N) : list (list N) * N :=
  match segs with
  | [] => ([], next)
  | (n, dr) :: r => let '(m, nx) := renum_seg (N.to_nat n) 0 dr next in
                    let '(ms, nx') := renum r nx in (m :: ms, nx')
  end.

Definition newnum (m : list N) (d : N) : N := nth (N.to_nat d) m dropped.
Definition survives (m : list N) (d : N) : bool := negb (newnum m d =? dropped).

(* ---- fields ---- *)
Definition merge_fields (cs : list content) : list str :=
  let all := ssort (flat_map c_fields cs) in
  (if existsb (seqb id_name) all then [id_name] else []) ++ filter (fun s => negb (seqb s id_name)) all.

(* ---- postings ---- *)
Definition remap_hits (m : list N) (hs : list hit) : list hit :=
  map (fun h => {| h_doc := newnum m (h_doc h); h_freq := h_freq h; h_norm := h_norm h; h_locs := h_locs h |})
      (filter (fun h => survives m (h_doc h)) hs).

Definition add_dict (m : list N) (acc : list (str * list hit)) (d : list (str * list hit)) : list (str * list hit) :=
  fold_left (fun a e => match remap_hits m (snd e) with
                        | [] => a
                        | hs => mupd (fst e) (fun o => (match o with None => [] | Some x => x end) ++ hs) a
                        end) d acc.

Definition merge_dict (cms : list (content * list N)) (f : str) : list (str * list hit) :=
  fold_left (fun acc cm => match mget f (c_dicts (fst cm)) with
                           | Some d => add_dict (snd cm) acc d
                           | None => acc end) cms [].

(* ---- doc values ---- *)
Definition merge_dv (cms : list (content * list N)) (f : str) : list (N * list str) :=
  flat_map (fun cm => match mget f (c_dv (fst cm)) with
                      | Some dv => flat_map (fun de => if survives (snd cm) (fst de) then [(newnum (snd cm) (fst de), snd de)] else []) dv
                      | None => [] end) cms.

(* ---- thesauri ---- *)
Definition merge_thes (cms : list (content * list N)) (th : str) : list (str * list (str * N)) :=
  fold_left (fun acc cm =>
               match mget th (c_thes (fst cm)) with
               | Some t =>
                   fold_left (fun a te =>
                                match map (fun p => (fst p, newnum (snd cm) (snd p))) (filter (fun p => survives (snd cm) (snd p)) (snd te)) with
                                | [] => a
                                | ps => mupd (fst te) (fun o => fold_right pins (match o with None => [] | Some x => x end) ps) a
                                end) t acc
               | None => acc end) cms [].

Definition nonempty {X Y} (l : list (X * list Y)) : list (X * list Y) :=
  filter (fun e => match snd e with [] => false | _ => true end) l.

Definition spec_merge (cs : list content) (drops : list (list N)) : content * list (list N) :=
  let '(maps, n) := renum (combine (map c_ndocs cs) drops) 0 in
  let cms := combine cs maps in
  let fs := merge_fields cs in
  let dv := nonempty (map (fun f => (f, merge_dv cms f)) fs) in
  ({| c_ndocs := n;
      c_fields := fs;
      c_dicts := nonempty (map (fun f => (f, merge_dict cms f)) fs);
      c_stored := flat_map (fun cm => flat_map (fun ds => if survives (snd cm) (fst ds) then [snd ds] else []) (indexed (c_stored (fst cm)))) cms;
      c_dvfields := map fst dv;
      c_dv := dv;
      c_thes := nonempty (map (fun f => (f, merge_thes cms f)) fs) |}, maps).
