(* C13: the thesaurus produced by the merge algorithm's model (Enum.enumerate + MergeLoop.loop with
   the surviving, renumbered (synonym, document) pairs of every input entry) holds, for every
   left-hand term, exactly the set of pairs that the executable specification SpecMerge.merge_thes
   holds - the specification the correspondence run compares with the files zapx writes.  The
   algorithm collects the pairs of a term in a bitmap (a set); both sides are compared as the
   sorted, duplicate-free list `fold_right pins []` of their pairs. *)
From Coq Require Import List NArith Lia Bool PeanoNat.
Import ListNotations.
Require Import Spec StrOrd Enum EnumProof MergeLoop MergeRefine SpecMerge.
Open Scope N_scope.

Definition pair := (str * N)%type.
Definition plt (a b : pair) : Prop := scmp (fst a) (fst b) = Lt \/ (fst a = fst b /\ snd a < snd b).
Fixpoint psorted (l : list pair) : Prop :=
  match l with [] => True | x :: r => (forall y, In y r -> plt x y) /\ psorted r end.

Lemma plt_irrefl a : ~ plt a a.
Proof. intros [H|[_ H]]; [now apply (scmp_lt_irrefl (fst a))|lia]. Qed.
Lemma plt_trans a b c : plt a b -> plt b c -> plt a c.
Proof.
  intros [H|[E H]] [H'|[E' H']].
  - left. eapply scmp_lt_trans; eauto.
  - left. now rewrite <- E'.
  - left. now rewrite E.
  - right. split; [congruence|lia].
Qed.
Lemma plt_asym a b : plt a b -> plt b a -> False.
Proof. intros H1 H2. exact (plt_irrefl a (plt_trans a b a H1 H2)). Qed.

Lemma pins_in x : forall l y, In y (pins x l) <-> y = x \/ In y l.
Proof.
  induction l as [|z l IH]; intros y; cbn [pins].
  - cbn. split; [intros [<-|[]]; now left|intros [->|[]]; now left].
  - destruct (scmp (fst x) (fst z)) eqn:E.
    + destruct (snd x ?= snd z) eqn:E2.
      * apply scmp_eq in E. apply N.compare_eq in E2. assert (x = z) by (destruct x, z; cbn in *; congruence). subst z.
        cbn [In]. split; [intros H; now right|intros [->|H]; [now left|exact H]].
      * cbn [In]. split; [intros [<-|H]; [now left|now right]|intros [->|H]; [now left|now right]].
      * cbn [In]. rewrite IH. tauto.
    + cbn [In]. split; [intros [<-|H]; [now left|now right]|intros [->|H]; [now left|now right]].
    + cbn [In]. rewrite IH. tauto.
Qed.

Lemma pins_sorted x : forall l, psorted l -> psorted (pins x l).
Proof.
  induction l as [|z l IH]; intros H; cbn [pins]; [cbn; split; [intros ? []|exact I]|].
  cbn [psorted] in H. destruct H as [H1 H2]. destruct (scmp (fst x) (fst z)) eqn:E.
  - destruct (snd x ?= snd z) eqn:E2.
    + cbn [psorted]. now split.
    + cbn [psorted]. split; [|now split]. apply scmp_eq in E. apply N.compare_lt_iff in E2.
      assert (Hxz: plt x z) by (right; split; [exact E|exact E2]).
      intros y [<-|Hy]; [exact Hxz|]. eapply plt_trans; [exact Hxz|now apply H1].
    + cbn [psorted]. split; [|now apply IH]. apply scmp_eq in E. apply N.compare_gt_iff in E2.
      intros y Hy. apply pins_in in Hy as [->|Hy]; [right; split; [now symmetry|exact E2]|now apply H1].
  - cbn [psorted]. split; [|now split].
    assert (Hxz: plt x z) by (left; exact E).
    intros y [<-|Hy]; [exact Hxz|]. eapply plt_trans; [exact Hxz|now apply H1].
  - cbn [psorted]. split; [|now apply IH]. apply scmp_lt_gt in E.
    intros y Hy. apply pins_in in Hy as [->|Hy]; [left; exact E|now apply H1].
Qed.

Lemma fold_pins_in : forall l acc y, In y (fold_right pins acc l) <-> In y acc \/ In y l.
Proof.
  induction l as [|x l IH]; intros acc y; cbn [fold_right]; [cbn; tauto|].
  rewrite pins_in, IH. cbn [In]. split; [intros [->|[H|H]]; auto|intros [H|[<-|H]]; auto].
Qed.
Lemma fold_pins_sorted : forall l acc, psorted acc -> psorted (fold_right pins acc l).
Proof. induction l as [|x l IH]; intros acc H; cbn [fold_right]; [exact H|]. now apply pins_sorted, IH. Qed.

Lemma psorted_unique : forall l1 l2, psorted l1 -> psorted l2 -> (forall y, In y l1 <-> In y l2) -> l1 = l2.
Proof.
  induction l1 as [|a r1 IH]; intros l2 H1 H2 Hm.
  - destruct l2 as [|b r2]; [reflexivity|]. exfalso. apply (Hm b). now left.
  - destruct l2 as [|b r2]; [exfalso; apply (Hm a); now left|].
    cbn [psorted] in H1, H2. destruct H1 as [Ha Hs1], H2 as [Hb Hs2].
    assert (Eab: a = b).
    { destruct (proj1 (Hm a) (or_introl eq_refl)) as [E|Ina]; [now symmetry|].
      destruct (proj2 (Hm b) (or_introl eq_refl)) as [E|Inb]; [exact E|].
      exfalso. exact (plt_asym a b (Ha b Inb) (Hb a Ina)). }
    subst b. f_equal. apply IH; [exact Hs1|exact Hs2|].
    intros t. split; intros Hin.
    + destruct (proj1 (Hm t) (or_intror Hin)) as [E|Hin2]; [|exact Hin2]. subst t. exfalso. exact (plt_irrefl a (Ha a Hin)).
    + destruct (proj2 (Hm t) (or_intror Hin)) as [E|Hin1]; [|exact Hin1]. subst t. exfalso. exact (plt_irrefl a (Hb a Hin)).
Qed.

Definition norm (l : list pair) : list pair := fold_right pins [] l.

(* ---- the specification's thesaurus merge, key by key ---- *)
Definition vget (k : str) (m : list (str * list pair)) : list pair := oget pair (mget k m).

Definition add_thes_g (g : list pair -> list pair) (acc : list (str * list pair)) (t : list (str * list pair)) :=
  fold_left (fun a te => match g (snd te) with
                         | [] => a
                         | ps => mupd (fst te) (fun o => fold_right pins (match o with None => [] | Some x => x end) ps) a
                         end) t acc.

Lemma add_thes_get g k : forall t acc, skeys acc -> skeys t ->
  skeys (add_thes_g g acc t) /\ vget k (add_thes_g g acc t) = fold_right pins (vget k acc) (piece pair g t k).
Proof.
  induction t as [|[tm h] t IH]; intros acc Ha Ht.
  - split; [exact Ha|]. reflexivity.
  - cbn [skeys] in Ht. destruct Ht as [Ht1 Ht2]. unfold add_thes_g. cbn [fold_left fst snd].
    match goal with |- context [fold_left _ t ?X] => set (acc' := X) end.
    assert (Ha': skeys acc') by (subst acc'; destruct (g h); [exact Ha|now apply mupd_skeys]).
    destruct (IH acc' Ha' Ht2) as [Hs Hg]. fold (add_thes_g g acc' t). split; [exact Hs|]. rewrite Hg.
    unfold piece at 2. cbn [mget]. destruct (seqb k tm) eqn:E.
    + apply seqb_true in E. subst tm.
      assert (piece pair g t k = []) as -> by (unfold piece; rewrite (mget_below k t Ht1); reflexivity).
      cbn [fold_right]. subst acc'. unfold vget. destruct (g h) as [|a l] eqn:Eg; [reflexivity|].
      rewrite mget_mupd by exact Ha. rewrite seqb_refl. cbn [oget]. destruct (mget k acc); reflexivity.
    + fold (piece pair g t k). subst acc'. unfold vget. destruct (g h) as [|a l]; [reflexivity|].
      rewrite mget_mupd by exact Ha. now rewrite E.
Qed.

Definition fold_thes (tgs : list (list (str * list pair) * (list pair -> list pair))) : list (str * list pair) :=
  fold_left (fun acc tg => add_thes_g (snd tg) acc (fst tg)) tgs [].

Lemma fold_thes_get k : forall tgs acc, skeys acc -> Forall (fun tg => skeys (fst tg)) tgs ->
  vget k (fold_left (fun acc tg => add_thes_g (snd tg) acc (fst tg)) tgs acc) =
  fold_left (fun v p => fold_right pins v p) (map (fun tg => piece pair (snd tg) (fst tg) k) tgs) (vget k acc).
Proof.
  induction tgs as [|[t g] tgs IH]; intros acc Ha Ht; [reflexivity|]. inversion Ht as [|? ? Ht1 Ht2]; subst.
  cbn [fold_left map fst snd] in *. destruct (add_thes_get g k t acc Ha Ht1) as [Hs Hg].
  rewrite (IH _ Hs Ht2), Hg. reflexivity.
Qed.

Lemma fold_left_pins_spec : forall ps v, psorted v ->
  psorted (fold_left (fun v p => fold_right pins v p) ps v) /\
  (forall y, In y (fold_left (fun v p => fold_right pins v p) ps v) <-> In y v \/ In y (concat ps)).
Proof.
  induction ps as [|p ps IH]; intros v Hv; cbn [fold_left concat].
  - split; [exact Hv|]. intros y. cbn. tauto.
  - destruct (IH (fold_right pins v p) (fold_pins_sorted p v Hv)) as [H1 H2]. split; [exact H1|].
    intros y. rewrite H2, fold_pins_in, in_app_iff. tauto.
Qed.

(* ---- algorithm = specification, as sets of pairs ---- *)
Theorem thes_merge_refines_spec : forall (pl : nat -> N -> list pair) its tgs k,
  Forall asc its -> nozero its -> rel_from pair pl 0 its tgs -> Forall (fun tg : list (str * list pair) * (list pair -> list pair) => skeys (fst tg)) tgs ->
  norm (assoc pair k (MergeLoop.merge_dict pair pl its)) = vget k (fold_thes tgs).
Proof.
  intros pl its tgs k Ha Hz R Hs.
  destruct (merge_dict_spec pair pl its k Ha Hz) as [-> _].
  rewrite hits_of_filter, (enumerate_key its k Ha Hz), (hits_of_ideal pair pl k its tgs 0%nat R).
  unfold fold_thes. rewrite (fold_thes_get k tgs [] I Hs). cbn [vget mget oget].
  destruct (fold_left_pins_spec (map (fun tg : list (str * list pair) * (list pair -> list pair) => piece pair (snd tg) (fst tg) k) tgs) [] I) as [S1 S2].
  apply psorted_unique; [apply fold_pins_sorted; exact I|exact S1|].
  intros y. unfold norm. rewrite fold_pins_in, S2. cbn. tauto.
Qed.

(* instantiation: SpecMerge.merge_thes is such a fold *)
Definition remap_pairs (m : list N) (ps : list pair) : list pair :=
  map (fun p => (fst p, newnum m (snd p))) (filter (fun p => survives m (snd p)) ps).
Definition tgs_of (cms : list (content * list N)) (th : str) : list (list (str * list pair) * (list pair -> list pair)) :=
  flat_map (fun cm => match mget th (c_thes (fst cm)) with Some t => [(t, remap_pairs (snd cm))] | None => [] end) cms.

Lemma spec_merge_thes_is_fold cms th : SpecMerge.merge_thes cms th = fold_thes (tgs_of cms th).
Proof.
  unfold SpecMerge.merge_thes, fold_thes, tgs_of, pair.
  generalize (@nil (str * list (str * N))).
  induction cms as [|cm cms IH]; intros acc; [reflexivity|]. cbn [fold_left flat_map].
  destruct (mget th (c_thes (fst cm))) as [t|]; cbn [app fold_left fst snd]; apply IH.
Qed.

Theorem C13_merge_algorithm_refines_spec : forall (pl : nat -> N -> list pair) its cms th k,
  Forall asc its -> nozero its -> rel_from pair pl 0 its (tgs_of cms th) ->
  Forall (fun tg : list (str * list pair) * (list pair -> list pair) => skeys (fst tg)) (tgs_of cms th) ->
  norm (assoc pair k (MergeLoop.merge_dict pair pl its)) = oget pair (mget k (SpecMerge.merge_thes cms th)).
Proof. intros. rewrite spec_merge_thes_is_fold. now apply thes_merge_refines_spec. Qed.
Print Assumptions C13_merge_algorithm_refines_spec.
