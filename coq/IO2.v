(* C17, generalised sink: ANY write to the destination may fail, as decided by an arbitrary oracle
   (transient failures, destinations that reject large writes, short writes), not only "the first k
   bytes fit".  bufio.Writer semantics as in IO.v (buffer, large-write bypass, sticky error).
   Theorems: (1) if the final checked Flush reports success, no write to the destination failed and
   the destination holds exactly all the bytes in order; (2) if any write to the destination failed,
   the final checked Flush reports an error. *)
From Coq Require Import List Arith Lia Bool PeanoNat.
Import ListNotations.

Section IO2.
Variable byte : Type.
Notation bytes := (list byte).

(* the oracle: given the call index and the bytes, how many are accepted; fewer than offered = failure *)
Variable accept : nat -> bytes -> nat.

Record sink := { written : bytes; ncalls : nat; failed : bool }.

Definition sink_write (s : sink) (p : bytes) : sink * bool :=
  let k := Nat.min (accept (ncalls s) p) (length p) in
  let e := negb (Nat.eqb k (length p)) in
  ({| written := written s ++ firstn k p; ncalls := S (ncalls s); failed := failed s || e |}, e).

Record bw := { buf : bytes; cap : nat; err : bool; dst : sink }.
Definition avail (b : bw) : nat := cap b - length (buf b).

Definition flush (b : bw) : bw * bool :=
  if err b then (b, true)
  else match buf b with
       | [] => (b, false)
       | _ => let '(s', e) := sink_write (dst b) (buf b) in
              if e then ({| buf := buf b; cap := cap b; err := true; dst := s' |}, true)
              else ({| buf := []; cap := cap b; err := false; dst := s' |}, false)
       end.

Definition direct_or_copy (b : bw) (p : bytes) : bw * bool :=
  if length p <=? avail b then ({| buf := buf b ++ p; cap := cap b; err := err b; dst := dst b |}, false)
  else let '(s', e) := sink_write (dst b) p in
       ({| buf := buf b; cap := cap b; err := e; dst := s' |}, e).

Definition write (b : bw) (p : bytes) : bw * bool :=
  if err b then (b, true)
  else if length p <=? avail b then ({| buf := buf b ++ p; cap := cap b; err := false; dst := dst b |}, false)
  else match buf b with
       | [] => direct_or_copy b p
       | _ => let k := avail b in
              let b1 := {| buf := buf b ++ firstn k p; cap := cap b; err := false; dst := dst b |} in
              let '(b2, e) := flush b1 in
              if e then (b2, true) else direct_or_copy b2 (skipn k p)
       end.

Definition run (b : bw) (ps : list bytes) : bw := fold_left (fun b p => fst (write b p)) ps b.
Definition fresh (c : nat) (s : sink) : bw := {| buf := []; cap := c; err := false; dst := s |}.

(* invariant: the sticky error records exactly whether a destination write failed, and while it is
   clear the destination plus the buffer hold the payload so far *)
Definition Inv (init payload : bytes) (f0 : bool) (b : bw) : Prop :=
  (failed (dst b) = f0 || err b) /\ (err b = false -> written (dst b) ++ buf b = init ++ payload).

Lemma sink_write_spec s p : let '(s', e) := sink_write s p in
  failed s' = failed s || e /\ (e = false -> written s' = written s ++ p).
Proof.
  unfold sink_write. cbn. split; [reflexivity|]. intros H. apply negb_false_iff, Nat.eqb_eq in H.
  rewrite H. now rewrite firstn_all.
Qed.

Lemma flush_inv init pl f0 b : Inv init pl f0 b -> let '(b', e) := flush b in
  Inv init pl f0 b' /\ (e = false -> err b' = false /\ buf b' = []) /\ (e = true -> err b' = true).
Proof.
  intros [HF HP]. unfold flush. destruct (err b) eqn:Ee.
  - split; [split; [now rewrite Ee|congruence]|]. split; [discriminate|auto].
  - destruct (buf b) as [|x r] eqn:Eb.
    + split; [split; [now rewrite Ee|intros _; rewrite Eb; now apply HP]|]. split; [auto|discriminate].
    + pose proof (sink_write_spec (dst b) (x :: r)) as S. destruct (sink_write (dst b) (x :: r)) as [s' e0].
      destruct S as [S1 S2]. destruct e0; unfold Inv; cbn.
      * split; [split; [rewrite S1, HF; destruct f0; destruct (err b); reflexivity|discriminate]|]. split; [discriminate|auto].
      * split; [split|split; [auto|discriminate]]; cbn.
        -- rewrite S1, HF. destruct f0; destruct (err b); try reflexivity; discriminate.
        -- intros _. rewrite app_nil_r, (S2 eq_refl). now apply HP.
Qed.

Lemma direct_inv init pl f0 b p : Inv init pl f0 b -> err b = false -> buf b = [] \/ length p <= avail b ->
  let '(b', e) := direct_or_copy b p in Inv init (pl ++ p) f0 b' /\ (e = true -> err b' = true).
Proof.
  intros [HF HP] He Hb. unfold direct_or_copy. destruct (length p <=? avail b) eqn:El.
  - split; [split; cbn|congruence]; [now rewrite He in *|]. intros _. rewrite app_assoc, (HP He), <- app_assoc. reflexivity.
  - destruct Hb as [Hb|Hb]; [|apply Nat.leb_gt in El; lia].
    pose proof (sink_write_spec (dst b) p) as S. destruct (sink_write (dst b) p) as [s' e0]. destruct S as [S1 S2].
    split; [split; cbn|auto].
    + rewrite S1, HF, He. now rewrite orb_false_r.
    + intros He0. subst. pose proof (HP He) as H0. rewrite Hb, app_nil_r in H0.
      rewrite Hb, app_nil_r, (S2 eq_refl), H0, app_assoc. reflexivity.
Qed.

Lemma write_inv init pl f0 b p : Inv init pl f0 b -> Inv init (pl ++ p) f0 (fst (write b p)).
Proof.
  intros HI. pose proof HI as [HF HP]. unfold write. destruct (err b) eqn:Ee; cbn [fst].
  - split; [rewrite Ee; exact HF|congruence].
  - destruct (length p <=? avail b) eqn:El; cbn [fst].
    + split; cbn; [exact HF|]. intros _. rewrite app_assoc, (HP eq_refl), <- app_assoc. reflexivity.
    + destruct (buf b) as [|x r] eqn:Eb.
      * pose proof (direct_inv init pl f0 b p HI Ee (or_introl Eb)) as D.
        destruct (direct_or_copy b p) as [b' e]. cbn [fst]. apply D.
      * rewrite <- Eb in *.
        set (k := avail b).
        set (b1 := {| buf := buf b ++ firstn k p; cap := cap b; err := false; dst := dst b |}).
        assert (HI1: Inv init (pl ++ firstn k p) f0 b1).
        { split; cbn; [exact HF|]. intros _. rewrite app_assoc, (HP eq_refl), <- app_assoc. reflexivity. }
        pose proof (flush_inv _ _ _ _ HI1) as Fl. destruct (flush b1) as [b2 e].
        destruct Fl as (HI2 & Hok & Hbad). destruct e; cbn [fst].
        -- destruct HI2 as [H1 H2]. split; [exact H1|]. intros He2. specialize (Hbad eq_refl). congruence.
        -- destruct (Hok eq_refl) as [He2 Hb2].
           pose proof (direct_inv init (pl ++ firstn k p) f0 b2 (skipn k p) HI2 He2 (or_introl Hb2)) as D.
           destruct (direct_or_copy b2 (skipn k p)) as [b3 e3]. cbn [fst]. destruct D as [D _].
           rewrite <- app_assoc, firstn_skipn in D. exact D.
Qed.

Lemma run_inv init f0 : forall ps pl b, Inv init pl f0 b -> Inv init (pl ++ concat ps) f0 (run b ps).
Proof.
  induction ps as [|p ps IH]; intros pl b HI; cbn [run fold_left concat].
  - now rewrite app_nil_r.
  - rewrite app_assoc. apply IH. now apply write_inv.
Qed.

(* C17, for every failure oracle: success of the final checked Flush means nothing failed and the
   destination is complete; any failed destination write makes the final Flush fail *)
Theorem C17_any_failure_surfaces c s ps : failed s = false ->
  let '(b', e) := flush (run (fresh c s) ps) in
  (e = false -> failed (dst b') = false /\ written (dst b') = written s ++ concat ps) /\
  (failed (dst b') = true -> e = true).
Proof.
  intros Hs.
  assert (HI: Inv (written s) (concat ps) false (run (fresh c s) ps)).
  { apply (run_inv (written s) false ps [] (fresh c s)). split; cbn; [now rewrite Hs|]. intros _. now rewrite !app_nil_r. }
  pose proof (flush_inv _ _ _ _ HI) as Fl. destruct (flush (run (fresh c s) ps)) as [b' e].
  destruct Fl as ([H1 H2] & Hok & Hbad). cbn in H1. split.
  - intros He. destruct (Hok He) as [He' Hb]. split; [now rewrite H1, He'|]. specialize (H2 He'). now rewrite Hb, app_nil_r in H2.
  - intros Hf. destruct e; [reflexivity|]. destruct (Hok eq_refl) as [He' _]. rewrite H1, He' in Hf. discriminate.
Qed.
End IO2.
Print Assumptions C17_any_failure_surfaces.
