(* The translator tie: every definition in gen/KernelGen.v (regenerated from /repo's Go source on
   every run) is proved equal to the hand-written / frozen definition the rest of the development
   uses.  A change to one of those Go functions changes KernelGen.v; either these proofs still go
   through (a harmless rewrite) or coqc fails here and ./check reports the broken obligation. *)
From Coq Require Import List NArith ZArith Lia Bool.
From Coq Require Import ZifyN ZifyBool ZifyNat.
Require Import gen.KernelGen Kernel Bytes.
Import ListNotations.
Open Scope N_scope.
Ltac Zify.zify_post_hook ::= Z.div_mod_to_equations.

Lemma tie_constants :
  go_Version = 16 /\ go_FooterSize = 52 /\ go_fieldNotUninverted = 2 ^ 64 - 1 /\ go_termNotEncoded = 0 /\
  go_docDropped = 2 ^ 64 - 1 /\ go_mask31Bits = m31 /\ go_FSTValEncoding1Hit = onehit_tag /\
  go_FSTValEncodingMask = 13835058055282163712 /\ go_FSTValEncodingGeneral = 0 /\
  go_DocNum1HitFinished = 2 ^ 64 - 1 /\ go_LegacyChunkMode = 1024 /\ go_DefaultChunkMode = 1026 /\
  go_termSeparator = 255 /\ go_SectionInvertedTextIndex = 0 /\ go_SectionFaissVectorIndex = 1 /\ go_SectionSynonymIndex = 2.
Proof. repeat split; reflexivity. Qed.
Print Assumptions tie_constants.

Lemma tie_getChunkSize mode card maxDocs : card < 2 ^ 64 ->
  go_getChunkSize mode card maxDocs = chunk_size_spec mode card maxDocs.
Proof.
  intros Hc. unfold go_getChunkSize, chunk_size_spec, wrap.
  rewrite (N.mod_small (card / 1024 + 1)); [reflexivity|].
  assert (card / 1024 < 2 ^ 54).
  { apply N.div_lt_upper_bound; [lia|]. change (1024 * 2 ^ 54) with (2 ^ 64). exact Hc. }
  change (2 ^ 64) with (2 ^ 54 * 1024). lia.
Qed.
Print Assumptions tie_getChunkSize.

Lemma land_m31_le n : N.land m31 n <= m31.
Proof.
  rewrite land_m31. change (2 ^ 31) with 2147483648. unfold m31.
  pose proof (N.mod_lt n 2147483648 ltac:(lia)). lia.
Qed.

Lemma tie_enc1hit d n : go_FSTValEncode1Hit d n = enc1hit d n.
Proof.
  unfold go_FSTValEncode1Hit, enc1hit, wrap. change go_FSTValEncoding1Hit with onehit_tag. change go_mask31Bits with m31.
  rewrite N.mod_small; [reflexivity|].
  rewrite N.shiftl_mul_pow2. pose proof (land_m31_le n) as H. unfold m31 in *.
  change (2 ^ 31) with 2147483648. change (2 ^ 64) with 18446744073709551616. lia.
Qed.
Print Assumptions tie_enc1hit.

Lemma tie_dec1hit v : go_FSTValDecode1Hit v = dec1hit v.
Proof. reflexivity. Qed.
Print Assumptions tie_dec1hit.

Lemma tie_under32 x : go_under32Bits x = (x <=? m31).
Proof. reflexivity. Qed.
Print Assumptions tie_under32.

Lemma lor_1_even v : N.even v = true -> N.lor v 1 = v + 1.
Proof.
  intros He. rewrite <- N.lxor_lor.
  - symmetry. apply N.add_nocarry_lxor. apply N.bits_inj_0. intros i. rewrite N.land_spec.
    destruct (N.eq_dec i 0) as [->|Hi].
    + rewrite N.bit0_odd, <- N.negb_even, He. reflexivity.
    + assert (N.testbit 1 i = false) as ->; [|apply andb_false_r].
      apply N.bits_above_log2. change (N.log2 1) with 0. lia.
  - apply N.bits_inj_0. intros i. rewrite N.land_spec.
    destruct (N.eq_dec i 0) as [->|Hi].
    + rewrite N.bit0_odd, <- N.negb_even, He. reflexivity.
    + assert (N.testbit 1 i = false) as ->; [|apply andb_false_r].
      apply N.bits_above_log2. change (N.log2 1) with 0. lia.
Qed.

Lemma tie_encodeFreqHasLocs freq hl : freq < 2 ^ 63 -> go_encodeFreqHasLocs freq hl = enc_fhl freq hl.
Proof.
  intros Hf. unfold go_encodeFreqHasLocs, enc_fhl, wrap. rewrite N.shiftl_mul_pow2. change (2 ^ 1) with 2.
  rewrite N.mod_small by (change (2 ^ 64) with (2 * 2 ^ 63); lia).
  destruct hl; [|lia].
  rewrite lor_1_even; [lia|]. rewrite N.mul_comm. rewrite N.even_mul. reflexivity.
Qed.
Print Assumptions tie_encodeFreqHasLocs.

Lemma tie_decodeFreqHasLocs v : go_decodeFreqHasLocs v = dec_fhl v.
Proof.
  unfold go_decodeFreqHasLocs, dec_fhl. rewrite N.shiftr_div_pow2. change (2 ^ 1) with 2. f_equal.
  change 1 with (N.ones 1). rewrite N.land_ones. change (2 ^ 1) with 2.
  rewrite <- N.bit0_mod, N.bit0_odd. destruct (N.odd v); reflexivity.
Qed.
Print Assumptions tie_decodeFreqHasLocs.

Lemma tie_encodeSynonym sid doc : sid < 2 ^ 32 -> go_encodeSynonym sid doc = enc_pair32 sid doc.
Proof.
  intros Hs. unfold go_encodeSynonym, enc_pair32, wrap. rewrite N.mod_small; [reflexivity|].
  rewrite N.shiftl_mul_pow2. change (2 ^ 64) with (2 ^ 32 * 2 ^ 32). nia.
Qed.
Print Assumptions tie_encodeSynonym.

Lemma tie_decodeSynonym c : go_decodeSynonym c = dec_pair32 c.
Proof. reflexivity. Qed.
Print Assumptions tie_decodeSynonym.

Lemma tie_getVectorCode doc score : doc < 2 ^ 32 -> go_getVectorCode doc score = enc_pair32 doc score.
Proof.
  intros Hs. unfold go_getVectorCode, enc_pair32, wrap. rewrite N.mod_small; [reflexivity|].
  rewrite N.shiftl_mul_pow2. change (2 ^ 64) with (2 ^ 32 * 2 ^ 32). nia.
Qed.
Print Assumptions tie_getVectorCode.

(* numUvarintBytes x = number of bytes binary.PutUvarint emits for x *)
Lemma numUvarint_loop : forall f1 f2 x n, x < 128 ^ N.of_nat f1 -> x < 128 ^ N.of_nat f2 -> f2 <> O -> n + N.of_nat f1 < 2 ^ 64 ->
  snd (go_numUvarintBytes_loop0 f1 x n) + 1 = n + N.of_nat (length (uv_enc f2 x)).
Proof.
  induction f1 as [|f1 IH]; intros f2 x n H1 H2 Hf Hn.
  - change (128 ^ N.of_nat 0) with 1 in H1. assert (x = 0) by lia. subst. destruct f2; [congruence|]. cbn. lia.
  - destruct f2 as [|f2]; [congruence|].
    cbn [go_numUvarintBytes_loop0 uv_enc].
    destruct (128 <=? x) eqn:E.
    + assert ((x <? 128) = false) as -> by lia. cbn [length].
      rewrite N.shiftr_div_pow2. change (2 ^ 7) with 128.
      unfold wrap. rewrite (N.mod_small (n + 1)) by lia.
      rewrite Nnat.Nat2N.inj_succ, N.pow_succ_r' in H1.
      rewrite Nnat.Nat2N.inj_succ, N.pow_succ_r' in H2.
      assert (Hq1: x / 128 < 128 ^ N.of_nat f1) by (apply N.div_lt_upper_bound; lia).
      assert (Hq2: x / 128 < 128 ^ N.of_nat f2) by (apply N.div_lt_upper_bound; lia).
      assert (Hf2: f2 <> O).
      { intros ->. change (128 ^ N.of_nat 0) with 1 in Hq2. assert (x / 128 = 0) by lia. lia. }
      rewrite (IH f2 (x / 128) (n + 1) Hq1 Hq2 Hf2) by lia.
      lia.
    + assert ((x <? 128) = true) as -> by lia. cbn [snd length]. lia.
Qed.

Lemma tie_numUvarintBytes x : x < 2 ^ 64 -> go_numUvarintBytes x = N.of_nat (length (uv x)).
Proof.
  intros Hx. unfold go_numUvarintBytes, uv.
  pose proof (numUvarint_loop 64 10 x 0) as H.
  destruct (go_numUvarintBytes_loop0 64 x 0) as [x' n'] eqn:E. cbn [snd] in H.
  unfold wrap.
  assert (Hle: n' + 1 = 0 + N.of_nat (length (uv_enc 10 x))).
  { apply H.
    - eapply N.lt_trans; [exact Hx|]. reflexivity.
    - eapply N.lt_trans; [exact Hx|]. reflexivity.
    - discriminate.
    - reflexivity. }
  assert (Hlen: (length (uv_enc 10 x) <= 10)%nat).
  { clear. generalize 10%nat. intros f. revert x. induction f as [|f IH]; intros x; cbn; [lia|].
    destruct (x <? 128); cbn; [lia|]. specialize (IH (x / 128)). lia. }
  rewrite N.mod_small by lia. lia.
Qed.
Print Assumptions tie_numUvarintBytes.

(* the order in which persistFooter writes the footer and the positions loadConfig reads it from are
   those of the frozen v16 layout: numDocs, storedIndexOffset, fieldsIndexOffset, sectionsIndexOffset,
   docValueOffset (u64), chunkMode, version, crc (u32), all big-endian, 52 bytes *)
Definition v16_footer_fields : list (N * N) := [(1, 8); (2, 8); (3, 8); (4, 8); (5, 8); (6, 4); (7, 4); (8, 4)].
Fixpoint positions_from_end (total : N) (fs : list (N * N)) : list (N * N * N * N * N) :=
  match fs with
  | [] => []
  | (tag, w) :: r => positions_from_end (total - w) r ++ [(tag, total, w, w, 0)]
  end.
Lemma tie_footer_order :
  go_footer_write_order = map (fun f => (fst f, snd f, 0)) v16_footer_fields /\
  go_footer_read_layout = positions_from_end 52 v16_footer_fields.
Proof. split; reflexivity. Qed.
Print Assumptions tie_footer_order.
