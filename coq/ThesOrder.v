(* The (synonym, document) pairs of a thesaurus term are kept canonically: sorted by synonym string,
   then document, without repetitions (Spec.pins; the frozen reader's Layout.syn_pairs applies the
   same insertion to whatever order the 64-bit codes come in).  This file proves that the canonical
   list depends only on the SET of pairs: neither the order in which the builder or a merge hands
   out internal synonym ids, nor the order of the codes in the bitmap, nor repetitions matter
   (C12, C13: "inputs assign different internal ids to the same synonym"). *)
From Coq Require Import List NArith Bool.
Import ListNotations.
Require Import ZV.Spec ZV.StrOrd.
Open Scope N_scope.

Definition plt (x y : str * N) : Prop :=
  scmp (fst x) (fst y) = Lt \/ (scmp (fst x) (fst y) = Eq /\ snd x < snd y).

Lemma plt_irrefl x : ~ plt x x.
Proof. intros [H|[_ H]]; [now apply (scmp_lt_irrefl (fst x))|now apply (N.lt_irrefl (snd x))]. Qed.

Lemma plt_trans x y z : plt x y -> plt y z -> plt x z.
Proof.
  intros [H1|[E1 L1]] [H2|[E2 L2]].
  - left. eapply scmp_lt_trans; eauto.
  - left. apply scmp_eq in E2. now rewrite <- E2.
  - left. apply scmp_eq in E1. now rewrite E1.
  - right. apply scmp_eq in E1. apply scmp_eq in E2. split; [rewrite E1, E2; apply scmp_refl|eapply N.lt_trans; eauto].
Qed.

Lemma plt_asym x y : plt x y -> plt y x -> False.
Proof. intros A B. apply (plt_irrefl x). eapply plt_trans; eauto. Qed.

Fixpoint psorted (l : list (str * N)) : Prop :=
  match l with [] => True | x :: r => (forall y, In y r -> plt x y) /\ psorted r end.

Lemma pins_in x : forall l t, In t (pins x l) <-> t = x \/ In t l.
Proof.
  induction l as [|y r IH]; intros t; cbn [pins]; [cbn; intuition|].
  destruct (scmp (fst x) (fst y)) eqn:E.
  - destruct (snd x ?= snd y) eqn:C.
    + assert (x = y) as ->.
      { destruct x, y. cbn [fst snd] in *. apply scmp_eq in E. apply N.compare_eq in C. now subst. }
      cbn. intuition.
    + cbn. intuition.
    + cbn [In]. rewrite IH. intuition.
  - cbn. intuition.
  - cbn [In]. rewrite IH. intuition.
Qed.

Lemma pins_sorted x : forall l, psorted l -> psorted (pins x l).
Proof.
  induction l as [|y r IH]; intros H; cbn [pins]; [cbn; split; [intros ? []|exact I]|].
  cbn [psorted] in H. destruct H as [Hy Hr].
  destruct (scmp (fst x) (fst y)) eqn:E.
  - destruct (snd x ?= snd y) eqn:C.
    + cbn [psorted]. split; assumption.
    + assert (P: plt x y) by (right; split; [exact E|now apply N.compare_lt_iff]).
      cbn [psorted]. split; [|split; assumption].
      intros z [<-|Hz]; [exact P|]. eapply plt_trans; [exact P|now apply Hy].
    + assert (P: plt y x).
      { right. split; [now rewrite scmp_antisym, E|now apply N.compare_gt_iff]. }
      cbn [psorted]. split; [|now apply IH].
      intros z Hz. apply pins_in in Hz. destruct Hz as [->|Hz]; [exact P|now apply Hy].
  - assert (P: plt x y) by (left; exact E).
    cbn [psorted]. split; [|split; assumption].
    intros z [<-|Hz]; [exact P|]. eapply plt_trans; [exact P|now apply Hy].
  - assert (P: plt y x) by (left; now apply scmp_lt_gt).
    cbn [psorted]. split; [|now apply IH].
    intros z Hz. apply pins_in in Hz. destruct Hz as [->|Hz]; [exact P|now apply Hy].
Qed.

Lemma psorted_unique : forall l1 l2, psorted l1 -> psorted l2 -> (forall t, In t l1 <-> In t l2) -> l1 = l2.
Proof.
  induction l1 as [|x r1 IH]; intros [|y r2] H1 H2 Hm.
  - reflexivity.
  - exfalso. apply (proj2 (Hm y)). now left.
  - exfalso. apply (proj1 (Hm x)). now left.
  - cbn [psorted] in H1, H2. destruct H1 as [Hx H1], H2 as [Hy H2].
    assert (x = y) as ->.
    { destruct (proj1 (Hm x) (or_introl eq_refl)) as [E|Hin]; [now symmetry|].
      destruct (proj2 (Hm y) (or_introl eq_refl)) as [E|Hin']; [exact E|].
      exfalso. eapply plt_asym; [apply (Hy x Hin)|apply (Hx y Hin')]. }
    f_equal. apply IH; [exact H1|exact H2|].
    intros t. split; intros Hin.
    + destruct (proj1 (Hm t) (or_intror Hin)) as [E|H]; [|exact H].
      exfalso. subst t. apply (plt_irrefl y). now apply Hx.
    + destruct (proj2 (Hm t) (or_intror Hin)) as [E|H]; [|exact H].
      exfalso. subst t. apply (plt_irrefl y). now apply Hy.
Qed.

Definition canon (l : list (str * N)) : list (str * N) := fold_right pins [] l.
Lemma canon_sorted l : psorted (canon l).
Proof. induction l as [|x r IH]; cbn [canon fold_right]; [exact I|]. now apply pins_sorted. Qed.
Lemma canon_in l : forall t, In t (canon l) <-> In t l.
Proof.
  induction l as [|x r IH]; intros t; cbn [canon fold_right]; [reflexivity|].
  rewrite pins_in. fold (canon r). rewrite IH. cbn. intuition.
Qed.

(* the canonical pair list depends only on the set of pairs *)
Theorem canon_order_free l1 l2 : (forall t, In t l1 <-> In t l2) -> canon l1 = canon l2.
Proof.
  intros H. apply psorted_unique; [apply canon_sorted|apply canon_sorted|].
  intros t. now rewrite !canon_in.
Qed.

(* the specification inserts front to back (fold_left); same list *)
Lemma pins_left_sorted : forall l acc, psorted acc -> psorted (fold_left (fun a x => pins x a) l acc).
Proof. induction l as [|x r IH]; intros acc H; cbn [fold_left]; [exact H|]. apply IH. now apply pins_sorted. Qed.
Lemma pins_left_in : forall l acc t, In t (fold_left (fun a x => pins x a) l acc) <-> In t acc \/ In t l.
Proof.
  induction l as [|x r IH]; intros acc t; cbn [fold_left]; [cbn; intuition|].
  rewrite IH, pins_in. cbn. intuition.
Qed.
Theorem insertion_order_free l : fold_left (fun a x => pins x a) l [] = canon l.
Proof.
  apply psorted_unique; [apply pins_left_sorted; exact I|apply canon_sorted|].
  intros t. rewrite pins_left_in, canon_in. cbn. intuition.
Qed.

Example canon_example :
  canon [([98], 2); ([97], 5); ([98], 1); ([97], 5)] = [([97], 5); ([98], 1); ([98], 2)] /\
  canon [([97], 5); ([98], 1); ([98], 2); ([98], 1)] = [([97], 5); ([98], 1); ([98], 2)].
Proof. vm_compute. split; reflexivity. Qed.
