(* Entry point of the extracted model: one request (an s-expression) in, one answer out.
   `orc` is the blob oracle (vellum / roaring / snappy decoding done by the harness co-process). *)
From Coq Require Import List NArith ZArith Bool.
Import ListNotations.
Require Import Sx Bytes Footer Ref Spec Wire Layout SpecMerge.
Open Scope N_scope.

(* ---- C20: (1 ops) with op 0 = AddRef, 1 = DecRef/Close ---- *)
Definition ref_op_of (n : N) : Ref.op := if n =? 0 then Ref.AddRef else Ref.DecRef.
Fixpoint ref_trace (s : Ref.st) (ops : list Ref.op) : list sx :=
  match ops with
  | [] => []
  | o :: r => let s' := Ref.step s o in
              L [A (Z.to_N (Ref.refs s')); sxb (Ref.mapped s'); A (N.of_nat (Ref.releases s'))] :: ref_trace s' r
  end.
Definition h_ref (args : list sx) : sx :=
  match args with
  | [ops] => match getLA ops with
             | Some l => L (ref_trace Ref.init (map ref_op_of l))
             | None => sxerr 1
             end
  | _ => sxerr 1
  end.

(* ---- C04: (2 file) -> (mem_len numDocs stored fields sections dv chunkMode version crc_stored crc_computed) ---- *)
Definition h_footer (args : list sx) : sx :=
  match args with
  | [B file] =>
      match Footer.parse file with
      | Some (mem, f, cr) =>
          L [A (N.of_nat (length mem)); A (numDocs f); A (storedIdx f); A (fieldsIdx f); A (sectionsIdx f);
             A (dvOff f); A (chunkMode f); A (version f); A cr;
             A (crc32 (firstn (length file - 4) file))]
      | None => sxerr 2
      end
  | _ => sxerr 2
  end.

(* ---- C01/C02/C03/C12: (3 batch) -> spec content ---- *)
Definition h_spec_build (args : list sx) : sx :=
  match args with
  | [b] => match batch_of_sx b with
           | Some bt => sx_of_content (spec_of_batch bt)
           | None => sxerr 3
           end
  | _ => sxerr 3
  end.

(* ---- C09 and all file checks: (4 file dvchunk) -> parsed content; blobs decoded by the oracle ---- *)
Definition orc_fst (orc : sx -> sx) (bs : list N) : option (list (str * N)) :=
  match orc (L [A 1; B bs]) with
  | L kvs => mapo (fun e => match e with L [B k; A v] => Some (k, v) | _ => None end) kvs
  | _ => None
  end.
Definition orc_nums (kind : N) (orc : sx -> sx) (bs : list N) : option (list N) :=
  match orc (L [A kind; B bs]) with
  | L xs => mapo getA xs
  | _ => None
  end.
Definition orc_snappy (orc : sx -> sx) (bs : list N) : option (list N) :=
  match orc (L [A 4; B bs]) with B d => Some d | _ => None end.

Definition h_parse (orc : sx -> sx) (args : list sx) : sx :=
  match args with
  | [B file; A dvchunk] =>
      match parse_v16 (orc_fst orc) (orc_nums 2 orc) (orc_nums 3 orc) (orc_snappy orc) dvchunk file with
      | Some c => sx_of_content c
      | None => sxerr 4
      end
  | _ => sxerr 4
  end.

(* ---- C05/C06/C13: (5 (contents) (drops)) -> (content maps) ---- *)
Definition h_spec_merge (args : list sx) : sx :=
  match args with
  | [L cs; L ds] =>
      match mapo content_of_sx cs, mapo getLA ds with
      | Some cs', Some ds' => let '(c, maps) := spec_merge cs' ds' in L [sx_of_content c; L (map sxLA maps)]
      | _, _ => sxerr 5
      end
  | _ => sxerr 5
  end.

Definition handle (orc : sx -> sx) (req : sx) : sx :=
  match req with
  | L (A k :: args) =>
      if k =? 1 then h_ref args
      else if k =? 2 then h_footer args
      else if k =? 3 then h_spec_build args
      else if k =? 4 then h_parse orc args
      else if k =? 5 then h_spec_merge args
      else sxerr 0
  | _ => sxerr 0
  end.

(* the driver works on characters *)
Definition handle_chars (orc : list N -> list N) (line : list N) : list N :=
  match Sx.parse line with
  | Some req =>
      let o := fun q => match Sx.parse (orc (Sx.print q)) with Some a => a | None => sxerr 255 end in
      Sx.print (handle o req)
  | None => Sx.print (sxerr 254)
  end.
