(* Entry point of the extracted model: one request (an s-expression) in, one answer out.
   `orc` is the blob oracle (vellum / roaring / snappy decoding done by the harness co-process). *)
From Coq Require Import List NArith ZArith Bool.
Import ListNotations.
Require Import Sx Bytes Kernel Footer Ref Spec Wire Layout SpecMerge Iter Iter1 Automata Dict Pool BuildReuse IO Cancel VecSpec VecCache VecFault Enum BuildAlg.
Open Scope N_scope.

(* ---- C20: (1 ops) with op 0 = AddRef, 1 = DecRef/Close ---- *)
Definition ref_op_of (n : N) : Ref.op := if n =? 0 then Ref.AddRef else if n =? 1 then Ref.DecRef else Ref.Use.
Fixpoint ref_trace (s : Ref.st) (ops : list Ref.op) : list sx :=
  match ops with
  | [] => []
  | o :: r => let s' := Ref.step s o in
              L [A (Z.to_N (Ref.refs s')); sxb (Ref.mapped s'); A (N.of_nat (Ref.releases s'))] :: ref_trace s' r
  end.
Definition h_ref (args : list sx) : sx :=
  match args with
  | [ops] => match getLA ops with
             | Some l => L (ref_trace Ref.init (map ref_op_of l))
             | None => sxerr 1
             end
  | _ => sxerr 1
  end.

(* ---- C04: (2 file) -> (mem_len numDocs stored fields sections dv chunkMode version crc_stored crc_computed) ---- *)
Definition h_footer (args : list sx) : sx :=
  match args with
  | [B file] =>
      match Footer.parse file with
      | Some (mem, f, cr) =>
          L [A (N.of_nat (length mem)); A (numDocs f); A (storedIdx f); A (fieldsIdx f); A (sectionsIdx f);
             A (dvOff f); A (chunkMode f); A (version f); A cr;
             A (crc32 (firstn (length file - 4) file))]
      | None => sxerr 2
      end
  | _ => sxerr 2
  end.

(* ---- C01/C02/C03/C12: (3 batch) -> spec content ---- *)
Definition h_spec_build (args : list sx) : sx :=
  match args with
  | [b] => match batch_of_sx b with
           | Some bt => sx_of_content (spec_of_batch bt)
           | None => sxerr 3
           end
  | _ => sxerr 3
  end.

(* ---- C09 and all file checks: (4 file dvchunk) -> parsed content; blobs decoded by the oracle ---- *)
Definition orc_fst (orc : sx -> sx) (bs : list N) : option (list (str * N)) :=
  match orc (L [A 1; B bs]) with
  | L kvs => mapo (fun e => match e with L [B k; A v] => Some (k, v) | _ => None end) kvs
  | _ => None
  end.
Definition orc_nums (kind : N) (orc : sx -> sx) (bs : list N) : option (list N) :=
  match orc (L [A kind; B bs]) with
  | L xs => mapo getA xs
  | _ => None
  end.
Definition orc_snappy (orc : sx -> sx) (bs : list N) : option (list N) :=
  match orc (L [A 4; B bs]) with B d => Some d | _ => None end.

Definition h_parse (orc : sx -> sx) (args : list sx) : sx :=
  match args with
  | [B file; A dvchunk] =>
      match parse_v16 (orc_fst orc) (orc_nums 2 orc) (orc_nums 3 orc) (orc_snappy orc) dvchunk file with
      | Some c => sx_of_content c
      | None => sxerr 4
      end
  | _ => sxerr 4
  end.

(* ---- C05/C06/C13: (5 (contents) (drops)) -> (content maps) ---- *)
Definition h_spec_merge (args : list sx) : sx :=
  match args with
  | [L cs; L ds] =>
      match mapo content_of_sx cs, mapo getLA ds with
      | Some cs', Some ds' => let '(c, maps) := spec_merge cs' ds' in L [sx_of_content c; L (map sxLA maps)]
      | _, _ => sxerr 5
      end
  | _ => sxerr 5
  end.

(* ---- C07: (6 mode ndocs onehit hits runs) ----
   hits : ((doc freq norm (loc ...)) ...) with opaque locations;
   runs : ((exceptIsNil (E...) replaced (R...) inclFN inclLocs (target ...)) ...), target 0 = Next;
   answer : per run, per call: () for nil or (doc freq norm (loc ...)) *)
Definition ihit_of_sx (s : sx) : option (Iter.hit sx) :=
  match s with
  | L [A d; A fr; A nm; L ls] => Some (d, {| Iter.e_freq := fr; Iter.e_norm := nm; Iter.e_locs := ls |})
  | _ => None
  end.
Definition sx_of_iout (o : Iter.out sx) : sx :=
  match o with
  | None => L []
  | Some (d, fr, nm, ls) => L [A d; A fr; A nm; L ls]
  end.
Definition iter_run (P : list (Iter.hit sx)) (cs : N) (onehit : bool) (r : sx) : option sx :=
  match r with
  | L [exNil; ex; repl; rs; fn; lc; ops] =>
      match getBool exNil, getLA ex, getBool repl, getLA rs, getBool fn, getBool lc, getLA ops with
      | Some exNil', Some ex', Some repl', Some rs', Some fn', Some lc', Some ops' =>
          let E := fun d => existsb (N.eqb d) ex' in
          let outs :=
            if onehit then
              match P with
              | (d, e) :: _ => run1 sx (Iter.e_norm sx e) fn' (init1 d E) ops'
              | [] => []
              end
            else if repl' then
              run_impl sx P cs fn' lc' {| allr := P; actr := rs'; shared := false; rd := None |} ops'
            else if exNil' then run_impl sx P cs fn' lc' (init_clean sx P) ops'
            else run_impl sx P cs fn' lc' (init_filtered sx P E) ops' in
          Some (L (map sx_of_iout outs))
      | _, _, _, _, _, _, _ => None
      end
  | _ => None
  end.
Definition h_iter (args : list sx) : sx :=
  match args with
  | [A mode; A ndocs; oh; L hs; L runs] =>
      match getBool oh, mapo ihit_of_sx hs with
      | Some oh', Some P =>
          match chunk_size_spec mode (N.of_nat (length P)) ndocs with
          | (_, true) => sxerr 61
          | (cs, false) =>
              match mapo (iter_run P cs oh') runs with
              | Some rs => L rs
              | None => sxerr 62
              end
          end
      | _, _ => sxerr 63
      end
  | _ => sxerr 64
  end.

(* ---- C08: (7 file field aut lo hi) -> ((term count) ...) as DictionaryIterator reports them ---- *)
Fixpoint re_of_sx (fuel : nat) (s : sx) : option re :=
  match fuel with
  | O => None
  | S f =>
    match s with
    | L [A 0] => Some REmpty
    | L [A 1] => Some REps
    | L [A 2; A c] => Some (RChr c)
    | L [A 3] => Some RAny
    | L [A 4; a; b] => match re_of_sx f a, re_of_sx f b with Some x, Some y => Some (RCat x y) | _, _ => None end
    | L [A 5; a; b] => match re_of_sx f a, re_of_sx f b with Some x, Some y => Some (RAlt x y) | _, _ => None end
    | L [A 6; a] => match re_of_sx f a with Some x => Some (RStar x) | None => None end
    | _ => None
    end
  end.
Definition aut_of_sx (s : sx) : option aut :=
  match s with
  | L [A 0] => Some AAll
  | L [A 1] => Some ANever
  | L [A 2; B t] => Some (AExact t)
  | L [A 3; B t] => Some (APrefix t)
  | L [A 4; B q; A d] => Some (ALev q (N.to_nat d))
  | L [A 5; r] => match re_of_sx 64 r with Some x => Some (ARegex x) | None => None end
  | _ => None
  end.
Definition bound_of_sx (s : sx) : option (option str) :=
  match s with L [] => Some None | L [B b] => Some (Some b) | _ => None end.
Definition h_dict (orc : sx -> sx) (args : list sx) : sx :=
  match args with
  | [B file; B field; a; lo; hi] =>
      match aut_of_sx a, bound_of_sx lo, bound_of_sx hi with
      | Some a', Some lo', Some hi' =>
          match dict_entries (orc_fst orc) (orc_nums 2 orc) file field with
          | Some es => L [L (map (fun e => L [B (fst e); A (snd e)]) (dict_iter read_fixed es a' lo' hi'));
                          A (N.of_nat (length es))]
          | None => sxerr 71
          end
      | _, _, _ => sxerr 72
      end
  | _ => sxerr 73
  end.

(* ---- C11: (a calls) with call 0 = disciplined reader call, 1 = the pinned early-stopped visit;
   answer: the largest number of simultaneous copies of one scratch object after the history ---- *)
Definition h_pool (args : list sx) : sx :=
  match args with
  | [cs] => match getLA cs with
            | Some l =>
                match run_calls Pool.init 1%nat (map (fun n => if n =? 0 then Disciplined else EarlyVisitPinned) l) with
                | Some s => A (N.of_nat (max_copies s))
                | None => sxerr 101
                end
            | None => sxerr 102
            end
  | _ => sxerr 103
  end.

(* ---- C10: (18 events), event = (ok nf np ((docs) ...)) with doc = ((field dv (pid ...)) ...);
   every successful build puts its reset working memory back and the next build reuses it ---- *)
Definition adoc_of_sx (s : sx) : option adoc :=
  match s with
  | L fis => mapo (fun fi => match fi with
                             | L [A f; dv; pids] =>
                                 match getBool dv, getLA pids with
                                 | Some dv', Some ps => Some (N.to_nat f, dv', map N.to_nat ps)
                                 | _, _ => None end
                             | _ => None end) fis
  | _ => None
  end.
Definition event_of_sx (s : sx) : option event :=
  match s with
  | L [ok; A f; A p; L ds] =>
      match getBool ok, mapo adoc_of_sx ds with
      | Some ok', Some ds' => Some (Build (Some 0%nat) {| nf := N.to_nat f; np := N.to_nat p; docs := ds' |} ok')
      | _, _ => None
      end
  | _ => None
  end.
Definition h_reuse (args : list sx) : sx :=
  match args with
  | [L es] =>
      match mapo event_of_sx es with
      | Some es' => L (map (fun o => L [L (map sxb (fst o)); L (map (fun l => sxLA (map N.of_nat l)) (snd o))]) (hrun [] es'))
      | None => sxerr 121
      end
  | _ => sxerr 122
  end.

(* ---- C17: (b cap limit (size ...)) : a buffered writer of capacity cap over a sink that accepts
   `limit` bytes in total; the writes (results ignored) then the final checked Flush;
   answer: (flush_error sink_length) ---- *)
Definition h_io (args : list sx) : sx :=
  match args with
  | [A cap; lim; sizes] =>
      match getLA sizes, lim with
      | Some szs, L l =>
          let limit := match l with [A k] => Some (N.to_nat k) | _ => None end in
          let s0 := {| IO.written := @nil unit; IO.limit := limit |} in
          let ps := map (fun n => repeat tt (N.to_nat n)) szs in
          let '(b', e) := IO.flush unit (IO.run unit (IO.fresh unit (N.to_nat cap) s0) ps) in
          L [sxb e; A (N.of_nat (length (IO.written unit (IO.dst unit b'))))]
      | _, _ => sxerr 111
      end
  | _ => sxerr 112
  end.

(* ---- C18: (e p (event ...)) with event = size+1 for a write of `size` bytes, 0 for a poll;
   answer: () cancelled or (written) ---- *)
Definition h_cancel (args : list sx) : sx :=
  match args with
  | [A p; evs] =>
      match getLA evs with
      | Some l =>
          match exec (N.to_nat p) 0 (map (fun n => if n =? 0 then Poll else W (N.to_nat (n - 1))) l) 0 with
          | Cancelled => L []
          | Done w => L [A (N.of_nat w)]
          end
      | None => sxerr 141
      end
  | _ => sxerr 142
  end.

(* ---- C14/C15: vector specification ---- *)
Definition sx_of_vfield (v : vfield) : sx :=
  L [B (vf_name v); A (vf_dims v); B (vf_sim v); B (vf_opt v);
     L (map (fun dv => L [A (fst dv); sxLA (snd dv)]) (vf_vecs v))].
Definition vfield_of_sx (s : sx) : option vfield :=
  match s with
  | L [B n; A d; B sim; B opt; L vs] =>
      match mapo (fun e => match e with L [A doc; bits] => match getLA bits with Some b => Some (doc, b) | None => None end | _ => None end) vs with
      | Some vs' => Some {| vf_name := n; vf_dims := d; vf_sim := sim; vf_opt := opt; vf_vecs := vs' |}
      | None => None
      end
  | _ => None
  end.
(* (10 batch) -> vector fields of the batch *)
Definition h_spec_vec (args : list sx) : sx :=
  match args with
  | [b] => match batch_of_sx b with Some bt => L (map sx_of_vfield (spec_vfields bt)) | None => sxerr 161 end
  | _ => sxerr 162
  end.
(* (13 ((vfields) ...) (maps ...)) -> merged vector fields *)
Definition h_merge_vec (args : list sx) : sx :=
  match args with
  | [L cs; L ms] =>
      match mapo (fun c => match c with L vs => mapo vfield_of_sx vs | _ => None end) cs, mapo getLA ms with
      | Some cs', Some ms' => L (map sx_of_vfield (merge_vfields cs' ms'))
      | _, _ => sxerr 191
      end
  | _ => sxerr 192
  end.
(* (d ((doc key bits) ...) (except ...) eligible k) with eligible = () or ((doc ...)) ->
   ((top-k) (all admissible candidates, best first)) *)
Definition cand_of_sx (s : sx) : option cand := match s with L [A d; A k; A b] => Some (d, k, b) | _ => None end.
Definition sx_of_cand (c : cand) : sx := L [A (fst (fst c)); A (snd (fst c)); A (snd c)].
Definition h_vec_search (args : list sx) : sx :=
  match args with
  | [L cs; ex; el; A k] =>
      match mapo cand_of_sx cs, getLA ex, (match el with L [] => Some None | L [e] => match getLA e with Some l => Some (Some l) | None => None end | _ => None end) with
      | Some cs', Some ex', Some el' =>
          L [L (map sx_of_cand (spec_search cs' ex' el' k));
             L (map sx_of_cand (sort_by_key (filter (admissible ex' el') cs')))]
      | _, _, _ => sxerr 131
      end
  | _ => sxerr 132
  end.

(* ---- C16: (c (event ...)) with event (0 (except ...)) open, (1) close-handle, (2 idle) expiry pass;
   answer: after every event (cached created released handles) of the cache machine ---- *)
Definition vc_event_of_sx (s : sx) : option VecCache.op :=
  match s with
  | L [A 0; ex] => match getLA ex with Some l => Some (VecCache.Open (fun d => existsb (Nat.eqb d) (map N.to_nat l))) | None => None end
  | L [A 1] => Some VecCache.CloseH
  | L [A 2; idle] => match getBool idle with Some b => Some (VecCache.Tick b) | None => None end
  | _ => None
  end.
Fixpoint vc_trace (s : VecCache.st) (ops : list VecCache.op) : list sx :=
  match ops with
  | [] => []
  | o :: r => let s' := VecCache.step (VecCache.open_fixed []) s o in
              L [sxb (match VecCache.cache s' with Some _ => true | None => false end);
                 A (N.of_nat (VecCache.created s')); A (N.of_nat (VecCache.released s')); A (N.of_nat (VecCache.handles s'))]
              :: vc_trace s' r
  end.
Definition h_veccache (args : list sx) : sx :=
  match args with
  | [L evs] => match mapo vc_event_of_sx evs with
               | Some ops => L (vc_trace VecCache.init ops)
               | None => sxerr 121
               end
  | _ => sxerr 122
  end.

(* ---- C19: (f kind fields op n): kind 0 build with fields (ivf ...), kind 1 merge with fields
   ((inputs ivf) ...); the n-th call of operation op fails (op 7 = no fault);
   answer: (error calls-per-operation opened every-index-closed-exactly-once) ---- *)
Definition opk_of_N (n : N) : option opk :=
  if n =? 0 then Some Factory else if n =? 1 then Some SetDM else if n =? 2 then Some Train
  else if n =? 3 then Some Add else if n =? 4 then Some WriteIdx else if n =? 5 then Some ReadIdx
  else if n =? 6 then Some Recon else None.
Definition all_ops : list opk := [Factory; SetDM; Train; Add; WriteIdx; ReadIdx; Recon].
Definition balancedb (s : est) : bool :=
  forallb (fun i => Nat.eqb (count_occ Nat.eq_dec (closed s) i) 1) (seq 0 (opened s)) &&
  forallb (fun i => Nat.ltb i (opened s)) (closed s).
Definition h_vecfault (args : list sx) : sx :=
  match args with
  | [A kind; L fields; A op; A n] =>
      let fails := fun o k => match opk_of_N op with Some o' => opk_eqb o o' && Nat.eqb k (N.to_nat n) | None => false end in
      let r := if kind =? 0
               then match mapo getBool fields with Some fs => Some (VecFault.build fails false fs) | None => None end
               else match mapo (fun f => match f with L [A k; ivf] => match getBool ivf with Some b => Some (N.to_nat k, b) | None => None end | _ => None end) fields with
                    | Some fs => Some (VecFault.merge fails fs) | None => None end in
      match r with
      | Some (f, s) => L [sxb f; L (map (fun o => A (N.of_nat (VecFault.count o (calls s)))) all_ops);
                         A (N.of_nat (opened s)); sxb (balancedb s)]
      | None => sxerr 151
      end
  | _ => sxerr 152
  end.

(* ---- C06/C13: (20 ((key val)...)...) -> ((key idx val)...): the merge enumerator ---- *)
Definition h_enum (args : list sx) : sx :=
  match args with
  | [L lists] =>
      match mapo (fun l => match l with
                           | L es => mapo (fun e => match e with L [B k; A v] => Some (k, v) | _ => None end) es
                           | _ => None end) lists with
      | Some its => L (map (fun t => match t with (k, i, v) => L [B k; A (N.of_nat i); A v] end) (Enum.enumerate its))
      | None => sxerr 20
      end
  | _ => sxerr 20
  end.

(* ---- C01/C10: (21 batch seed) -> the dictionaries computed by the builder ALGORITHM (ids in
   first-seen order, hits appended per document, keys sorted last) with term orders scrambled by seed ---- *)
Definition h_builder (args : list sx) : sx :=
  match args with
  | [b; A seed] => match batch_of_sx b with
                   | Some bt => L (map (fun e => L [B (fst e); sx_of_dict (snd e)]) (run_build bt seed))
                   | None => sxerr 21
                   end
  | _ => sxerr 21
  end.

(* ---- C03: (22 batch) -> the doc values computed from the postings (writeDicts' doc-value pass) ---- *)
Definition h_dvbuild (args : list sx) : sx :=
  match args with
  | [b] => match batch_of_sx b with
           | Some bt => L (map (fun e => L [B (fst e); L (map (fun de => L [A (fst de); L (map B (snd de))]) (snd e))]) (dv_run bt))
           | None => sxerr 22
           end
  | _ => sxerr 22
  end.

(* ---- C02: (23 batch) -> the stored values per document as the builder's bucket pass produces them ---- *)
Definition h_storedbuild (args : list sx) : sx :=
  match args with
  | [b] => match batch_of_sx b with
           | Some bt => L (map (fun d => L (map sx_of_sval d)) (stored_run bt))
           | None => sxerr 23
           end
  | _ => sxerr 23
  end.

Definition handle (orc : sx -> sx) (req : sx) : sx :=
  match req with
  | L (A k :: args) =>
      if k =? 1 then h_ref args
      else if k =? 2 then h_footer args
      else if k =? 3 then h_spec_build args
      else if k =? 4 then h_parse orc args
      else if k =? 5 then h_spec_merge args
      else if k =? 6 then h_iter args
      else if k =? 7 then h_dict orc args
      else if k =? 10 then h_pool args
      else if k =? 11 then h_io args
      else if k =? 14 then h_cancel args
      else if k =? 16 then h_spec_vec args
      else if k =? 19 then h_merge_vec args
      else if k =? 13 then h_vec_search args
      else if k =? 12 then h_veccache args
      else if k =? 15 then h_vecfault args
      else if k =? 18 then h_reuse args
      else if k =? 20 then h_enum args
      else if k =? 21 then h_builder args
      else if k =? 22 then h_dvbuild args
      else if k =? 23 then h_storedbuild args
      else sxerr 0
  | _ => sxerr 0
  end.

(* the driver works on characters *)
Definition handle_chars (orc : list N -> list N) (line : list N) : list N :=
  match Sx.parse line with
  | Some req =>
      let o := fun q => match Sx.parse (orc (Sx.print q)) with Some a => a | None => sxerr 255 end in
      Sx.print (handle o req)
  | None => Sx.print (sxerr 254)
  end.
