(* C02 / C09: the frozen reader's stored-field decoder (Layout.stored_doc / dec_stored_meta) inverts
   the documented stored-document encoding (new.go writeStoredFields / merge.go):
     uvarint |meta|, uvarint |data|, meta, data
     meta = uvarint |_id| ++ per stored value: uvarint field, typ, offset, length, #array positions, positions
     data = _id bytes ++ snappy(concatenation of the values)
   found through the 8-byte big-endian entry of the document in the stored index. *)
From Coq Require Import List NArith ZArith Lia Bool.
From Coq Require Import ZifyN ZifyNat ZifyBool.
Import ListNotations.
Require Import Opt Bytes Footer Spec Layout LayoutProof.
Open Scope N_scope.

Section St.
Variable snappy_enc : bytes -> bytes.
Variable dec_snappy : bytes -> option bytes.
Hypothesis snappy_ok : forall x, dec_snappy (snappy_enc x) = Some x.
Variable ft : list frec.

Record ent := { e_fid : N; e_typ : N; e_val : bytes; e_ap : list N }.

Definition wf_ent (e : ent) : Prop :=
  u64 (e_fid e) /\ u64 (e_typ e) /\ u64 (nlenb (e_val e)) /\
  N.of_nat (length (e_ap e)) < max_count /\ Forall u64 (e_ap e) /\
  exists nm, field_name ft (e_fid e) = Some nm.

Fixpoint enc_ents (off : N) (es : list ent) : bytes :=
  match es with
  | [] => []
  | e :: r => uv (e_fid e) ++ uv (e_typ e) ++ uv off ++ uv (nlenb (e_val e)) ++
              uv (N.of_nat (length (e_ap e))) ++ flat_map uv (e_ap e) ++ enc_ents (off + nlenb (e_val e)) r
  end.

Definition name_of (e : ent) : str := match field_name ft (e_fid e) with Some nm => nm | None => [] end.
Definition sval_of (e : ent) : sval := {| s_field := name_of e; s_typ := e_typ e; s_val := e_val e; s_ap := e_ap e |}.

Lemma enc_ents_length_ge es off : (length es <= length (enc_ents off es))%nat.
Proof.
  revert off; induction es as [|e es IH]; intros off; cbn [enc_ents length]; [lia|].
  specialize (IH (off + nlenb (e_val e))). rewrite !app_length.
  pose proof (uv_nonempty (e_fid e)) as H. destruct (uv (e_fid e)); [congruence|]. cbn [length]. lia.
Qed.

Lemma dec_stored_meta_ok : forall es pre post fuel,
  Forall wf_ent es -> u64 (nlenb pre + nlenb (concat (map e_val es))) ->
  (length es <= fuel)%nat ->
  dec_stored_meta fuel ft (enc_ents (nlenb pre) es) (pre ++ concat (map e_val es) ++ post) = Some (map sval_of es).
Proof.
  induction es as [|e es IH]; intros pre post fuel Hwf Hu Hf.
  - destruct fuel; reflexivity.
  - inversion Hwf as [|? ? He Hes]; subst.
    destruct He as (H1 & H2 & H3 & H4 & H5 & nm & H6).
    destruct fuel as [|fuel]; [cbn in Hf; lia|].
    cbn [enc_ents map concat] in *.
    assert (Hne: exists b bs, uv (e_fid e) ++ uv (e_typ e) ++ uv (nlenb pre) ++ uv (nlenb (e_val e)) ++
               uv (N.of_nat (length (e_ap e))) ++ flat_map uv (e_ap e) ++ enc_ents (nlenb pre + nlenb (e_val e)) es = b :: bs).
    { pose proof (uv_nonempty (e_fid e)) as Hn. destruct (uv (e_fid e)) as [|b bs]; [congruence|]. eexists; eexists; reflexivity. }
    destruct Hne as (b & bs & Hne). cbn [dec_stored_meta]. rewrite Hne. rewrite <- Hne. clear Hne b bs.
    assert (Hpre: u64 (nlenb pre)) by (unfold u64, nlenb in *; rewrite app_length in Hu; lia).
    rewrite dec_uv_app by exact H1. cbn [bindo].
    rewrite dec_uv_app by exact H2. cbn [bindo].
    rewrite dec_uv_app by exact Hpre. cbn [bindo].
    rewrite dec_uv_app by exact H3. cbn [bindo].
    rewrite dec_uv_app by (unfold u64, max_count in *; lia). cbn [bindo].
    assert ((N.of_nat (length (e_ap e)) <? max_count) = true) as -> by lia. cbn [negb].
    rewrite Nnat.Nat2N.id. rewrite dec_uvs_app by exact H5. cbn [bindo].
    rewrite H6. cbn [bindo].
    unfold at_off. unfold nlenb at 1. rewrite skip_n_app. cbn [bindo].
    rewrite <- app_assoc. unfold nlenb at 1. rewrite take_app. cbn [bindo].
    specialize (IH (pre ++ e_val e) post fuel Hes).
    assert (Hl: nlenb (pre ++ e_val e) = nlenb pre + nlenb (e_val e)) by (unfold nlenb; rewrite app_length; lia).
    rewrite Hl in IH. rewrite <- app_assoc in IH. rewrite IH.
    + cbn [bindo]. unfold sval_of at 2, name_of. rewrite H6. reflexivity.
    + unfold nlenb in *. rewrite app_length in Hu. rewrite !app_length in *. unfold u64 in *. lia.
    + cbn [length] in Hf. lia.
Qed.

Definition enc_doc (idv : bytes) (es : list ent) : bytes :=
  let meta := uv (nlenb idv) ++ enc_ents 0 es in
  let data := idv ++ snappy_enc (concat (map e_val es)) in
  uv (nlenb meta) ++ uv (nlenb data) ++ meta ++ data.

Theorem stored_doc_roundtrip : forall file storedIdx d so idv es rest1 rest2,
  Forall wf_ent es -> u64 (nlenb (concat (map e_val es))) -> u64 (nlenb idv) ->
  u64 (nlenb (uv (nlenb idv) ++ enc_ents 0 es)) -> u64 (nlenb (idv ++ snappy_enc (concat (map e_val es)))) ->
  so < 256 ^ 8 ->
  at_off file (storedIdx + 8 * d) = Some (be 8 so ++ rest1) ->
  at_off file so = Some (enc_doc idv es ++ rest2) ->
  stored_doc dec_snappy file ft storedIdx d =
    Some ({| s_field := id_name; s_typ := 116; s_val := idv; s_ap := [] |} :: map sval_of es).
Proof.
  intros file storedIdx d so idv es rest1 rest2 Hwf Hu Hid Hm Hd Hso Hidx Hblk.
  unfold stored_doc. rewrite Hidx. cbn [bindo]. rewrite unbe_be by exact Hso. cbn [bindo].
  rewrite Hblk. cbn [bindo]. unfold enc_doc.
  set (meta := uv (nlenb idv) ++ enc_ents 0 es). set (data := idv ++ snappy_enc (concat (map e_val es))).
  rewrite <- !app_assoc.
  rewrite dec_uv_app by exact Hm. cbn [bindo].
  rewrite dec_uv_app by exact Hd. cbn [bindo].
  unfold nlenb at 1. rewrite take_app. cbn [bindo].
  unfold nlenb at 1. rewrite take_app. cbn [bindo].
  subst meta. rewrite dec_uv_app by exact Hid. cbn [bindo].
  subst data. unfold nlenb at 1. rewrite take_app. cbn [bindo].
  rewrite snappy_ok. cbn [bindo].
  pose proof (dec_stored_meta_ok es [] [] (length (uv (nlenb idv) ++ enc_ents 0 es)) Hwf) as H.
  cbn [app length N.of_nat nlenb] in H. change (nlenb []) with 0 in H. rewrite app_nil_r in H.
  rewrite H.
  - reflexivity.
  - rewrite N.add_0_l. exact Hu.
  - rewrite app_length. pose proof (enc_ents_length_ge es 0). lia.
Qed.
End St.
Print Assumptions stored_doc_roundtrip.

(* non-vacuity: a concrete document (two stored values of field 1, one empty, array positions)
   behind a one-entry stored index; the frozen reader evaluates to it *)
Definition ex_ft : list frec := [Some ([95; 105; 100], []); Some ([98], [])].
Definition ex_es : list ent := [{| e_fid := 1; e_typ := 116; e_val := [1; 2; 3]; e_ap := [0; 7] |};
                                {| e_fid := 1; e_typ := 116; e_val := []; e_ap := [] |}].
Example stored_doc_example :
  Forall (wf_ent ex_ft) ex_es /\
  stored_doc (fun x => Some x) (be 8 8 ++ enc_doc (fun x => x) [100; 49] ex_es ++ [9; 9]) ex_ft 0 0 =
    Some ({| s_field := id_name; s_typ := 116; s_val := [100; 49]; s_ap := [] |} :: map (sval_of ex_ft) ex_es).
Proof.
  split; [|vm_compute; reflexivity].
  repeat constructor; unfold u64, max_count; cbn; try lia; try (eexists; reflexivity).
Qed.

(* C05 (byte-copy path of the merge, merge.go copyStoredDocs): when the inputs' field tables are the
   same and nothing is deleted, a merge copies each document's stored block verbatim to a new place
   and writes a new index entry.  A block decodes to the same stored values wherever it lies. *)
Section Copy.
Variable snappy_enc : bytes -> bytes.
Variable dec_snappy : bytes -> option bytes.
Hypothesis snappy_ok : forall x, dec_snappy (snappy_enc x) = Some x.
Theorem stored_block_copy : forall ft f1 i1 d1 so1 r1 t1 f2 i2 d2 so2 r2 t2 idv es,
  Forall (wf_ent ft) es -> u64 (nlenb (concat (map e_val es))) -> u64 (nlenb idv) ->
  u64 (nlenb (uv (nlenb idv) ++ enc_ents 0 es)) -> u64 (nlenb (idv ++ snappy_enc (concat (map e_val es)))) ->
  so1 < 256 ^ 8 -> so2 < 256 ^ 8 ->
  at_off f1 (i1 + 8 * d1) = Some (be 8 so1 ++ r1) -> at_off f1 so1 = Some (enc_doc snappy_enc idv es ++ t1) ->
  at_off f2 (i2 + 8 * d2) = Some (be 8 so2 ++ r2) -> at_off f2 so2 = Some (enc_doc snappy_enc idv es ++ t2) ->
  stored_doc dec_snappy f1 ft i1 d1 = stored_doc dec_snappy f2 ft i2 d2.
Proof.
  intros. rewrite (stored_doc_roundtrip snappy_enc dec_snappy snappy_ok ft f1 i1 d1 so1 idv es r1 t1) by assumption.
  rewrite (stored_doc_roundtrip snappy_enc dec_snappy snappy_ok ft f2 i2 d2 so2 idv es r2 t2) by assumption. reflexivity.
Qed.
End Copy.
Print Assumptions stored_block_copy.
