(* C06 / C13: the term loop that consumes the enumerator in mergeAndPersistInvertedSection (and, with
   the same shape, mergeAndPersistSynonymSection): tuples arrive in (key, iterator) order; the
   postings of consecutive tuples with the same key are appended; when the key changes (and once
   more at the end) finishTerm writes the collected postings and inserts the key into the new
   dictionary unless nothing survived (postingsOffset = 0).
   Theorem: the dictionary produced maps every key k to the concatenation, in iterator order, of
   the surviving postings of all input entries with key k - and has no entry when that is empty;
   its keys are strictly ascending (what the FST builder requires). *)
From Coq Require Import List NArith Lia Bool PeanoNat.
Import ListNotations.
Require Import Spec StrOrd Enum EnumProof.
Open Scope N_scope.

Section Loop.
Variable hitT : Type.
Variable pl : nat -> N -> list hitT.   (* surviving, renumbered postings of the entry (iterator i, value v) *)

Definition finish (k : str) (acc : list hitT) : list (str * list hitT) :=
  match acc with [] => [] | _ => [(k, acc)] end.

Fixpoint loop (prev : option str) (acc : list hitT) (ts : list tuple) : list (str * list hitT) :=
  match ts with
  | [] => match prev with Some pk => finish pk acc | None => [] end
  | (k, i, v) :: r =>
      match prev with
      | Some pk => if seqb pk k then loop (Some k) (acc ++ pl i v) r
                   else finish pk acc ++ loop (Some k) (pl i v) r
      | None => loop (Some k) (pl i v) r
      end
  end.

Definition merge_dict (its : list (list kv)) : list (str * list hitT) := loop None [] (enumerate its).

(* what the dictionary holds for k *)
Fixpoint assoc (k : str) (d : list (str * list hitT)) : list hitT :=
  match d with [] => [] | (k', h) :: r => if seqb k' k then h else assoc k r end.
(* what the inputs dictate for k *)
Definition hits_of (k : str) (ts : list tuple) : list hitT :=
  flat_map (fun t => let '(k', i, v) := t in if seqb k' k then pl i v else []) ts.

(* keys never decrease along ts, starting from pk *)
Fixpoint ndk (pk : str) (ts : list tuple) : Prop :=
  match ts with [] => True | (k, _, _) :: r => scmp k pk <> Lt /\ ndk k r end.

Lemma seqb_sym a b : seqb a b = seqb b a.
Proof. unfold seqb. rewrite (scmp_antisym a b). destruct (scmp a b); reflexivity. Qed.

Lemma seqb_false_ne a b : seqb a b = false -> a <> b.
Proof. intros H ->. now rewrite seqb_refl in H. Qed.

Lemma ndk_weaken : forall ts a b, scmp a b <> Lt -> ndk a ts -> ndk b ts.
Proof.
  destruct ts as [|[[k i] v] r]; intros a b Hab H; [exact I|]. cbn in *. destruct H as [H1 H2]. split; [|exact H2].
  intros Hlt. destruct (scmp a b) eqn:E.
  - apply scmp_eq in E. subst. contradiction.
  - contradiction.
  - apply scmp_lt_gt in E. apply H1. eapply scmp_lt_trans; eauto.
Qed.

Lemma hits_of_above : forall ts pk k, ndk k ts -> scmp pk k = Lt -> hits_of pk ts = [].
Proof.
  induction ts as [|[[k1 i] v] r IH]; intros pk k Hn Hlt; [reflexivity|].
  cbn in Hn. destruct Hn as [H1 H2]. unfold hits_of. cbn [flat_map].
  assert (Hlt1: scmp pk k1 = Lt).
  { destruct (scmp k1 k) eqn:E; [apply scmp_eq in E; now subst|contradiction|].
    apply scmp_lt_gt in E. eapply scmp_lt_trans; eauto. }
  assert (seqb k1 pk = false) as -> by (unfold seqb; rewrite (scmp_antisym pk k1), Hlt1; reflexivity).
  cbn [app]. exact (IH pk k1 H2 Hlt1).
Qed.

Lemma assoc_app k a b : assoc k (a ++ b) = match assoc k a with [] => if existsb (fun e => seqb (fst e) k) a then [] else assoc k b | h => h end.
Proof.
  induction a as [|[k' h] a IH]; cbn [app assoc existsb fst]; [destruct (assoc k b); reflexivity|].
  destruct (seqb k' k); cbn [orb]; [destruct h; reflexivity|exact IH].
Qed.

Lemma loop_spec : forall ts pk acc k, ndk pk ts ->
  assoc k (loop (Some pk) acc ts) = (if seqb pk k then acc else []) ++ hits_of k ts.
Proof.
  induction ts as [|[[k1 i] v] r IH]; intros pk acc k Hn.
  - cbn [loop hits_of flat_map]. rewrite app_nil_r. unfold finish. destruct acc as [|a acc]; cbn [assoc]; [now destruct (seqb pk k)|reflexivity].
  - cbn in Hn. destruct Hn as [H1 H2]. cbn [loop]. unfold hits_of. cbn [flat_map]. fold (hits_of k r).
    destruct (seqb pk k1) eqn:E1.
    + apply seqb_true in E1. subst k1. rewrite (IH pk (acc ++ pl i v) k H2).
      destruct (seqb pk k); [now rewrite <- app_assoc|reflexivity].
    + rewrite assoc_app. rewrite (IH k1 (pl i v) k H2).
      assert (Hlt: scmp pk k1 = Lt).
      { destruct (scmp k1 pk) eqn:E; [apply scmp_eq in E; subst; now rewrite seqb_refl in E1|contradiction|now apply scmp_lt_gt]. }
      destruct (seqb pk k) eqn:E2.
      * apply seqb_true in E2. subst k.
        assert (seqb k1 pk = false) as -> by (rewrite seqb_sym; exact E1).
        cbn [app]. rewrite (hits_of_above r pk k1 H2 Hlt). rewrite app_nil_r.
        unfold finish. destruct acc as [|a acc]; cbn [assoc existsb fst]; [reflexivity|]. now rewrite seqb_refl.
      * cbn [app]. unfold finish. destruct acc as [|a acc]; cbn [assoc existsb fst orb]; [reflexivity|]. rewrite E2. cbn. reflexivity.
Qed.

Lemma sorted_ndk : forall ts k i v, sorted_t ((k, i, v) :: ts) -> ndk k ts.
Proof.
  induction ts as [|[[k1 i1] v1] r IH]; intros k i v H; [exact I|].
  cbn [sorted_t] in H. destruct H as [Hall Hs]. cbn [ndk]. split.
  - specialize (Hall (k1, i1, v1) (or_introl eq_refl)). cbn in Hall. destruct Hall as [Hlt|[-> _]].
    + apply scmp_lt_gt in Hlt. rewrite Hlt. discriminate.
    + rewrite scmp_refl. discriminate.
  - eapply IH. exact Hs.
Qed.

(* the merged dictionary, key by key *)
Theorem merge_loop_spec : forall ts k, sorted_t ts -> assoc k (loop None [] ts) = hits_of k ts.
Proof.
  intros [|[[k1 i] v] r] k H; [reflexivity|]. cbn [loop]. rewrite (loop_spec r k1 (pl i v) k (sorted_ndk r k1 i v H)).
  unfold hits_of. cbn [flat_map]. reflexivity.
Qed.

(* keys of the output are strictly ascending and entries are non-empty *)
Fixpoint asc_out (lb : option str) (d : list (str * list hitT)) : Prop :=
  match d with
  | [] => True
  | (k, h) :: r => h <> [] /\ (match lb with Some b => scmp b k = Lt | None => True end) /\ asc_out (Some k) r
  end.

Lemma loop_asc : forall ts pk acc lb, ndk pk ts ->
  (match lb with Some b => scmp b pk = Lt | None => True end) -> asc_out lb (loop (Some pk) acc ts).
Proof.
  induction ts as [|[[k1 i] v] r IH]; intros pk acc lb Hn Hlb.
  - cbn [loop]. unfold finish. destruct acc; cbn; [exact I|]. split; [discriminate|]. split; [exact Hlb|exact I].
  - cbn in Hn. destruct Hn as [H1 H2]. cbn [loop]. destruct (seqb pk k1) eqn:E1.
    + apply seqb_true in E1. subst k1. now apply IH.
    + assert (Hlt: scmp pk k1 = Lt).
      { destruct (scmp k1 pk) eqn:E; [apply scmp_eq in E; subst; now rewrite seqb_refl in E1|contradiction|now apply scmp_lt_gt]. }
      unfold finish. destruct acc as [|a acc]; cbn [app].
      * apply IH; [exact H2|]. destruct lb as [b|]; [eapply scmp_lt_trans; eauto|exact I].
      * cbn [asc_out]. split; [discriminate|]. split; [exact Hlb|]. apply IH; [exact H2|exact Hlt].
Qed.

Theorem merge_loop_ascending : forall ts, sorted_t ts -> asc_out None (loop None [] ts).
Proof.
  intros [|[[k1 i] v] r] H; [exact I|]. cbn [loop]. apply loop_asc; [eapply sorted_ndk; eauto|exact I].
Qed.

(* composed with the enumerator *)
Theorem merge_dict_spec : forall its k, Forall asc its -> nozero its ->
  assoc k (merge_dict its) = hits_of k (enumerate its) /\ asc_out None (merge_dict its).
Proof.
  intros its k Ha Hz. destruct (enumerate_spec its Ha Hz) as [Hs _]. unfold merge_dict.
  split; [now apply merge_loop_spec|now apply merge_loop_ascending].
Qed.
End Loop.
Print Assumptions merge_dict_spec.
