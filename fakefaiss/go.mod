module github.com/blevesearch/go-faiss

go 1.21
