package faiss

import (
	"bytes"
	"encoding/binary"
	"encoding/json"
	"errors"
	"fmt"
	"sort"
	"strings"
	"sync"
)

const (
	MetricInnerProduct = 0
	MetricL2           = 1
)
const (
	IOFlagReadMmap     = 0x646f0000 | 0x8
	IOFlagSkipPrefetch = 0x10
	IOFlagReadOnly     = 0x2
)

// ---- accounting / fault injection ----
var (
	Mu            sync.Mutex
	Live          int
	DoubleClose   int
	UseAfterClose int
	Calls         = map[string]int{}
	FailAt        = map[string]int{} // op -> fail when Calls[op] reaches this (1-based)
)

func ResetAccounting() {
	Mu.Lock()
	Live, DoubleClose, UseAfterClose = 0, 0, 0
	Calls = map[string]int{}
	FailAt = map[string]int{}
	Mu.Unlock()
}

func hit(op string) error {
	Mu.Lock()
	defer Mu.Unlock()
	Calls[op]++
	if n, ok := FailAt[op]; ok && n == Calls[op] {
		return fmt.Errorf("fakefaiss: injected failure in %s #%d", op, n)
	}
	return nil
}

type Selector interface{ Delete() }
type sel struct {
	not bool
	ids map[int64]bool
}

func (*sel) Delete() {}
func mkset(a []int64) map[int64]bool {
	m := map[int64]bool{}
	for _, x := range a {
		m[x] = true
	}
	return m
}
func NewIDSelectorNot(exclude []int64) (Selector, error)   { return &sel{true, mkset(exclude)}, nil }
func NewIDSelectorBatch(indices []int64) (Selector, error) { return &sel{false, mkset(indices)}, nil }

type IndexImpl struct {
	d, metric int
	ivf       bool
	nlist     int
	nprobe    int32
	trained   bool
	ids       []int64
	vecs      []float32
	closed    bool
}

func (i *IndexImpl) use() {
	if i.closed {
		Mu.Lock()
		UseAfterClose++
		Mu.Unlock()
	}
}

func IndexFactory(d int, description string, metric int) (*IndexImpl, error) {
	if err := hit("IndexFactory"); err != nil {
		return nil, err
	}
	idx := &IndexImpl{d: d, metric: metric, nprobe: 1}
	if strings.HasPrefix(description, "IVF") {
		idx.ivf = true
		fmt.Sscanf(description, "IVF%d", &idx.nlist)
	} else {
		idx.trained = true
	}
	Mu.Lock()
	Live++
	Mu.Unlock()
	return idx, nil
}
func SetOMPThreads(n uint) {}

func WriteIndexIntoBuffer(idx *IndexImpl) ([]byte, error) {
	idx.use()
	if err := hit("WriteIndexIntoBuffer"); err != nil {
		return nil, err
	}
	var b bytes.Buffer
	hdr := []int64{int64(idx.d), int64(idx.metric), 0, int64(idx.nlist), int64(idx.nprobe), int64(len(idx.ids))}
	if idx.ivf {
		hdr[2] = 1
	}
	binary.Write(&b, binary.LittleEndian, hdr)
	binary.Write(&b, binary.LittleEndian, idx.ids)
	binary.Write(&b, binary.LittleEndian, idx.vecs)
	return b.Bytes(), nil
}

func ReadIndexFromBuffer(buf []byte, ioflags int) (*IndexImpl, error) {
	if err := hit("ReadIndexFromBuffer"); err != nil {
		return nil, err
	}
	r := bytes.NewReader(buf)
	hdr := make([]int64, 6)
	if err := binary.Read(r, binary.LittleEndian, hdr); err != nil {
		return nil, err
	}
	idx := &IndexImpl{d: int(hdr[0]), metric: int(hdr[1]), ivf: hdr[2] == 1, nlist: int(hdr[3]), nprobe: int32(hdr[4]), trained: true}
	idx.ids = make([]int64, hdr[5])
	idx.vecs = make([]float32, int(hdr[5])*idx.d)
	if err := binary.Read(r, binary.LittleEndian, idx.ids); err != nil {
		return nil, err
	}
	if err := binary.Read(r, binary.LittleEndian, idx.vecs); err != nil {
		return nil, err
	}
	Mu.Lock()
	Live++
	Mu.Unlock()
	return idx, nil
}

func (i *IndexImpl) Close() {
	Mu.Lock()
	defer Mu.Unlock()
	if i.closed {
		DoubleClose++
		return
	}
	i.closed = true
	Live--
}
func (i *IndexImpl) SetDirectMap(int) error {
	i.use()
	if !i.ivf {
		return errors.New("index is not of ivf type")
	}
	return hit("SetDirectMap")
}
func (i *IndexImpl) SetNProbe(n int32) { i.use(); i.nprobe = n }
func (i *IndexImpl) GetNProbe() int32  { i.use(); return i.nprobe }
func (i *IndexImpl) Train(x []float32) error {
	i.use()
	if err := hit("Train"); err != nil {
		return err
	}
	i.trained = true
	return nil
}
func (i *IndexImpl) AddWithIDs(x []float32, ids []int64) error {
	i.use()
	if err := hit("AddWithIDs"); err != nil {
		return err
	}
	if !i.trained {
		return errors.New("not trained")
	}
	if len(x) != len(ids)*i.d {
		return errors.New("bad sizes")
	}
	i.ids = append(i.ids, ids...)
	i.vecs = append(i.vecs, x...)
	return nil
}
func (i *IndexImpl) Ntotal() int64   { i.use(); return int64(len(i.ids)) }
func (i *IndexImpl) D() int          { i.use(); return i.d }
func (i *IndexImpl) MetricType() int { i.use(); return i.metric }
func (i *IndexImpl) Size() uint64    { i.use(); return uint64(len(i.vecs) * 4) }
func (i *IndexImpl) IsIVFIndex() bool {
	i.use()
	return i.ivf
}
func (i *IndexImpl) ReconstructBatch(keys []int64, r []float32) ([]float32, error) {
	i.use()
	if err := hit("ReconstructBatch"); err != nil {
		return nil, err
	}
	pos := map[int64]int{}
	for p, id := range i.ids {
		pos[id] = p
	}
	r = r[:0]
	for _, k := range keys {
		p, ok := pos[k]
		if !ok {
			return nil, fmt.Errorf("no such id %d", k)
		}
		r = append(r, i.vecs[p*i.d:(p+1)*i.d]...)
	}
	return r, nil
}

func (i *IndexImpl) Reconstruct(key int64) ([]float32, error) {
	return i.ReconstructBatch([]int64{key}, nil)
}

// Score is the exact score used by the engine (exported for the oracle).
func Score(metric int, a, b []float32) float32 {
	var s float32
	if metric == MetricL2 {
		for k := range a {
			d := a[k] - b[k]
			s += d * d
		}
		return s
	}
	for k := range a {
		s += a[k] * b[k]
	}
	return s
}

func (i *IndexImpl) cluster(id int64) int64 {
	n := int64(i.nlist)
	if n <= 0 {
		n = 1
	}
	return ((id % n) + n) % n
}

func (i *IndexImpl) search(x []float32, k int64, ok func(id int64) bool) ([]float32, []int64, error) {
	i.use()
	type c struct {
		s  float32
		id int64
	}
	var cs []c
	for p, id := range i.ids {
		if ok(id) {
			cs = append(cs, c{Score(i.metric, x, i.vecs[p*i.d:(p+1)*i.d]), id})
		}
	}
	sort.SliceStable(cs, func(a, b int) bool {
		if i.metric == MetricL2 {
			return cs[a].s < cs[b].s
		}
		return cs[a].s > cs[b].s
	})
	ds := make([]float32, k)
	ls := make([]int64, k)
	for j := int64(0); j < k; j++ {
		if int(j) < len(cs) {
			ds[j], ls[j] = cs[j].s, cs[j].id
		} else {
			ls[j] = -1
		}
	}
	return ds, ls, nil
}

func (i *IndexImpl) SearchWithoutIDs(x []float32, k int64, ex []int64, p json.RawMessage) ([]float32, []int64, error) {
	if err := hit("SearchWithoutIDs"); err != nil {
		return nil, nil, err
	}
	m := mkset(ex)
	return i.search(x, k, func(id int64) bool { return !m[id] })
}
func (i *IndexImpl) SearchWithIDs(x []float32, k int64, in []int64, p json.RawMessage) ([]float32, []int64, error) {
	if err := hit("SearchWithIDs"); err != nil {
		return nil, nil, err
	}
	m := mkset(in)
	return i.search(x, k, func(id int64) bool { return m[id] })
}
func (i *IndexImpl) ObtainClusterVectorCountsFromIVFIndex(vecIDs []int64) (map[int64]int64, error) {
	i.use()
	rv := map[int64]int64{}
	for _, id := range vecIDs {
		rv[i.cluster(id)]++
	}
	return rv, nil
}
func (i *IndexImpl) ObtainClustersWithDistancesFromIVFIndex(x []float32, c []int64) ([]int64, []float32, error) {
	i.use()
	cc := append([]int64(nil), c...)
	sort.Slice(cc, func(a, b int) bool { return cc[a] < cc[b] })
	return cc, make([]float32, len(cc)), nil
}
func (i *IndexImpl) SearchClustersFromIVFIndex(s Selector, e []int64, m int, k int64, x, cd []float32, p json.RawMessage) ([]float32, []int64, error) {
	ss := s.(*sel)
	cl := mkset(e[:m])
	return i.search(x, k, func(id int64) bool {
		in := ss.ids[id]
		if ss.not {
			in = !in
		}
		return in && cl[i.cluster(id)]
	})
}
