(* Hand-written driver around the extracted model (Zmodel_core.handle_chars).
   Protocol on stdin/stdout, one line each:
     harness -> model : "<sx>"                    a request
     model -> harness : "?<sx>"                   a blob-oracle question (answered by one line "<sx>")
     model -> harness : "=<sx>"                   the answer to the request
   All parsing/printing of s-expressions happens inside the extracted code; this file only
   converts between OCaml characters and Coq's binary N. *)
open Zmodel_core

let rec pos_of_int (i : int) : positive =
  if i = 1 then XH
  else if i land 1 = 0 then XO (pos_of_int (i lsr 1))
  else XI (pos_of_int (i lsr 1))
let n_of_int (i : int) : n = if i = 0 then N0 else Npos (pos_of_int i)
let rec int_of_pos (p : positive) : int =
  match p with XH -> 1 | XO q -> 2 * int_of_pos q | XI q -> 2 * int_of_pos q + 1
let int_of_n (x : n) : int = match x with N0 -> 0 | Npos p -> int_of_pos p

let tbl = Array.init 256 n_of_int

let chars_of_string (s : string) : n list =
  let r = ref [] in
  for i = String.length s - 1 downto 0 do r := tbl.(Char.code s.[i]) :: !r done; !r

let string_of_chars (l : n list) : string =
  let b = Buffer.create 1024 in
  List.iter (fun c -> Buffer.add_char b (Char.chr (int_of_n c))) l; Buffer.contents b

let oracle (q : n list) : n list =
  print_char '?'; print_string (string_of_chars q); print_newline ();
  chars_of_string (input_line stdin)

let () =
  try
    while true do
      let line = input_line stdin in
      let ans = handle_chars oracle (chars_of_string line) in
      print_char '='; print_string (string_of_chars ans); print_newline ()
    done
  with End_of_file -> ()
