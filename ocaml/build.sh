#!/bin/sh
# builds /verif/ocaml/_build/zmodel from the extracted zmodel_core.ml
set -e
cd "$(dirname "$0")/_build"
cp ../zmodel.ml .
ocamlfind ocamlopt -O3 -w -a -package unix zmodel_core.mli zmodel_core.ml zmodel.ml -o zmodel 2>/dev/null || \
ocamlfind ocamlopt -w -a -package unix zmodel_core.mli zmodel_core.ml zmodel.ml -o zmodel
