// Package sx is the wire format between the Go harness and the extracted Coq model:
// s-expressions over hex numbers, #hex byte strings and lists (see coq/Sx.v).
package sx

import (
	"encoding/hex"
	"fmt"
	"strconv"
	"strings"
)

type Kind int

const (
	KNum Kind = iota
	KBytes
	KList
)

type V struct {
	K Kind
	N uint64
	B []byte
	L []V
}

func N(n uint64) V  { return V{K: KNum, N: n} }
func I(n int) V     { return V{K: KNum, N: uint64(n)} }
func B(b []byte) V  { return V{K: KBytes, B: b} }
func S(s string) V  { return V{K: KBytes, B: []byte(s)} }
func L(xs ...V) V   { return V{K: KList, L: xs} }
func List(xs []V) V { return V{K: KList, L: xs} }
func Bool(b bool) V {
	if b {
		return N(1)
	}
	return N(0)
}
func Nums(xs []uint64) V {
	l := make([]V, len(xs))
	for i, x := range xs {
		l[i] = N(x)
	}
	return List(l)
}

func (v V) write(sb *strings.Builder) {
	switch v.K {
	case KNum:
		sb.WriteString(strconv.FormatUint(v.N, 16))
	case KBytes:
		sb.WriteByte('#')
		sb.WriteString(hex.EncodeToString(v.B))
	case KList:
		sb.WriteByte('(')
		for i, x := range v.L {
			if i > 0 {
				sb.WriteByte(' ')
			}
			x.write(sb)
		}
		sb.WriteByte(')')
	}
}

func (v V) String() string {
	var sb strings.Builder
	v.write(&sb)
	return sb.String()
}

// Pretty renders with byte strings shown as quoted text when printable (for replay files).
func (v V) Pretty() string {
	switch v.K {
	case KNum:
		return strconv.FormatUint(v.N, 10)
	case KBytes:
		return strconv.Quote(string(v.B))
	default:
		parts := make([]string, len(v.L))
		for i, x := range v.L {
			parts[i] = x.Pretty()
		}
		return "(" + strings.Join(parts, " ") + ")"
	}
}

func Equal(a, b V) bool { return a.String() == b.String() }

func Parse(s string) (V, error) {
	p := &parser{s: s}
	v, err := p.value()
	if err != nil {
		return V{}, err
	}
	p.skip()
	if p.i != len(p.s) {
		return V{}, fmt.Errorf("sx: trailing input at %d", p.i)
	}
	return v, nil
}

type parser struct {
	s string
	i int
}

func (p *parser) skip() {
	for p.i < len(p.s) && (p.s[p.i] == ' ' || p.s[p.i] == '\n' || p.s[p.i] == '\r') {
		p.i++
	}
}

func (p *parser) value() (V, error) {
	p.skip()
	if p.i >= len(p.s) {
		return V{}, fmt.Errorf("sx: unexpected end")
	}
	switch c := p.s[p.i]; {
	case c == '(':
		p.i++
		var xs []V
		for {
			p.skip()
			if p.i >= len(p.s) {
				return V{}, fmt.Errorf("sx: unclosed list")
			}
			if p.s[p.i] == ')' {
				p.i++
				return V{K: KList, L: xs}, nil
			}
			x, err := p.value()
			if err != nil {
				return V{}, err
			}
			xs = append(xs, x)
		}
	case c == '#':
		p.i++
		j := p.i
		for j < len(p.s) && ishex(p.s[j]) {
			j++
		}
		b, err := hex.DecodeString(p.s[p.i:j])
		if err != nil {
			return V{}, err
		}
		p.i = j
		return V{K: KBytes, B: b}, nil
	case ishex(c):
		j := p.i
		for j < len(p.s) && ishex(p.s[j]) {
			j++
		}
		n, err := strconv.ParseUint(p.s[p.i:j], 16, 64)
		if err != nil {
			return V{}, err
		}
		p.i = j
		return V{K: KNum, N: n}, nil
	default:
		return V{}, fmt.Errorf("sx: bad char %q at %d", c, p.i)
	}
}

func ishex(c byte) bool { return (c >= '0' && c <= '9') || (c >= 'a' && c <= 'f') }

// IsErr reports whether v is the model's error value (deadbeef code).
func IsErr(v V) (uint64, bool) {
	if v.K == KList && len(v.L) == 2 && v.L[0].K == KNum && v.L[0].N == 0xdeadbeef {
		return v.L[1].N, true
	}
	return 0, false
}
