// Package model talks to the extracted Coq model (ocaml/_build/zmodel) over a pipe.
package model

import (
	"bufio"
	"fmt"
	"io"
	"os"
	"os/exec"
	"sync"
	"time"

	"zverif/sx"
)

// Oracle answers the model's blob-decoding questions.
type Oracle func(q sx.V) sx.V

type Client struct {
	mu     sync.Mutex
	cmd    *exec.Cmd
	in     io.WriteCloser
	out    *bufio.Reader
	Oracle Oracle
	Asked  int
}

func Start(path string, orc Oracle) (*Client, error) {
	// the extracted code recurses over long byte lists: give it an unlimited C stack
	cmd := exec.Command("/bin/sh", "-c", "ulimit -s unlimited 2>/dev/null || ulimit -s 8000000 2>/dev/null; exec \"$0\"", path)
	in, err := cmd.StdinPipe()
	if err != nil {
		return nil, err
	}
	out, err := cmd.StdoutPipe()
	if err != nil {
		return nil, err
	}
	cmd.Stderr = os.Stderr
	if err := cmd.Start(); err != nil {
		return nil, err
	}
	return &Client{cmd: cmd, in: in, out: bufio.NewReaderSize(out, 1<<20), Oracle: orc}, nil
}

func (c *Client) readLine() (string, error) {
	var buf []byte
	for {
		part, isPrefix, err := c.out.ReadLine()
		if err != nil {
			return "", err
		}
		buf = append(buf, part...)
		if !isPrefix {
			return string(buf), nil
		}
	}
}

// Ask sends one request and returns the model's answer.
func (c *Client) Ask(req sx.V) (sx.V, error) {
	c.mu.Lock()
	defer c.mu.Unlock()
	c.Asked++
	if os.Getenv("ZV_TRACE") != "" {
		t0 := time.Now()
		rs := req.String()
		defer func() {
			fmt.Fprintf(os.Stderr, "[model] req kind=%s len=%d took %v\n", rs[1:3], len(rs), time.Since(t0))
		}()
	}
	if _, err := io.WriteString(c.in, req.String()+"\n"); err != nil {
		return sx.V{}, err
	}
	for {
		line, err := c.readLine()
		if err != nil {
			return sx.V{}, fmt.Errorf("model died: %v", err)
		}
		if len(line) == 0 {
			continue
		}
		switch line[0] {
		case '?':
			q, err := sx.Parse(line[1:])
			if err != nil {
				return sx.V{}, err
			}
			a := sx.L(sx.N(0xdeadbeef), sx.N(253))
			if c.Oracle != nil {
				a = c.Oracle(q)
			}
			if _, err := io.WriteString(c.in, a.String()+"\n"); err != nil {
				return sx.V{}, err
			}
		case '=':
			return sx.Parse(line[1:])
		default:
			return sx.V{}, fmt.Errorf("model: unexpected line %q", line)
		}
	}
}

func (c *Client) Close() {
	c.in.Close()
	c.cmd.Wait()
}
