module zverif

go 1.21

require (
	github.com/RoaringBitmap/roaring/v2 v2.4.5
	github.com/blevesearch/bleve_index_api v1.2.8
	github.com/blevesearch/go-faiss v1.0.25
	github.com/blevesearch/scorch_segment_api/v2 v2.3.10
	github.com/blevesearch/vellum v1.1.0
	github.com/blevesearch/zapx/v16 v16.0.0
	github.com/golang/snappy v0.0.4
)

require (
	github.com/bits-and-blooms/bitset v1.22.0 // indirect
	github.com/blevesearch/mmap-go v1.0.4 // indirect
	golang.org/x/sys v0.13.0 // indirect
)

replace github.com/blevesearch/zapx/v16 => /repo

replace github.com/blevesearch/go-faiss => /verif/fakefaiss
