package main

import (
	"fmt"
	"sort"

	"github.com/RoaringBitmap/roaring/v2"
	segment "github.com/blevesearch/scorch_segment_api/v2"
	zap "github.com/blevesearch/zapx/v16"

	"zverif/sx"
	"zverif/zh"
)

// content parts in wire order
const (
	pNDocs = iota
	pFields
	pDicts
	pStored
	pDVFields
	pDV
	pThes
)

var chunkModes = []uint32{1, 2, 3, 5, 7, 1024, 1025, 1026}

// buildObs builds the batch in memory and returns the observed and specified contents (wire form).
func buildObs(c *ctx, b zh.Batch, mode uint32) (sb *zap.SegmentBase, obs, spec sx.V, err error) {
	spec, err = zh.SpecOf(c.M, b)
	mustH(err)
	sb, _, err = zh.Build(b, mode)
	if err != nil {
		return nil, sx.V{}, spec, err
	}
	cont, err := zh.Dump(sb)
	if err != nil {
		return sb, sx.V{}, spec, err
	}
	return sb, cont.Sx(), spec, nil
}

// partsDiffer reports whether any of the given parts of the two contents differ.
func partsDiffer(obs, spec sx.V, parts []int) []string {
	var rv []string
	if obs.K != sx.KList || len(obs.L) != len(zh.ContentParts) {
		return []string{"shape"}
	}
	for _, p := range parts {
		if !sx.Equal(obs.L[p], spec.L[p]) {
			rv = append(rv, zh.ContentParts[p])
		}
	}
	return rv
}

func describeDiff(obs, spec sx.V, parts []int) string {
	out := ""
	for _, p := range parts {
		if obs.K == sx.KList && len(obs.L) > p && !sx.Equal(obs.L[p], spec.L[p]) {
			out += fmt.Sprintf("part %s: first difference %s\n  observed: %s\n  expected: %s\n", zh.ContentParts[p], firstDiff(obs.L[p], spec.L[p], zh.ContentParts[p]), clip(obs.L[p].Pretty()), clip(spec.L[p].Pretty()))
		}
	}
	return out
}

// firstDiff descends into two wire values and renders the first place where they differ.
func firstDiff(a, b sx.V, path string) string {
	if a.K == sx.KList && b.K == sx.KList {
		for i := 0; i < len(a.L) && i < len(b.L); i++ {
			if !sx.Equal(a.L[i], b.L[i]) {
				p := fmt.Sprintf("%s[%d", path, i)
				if a.L[i].K == sx.KList && len(a.L[i].L) > 0 && a.L[i].L[0].K == sx.KBytes {
					p += fmt.Sprintf("=%q", a.L[i].L[0].B)
				}
				return firstDiff(a.L[i], b.L[i], p+"]")
			}
		}
		if len(a.L) != len(b.L) {
			extra := "observed has extra "
			var x sx.V
			if len(a.L) > len(b.L) {
				x = a.L[len(b.L)]
			} else {
				extra = "observed lacks "
				x = b.L[len(a.L)]
			}
			return fmt.Sprintf("at %s: lengths %d vs %d; %s%s", path, len(a.L), len(b.L), extra, clip(x.Pretty()))
		}
	}
	return fmt.Sprintf("at %s: observed %s, expected %s", path, clip(a.Pretty()), clip(b.Pretty()))
}

func clip(s string) string {
	if len(s) > 3000 {
		return s[:3000] + " …"
	}
	return s
}

// buildFails is the shrinking predicate: the batch still disagrees with its spec on `parts`.
func buildFails(c *ctx, mode uint32, parts []int) func(zh.Batch) bool {
	return func(b zh.Batch) bool {
		_, obs, spec, err := buildObs(c, b, mode)
		if err != nil {
			return true
		}
		return len(partsDiffer(obs, spec, parts)) > 0
	}
}

func reportBuild(c *ctx, what string, b zh.Batch, mode uint32, parts []int) {
	small := zh.ShrinkBatch(b, buildFails(c, mode, parts))
	_, obs, spec, err := buildObs(c, small, mode)
	body := fmt.Sprintf("%s\nchunkMode=%d LegacyChunkMode=%d\nbatch (shrunk, wire form: docs of (composites fields), field = (name stored dv typ val ap len toks syns vec)):\n%s\nbatch (readable): %s\n",
		what, mode, zap.LegacyChunkMode, small.Sx().String(), small.Sx().Pretty())
	if err != nil {
		body += "implementation error: " + err.Error() + "\n"
	} else {
		body += describeDiff(obs, spec, parts)
	}
	c.Violation(body, false)
}

func randMode(c *ctx) uint32 { return chunkModes[c.R.Intn(len(chunkModes))] }

func nontrivialBatch(b zh.Batch) bool {
	st := b.Stats()
	return st.Docs >= 2 && st.Tokens >= 3
}

// ---------------- C01 ----------------

func init() { register("C01", checkC01) }

func checkC01(c *ctx) {
	c.Rule = "structured random batches (0-14 docs, 1-5 field names, shared small vocabulary incl. empty / non-ASCII terms, multi-valued and composite fields, freq 0, locations with array positions) x chunk modes {1,2,3,5,7,1024,1025,1026}; plus boundary batches with terms of exactly 1023/1024/1025/2047/2048/2049 postings (multi-valued field) under modes 1025/1026; observed = complete dictionary+postings dump through the public API, expected = extracted spec_of_batch; each file is also parsed by the extracted parse_v16; non-trivial = >= 2 documents and >= 3 tokens; distinct by batch text"
	c.Assumptions = append(c.Assumptions, "input domain W1-W8 of DESIGN.md 3.4 (what bleve produces)", "vellum / roaring / snappy are abstracted (Section hypotheses); their blobs are decoded by the libraries in the harness co-process")
	n := c.n(260, 6000)
	parts := []int{pDicts}
	for i := 0; i < n; i++ {
		nd := c.R.Intn(15)
		o := zh.RandOpts(c.R, nd, "d")
		b := zh.GenBatch(c.R, o)
		mode := randMode(c)
		sb, obs, spec, err := buildObs(c, b, mode)
		st := b.Stats()
		c.Case(b.Sx().String(), nontrivialBatch(b))
		c.Count(fmt.Sprintf("mode=%d", mode))
		c.CountN("docs", st.Docs)
		c.CountN("tokens", st.Tokens)
		c.CountN("locations", st.Locs)
		c.CountN("multivalued_fields", st.MultiValued)
		c.CountN("composite_fields", st.Composite)
		c.CountN("freq0_tokens", st.Freq0)
		c.CountN("empty_terms", st.EmptyTerm)
		c.CountN("nonascii_terms", st.NonASCII)
		if i == 3 {
			c.Sample(map[string]interface{}{"mode": mode, "batch": clip(b.Sx().Pretty())})
		}
		if err != nil || len(partsDiffer(obs, spec, parts)) > 0 {
			reportBuild(c, "C01 built segment vs spec_of_batch (dictionaries and postings)", b, mode, parts)
			return
		}
		// the model of the builder ALGORITHM (BuildAlg.v: ids in first-seen order, hits appended per
		// document, keys sorted last; term orders scrambled by i) must produce what zapx produced
		if i%4 == 0 {
			ba := ask(c, sx.L(sx.N(zh.ReqBuilder), b.Sx(), sx.N(uint64(i))))
			if _, isErr := sx.IsErr(ba); isErr {
				mustH(fmt.Errorf("model rejected the builder request"))
			}
			if !sx.Equal(ba, obs.L[pDicts]) {
				c.Violation(fmt.Sprintf("C01 dictionaries of the built segment differ from the extracted builder algorithm (BuildAlg.run_build, orders scrambled by %d)\nchunkMode=%d\nbatch: %s\nobserved: %s\nmodel: %s", i, mode, clip(b.Sx().String()), clip(obs.L[pDicts].Pretty()), clip(ba.Pretty())), false)
				return
			}
			c.Count("builder_algorithm_runs")
		}
		if bad := parseAgainst(c, sb, spec, parts); bad != "" {
			reportBuild(c, "C01/C09 bytes of the built segment parsed by the extracted v16 parser differ from the spec: "+bad, b, mode, parts)
			return
		}
		// absent field / absent term give empty results
		if bad := absentQueries(sb); bad != "" {
			c.Violation("C01 "+bad+"\nbatch: "+b.Sx().String(), false)
			return
		}
		// conjunction-style reading: recycled objects, half-read iterators, lookups that miss
		if cont, err := zh.Dump(sb); err == nil {
			if bad := zh.FlagReads(sb, cont); bad != "" {
				c.Violation("C01 "+bad+"\nchunkMode="+fmt.Sprint(mode)+"\nbatch: "+clip(b.Sx().String()), false)
				return
			}
			if bad := zh.IteratorAcrossLists(sb, cont); bad != "" {
				c.Violation("C01 "+bad+"\nbatch: "+clip(b.Sx().String()), false)
				return
			}
			if bad := zh.InterleavedLookups(sb, cont); bad != "" {
				c.Violation("C01 "+bad+"\nchunkMode="+fmt.Sprint(mode)+"\nbatch: "+clip(b.Sx().String()), false)
				return
			}
			c.Count("interleaved_lookup_rounds")
		}
	}
	// one document with 65535 / 65536 / 65540 occurrences of a term (a 16-bit count would wrap),
	// followed by documents with a few occurrences of the same term
	for _, nocc := range []int{65535, 65536, 65540} {
		mk := func(id string, n int) zh.Doc {
			t := zh.Tok{Term: "rep", Freq: uint64(n)}
			for q := 0; q < n; q++ {
				t.Locs = append(t.Locs, zh.Loc{Pos: uint64(q % 1000), Start: uint64(q % 7), End: uint64(q%7 + 1)})
			}
			return zh.Doc{Fields: []zh.Field{zh.IDField(id), {Name: "body", Len: uint64(n), TV: true, Toks: []zh.Tok{t}}}}
		}
		b := zh.Batch{mk("o0", 2), mk("o1", nocc), mk("o2", 3), mk("o3", 1)}
		_, obs, spec, err := buildObs(c, b, 1026)
		c.Case(fmt.Sprintf("occurrences-%d", nocc), true)
		c.Count("many_occurrence_batches")
		if err != nil || len(partsDiffer(obs, spec, parts)) > 0 {
			c.Violation(fmt.Sprintf("C01 batch of 4 documents in which one document has %d occurrences (locations) of the term \"rep\": built segment differs from the specification (err %v)\n%s", nocc, err, clip(describeDiff(obs, spec, parts))), false)
			return
		}
	}
	// boundary batches: exact cardinalities around multiples of 1024
	type bb struct {
		nd    int
		cards []int
		mode  uint32
	}
	bigs := []bb{{1100, []int{1023, 1024, 1025, 600, 1}, 1025}, {2100, []int{1023, 1024, 1025, 2047, 2048, 2049, 700, 2}, 1026}}
	if !c.Quick {
		bigs = append(bigs, bb{1100, []int{1023, 1024, 1025, 512, 513}, 1026}, bb{2100, []int{1024, 1025, 2047, 2048, 2049, 3}, 1025},
			bb{3100, []int{1023, 1024, 2048, 2049, 3071, 3072, 3073}, 1026}, bb{1030, []int{1023, 1024, 1025, 1030}, 1024}, bb{1030, []int{5, 1024, 1030}, 7})
	}
	for _, g := range bigs {
		b := zh.GenBoundaryBatch(c.R, g.nd, g.cards, true)
		sb, obs, spec, err := buildObs(c, b, g.mode)
		c.Case(fmt.Sprintf("boundary-%d-%v-%d", g.nd, g.cards, g.mode), true)
		c.Count(fmt.Sprintf("mode=%d", g.mode))
		c.Count("boundary_batches")
		if err != nil || len(partsDiffer(obs, spec, parts)) > 0 {
			reportBuild(c, fmt.Sprintf("C01 boundary batch: %d docs, term cardinalities %v", g.nd, g.cards), b, g.mode, parts)
			return
		}
		if bad := parseAgainst(c, sb, spec, parts); bad != "" {
			reportBuild(c, "C01/C09 boundary batch: parsed bytes differ from the spec: "+bad, b, g.mode, parts)
			return
		}
		if cont, err := zh.Dump(sb); err == nil {
			if bad := zh.FlagReads(sb, cont); bad != "" {
				c.Violation(fmt.Sprintf("C01 boundary batch (%d docs, term cardinalities %v, mode %d): %s", g.nd, g.cards, g.mode, bad), false)
				return
			}
		}
	}
	if !c.Quick {
		// sweep of all chunk modes on three batches
		for k := 0; k < 3; k++ {
			b := zh.GenBatch(c.R, zh.RandOpts(c.R, 6+k*4, "s"))
			for mode := uint32(1); mode <= 1026; mode++ {
				_, obs, spec, err := buildObs(c, b, mode)
				c.Case(fmt.Sprintf("sweep-%d-%d", k, mode), true)
				if err != nil || len(partsDiffer(obs, spec, parts)) > 0 {
					reportBuild(c, "C01 chunk-mode sweep", b, mode, parts)
					return
				}
			}
		}
	}
}

func absentQueries(sb *zap.SegmentBase) string {
	d, err := sb.Dictionary("no-such-field")
	if err != nil {
		return "Dictionary(absent field) returned error " + err.Error()
	}
	hits, cnt, err := zh.ReadPostings(d, []byte("x"), nil)
	if err != nil || len(hits) != 0 || cnt != 0 {
		return fmt.Sprintf("absent field gave %d hits / count %d / err %v", len(hits), cnt, err)
	}
	for _, f := range sb.Fields() {
		d, err := sb.Dictionary(f)
		if err != nil {
			return "Dictionary error " + err.Error()
		}
		hits, cnt, err := zh.ReadPostings(d, []byte("\x01no-such-term\x02"), nil)
		if err != nil || len(hits) != 0 || cnt != 0 {
			return fmt.Sprintf("absent term in field %q gave %d hits / count %d / err %v", f, len(hits), cnt, err)
		}
	}
	return ""
}

// ---------------- C02 ----------------

func init() { register("C02", checkC02) }

func checkC02(c *ctx) {
	c.Rule = "the C01 batch generator with stored fields (repeated names, empty values, occasional >64KB values, array positions up to 40 entries, _id lengths at the varint boundaries 127..5000 bytes; two batches whose per-document meta / data lengths sweep 16372..16387 across the varint boundary 16384); observed: Count, Fields (as a set), every VisitStoredFields with visitors stopping after every prefix length, DocID (also: the returned bytes must still read the id after all later calls), DocNumbers on id lists with present / absent / duplicate / greater-than-every-key ids, visits at and beyond Count; expected = extracted spec_of_batch (+ its stored-visit prefix function); non-trivial = >= 2 docs with >= 1 stored non-_id value"
	c.Assumptions = append(c.Assumptions, "input domain W1 (exactly one stored _id per document)")
	n := c.n(260, 5000)
	parts := []int{pNDocs, pFields, pStored}
	for i := 0; i < n; i++ {
		o := zh.RandOpts(c.R, c.R.Intn(12), "d")
		o.BigVals = c.R.Chance(12)
		o.LongAP = c.R.Chance(3)
		o.LongIDs = c.R.Chance(4)
		o.DupIDs = c.R.Chance(4)
		b := zh.GenBatch(c.R, o)
		mode := randMode(c)
		sb, obs, spec, err := buildObs(c, b, mode)
		stored := 0
		for _, d := range b {
			for _, f := range d.Fields {
				if f.Stored && f.Name != "_id" {
					stored++
				}
			}
		}
		c.Case(b.Sx().String(), len(b) >= 2 && stored >= 1)
		c.CountN("docs", len(b))
		c.CountN("stored_values", stored)
		if o.BigVals {
			c.Count("batches_with_big_values")
		}
		if o.LongIDs {
			c.Count("batches_with_long_ids")
		}
		if i == 2 {
			c.Sample(map[string]interface{}{"mode": mode, "batch": clip(b.Sx().Pretty())})
		}
		if err != nil || len(partsDiffer(obs, spec, parts)) > 0 {
			reportBuild(c, "C02 built segment vs spec_of_batch (Count, Fields, stored values)", b, mode, parts)
			return
		}
		// the model of the builder's stored-field pass (BuildAlg.stored_run) must produce what zapx produced
		if i%3 == 0 {
			sv := ask(c, sx.L(sx.N(zh.ReqStoredBuild), b.Sx()))
			if _, isErr := sx.IsErr(sv); isErr {
				mustH(fmt.Errorf("model rejected the stored-field builder request"))
			}
			if !sx.Equal(sv, obs.L[pStored]) {
				c.Violation(fmt.Sprintf("C02 stored values of the built segment differ from the extracted stored-field pass (BuildAlg.stored_run)\nchunkMode=%d\nbatch: %s\nobserved: %s\nmodel: %s", mode, clip(b.Sx().String()), clip(obs.L[pStored].Pretty()), clip(sv.Pretty())), false)
				return
			}
			c.Count("stored_pass_runs")
		}
		if bad := storedAPI(c, sb, b, spec); bad != "" {
			small := zh.ShrinkBatch(b, func(nb zh.Batch) bool {
				s2, _, sp2, e := buildObs(c, nb, mode)
				return e != nil || storedAPI(c, s2, nb, sp2) != ""
			})
			s2, _, sp2, _ := buildObs(c, small, mode)
			c.Violation("C02 "+storedAPI(c, s2, small, sp2)+"\nchunkMode="+fmt.Sprint(mode)+"\nbatch (shrunk): "+small.Sx().String()+"\nreadable: "+small.Sx().Pretty(), false)
			return
		}
		if bad := parseAgainst(c, sb, spec, parts); bad != "" {
			reportBuild(c, "C02/C09 parsed bytes differ from the spec: "+bad, b, mode, parts)
			return
		}
	}
	// reads that alternate between two segments on one goroutine: document k of one, then document
	// k+1 of the other (whatever the readers keep between calls must not carry over)
	{
		b1 := zh.GenBatch(c.R, zh.RandOpts(c.R, 9, "p"))
		b2 := zh.GenBatch(c.R, zh.RandOpts(c.R, 11, "q"))
		s1, _, sp1, err1 := buildObs(c, b1, 1026)
		s2, _, sp2, err2 := buildObs(c, b2, 3)
		if err1 != nil || err2 != nil {
			c.Violation(fmt.Sprintf("C02 build failed: %v %v", err1, err2), false)
			return
		}
		o2, _, err := zh.PersistOpen(s2)
		must(err)
		defer o2.Close()
		segs := []segment.Segment{s1, o2}
		specs := []sx.V{sp1, sp2}
		lens := []int{len(b1), len(b2)}
		visit := func(w int, d uint64) string {
			var got []sx.V
			err := segs[w].VisitStoredFields(d, func(field string, typ byte, value []byte, pos []uint64) bool {
				got = append(got, sx.L(sx.S(field), sx.N(uint64(typ)), sx.B(append([]byte(nil), value...)), sx.Nums(pos)))
				return true
			})
			if err != nil {
				return err.Error()
			}
			want := specs[w].L[pStored].L[d]
			c2 := zh.Content{}
			_ = c2
			if len(got) != len(want.L) || (len(got) > 0 && !sx.Equal(got[0], want.L[0])) {
				return fmt.Sprintf("%d values, first %v; the document has %d values, first %s", len(got), got, len(want.L), want.L[0].Pretty())
			}
			id, err := segs[w].DocID(d)
			if err != nil || !sx.Equal(sx.B(id), want.L[0].L[2]) {
				return fmt.Sprintf("DocID = %q (err %v), want %s", id, err, want.L[0].L[2].Pretty())
			}
			return ""
		}
		for k := 0; k+1 < lens[0] && k+1 < lens[1]; k++ {
			for _, ord := range [][2]int{{0, 1}, {1, 0}} {
				if bad := visit(ord[0], uint64(k)); bad != "" {
					c.Violation(fmt.Sprintf("C02 alternating reads of two segments: document %d of segment %d: %s", k, ord[0], bad), false)
					return
				}
				if bad := visit(ord[1], uint64(k+1)); bad != "" {
					c.Violation(fmt.Sprintf("C02 alternating reads of two segments on one goroutine: after document %d of segment %d, document %d of segment %d: %s", k, ord[0], k+1, ord[1], bad), false)
					return
				}
			}
			c.Count("alternating_segment_reads")
		}
		c.Case("alternating-segments", true)
	}
	// the two per-document lengths (meta, data) cross the 2-byte / 3-byte varint boundary 16384:
	// documents whose stored value has 16384-12 .. 16384+3 incompressible bytes, and documents with
	// that many array positions
	for _, kind := range []string{"bytes", "positions"} {
		var b zh.Batch
		for j := 0; j < 16; j++ {
			n := 16384 - 12 + j
			f := zh.Field{Name: "body", Stored: true, Typ: 't', Len: 1}
			if kind == "bytes" {
				f.Val = c.R.Bytes(n)
			} else {
				f.Val = []byte("v")
				for q := 0; q < n; q++ {
					f.AP = append(f.AP, uint64(q%100))
				}
			}
			b = append(b, zh.Doc{Fields: []zh.Field{zh.IDField(fmt.Sprintf("x%02d", j)), f}})
		}
		sb, obs, spec, err := buildObs(c, b, 1026)
		c.Case("length-boundary-"+kind, true)
		c.Count("length_boundary_batches")
		if err != nil || len(partsDiffer(obs, spec, parts)) > 0 {
			c.Violation(fmt.Sprintf("C02 batch of 16 documents whose stored value has 16372..16387 %s (the per-document meta / data length crosses the varint boundary 16384): built segment differs from the specification (err %v)\n%s", kind, err, clip(describeDiff(obs, spec, parts))), false)
			return
		}
		if bad := storedAPI(c, sb, b, spec); bad != "" {
			c.Violation("C02 length-boundary batch ("+kind+"): "+bad, false)
			return
		}
	}
}

// storedAPI exercises DocID, DocNumbers, early-stopping visitors and out-of-range documents.
func clipb(b []byte) []byte {
	if len(b) > 40 {
		return append(append([]byte(nil), b[:37]...), '.', '.', '.')
	}
	return b
}

func storedAPI(c *ctx, sb segment.Segment, b zh.Batch, spec sx.V) string {
	if sb == nil {
		return "build failed"
	}
	var bad string
	err := func() (err error) {
		defer func() {
			if r := recover(); r != nil {
				err = fmt.Errorf("PANIC: %v", r)
			}
		}()
		n := uint64(len(b))
		ids := map[string][]uint32{}
		// the ids as returned (not copied): they must still be the ids after every later call
		kept := make([][]byte, n)
		for d := uint64(0); d < n; d++ {
			if kept[d], err = sb.DocID(d); err != nil {
				return err
			}
		}
		defer func() {
			if bad == "" && err == nil {
				for d := uint64(0); d < n; d++ {
					if string(kept[d]) != b[d].ID() {
						bad = fmt.Sprintf("the bytes DocID(%d) returned read %q after later DocID / VisitStoredFields calls, the id is %q", d, clipb(kept[d]), clipb([]byte(b[d].ID())))
						return
					}
				}
			}
		}()
		for d := uint64(0); d < n; d++ {
			id, err := sb.DocID(d)
			if err != nil {
				return err
			}
			if string(id) != b[d].ID() {
				bad = fmt.Sprintf("DocID(%d) = %q, want %q", d, id, b[d].ID())
				return nil
			}
			ids[b[d].ID()] = append(ids[b[d].ID()], uint32(d))
			// visitor stopping after k callbacks sees exactly the first k values
			full := spec.L[pStored].L[d].L
			for k := 1; k <= len(full)+1; k++ {
				seen := 0
				var got []sx.V
				err := sb.VisitStoredFields(d, func(field string, typ byte, value []byte, pos []uint64) bool {
					seen++
					got = append(got, sx.L(sx.S(field), sx.N(uint64(typ)), sx.B(append([]byte(nil), value...)), sx.Nums(pos)))
					return seen < k
				})
				if err != nil {
					return err
				}
				want := k
				if want > len(full) {
					want = len(full)
				}
				if seen != want {
					bad = fmt.Sprintf("doc %d: visitor stopping after %d callbacks was called %d times (document has %d values)", d, k, seen, len(full))
					return nil
				}
				if seen >= 1 && !sx.Equal(got[0], full[0]) {
					bad = fmt.Sprintf("doc %d: first value delivered is %s, want the _id value %s", d, got[0].Pretty(), full[0].Pretty())
					return nil
				}
			}
		}
		for _, d := range []uint64{n, 1 << 32, 1<<32 + 1, 1 << 63} {
			if id, err := sb.DocID(d); err != nil || id != nil {
				bad = fmt.Sprintf("DocID(%d) (Count is %d) = %q, %v; want nothing", d, n, id, err)
				return nil
			}
		}
		for _, d := range []uint64{n, n + 1, n + 1000, 1 << 32, 1<<32 + 1, 1<<32 + n - 1, 1 << 33, 1 << 63, 1<<63 + 1, 1<<64 - 2} {
			calls := 0
			if err := sb.VisitStoredFields(d, func(string, byte, []byte, []uint64) bool { calls++; return true }); err != nil || calls != 0 {
				bad = fmt.Sprintf("VisitStoredFields(%d) beyond Count made %d callbacks (err %v)", d, calls, err)
				return nil
			}
		}
		// id lists
		for trial := 0; trial < 6; trial++ {
			var list []string
			want := roaring.New()
			k := c.R.Intn(5)
			for j := 0; j < k; j++ {
				switch c.R.Intn(4) {
				case 0:
					list = append(list, "zzzz-greater-than-every-key")
				case 1:
					list = append(list, "\x00absent")
				default:
					if n > 0 {
						id := b[c.R.Intn(int(n))].ID()
						list = append(list, id)
						for _, d := range ids[id] {
							want.Add(d)
						}
					} else {
						list = append(list, "d000")
					}
				}
			}
			got, err := sb.DocNumbers(list)
			if err != nil {
				return err
			}
			if !got.Equals(want) {
				bad = fmt.Sprintf("DocNumbers(%q) = %v, want %v", list, got.ToArray(), want.ToArray())
				return nil
			}
		}
		return nil
	}()
	if err != nil {
		return "stored-field API error: " + err.Error()
	}
	return bad
}

// ---------------- C03 ----------------

func init() { register("C03", checkC03) }

var dvChunkSizes = []uint32{1, 2, 3, 7, 1024}

func checkC03(c *ctx) {
	c.Rule = "batches with sparse doc-value fields x doc-value chunk size (LegacyChunkMode) in {1,2,3,7,1024} x visit orders {ascending, descending, random with repeats} with one reused visit state, also reused across a second segment and a persisted+opened copy; expected = extracted spec_of_batch (doc values, list of doc-value fields); non-trivial = >= 3 documents, a doc-value field and >= 2 chunks touched"
	c.Assumptions = append(c.Assumptions, "visit-state reuse with a different field list is outside the statement")
	saved := zap.LegacyChunkMode
	defer func() { zap.LegacyChunkMode = saved }()
	n := c.n(200, 3000)
	parts := []int{pDVFields, pDV}
	for i := 0; i < n; i++ {
		zap.LegacyChunkMode = dvChunkSizes[c.R.Intn(len(dvChunkSizes))]
		o := zh.RandOpts(c.R, c.R.Intn(14), "d")
		if o.DVMask == 0 {
			o.DVMask = 1 + c.R.Intn(31)
		}
		o.Geo = c.R.Chance(4)
		b := zh.GenBatch(c.R, o)
		if c.R.Chance(3) {
			if sb := sparsify(c, cloneBatch(b)); sb.InDomain() {
				b = sb
			}
		}
		mode := randMode(c)
		sb, obs, spec, err := buildObs(c, b, mode)
		dvf := 0
		if err == nil {
			dvf = len(spec.L[pDVFields].L)
		}
		c.Case(b.Sx().String(), len(b) >= 3 && dvf > 0 && uint32(len(b)) > zap.LegacyChunkMode)
		c.Count(fmt.Sprintf("dvchunk=%d", zap.LegacyChunkMode))
		c.CountN("dv_fields", dvf)
		if i == 2 {
			c.Sample(map[string]interface{}{"mode": mode, "dv_chunk": zap.LegacyChunkMode, "batch": clip(b.Sx().Pretty())})
		}
		if err != nil || len(partsDiffer(obs, spec, parts)) > 0 {
			reportBuild(c, "C03 built segment vs spec_of_batch (doc values)", b, mode, parts)
			return
		}
		// the model of the builder's doc-value pass (BuildAlg.dv_run: doc values computed from the
		// postings) must produce what zapx produced (batches without geo shapes)
		if !o.Geo && i%3 == 0 {
			dv := ask(c, sx.L(sx.N(zh.ReqDvBuild), b.Sx()))
			if _, isErr := sx.IsErr(dv); isErr {
				mustH(fmt.Errorf("model rejected the doc-value builder request"))
			}
			if !sx.Equal(dv, obs.L[pDV]) {
				c.Violation(fmt.Sprintf("C03 doc values of the built segment differ from the extracted doc-value pass (BuildAlg.dv_run)\nchunkMode=%d\nbatch: %s\nobserved: %s\nmodel: %s", mode, clip(b.Sx().String()), clip(obs.L[pDV].Pretty()), clip(dv.Pretty())), false)
				return
			}
			c.Count("doc_value_pass_runs")
		}
		if bad := parseAgainst(c, sb, spec, parts); bad != "" {
			reportBuild(c, "C03/C09 parsed bytes differ from the spec: "+bad, b, mode, parts)
			return
		}
		// second segment + opened copy for state reuse across segments
		b2 := zh.GenBatch(c.R, o)
		sb2, _, spec2, err2 := buildObs(c, b2, mode)
		if err2 != nil {
			reportBuild(c, "C03 second segment", b2, mode, parts)
			return
		}
		seg, _, err := zh.PersistOpen(sb)
		must(err)
		bad := dvOrders(c, []segment.Segment{sb, sb2, seg}, []sx.V{spec, spec2, spec})
		seg.Close()
		if bad != "" {
			c.Violation(fmt.Sprintf("C03 doc-value visits in arbitrary order with a reused state\n%s\nLegacyChunkMode=%d chunkMode=%d\nbatch A: %s\nbatch B: %s", bad, zap.LegacyChunkMode, mode, b.Sx().String(), b2.Sx().String()), false)
			return
		}
	}
}

func cloneBatch(b zh.Batch) zh.Batch {
	nb := make(zh.Batch, len(b))
	for i, d := range b {
		nb[i] = zh.Doc{Comps: append([]zh.Field(nil), d.Comps...), Fields: append([]zh.Field(nil), d.Fields...)}
	}
	return nb
}

// sparsify removes one doc-value field from a run of documents, producing empty chunks between populated ones
func sparsify(c *ctx, b zh.Batch) zh.Batch {
	if len(b) < 4 {
		return b
	}
	lo := 1 + c.R.Intn(len(b)/2)
	hi := lo + 1 + c.R.Intn(len(b)-lo-1)
	victim := zh.FieldNames[c.R.Intn(2)]
	for i := lo; i < hi; i++ {
		var fs []zh.Field
		for _, f := range b[i].Fields {
			if f.Name != victim {
				fs = append(fs, f)
			}
		}
		b[i].Fields = fs
	}
	return b
}

// dvExpected extracts from a spec content the expected terms of (field, doc)
func dvExpected(spec sx.V) (fields []string, m map[string]map[uint64][]string) {
	m = map[string]map[uint64][]string{}
	for _, f := range spec.L[pDVFields].L {
		fields = append(fields, string(f.B))
	}
	for _, e := range spec.L[pDV].L {
		fm := map[uint64][]string{}
		for _, de := range e.L[1].L {
			var ts []string
			for _, t := range de.L[1].L {
				ts = append(ts, string(t.B))
			}
			fm[de.L[0].N] = ts
		}
		m[string(e.L[0].B)] = fm
	}
	return
}

// dvOrders visits documents of several segments in various orders with ONE visit state per field list.
func dvOrders(c *ctx, segs []segment.Segment, specs []sx.V) (bad string) {
	defer func() {
		if r := recover(); r != nil {
			bad = fmt.Sprintf("PANIC during doc-value visits: %v", r)
		}
	}()
	// the field list is fixed for the state: the union of the dv fields of segment 0 (+ one non-dv name)
	fields0, _ := dvExpected(specs[0])
	fields := append(append([]string{}, fields0...), "not-a-dv-field")
	type visit struct {
		seg int
		doc uint64
	}
	var plan []visit
	for si, sp := range specs {
		n := sp.L[pNDocs].N
		switch c.R.Intn(3) {
		case 0:
			for d := uint64(0); d < n; d++ {
				plan = append(plan, visit{si, d})
			}
		case 1:
			for d := n; d > 0; d-- {
				plan = append(plan, visit{si, d - 1})
			}
		default:
			for k := uint64(0); k < 2*n; k++ {
				plan = append(plan, visit{si, uint64(c.R.Intn(int(n)))})
			}
		}
	}
	// interleave segments sometimes
	if c.R.Bool() {
		for i := range plan {
			j := c.R.Intn(len(plan))
			plan[i], plan[j] = plan[j], plan[i]
		}
	}
	var st segment.DocVisitState
	for _, v := range plan {
		_, exp := dvExpected(specs[v.seg])
		got := map[string][]string{}
		dvv := segs[v.seg].(segment.DocValueVisitable)
		var err error
		st, err = dvv.VisitDocValues(v.doc, fields, func(field string, term []byte) {
			got[field] = append(got[field], string(term))
		}, st)
		if err != nil {
			return fmt.Sprintf("VisitDocValues(seg %d, doc %d) error %v", v.seg, v.doc, err)
		}
		for _, f := range fields {
			g := got[f]
			sort.Strings(g)
			w := exp[f][v.doc]
			if fmt.Sprint(g) != fmt.Sprint(w) {
				return fmt.Sprintf("segment %d doc %d field %q: got terms %q, want %q (visit plan %v)", v.seg, v.doc, f, g, w, plan)
			}
		}
		c.Count("dv_visits")
	}
	return ""
}
