package main

import (
	"encoding/binary"
	"fmt"
	"os"
	"sort"
	"strings"

	segment "github.com/blevesearch/scorch_segment_api/v2"
	"github.com/blevesearch/vellum"
	"github.com/blevesearch/vellum/levenshtein"
	vregexp "github.com/blevesearch/vellum/regexp"
	zap "github.com/blevesearch/zapx/v16"

	"zverif/sx"
	"zverif/zh"
)

func init() { register("C08", checkC08) }

// ---------- simple automata on the Go side ----------

type exactAut struct{ s []byte }

func (a *exactAut) Start() int               { return 0 }
func (a *exactAut) IsMatch(st int) bool      { return st == len(a.s) }
func (a *exactAut) CanMatch(st int) bool     { return st >= 0 }
func (a *exactAut) WillAlwaysMatch(int) bool { return false }
func (a *exactAut) Accept(st int, b byte) int {
	if st < 0 || st >= len(a.s) || a.s[st] != b {
		return -1
	}
	return st + 1
}

type prefixAut struct{ s []byte }

func (a *prefixAut) Start() int                  { return 0 }
func (a *prefixAut) IsMatch(st int) bool         { return st >= len(a.s) }
func (a *prefixAut) CanMatch(st int) bool        { return st >= 0 }
func (a *prefixAut) WillAlwaysMatch(st int) bool { return st >= len(a.s) }
func (a *prefixAut) Accept(st int, b byte) int {
	if st < 0 {
		return -1
	}
	if st >= len(a.s) {
		return st
	}
	if a.s[st] != b {
		return -1
	}
	return st + 1
}

type neverAut struct{}

func (neverAut) Start() int               { return 0 }
func (neverAut) IsMatch(int) bool         { return false }
func (neverAut) CanMatch(int) bool        { return false }
func (neverAut) WillAlwaysMatch(int) bool { return false }
func (neverAut) Accept(int, byte) int     { return 0 }

// ---------- regular-expression subset: AST -> vellum regexp string and model form ----------

type reNode struct {
	kind int // 0 empty-set (unused) 1 eps 2 chr 3 any 4 cat 5 alt 6 star
	c    byte
	a, b *reNode
}

func (r *reNode) str() string {
	switch r.kind {
	case 1:
		return "(?:)"
	case 2:
		return string(r.c)
	case 3:
		return "."
	case 4:
		return r.a.str() + r.b.str()
	case 5:
		return "(?:" + r.a.str() + "|" + r.b.str() + ")"
	default:
		return "(?:" + r.a.str() + ")*"
	}
}
func (r *reNode) sx() sx.V {
	switch r.kind {
	case 1:
		return sx.L(sx.N(1))
	case 2:
		return sx.L(sx.N(2), sx.N(uint64(r.c)))
	case 3:
		return sx.L(sx.N(3))
	case 4:
		return sx.L(sx.N(4), r.a.sx(), r.b.sx())
	case 5:
		return sx.L(sx.N(5), r.a.sx(), r.b.sx())
	default:
		return sx.L(sx.N(6), r.a.sx())
	}
}
func genRe(c *ctx, depth int) *reNode {
	if depth == 0 || c.R.Chance(3) {
		switch c.R.Intn(5) {
		case 0:
			return &reNode{kind: 3}
		default:
			return &reNode{kind: 2, c: "abc"[c.R.Intn(3)]}
		}
	}
	switch c.R.Intn(3) {
	case 0:
		return &reNode{kind: 4, a: genRe(c, depth-1), b: genRe(c, depth-1)}
	case 1:
		return &reNode{kind: 5, a: genRe(c, depth-1), b: genRe(c, depth-1)}
	default:
		return &reNode{kind: 6, a: genRe(c, depth-1)}
	}
}

type autCase struct {
	desc string
	aut  segment.Automaton
	wire sx.V
}

func genAut(c *ctx, terms []string) autCase {
	pick := func() string {
		if len(terms) > 0 && c.R.Intn(4) != 0 {
			return terms[c.R.Intn(len(terms))]
		}
		return asciiTerm(c)
	}
	switch c.R.Intn(7) {
	case 0:
		return autCase{"match-all", nil, sx.L(sx.N(0))}
	case 1:
		return autCase{"never", neverAut{}, sx.L(sx.N(1))}
	case 2:
		t := pick()
		return autCase{fmt.Sprintf("exact %q", t), &exactAut{[]byte(t)}, sx.L(sx.N(2), sx.S(t))}
	case 3:
		t := pick()
		if len(t) > 0 {
			t = t[:c.R.Intn(len(t)+1)]
		}
		return autCase{fmt.Sprintf("prefix %q", t), &prefixAut{[]byte(t)}, sx.L(sx.N(3), sx.S(t))}
	case 4, 5:
		t := pick()
		d := 1 + c.R.Intn(2)
		lb, err := levenshtein.NewLevenshteinAutomatonBuilder(uint8(d), false)
		must(err)
		a, err := lb.BuildDfa(t, uint8(d))
		must(err)
		return autCase{fmt.Sprintf("levenshtein %q within %d", t, d), a, sx.L(sx.N(4), sx.S(t), sx.I(d))}
	default:
		r := genRe(c, 3)
		a, err := vregexp.New(r.str())
		must(err)
		return autCase{"regexp " + r.str(), a, sx.L(sx.N(5), r.sx())}
	}
}

func asciiTerm(c *ctx) string {
	n := c.R.Intn(5)
	b := make([]byte, n)
	for i := range b {
		b[i] = "abc"[c.R.Intn(3)]
	}
	return string(b)
}

// c08Batch: ASCII terms over {a,b,c} (prefix families, near neighbours), frequency 1 without
// locations so that merges write single-hit entries next to general ones.
var c08Batches int
var c08ForceFreq0 string

func c08Batch(c *ctx, nd int, id string) zh.Batch {
	var b zh.Batch
	common := []string{asciiTerm(c), asciiTerm(c)}
	// sparse fields: with some probability the whole batch (hence the segment) lacks one of the fields
	absent := ""
	if c.R.Chance(4) {
		absent = []string{"body", "tag"}[c.R.Intn(2)]
	}
	// or the segment knows a field (every document carries it, stored) but no document has a term in it
	freq0Field := ""
	c08Batches++
	if c.R.Chance(4) || c08Batches%3 == 0 {
		freq0Field = []string{"body", "tag"}[c.R.Intn(2)]
	}
	tokenless := ""
	if absent == "" && c.R.Chance(5) {
		tokenless = []string{"body", "tag"}[c.R.Intn(2)]
	}
	if c08ForceFreq0 != "" {
		absent, tokenless, freq0Field = "", "", c08ForceFreq0
	}
	for d := 0; d < nd; d++ {
		doc := zh.Doc{Fields: []zh.Field{zh.IDField(fmt.Sprintf("%s%02d", id, d))}}
		for _, fn := range []string{"body", "tag"} {
			if fn == absent || (c.R.Chance(5) && c08ForceFreq0 == "") {
				continue
			}
			if fn == tokenless {
				doc.Fields = append(doc.Fields, zh.Field{Name: fn, Stored: true, Typ: 't', Val: []byte("v")})
				continue
			}
			f := zh.Field{Name: fn, Len: 1}
			freq0 := freq0Field == fn
			seen := map[string]bool{}
			for k := c.R.Intn(4); k >= 0; k-- {
				t := asciiTerm(c)
				if c.R.Chance(3) {
					t = common[c.R.Intn(2)]
				}
				if seen[t] {
					continue
				}
				seen[t] = true
				tok := zh.Tok{Term: t, Freq: 1}
				if c.R.Chance(6) {
					tok.Locs = []zh.Loc{{Pos: 1, Start: 0, End: 1}}
				}
				if freq0 { // a field indexed without frequencies but with term vectors
					tok.Freq = 0
					tok.Locs = []zh.Loc{{Pos: 1, Start: 0, End: 1}}
				}
				f.Toks = append(f.Toks, tok)
			}
			f.Len = uint64(len(f.Toks)) + 1
			doc.Fields = append(doc.Fields, f)
		}
		b = append(b, doc)
	}
	return b
}

func segBytes(e *segEnt) []byte {
	switch s := e.seg.(type) {
	case *zap.Segment:
		b, err := os.ReadFile(s.Path())
		must(err)
		return b
	case *zap.SegmentBase:
		b, err := zh.FileBytes(s)
		must(err)
		return b
	}
	return nil
}

// genBound: isEnd bounds are never the empty key (vellum and bleve read an empty end key as "no
// upper bound"; [x, "") is not a well-formed range).
func genBound(c *ctx, terms []string, isEnd bool) (sx.V, []byte, string) {
	v, b, d := genBound0(c, terms)
	if isEnd && b != nil && len(b) == 0 {
		return sx.L(sx.B([]byte{0})), []byte{0}, `"\x00" (just above the empty term)`
	}
	return v, b, d
}

func genBound0(c *ctx, terms []string) (sx.V, []byte, string) {
	switch c.R.Intn(6) {
	case 0, 1:
		return sx.L(), nil, "absent"
	case 2:
		if len(terms) > 0 {
			t := terms[c.R.Intn(len(terms))]
			return sx.L(sx.S(t)), []byte(t), fmt.Sprintf("%q (an existing term)", t)
		}
		fallthrough
	case 3:
		t := asciiTerm(c)
		return sx.L(sx.S(t)), []byte(t), fmt.Sprintf("%q", t)
	case 4:
		return sx.L(sx.S("")), []byte{}, `"" (below every term)`
	default:
		return sx.L(sx.S("zzzz")), []byte("zzzz"), `"zzzz" (above every term)`
	}
}

func checkC08(c *ctx) {
	c.Rule = "dictionaries over terms from {a,b,c}* (prefix families, near neighbours, the empty term) plus the generic vocabulary, on built / persisted+opened / merged / re-merged segments whose merges mix single-hit and general entries; automata {match-all, never, exact, prefix, Levenshtein 1-2, random regular expressions over a subset (literal . concatenation | *)} x key ranges (either bound absent; bounds equal to / between / below / above existing terms; start < end; the empty non-nil end key on dictionaries without the empty term); observed: the (term, count) sequence of AutomatonIterator, Contains, Cardinality, empty result for fields without dictionary; expected: extracted DictionaryIterator model (reused scratch list) run over the dictionary the extracted parser reads from the segment's own bytes, with extracted Gallina matchers; plus one segment of 131136 documents (offsets beyond 2 MiB, a bitmap over three containers and larger than 16 KiB; expected counts by construction); non-trivial = dictionary with >= 3 terms and a non-trivial automaton or range"
	c.Assumptions = append(c.Assumptions, "vellum's FST.Search is abstracted as an ordered filter by (automaton accepts, start <= key < end); the Gallina matchers are the specification of the automata built on the Go side",
		"Levenshtein / regexp automata are exercised on ASCII terms (vellum's automata work on UTF-8 code points, the model on bytes)")
	if bad := boundaryChain(c); bad != "" {
		c.Violation("C08 dictionary counts along a merge chain crossing a chunk-size boundary\n"+bad, false)
		return
	}
	if bad := congruentDictionaryOffsets(c); bad != "" {
		c.Violation("C08 "+bad, false)
		return
	}
	if bad := sharedBoundaryTerm(c); bad != "" {
		c.Violation("C08 "+bad, false)
		return
	}
	if bad := largeDictionary(c); bad != "" {
		c.Violation("C08 dictionary enumeration on a large segment\n"+bad, false)
		return
	}
	rounds := c.n(60, 1200)
	for i := 0; i < rounds; i++ {
		// a chain: two built segments, their merge, and a re-merge
		// every fourth round: both inputs have the same fields, one of them indexed without
		// frequencies but with term vectors in every document, and every other document of the first
		// input is deleted (a merge that copies postings and steps over deleted hits)
		forced := i%4 == 0
		if forced {
			c08ForceFreq0 = []string{"body", "tag"}[(i/4)%2]
		}
		b1, b2 := c08Batch(c, 4+c.R.Intn(5), "a"), c08Batch(c, 1+c.R.Intn(6), "b")
		c08ForceFreq0 = ""
		mode := randMode(c)
		e1, err := newBuilt(c, b1, mode, c.R.Bool())
		must(err)
		e2, err := newBuilt(c, b2, mode, false)
		must(err)
		ents := []*segEnt{e1, e2}
		mc := &mergeCase{ins: []*segEnt{e1, e2}, drops: [][]uint64{nil, nil}, nilBM: []bool{true, true}, mode: mergeModes[c.R.Intn(len(mergeModes))]}
		if c.R.Chance(3) {
			// a third input, so that a segment lacking a field can precede one that has it
			e3, err := newBuilt(c, c08Batch(c, 1+c.R.Intn(5), "c"), mode, c.R.Bool())
			must(err)
			ents = append(ents, e3)
			mc.ins, mc.drops, mc.nilBM = append(mc.ins, e3), append(mc.drops, nil), append(mc.nilBM, true)
			if c.R.Bool() {
				mc.ins[0], mc.ins[2] = mc.ins[2], mc.ins[0]
			}
		}
		// deletions in any input (never all documents of the merge)
		for k, in := range mc.ins {
			if c.R.Chance(3) && in.n > 1 {
				mc.nilBM[k] = false
				for d := uint64(0); d < in.n; d++ {
					if c.R.Chance(3) && uint64(len(mc.drops[k]))+1 < in.n {
						mc.drops[k] = append(mc.drops[k], d)
					}
				}
			}
		}
		if forced {
			for k, in := range mc.ins {
				if in == e1 {
					mc.nilBM[k], mc.drops[k] = false, nil
					for d := uint64(0); d+1 < in.n; d += 2 {
						mc.drops[k] = append(mc.drops[k], d)
					}
				}
			}
			c.Count("rounds_with_a_frequency_free_field_and_deletions")
		}
		spec, _ := specMerge(c, mc)
		r := runMerge(c, mc)
		if r.err != nil || r.seg == nil {
			c.Violation(fmt.Sprintf("C08 merge failed: %v", r.err), false)
			return
		}
		m1 := &segEnt{seg: r.seg, spec: spec, n: spec.L[pNDocs].N, prov: "merged"}
		ents = append(ents, m1)
		if c.R.Bool() {
			mc2 := &mergeCase{ins: []*segEnt{m1, e2}, drops: [][]uint64{nil, nil}, nilBM: []bool{true, true}, mode: mode}
			spec2, _ := specMerge(c, mc2)
			r2 := runMerge(c, mc2)
			if r2.err != nil || r2.seg == nil {
				c.Violation(fmt.Sprintf("C08 re-merge failed: %v", r2.err), false)
				return
			}
			ents = append(ents, &segEnt{seg: r2.seg, spec: spec2, n: spec2.L[pNDocs].N, prov: "re-merged"})
		}
		for _, e := range ents {
			data := segBytes(e)
			for _, field := range []string{"body", "tag", "_id", "no-such-field"} {
				var terms []string
				for _, fd := range e.spec.L[pDicts].L {
					if string(fd.L[0].B) == field {
						for _, te := range fd.L[1].L {
							terms = append(terms, string(te.L[0].B))
						}
					}
				}
				sort.Strings(terms)
				for q := 0; q < 4; q++ {
					ac := genAut(c, terms)
					loS, lo, loD := genBound(c, terms, false)
					hiS, hi, hiD := genBound(c, terms, true)
					if lo == nil && c.R.Chance(8) && (len(terms) == 0 || terms[0] != "") {
						// [-, ""): an empty, non-nil end key; nothing lies below the empty key.  (Only
						// for dictionaries without the empty term: vellum hands out keys it is
						// positioned on without comparing them with the end key - DESIGN.md 0.)
						hiS, hi, hiD = sx.L(sx.S("")), []byte{}, `"" (empty, non-nil: nothing lies below it)`
					}
					if lo != nil && hi != nil && strings.Compare(string(lo), string(hi)) >= 0 {
						hiS, hi, hiD = sx.L(), nil, "absent"
					}
					what := fmt.Sprintf("%s segment, field %q (%d terms), automaton: %s, range [%s, %s)", e.prov, field, len(terms), ac.desc, loD, hiD)
					c.Case(fmt.Sprintf("%d-%s-%s-%d", i, e.prov, field, q)+what, len(terms) >= 3 && (ac.aut != nil || lo != nil || hi != nil))
					c.Count("provenance_" + e.prov)
					c.Count("automaton_" + strings.Fields(ac.desc)[0])
					if i == 1 && q == 0 && field == "body" {
						c.Sample(map[string]interface{}{"query": what, "terms": terms})
					}
					obs, card, bad := dictObserve(e.seg, field, ac.aut, lo, hi, terms)
					if bad == "" {
						a := ask(c, sx.L(sx.N(zh.ReqDict), sx.B(data), sx.S(field), ac.wire, loS, hiS))
						if code, isErr := sx.IsErr(a); isErr {
							bad = fmt.Sprintf("the extracted parser cannot read this segment's dictionary (error %d)", code)
						} else if !sx.Equal(obs, a.L[0]) {
							bad = fmt.Sprintf("%s\n  observed (term count): %s\n  expected (term count): %s", firstDiff(obs, a.L[0], "entries"), clip(obs.Pretty()), clip(a.L[0].Pretty()))
						} else if uint64(card) != a.L[1].N {
							bad = fmt.Sprintf("Cardinality() = %d, the dictionary has %d terms", card, a.L[1].N)
						}
						// the model's counts must also be the true counts of the specification
						if bad == "" {
							for _, ent := range a.L[0].L {
								if want := uint64(len(hitsOf(e.spec, field, string(ent.L[0].B)).L)); ent.L[1].N != want {
									bad = fmt.Sprintf("term %q: count %d but the term has %d postings", ent.L[0].B, ent.L[1].N, want)
								}
							}
						}
					}
					if bad != "" {
						c.Violation(fmt.Sprintf("C08 dictionary enumeration\n%s\nterms of the field: %q\n%s\nsegment content: %s", what, terms, bad, clip(e.spec.Pretty())), false)
						return
					}
				}
			}
		}
		for _, e := range ents {
			e.close()
		}
	}
}

// dictObserve runs one AutomatonIterator query and probes Contains / Cardinality.
func dictObserve(seg segment.Segment, field string, a segment.Automaton, lo, hi []byte, terms []string) (obs sx.V, card int, bad string) {
	defer func() {
		if r := recover(); r != nil {
			bad = fmt.Sprintf("PANIC: %v", r)
		}
	}()
	d, err := seg.Dictionary(field)
	if err != nil {
		return sx.V{}, 0, "Dictionary error " + err.Error()
	}
	var va vellum.Automaton
	if a != nil {
		va = a
	}
	var it segment.DictionaryIterator
	if va == nil {
		it = d.AutomatonIterator(nil, lo, hi)
	} else {
		it = d.AutomatonIterator(va, lo, hi)
	}
	var out []sx.V
	for {
		e, err := it.Next()
		if err != nil {
			return sx.V{}, 0, "iterator error " + err.Error()
		}
		if e == nil {
			break
		}
		out = append(out, sx.L(sx.S(e.Term), sx.N(e.Count)))
	}
	// two more iterations of the same Dictionary object, read alternately while a third is open:
	// each must yield the full sequence on its own
	if a == nil && lo == nil && hi == nil && len(out) > 1 {
		i1, i2 := d.AutomatonIterator(nil, nil, nil), d.AutomatonIterator(nil, nil, nil)
		for k := 0; k <= len(out); k++ {
			e1, err1 := i1.Next()
			if k == len(out)/2 {
				d.AutomatonIterator(nil, []byte("b"), nil).Next() // a third one, started in between
			}
			e2, err2 := i2.Next()
			if err1 != nil || err2 != nil {
				return sx.V{}, 0, fmt.Sprintf("interleaved dictionary iterators: errors %v %v", err1, err2)
			}
			if k == len(out) {
				if e1 != nil || e2 != nil {
					return sx.V{}, 0, "interleaved dictionary iterators of one Dictionary yield extra entries"
				}
				break
			}
			want := string(out[k].L[0].B)
			if e1 == nil || e2 == nil || e1.Term != want || e2.Term != want {
				return sx.V{}, 0, fmt.Sprintf("two iterators obtained from one Dictionary and read alternately: entry %d is %v / %v, a single iteration yields %q", k, e1, e2, want)
			}
		}
	}
	have := map[string]bool{}
	for _, t := range terms {
		have[t] = true
		if ok, err := d.Contains([]byte(t)); err != nil || !ok {
			return sx.V{}, 0, fmt.Sprintf("Contains(%q) = %v, %v for a term of the field", t, ok, err)
		}
	}
	for _, t := range []string{"\x01absent", "zzzzz", "ab\x00"} {
		if ok, _ := d.Contains([]byte(t)); ok && !have[t] {
			return sx.V{}, 0, fmt.Sprintf("Contains(%q) is true for a term the field does not have", t)
		}
	}
	return sx.List(out), d.Cardinality(), ""
}

// largeDictionary: one segment of 131136 documents (file offsets beyond 2 MiB, i.e. 4-byte varints
// in the postings headers, and a term whose bitmap spans three 65536-document containers and is
// larger than 16 KiB).  The expected counts follow from the construction; the extracted model is
// not consulted at this size.
func largeDictionary(c *ctx) string {
	n := 131136
	var b zh.Batch
	for i := 0; i < n; i++ {
		toks := []zh.Tok{{Term: "every", Freq: 1, Locs: []zh.Loc{{Pos: 1, Start: 0, End: 5}}}}
		if i%3 == 0 {
			toks = append(toks, zh.Tok{Term: "third", Freq: 2, Locs: []zh.Loc{{Pos: 2, Start: 6, End: 11}, {Pos: 3, Start: 12, End: 17}}})
		}
		if i%1000 == 7 {
			toks = append(toks, zh.Tok{Term: "rare", Freq: 1})
		}
		b = append(b, zh.Doc{Fields: []zh.Field{zh.IDField(fmt.Sprintf("g%06d", i)),
			{Name: "body", Stored: true, Typ: 't', Val: []byte(fmt.Sprintf("stored-value-%06d", i)), Len: uint64(len(toks)), Toks: toks}}})
	}
	want := map[string]uint64{"every": uint64(n), "third": uint64((n + 2) / 3), "rare": uint64((n - 7 + 999) / 1000)}
	sb, size, err := zh.Build(b, 1026)
	if err != nil {
		return "build failed: " + err.Error()
	}
	seg, _, err := zh.PersistOpen(sb)
	if err != nil {
		return "persist/open failed: " + err.Error()
	}
	defer seg.Close()
	c.Case("large-dictionary", true)
	c.CountN("large_segment_bytes", int(size))
	for _, s := range []segment.Segment{sb, seg} {
		prov := "built"
		if s != segment.Segment(sb) {
			prov = "opened"
		}
		obs, card, bad := dictObserve(s, "body", nil, nil, nil, []string{"every", "third", "rare"})
		if bad != "" {
			return fmt.Sprintf("%s segment of %d documents (%d bytes), field body: %s", prov, n, size, bad)
		}
		if card != 3 || len(obs.L) != 3 {
			return fmt.Sprintf("%s segment of %d documents: the dictionary of body lists %d terms, Cardinality %d; the field has 3", prov, n, len(obs.L), card)
		}
		for _, e := range obs.L {
			t := string(e.L[0].B)
			if e.L[1].N != want[t] {
				return fmt.Sprintf("%s segment of %d documents: term %q reported with count %d, it occurs in %d documents", prov, n, t, e.L[1].N, want[t])
			}
			d, _ := s.Dictionary("body")
			pl, err := d.PostingsList([]byte(t), nil, nil)
			if err != nil || pl.Count() != want[t] {
				return fmt.Sprintf("%s segment of %d documents: postings list of %q has Count %d (err %v), want %d", prov, n, t, pl.Count(), err, want[t])
			}
		}
	}
	return ""
}

// boundaryChain: deletions take a term from 1030 to about 1000 postings in a merge (chunk mode 1026),
// and the output is merged once more on its own (identical field lists: the byte-copy path); the
// dictionary of every generation must report the true counts.
func boundaryChain(c *ctx) string {
	b := zh.GenBoundaryBatch(c.R, 1100, []int{1030, 5, 3}, true)
	e1, err := newBuilt(c, b, 1026, false)
	if err != nil {
		return "build failed: " + err.Error()
	}
	defer e1.close()
	var drops []uint64
	for d := 0; d < len(b) && len(drops) < 30; d++ {
		for _, f := range b[d].Fields {
			if f.Name == "tag" && len(f.Toks) > 0 && f.Toks[0].Term == "t0" {
				drops = append(drops, uint64(d))
				break
			}
		}
	}
	cur := e1
	curDrops := drops
	for gen := 1; gen <= 2; gen++ {
		mc := &mergeCase{ins: []*segEnt{cur}, drops: [][]uint64{curDrops}, nilBM: []bool{curDrops == nil}, mode: 1026}
		spec, _ := specMerge(c, mc)
		r := runMerge(c, mc)
		if r.err != nil || r.seg == nil {
			return fmt.Sprintf("merge generation %d failed: %v", gen, r.err)
		}
		defer r.seg.Close()
		var terms []string
		want := map[string]uint64{}
		for _, fd := range spec.L[pDicts].L {
			if string(fd.L[0].B) == "tag" {
				for _, te := range fd.L[1].L {
					terms = append(terms, string(te.L[0].B))
					want[string(te.L[0].B)] = uint64(len(te.L[1].L))
				}
			}
		}
		obs, card, bad := dictObserve(r.seg, "tag", nil, nil, nil, terms)
		if bad != "" {
			return fmt.Sprintf("generation %d (1100 documents, term t0 with 1030 postings, 30 of its documents deleted in the first merge): %s", gen, bad)
		}
		if card != len(terms) || len(obs.L) != len(terms) {
			return fmt.Sprintf("generation %d: the dictionary of tag lists %d terms (Cardinality %d), the specification has %d", gen, len(obs.L), card, len(terms))
		}
		for _, e := range obs.L {
			if t := string(e.L[0].B); e.L[1].N != want[t] {
				return fmt.Sprintf("generation %d of the merge chain: term %q is reported with count %d, it has %d postings (1100 documents, 30 deletions in the first merge took it from 1030 postings across the 1024 boundary)", gen, t, e.L[1].N, want[t])
			}
		}
		c.Count("boundary_chain_generations")
		cur = &segEnt{seg: r.seg, spec: spec, n: spec.L[pNDocs].N, prov: "merged", depth: gen}
		curDrops = nil
	}
	c.Case("boundary-chain", true)
	return ""
}

// sharedBoundaryTerm: two fields adjacent in field order (body, tag); the LAST term of body is also the
// FIRST term of tag; it has 1100 postings in body and 4 in tag (documents at the far end); 1200
// documents in two segments, merged, the result merged again (with and without a deletion).  Every
// generation's dictionaries must report the counts the surviving documents dictate.
func sharedBoundaryTerm(c *ctx) string {
	mk := func(id string, from, to int) zh.Batch {
		var b zh.Batch
		for d := from; d < to; d++ {
			doc := zh.Doc{Fields: []zh.Field{zh.IDField(fmt.Sprintf("%s%04d", id, d))}}
			body := zh.Field{Name: "body", Len: 2, Toks: []zh.Tok{{Term: "a", Freq: 1}}}
			if d < 1100 {
				body.Toks = append(body.Toks, zh.Tok{Term: "m", Freq: 1})
			}
			doc.Fields = append(doc.Fields, body)
			tag := zh.Field{Name: "tag", Len: 2, Toks: []zh.Tok{{Term: "z", Freq: 1}}}
			if d >= 1196 {
				tag.Toks = append(tag.Toks, zh.Tok{Term: "m", Freq: 1})
			}
			doc.Fields = append(doc.Fields, tag)
			b = append(b, doc)
		}
		return b
	}
	e1, err := newBuilt(c, mk("s", 0, 600), 1026, false)
	must(err)
	e2, err := newBuilt(c, mk("s", 600, 1200), 1026, true)
	must(err)
	defer e1.close()
	defer e2.close()
	check := func(seg segment.Segment, spec sx.V, what string) string {
		for _, field := range []string{"body", "tag"} {
			var terms []string
			want := map[string]uint64{}
			for _, fd := range spec.L[pDicts].L {
				if string(fd.L[0].B) == field {
					for _, te := range fd.L[1].L {
						terms = append(terms, string(te.L[0].B))
						want[string(te.L[0].B)] = uint64(len(te.L[1].L))
					}
				}
			}
			obs, card, bad := dictObserve(seg, field, nil, nil, nil, terms)
			if bad != "" {
				return what + ", field " + field + ": " + bad
			}
			if card != len(terms) || len(obs.L) != len(terms) {
				return fmt.Sprintf("%s: the dictionary of %s lists %d terms (Cardinality %d), the surviving documents have %d", what, field, len(obs.L), card, len(terms))
			}
			for _, e := range obs.L {
				if t := string(e.L[0].B); e.L[1].N != want[t] {
					return fmt.Sprintf("%s: %s/%q is reported with count %d, the surviving documents give %d", what, field, t, e.L[1].N, want[t])
				}
			}
		}
		return ""
	}
	mc := &mergeCase{ins: []*segEnt{e1, e2}, drops: [][]uint64{nil, nil}, nilBM: []bool{true, true}, mode: 1026}
	spec, _ := specMerge(c, mc)
	r := runMerge(c, mc)
	if r.err != nil || r.seg == nil {
		return fmt.Sprintf("merge failed: %v", r.err)
	}
	defer r.seg.Close()
	what := "1200 documents in two segments; term m is the last term of body (1100 postings) and the first term of tag (4 postings, documents 1196..1199)"
	if bad := check(r.seg, spec, what+"; first merge"); bad != "" {
		return bad
	}
	m1 := &segEnt{seg: r.seg, spec: spec, n: spec.L[pNDocs].N, prov: "merged", depth: 1}
	for _, dr := range [][]uint64{nil, {5}} {
		mc2 := &mergeCase{ins: []*segEnt{m1}, drops: [][]uint64{dr}, nilBM: []bool{dr == nil}, mode: 1026}
		spec2, _ := specMerge(c, mc2)
		r2 := runMerge(c, mc2)
		if r2.err != nil || r2.seg == nil {
			return fmt.Sprintf("second-generation merge failed: %v", r2.err)
		}
		bad := check(r2.seg, spec2, fmt.Sprintf("%s; the merge output merged again (deletions %v)", what, dr))
		r2.seg.Close()
		if bad != "" {
			return bad
		}
		c.Count("shared_boundary_term_generations")
	}
	c.Case("shared-boundary-term", true)
	return ""
}

// dictLocOf reads, from the bytes of a segment file, the file offset of the term dictionary of a field
// (footer -> fields index -> field record -> inverted section -> third uvarint).
func dictLocOf(file []byte, field string) (uint64, bool) {
	if len(file) < 52 {
		return 0, false
	}
	secIdx := binary.BigEndian.Uint64(file[len(file)-52+24:])
	if secIdx >= uint64(len(file)) {
		return 0, false
	}
	nf, k := binary.Uvarint(file[secIdx:])
	pos := secIdx + uint64(k)
	for i := uint64(0); i < nf; i++ {
		off := binary.BigEndian.Uint64(file[pos+8*i:])
		nl, k := binary.Uvarint(file[off:])
		p := off + uint64(k)
		name := string(file[p : p+nl])
		p += nl
		ns, k := binary.Uvarint(file[p:])
		p += uint64(k)
		for j := uint64(0); j < ns; j++ {
			typ := binary.BigEndian.Uint16(file[p:])
			addr := binary.BigEndian.Uint64(file[p+2:])
			p += 10
			if name == field && typ == 0 && addr != 0 {
				_, k1 := binary.Uvarint(file[addr:])
				_, k2 := binary.Uvarint(file[addr+uint64(k1):])
				dl, _ := binary.Uvarint(file[addr+uint64(k1)+uint64(k2):])
				return dl, true
			}
		}
	}
	return 0, false
}

// congruentDictionaryOffsets: a segment in which the dictionaries of two fields start at file offsets
// that differ by an exact multiple of 65536 (the field in between is padded until they do); every
// field's dictionary is then read on ONE segment object and compared with the documents.
func congruentDictionaryOffsets(c *ctx) string {
	mk := func(padLen int) zh.Batch {
		var b zh.Batch
		for d := 0; d < 40; d++ {
			doc := zh.Doc{Fields: []zh.Field{zh.IDField(fmt.Sprintf("g%03d", d)),
				{Name: "aa", Len: 1, Toks: []zh.Tok{{Term: fmt.Sprintf("alpha%d", d%5), Freq: 1}}},
				{Name: "cc", Len: 1, Toks: []zh.Tok{{Term: fmt.Sprintf("gamma%d", d%7), Freq: 1}}}}}
			bb := zh.Field{Name: "bb", Len: 170}
			for k := 0; k < 170; k++ {
				bb.Toks = append(bb.Toks, zh.Tok{Term: fmt.Sprintf("pad-%02d-%03d-%s", d, k, strings.Repeat("x", 1+(d*7+k)%9)), Freq: 1})
			}
			if d == 0 {
				bb.Toks = append(bb.Toks, zh.Tok{Term: "tune" + strings.Repeat("y", padLen), Freq: 1})
				bb.Len++
			}
			doc.Fields = append(doc.Fields, bb)
			b = append(b, doc)
		}
		return b
	}
	padLen := 10
	var b zh.Batch
	var sb *zap.SegmentBase
	hit := false
	var dist uint64
	for try := 0; try < 40 && padLen < 60000; try++ {
		b = mk(padLen)
		var err error
		sb, _, err = zh.Build(b, 1026)
		must(err)
		file, err := zh.FileBytes(sb)
		must(err)
		la, ok1 := dictLocOf(file, "aa")
		lc, ok2 := dictLocOf(file, "cc")
		if !ok1 || !ok2 {
			return "the dictionary offsets cannot be located in the file (harness reader out of date)"
		}
		if lc < la {
			la, lc = lc, la
		}
		dist = lc - la
		if dist%65536 == 0 && dist > 0 {
			hit = true
			break
		}
		sb.Close()
		if over := int(dist % 65536); over < 2000 && padLen-over > 0 {
			padLen -= over // overshot by a few bytes (a varint grew)
		} else {
			padLen += 65536 - over
		}
	}
	if !hit {
		c.Count("congruent_dictionary_offsets_not_reached")
		return ""
	}
	defer sb.Close()
	spec, err := zh.SpecOf(c.M, b)
	mustH(err)
	c.Case("congruent-dictionary-offsets", true)
	c.Count("segments_with_congruent_dictionary_offsets")
	for _, order := range [][]string{{"aa", "cc", "bb", "_id"}, {"cc", "aa"}} {
		seg, _, err := zh.PersistOpen(sb)
		must(err)
		for _, field := range order {
			var terms []string
			want := map[string]uint64{}
			for _, fd := range spec.L[pDicts].L {
				if string(fd.L[0].B) == field {
					for _, te := range fd.L[1].L {
						terms = append(terms, string(te.L[0].B))
						want[string(te.L[0].B)] = uint64(len(te.L[1].L))
					}
				}
			}
			obs, card, bad := dictObserve(seg, field, nil, nil, nil, terms)
			if bad == "" && (card != len(terms) || len(obs.L) != len(terms)) {
				bad = fmt.Sprintf("the dictionary lists %d terms (Cardinality %d), the documents have %d", len(obs.L), card, len(terms))
			}
			if bad == "" {
				for _, e := range obs.L {
					if t := string(e.L[0].B); e.L[1].N != want[t] {
						bad = fmt.Sprintf("term %q is reported with count %d, want %d", clip(t), e.L[1].N, want[t])
					}
				}
			}
			if bad != "" {
				seg.Close()
				return fmt.Sprintf("a segment in which the dictionaries of fields aa and cc start %d bytes apart (a multiple of 65536); dictionaries read in the order %v on one segment object; field %s: %s", dist, order, field, bad)
			}
		}
		seg.Close()
	}
	return ""
}
