package main

import (
	"bytes"
	"encoding/binary"
	"fmt"
	"os"
	"runtime"
	"runtime/debug"
	"sync"

	segment "github.com/blevesearch/scorch_segment_api/v2"
	zap "github.com/blevesearch/zapx/v16"

	"zverif/sx"
	"zverif/zh"
)

func init() { register("C04", checkC04) }

var allParts = []int{pNDocs, pFields, pDicts, pStored, pDVFields, pDV, pThes}

// footerCheck has the model decode the footer and recompute the CRC (Gallina CRC-32) of a file.
func footerCheck(c *ctx, data []byte, ndocs uint64, mode uint32) string {
	a := ask(c, sx.L(sx.N(zh.ReqFooter), sx.B(data)))
	if code, bad := sx.IsErr(a); bad {
		return fmt.Sprintf("model cannot decode the footer (error %d): file of %d bytes", code, len(data))
	}
	// (mem_len numDocs stored fields sections dv chunkMode version crc_stored crc_computed)
	f := a.L
	switch {
	case f[0].N != uint64(len(data))-52:
		return fmt.Sprintf("footer is not the last 52 bytes (mem length %d of %d)", f[0].N, len(data))
	case f[1].N != ndocs:
		return fmt.Sprintf("footer document count %d, want %d", f[1].N, ndocs)
	case f[6].N != uint64(mode):
		return fmt.Sprintf("footer chunk mode %d, want %d", f[6].N, mode)
	case f[7].N != 16:
		return fmt.Sprintf("footer version %d, want 16", f[7].N)
	case f[8].N != f[9].N:
		return fmt.Sprintf("footer CRC-32 %08x does not match the CRC-32 %08x of all preceding bytes", f[8].N, f[9].N)
	}
	return ""
}

// persistEquiv: Persist and WriteTo emit the same bytes; footer; the opened segment answers like the in-memory one.
func persistEquiv(c *ctx, sb *zap.SegmentBase, spec sx.V, ndocs uint64, mode uint32, fullParse bool) string {
	inmem, err := zh.Dump(sb)
	if err != nil {
		return "in-memory segment cannot be read: " + err.Error()
	}
	wbytes, err := zh.FileBytes(sb)
	if err != nil {
		return "WriteTo failed: " + err.Error()
	}
	path := zh.TmpPath("c04")
	if err := zap.PersistSegmentBase(sb, path); err != nil {
		return "Persist failed: " + err.Error()
	}
	defer os.Remove(path)
	pbytes, err := os.ReadFile(path)
	if err != nil {
		return err.Error()
	}
	if !bytes.Equal(wbytes, pbytes) {
		return fmt.Sprintf("Persist wrote %d bytes, WriteTo %d bytes, and they differ", len(pbytes), len(wbytes))
	}
	if bad := footerCheck(c, pbytes, ndocs, mode); bad != "" {
		return bad
	}
	s, err := zh.Plugin.Open(path)
	if err != nil {
		return "Open failed: " + err.Error()
	}
	seg := s.(*zap.Segment)
	defer seg.Close()
	// a holder takes and drops a reference before the segment is queried (index snapshots do)
	seg.AddRef()
	if err := seg.DecRef(); err != nil {
		return "DecRef on the opened segment: " + err.Error()
	}
	opened, err := zh.Dump(seg)
	if err != nil {
		return "opened segment cannot be read: " + err.Error()
	}
	if d := partsDiffer(opened.Sx(), inmem.Sx(), allParts); len(d) > 0 {
		return "opened segment answers differently from the in-memory one in " + fmt.Sprint(d) + "\n" + describeDiff(opened.Sx(), inmem.Sx(), allParts)
	}
	if d := partsDiffer(opened.Sx(), spec, allParts); len(d) > 0 {
		return "opened segment differs from the specification in " + fmt.Sprint(d) + "\n" + describeDiff(opened.Sx(), spec, allParts)
	}
	// the id-based calls (DocID, DocNumbers on id lists, visits beyond Count) on both
	if bad := storedAPIFromSpec(c, sb, spec); bad != "" {
		return "in-memory segment: " + bad
	}
	if bad := storedAPIFromSpec(c, seg, spec); bad != "" {
		return "opened segment: " + bad
	}
	// sections are visited in Go map order when a segment is opened: a segment with data in more
	// than one section (thesauri) is opened repeatedly
	if len(spec.L[pThes].L) > 0 {
		for k := 0; k < 12; k++ {
			s2, err := zh.Plugin.Open(path)
			if err != nil {
				return "Open failed: " + err.Error()
			}
			again, err := zh.Dump(s2)
			s2.Close()
			if err != nil {
				return "opened segment cannot be read: " + err.Error()
			}
			if d := partsDiffer(again.Sx(), inmem.Sx(), allParts); len(d) > 0 {
				return fmt.Sprintf("the file opened again (open #%d of the same file) answers differently from the in-memory segment in %v\n%s", k+2, d, describeDiff(again.Sx(), inmem.Sx(), allParts))
			}
			c.Count("repeated_opens")
		}
	}
	if fullParse {
		if p := parseBytesAgainst(c, pbytes, spec, allParts); p != "" {
			return "persisted file decoded by the extracted parser: " + p
		}
	}
	return ""
}

func checkC04(c *ctx) {
	c.Rule = "batches of the C01/C02/C03/C12 generators (incl. synonym documents, stored arrays, >64KB values, _id lengths up to 65536 incl. exact multiples of 32 KiB) x chunk modes; for each: Persist bytes = WriteTo bytes; the model decodes the 52-byte footer and recomputes CRC-32 with the Gallina CRC; the persisted+opened segment's complete dump = the in-memory segment's dump = extracted spec_of_batch; plus one segment larger than 2 MiB (offsets beyond 2^21) per run; many segments are built in one process so that pooled builder state is reused; thesauri may be named like ordinary doc-value fields (data in two sections); 8 goroutines persist / WriteTo different segments at the same time and every image must equal the one the segment produces alone; one path used for successive segments of equal length (a field renamed to a name of the same length, values swapped between fields): what is opened is what was persisted last; non-trivial = >= 2 docs and >= 3 tokens"
	c.Assumptions = append(c.Assumptions, "mmap/open are OS behaviour; vectors are covered by C14 (vectors tag)")
	n := c.n(100, 3000)
	saved := zap.LegacyChunkMode
	defer func() { zap.LegacyChunkMode = saved }()
	for i := 0; i < n; i++ {
		zap.LegacyChunkMode = saved
		if c.R.Chance(3) {
			zap.LegacyChunkMode = dvChunkSizes[c.R.Intn(len(dvChunkSizes))]
		}
		o := zh.RandOpts(c.R, c.R.Intn(12), "d")
		o.BigVals = c.R.Chance(15)
		o.LongIDs = c.R.Chance(5)
		o.DupIDs = c.R.Chance(4)
		o.HugeIDs = true
		b := zh.GenBatch(c.R, o)
		if c.R.Chance(4) {
			b = zh.AddSynDocs(c.R, b, "d")
		}
		mode := randMode(c)
		sb, _, spec, err := buildObs(c, b, mode)
		c.Case(b.Sx().String(), nontrivialBatch(b))
		c.Count(fmt.Sprintf("mode=%d", mode))
		c.CountN("docs", len(b))
		if i == 1 {
			c.Sample(map[string]interface{}{"mode": mode, "batch": clip(b.Sx().Pretty())})
		}
		if err != nil {
			reportBuild(c, "C04 build failed", b, mode, allParts)
			return
		}
		if bad := persistEquiv(c, sb, spec, uint64(len(b)), mode, i%3 == 0); bad != "" {
			small := zh.ShrinkBatch(b, func(nb zh.Batch) bool {
				s2, _, sp2, e := buildObs(c, nb, mode)
				return e != nil || persistEquiv(c, s2, sp2, uint64(len(nb)), mode, false) != ""
			})
			s2, _, sp2, _ := buildObs(c, small, mode)
			msg := bad
			if s2 != nil {
				if m2 := persistEquiv(c, s2, sp2, uint64(len(small)), mode, false); m2 != "" {
					msg = m2
				}
			}
			c.Violation(fmt.Sprintf("C04 persist / open equivalence\n%s\nchunkMode=%d LegacyChunkMode=%d\nbatch (shrunk): %s\nreadable: %s", clip(msg), mode, zap.LegacyChunkMode, small.Sx().String(), clip(small.Sx().Pretty())), false)
			return
		}
	}
	// generations of one small segment shape (same ids, same lengths, other values), persisted up
	// front, then opened, read and closed strictly in turn: a later file is usually mapped exactly
	// where the earlier one was, with the same record offsets and lengths
	{
		const gens = 6
		letters := "abcdefghijklmnopqrstuvwxyz0123456789ABCDEFGHIJKLMNOPQRSTUVWXYZ"
		paths := make([]string, gens)
		vals := make([][]string, gens)
		for gen := 0; gen < gens; gen++ {
			var b zh.Batch
			for d := 0; d < 4; d++ {
				perm := []byte(letters)
				for x := range perm {
					y := x + c.R.Intn(len(perm)-x)
					perm[x], perm[y] = perm[y], perm[x]
				}
				v := string(perm[:40]) // no repetition: every generation compresses to the same length
				vals[gen] = append(vals[gen], v)
				b = append(b, zh.Doc{Fields: []zh.Field{zh.IDField(fmt.Sprintf("g%02d", d)),
					{Name: "body", Stored: true, Typ: 't', Val: []byte(v), Len: 1, Toks: []zh.Tok{{Term: "x", Freq: 1}}}}})
			}
			sb, _, err := zh.Build(b, 1026)
			must(err)
			paths[gen] = zh.TmpPath(fmt.Sprintf("c04gen%d", gen))
			must(zap.PersistSegmentBase(sb, paths[gen]))
		}
		for round := 0; round < 3; round++ {
			for gen := 0; gen < gens; gen++ {
				s, err := zh.Plugin.Open(paths[gen])
				must(err)
				for q := uint64(0); q < 4; q++ {
					d := q
					if gen%2 == 1 { // the document read last in one generation is read first in the next
						d = 3 - q
					}
					val := ""
					s.VisitStoredFields(d, func(field string, typ byte, value []byte, pos []uint64) bool {
						if field == "body" {
							val = string(value)
						}
						return true
					})
					if val != vals[gen][d] {
						s.Close()
						c.Violation(fmt.Sprintf("C04 six generations of a 4-document segment (same ids and lengths, other stored values) are opened, read and closed in turn: generation %d, document %d reads %q, its batch says %q", gen, d, val, vals[gen][d]), false)
						return
					}
				}
				s.Close()
				c.Count("same_shape_generation_opens")
			}
		}
		for _, p := range paths {
			os.Remove(p)
		}
		c.Case("generations", true)
	}
	// batches with 127, 128, 129 and 300 distinct field names (the field count and every field id
	// cross the one-byte varint)
	for _, nf := range []int{127, 128, 129, 300} {
		b := wideBatch(nf, "f", false)
		sb, _, spec, err := buildObs(c, b, 1026)
		c.Case(fmt.Sprintf("fields-%d", nf), true)
		c.Count("many_field_batches")
		if err != nil {
			c.Violation(fmt.Sprintf("C04 build of a batch with %d field names failed: %v", nf, err), false)
			return
		}
		if bad := persistEquiv(c, sb, spec, uint64(len(b)), 1026, false); bad != "" {
			c.Violation(fmt.Sprintf("C04 persist / open equivalence on a batch with %d distinct field names (2 documents)\n%s", nf, clip(bad)), false)
			return
		}
	}
	// (thorough tier) more than 65536 segments created in one process while an early one stays alive
	// with its dictionaries loaded: a later segment must still answer from its own data
	if !c.Quick || os.Getenv("ZVERIF_MANYSEG") != "" {
		if bad := manySegmentsInOneProcess(c); bad != "" {
			c.Violation("C04 "+bad, false)
			return
		}
	}
	// doc-value regions starting at offsets whose uvarint encoding begins with particular byte pairs
	// (0xff 0xff: offset = 0x3fff mod 0x4000; 0x80 0x80; 0xff 0x7f), reached by padding a stored field
	if bad := dvOffsetResidues(c); bad != "" {
		c.Violation("C04 "+bad, false)
		return
	}
	// one path used for one segment after the other (a file name recycled by the caller): what is
	// opened must be what was persisted last - also when the two files have the same length and the
	// same footer offsets (a field renamed to a name of equal length; a text moved to another field)
	if bad := samePathGenerations(c); bad != "" {
		c.Violation("C04 "+bad, false)
		return
	}
	// different segments persisted at the same time (an indexer flushes and merges concurrently):
	// every image must equal the image the same segment produces alone
	zap.LegacyChunkMode = saved
	if bad := concurrentPersist(c); bad != "" {
		c.Violation("C04 segments persisted concurrently by different goroutines\n"+bad, false)
		return
	}
	// a segment larger than 2 MiB: every varint length class of offsets below 2^28 occurs
	// (garbage collector off and one P from here on, so that the later builds below draw the very
	// builder object that produced this segment from the pool)
	oldGC := debug.SetGCPercent(-1)
	defer debug.SetGCPercent(oldGC)
	oldP := runtime.GOMAXPROCS(1)
	defer runtime.GOMAXPROCS(oldP)
	o := zh.RandOpts(c.R, 36, "big")
	o.DVMask = 31
	o.NFields = 3
	b := zh.GenBatch(c.R, o)
	for i := range b {
		b[i].Fields = append(b[i].Fields, zh.Field{Name: "blob", Stored: true, Typ: 't', Val: c.R.Bytes(66000 + c.R.Intn(4000)), Len: 1,
			DV: true, Toks: []zh.Tok{{Term: fmt.Sprintf("blob%d", i%5), Freq: 1}}})
	}
	sb, _, spec, err := buildObs(c, b, 1026)
	c.Case("large-segment", true)
	c.Count("segments_over_2MiB")
	if err != nil {
		c.Violation("C04 large segment build failed: "+err.Error(), false)
		return
	}
	if bad := persistEquiv(c, sb, spec, uint64(len(b)), 1026, !c.Quick); bad != "" {
		c.Violation("C04 persist / open equivalence on a segment larger than 2 MiB (36 documents with ~66 KB stored values, doc-value fields)\n"+clip(bad), false)
		return
	}
	// the in-memory segment is still itself after later builds in this process (persisting it
	// again must give the same bytes as before)
	// (a segment of many small documents, so that the builder's size estimate for a later small
	// batch stays below what it kept from this one)
	var many zh.Batch
	for i := 0; i < 3000; i++ {
		many = append(many, zh.Doc{Fields: []zh.Field{zh.IDField(fmt.Sprintf("s%05d", i)),
			{Name: "body", Stored: true, Typ: 't', Val: c.R.Bytes(400), Len: 1, Toks: []zh.Tok{{Term: fmt.Sprintf("w%d", i%50), Freq: 1}}}}})
	}
	sb, _, err = zh.Build(many, 1026)
	must(err)
	b = many
	c.Count("segments_over_1MiB_of_small_documents")
	before, err := zh.FileBytes(sb)
	mustH(err)
	for k := 0; k < 3; k++ {
		if _, _, err := zh.Build(zh.GenBatch(c.R, zh.RandOpts(c.R, 2+k, "aft")), randMode(c)); err != nil {
			c.Violation("C04 build failed: "+err.Error(), false)
			return
		}
	}
	after, err := zh.FileBytes(sb)
	if err != nil || !bytes.Equal(before, after) {
		c.Violation(fmt.Sprintf("C04 a segment larger than 1 MiB (3000 small documents) emits different bytes (WriteTo) after three later builds in the same process than before them (err %v): a later build wrote into the segment's memory", err), false)
		return
	}
	if bad := footerCheck(c, after, uint64(len(b)), 1026); bad != "" {
		c.Violation("C04 large segment after later builds: "+bad, false)
	}
}

func concurrentPersist(c *ctx) string {
	g := 8
	rounds := c.n(150, 3000)
	type job struct {
		sb    *zap.SegmentBase
		ref   []byte
		ndocs uint64
		mode  uint32
	}
	jobs := make([]job, g)
	for j := range jobs {
		b := zh.GenBatch(c.R, zh.RandOpts(c.R, 1+c.R.Intn(6), fmt.Sprintf("p%d", j)))
		mode := randMode(c)
		sb, _, err := zh.Build(b, mode)
		if err != nil {
			return "build failed: " + err.Error()
		}
		ref, err := zh.FileBytes(sb)
		if err != nil {
			return "WriteTo failed: " + err.Error()
		}
		if bad := footerCheck(c, ref, uint64(len(b)), mode); bad != "" {
			return "serial image: " + bad
		}
		jobs[j] = job{sb, ref, uint64(len(b)), mode}
	}
	errs := make(chan string, g)
	var wg sync.WaitGroup
	for j := range jobs {
		wg.Add(1)
		go func(j int) {
			defer wg.Done()
			defer func() {
				if r := recover(); r != nil {
					errs <- fmt.Sprintf("goroutine %d: PANIC %v", j, r)
				}
			}()
			jb := jobs[j]
			path := zh.TmpPath(fmt.Sprintf("c04p%d", j))
			defer os.Remove(path)
			for k := 0; k < rounds; k++ {
				var got []byte
				var err error
				if k%2 == 0 {
					os.Remove(path)
					if err = zap.PersistSegmentBase(jb.sb, path); err == nil {
						got, err = os.ReadFile(path)
					}
				} else {
					got, err = zh.FileBytes(jb.sb)
				}
				if err != nil {
					errs <- fmt.Sprintf("goroutine %d round %d: %v", j, k, err)
					return
				}
				if !bytes.Equal(got, jb.ref) {
					errs <- fmt.Sprintf("goroutine %d round %d: image of %d bytes differs from the %d-byte image the same segment (%d docs, mode %d) produces alone; last 52 bytes got %x want %x",
						j, k, len(got), len(jb.ref), jb.ndocs, jb.mode, tail(got, 52), tail(jb.ref, 52))
					return
				}
			}
		}(j)
	}
	wg.Wait()
	close(errs)
	c.Case("concurrent-persist", true)
	c.CountN("concurrent_persists", g*rounds)
	for e := range errs {
		return e
	}
	return ""
}

func tail(b []byte, n int) []byte {
	if len(b) < n {
		return b
	}
	return b[len(b)-n:]
}

func samePathGenerations(c *ctx) string {
	mk := func(f1, f2, v1, v2 string) zh.Batch {
		var b zh.Batch
		for d := 0; d < 3; d++ {
			b = append(b, zh.Doc{Fields: []zh.Field{zh.IDField(fmt.Sprintf("g%02d", d)),
				{Name: f1, Typ: 't', Stored: true, DV: true, Val: []byte(v1), Len: 1, Toks: []zh.Tok{{Term: v1, Freq: 1}}},
				{Name: f2, Typ: 't', Stored: true, Val: []byte(v2), Len: 1, Toks: []zh.Tok{{Term: v2, Freq: 1}}}}})
		}
		return b
	}
	gens := [][]zh.Batch{
		{mk("name", "zeta", "alpha", "omega"), mk("nick", "zeta", "alpha", "omega"), mk("name", "zeta", "alpha", "omega")},
		{mk("aaaa", "bbbb", "hello", "world"), mk("aaaa", "bbbb", "world", "hello"), mk("bbbb", "aaaa", "hello", "world")},
	}
	for gi, gs := range gens {
		path := zh.TmpPath(fmt.Sprintf("c04same%d", gi))
		for round := 0; round < 2; round++ {
			for bi, b := range gs {
				sb, _, spec, err := buildObs(c, b, 1026)
				must(err)
				// a longer leftover of an earlier, interrupted attempt sits next to the destination
				// (common temporary-file names): it is not the segment's business
				for _, sfx := range []string{".tmp", "~", ".new"} {
					mustH(os.WriteFile(path+sfx, bytes.Repeat([]byte{0xAB}, 200000), 0o600))
					defer os.Remove(path + sfx)
				}
				if err := zap.PersistSegmentBase(sb, path); err != nil {
					os.Remove(path)
					return "Persist failed: " + err.Error()
				}
				what := fmt.Sprintf("path used for one segment after the other (each opened, read and closed before the next is persisted; the files have equal lengths); generation %d of family %d, round %d", bi, gi, round)
				var seg segment.Segment
				var oerr error
				func() {
					defer func() {
						if r := recover(); r != nil {
							oerr = fmt.Errorf("PANIC %v", r)
						}
					}()
					seg, oerr = zh.Plugin.Open(path)
				}()
				if oerr != nil {
					os.Remove(path)
					return what + ": Open: " + oerr.Error()
				}
				cont, err := zh.Dump(seg)
				seg.Close()
				if err != nil {
					os.Remove(path)
					return what + ": the opened segment cannot be read: " + err.Error()
				}
				if d := partsDiffer(cont.Sx(), spec, allParts); len(d) > 0 {
					os.Remove(path)
					return what + ": the opened segment differs from the batch persisted last in " + fmt.Sprint(d) + "\n" + describeDiff(cont.Sx(), spec, allParts)
				}
				sb.Close()
				c.Count("same_path_generations")
			}
		}
		os.Remove(path)
	}
	return ""
}

// dvStartOf reads, from the bytes of a segment file, the start offset of the doc-value region of a
// field (footer -> fields index -> field record -> inverted section -> first uvarint).
func dvStartOf(file []byte, field string) (uint64, bool) {
	if len(file) < 52 {
		return 0, false
	}
	foot := file[len(file)-52:]
	secIdx := binary.BigEndian.Uint64(foot[24:32])
	if secIdx >= uint64(len(file)) {
		return 0, false
	}
	nf, k := binary.Uvarint(file[secIdx:])
	pos := secIdx + uint64(k)
	for i := uint64(0); i < nf; i++ {
		off := binary.BigEndian.Uint64(file[pos+8*i:])
		nl, k := binary.Uvarint(file[off:])
		p := off + uint64(k)
		name := string(file[p : p+nl])
		p += nl
		ns, k := binary.Uvarint(file[p:])
		p += uint64(k)
		for j := uint64(0); j < ns; j++ {
			typ := binary.BigEndian.Uint16(file[p:])
			addr := binary.BigEndian.Uint64(file[p+2:])
			p += 10
			if name == field && typ == 0 && addr != 0 {
				dvS, _ := binary.Uvarint(file[addr:])
				return dvS, true
			}
		}
	}
	return 0, false
}

func dvOffsetResidues(c *ctx) string {
	pad := c.R.Bytes(70000)
	mk := func(l int) zh.Batch {
		var b zh.Batch
		for d := 0; d < 3; d++ {
			doc := zh.Doc{Fields: []zh.Field{zh.IDField(fmt.Sprintf("r%02d", d)),
				{Name: "body", Typ: 't', DV: true, Len: 2, Toks: []zh.Tok{{Term: fmt.Sprintf("w%d", d), Freq: 1}, {Term: "all", Freq: 1}}},
				{Name: "tag", Typ: 't', DV: true, Len: 1, Toks: []zh.Tok{{Term: "t", Freq: 1}}}}}
			if d == 0 {
				doc.Fields = append(doc.Fields, zh.Field{Name: "pad", Typ: 't', Stored: true, Val: pad[:l]})
			}
			b = append(b, doc)
		}
		return b
	}
	for _, target := range []uint64{0x3fff, 0x0000, 0x3f7f, 0x0080} {
		l := 40000
		var b zh.Batch
		var sb *zap.SegmentBase
		hit := false
		for try := 0; try < 12; try++ {
			b = mk(l)
			var err error
			sb, _, err = zh.Build(b, 1026)
			must(err)
			file, err := zh.FileBytes(sb)
			must(err)
			s0, ok := dvStartOf(file, "body")
			if !ok {
				return "the doc-value offset of field body cannot be located in the file (harness reader out of date)"
			}
			if s0%0x4000 == target {
				hit = true
				break
			}
			sb.Close()
			l += int((target + 0x4000 - s0%0x4000) % 0x4000)
			if l >= len(pad) {
				l -= 0x4000
			}
		}
		if !hit {
			c.Count("dv_offset_residue_not_reached")
			continue
		}
		spec, err := zh.SpecOf(c.M, b)
		mustH(err)
		c.Case(fmt.Sprintf("dv-offset-residue-%#x", target), true)
		c.Count("dv_offset_residues")
		if bad := persistEquiv(c, sb, spec, uint64(len(b)), 1026, false); bad != "" {
			return fmt.Sprintf("a segment in which the doc values of field body start at an offset = %#x modulo 0x4000 (its uvarint begins with particular bytes); stored pad of %d bytes\n%s", target, l, clip(bad))
		}
		sb.Close()
	}
	return ""
}

func manySegmentsInOneProcess(c *ctx) string {
	first := zh.GenBatch(c.R, zh.RandOpts(c.R, 6, "first"))
	fsb, _, fspec, err := buildObs(c, first, 1026)
	must(err)
	defer fsb.Close()
	tiny := zh.Batch{{Fields: []zh.Field{zh.IDField("t0"), {Name: "body", Len: 1, Toks: []zh.Tok{{Term: "x", Freq: 1}}}}}}
	for k := 0; k < 65700; k++ {
		s, _, err := zh.Build(tiny, 1026)
		must(err)
		if k%8192 == 0 {
			if _, err := s.Dictionary("body"); err != nil {
				return "Dictionary on a tiny segment: " + err.Error()
			}
		}
		s.Close()
		if k >= 65500 && k%20 == 0 {
			b := zh.GenBatch(c.R, zh.RandOpts(c.R, 4, fmt.Sprintf("n%d", k)))
			sb, _, spec, err := buildObs(c, b, 1026)
			if err != nil {
				return "build failed: " + err.Error()
			}
			if bad := persistEquiv(c, sb, spec, uint64(len(b)), 1026, false); bad != "" {
				return fmt.Sprintf("after %d segments had been created in this process (the first one still alive with its dictionaries loaded): %s", k, clip(bad))
			}
			sb.Close()
		}
	}
	if bad := persistEquiv(c, fsb, fspec, uint64(len(first)), 1026, false); bad != "" {
		return "the first segment of the process after 65700 later ones: " + clip(bad)
	}
	c.Count("processes_with_more_than_65536_segments")
	return ""
}
