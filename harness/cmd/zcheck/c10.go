package main

import (
	"errors"
	"fmt"
	"github.com/RoaringBitmap/roaring/v2"
	segment "github.com/blevesearch/scorch_segment_api/v2"
	"os"
	"runtime"
	"runtime/debug"
	"sync"

	index "github.com/blevesearch/bleve_index_api"
	zap "github.com/blevesearch/zapx/v16"

	"zverif/sx"
	"zverif/zh"
)

func init() { register("C10", checkC10) }

// abstractBatch maps a batch to the shape of coq/BuildReuse.v: field ids in segment order, a postings
// id per (field, term), and per document the (field, wants-doc-values, postings ids) of its instances.
func abstractBatch(b zh.Batch, spec sx.V) (ev sx.V, fields []string, pids map[[2]string]int) {
	fid := map[string]int{}
	for i, f := range spec.L[pFields].L {
		fid[string(f.B)] = i
		fields = append(fields, string(f.B))
	}
	pids = map[[2]string]int{}
	var docs []sx.V
	for _, d := range b {
		// the builder merges the instances of one field name within a document before it adds the
		// document to the postings lists: one entry per (document, field), distinct postings ids
		type acc struct {
			dv   bool
			pids []uint64
			seen map[int]bool
		}
		per := map[string]*acc{}
		var order []string
		for _, fs := range [][]zh.Field{d.Comps, d.Fields} {
			for _, f := range fs {
				a := per[f.Name]
				if a == nil {
					a = &acc{seen: map[int]bool{}}
					per[f.Name] = a
					order = append(order, f.Name)
				}
				a.dv = a.dv || f.DV
				for _, t := range f.Toks {
					k := [2]string{f.Name, t.Term}
					if _, ok := pids[k]; !ok {
						pids[k] = len(pids)
					}
					if !a.seen[pids[k]] {
						a.seen[pids[k]] = true
						a.pids = append(a.pids, uint64(pids[k]))
					}
				}
			}
		}
		var fis []sx.V
		for _, name := range order {
			fis = append(fis, sx.L(sx.I(fid[name]), sx.Bool(per[name].dv), sx.Nums(per[name].pids)))
		}
		docs = append(docs, sx.List(fis))
	}
	return sx.L(sx.N(1), sx.I(len(fields)), sx.I(len(pids)), sx.List(docs)), fields, pids
}

// observedReuse projects a dump onto the model's observables: doc-value flag per field, documents per postings id.
func observedReuse(cont *zh.Content, fields []string, pids map[[2]string]int) sx.V {
	dv := map[string]bool{}
	for _, f := range cont.DVFields {
		dv[f] = true
	}
	flags := make([]sx.V, len(fields))
	for i, f := range fields {
		flags[i] = sx.Bool(dv[f])
	}
	post := make([]sx.V, len(pids))
	for i := range post {
		post[i] = sx.L()
	}
	for _, fd := range cont.Dicts {
		for _, th := range fd.Terms {
			if id, ok := pids[[2]string{fd.Field, th.Term}]; ok {
				var ds []uint64
				for _, h := range th.Hits {
					ds = append(ds, h.Doc)
				}
				post[id] = sx.Nums(ds)
			}
		}
	}
	return sx.L(sx.List(flags), sx.List(post))
}

type histStep struct {
	b      zh.Batch
	mode   uint32
	reject bool // the field validator rejects this batch
	kind   string
}

func genHistory(c *ctx) []histStep {
	var h []histStep
	n := 2 + c.R.Intn(5)
	for i := 0; i < n; i++ {
		o := zh.RandOpts(c.R, 0, fmt.Sprintf("h%d", i))
		st := histStep{mode: randMode(c)}
		switch c.R.Intn(8) {
		case 7: // more than 32 distinct field names
			st.kind = "manyfields"
			nd := 1 + c.R.Intn(3)
			for d := 0; d < nd; d++ {
				doc := zh.Doc{Fields: []zh.Field{zh.IDField(fmt.Sprintf("h%dm%02d", i, d))}}
				for f := 0; f < 34+c.R.Intn(12); f++ {
					doc.Fields = append(doc.Fields, zh.Field{Name: fmt.Sprintf("f%02d", f), Len: 1, DV: f%5 == 0,
						Toks: []zh.Tok{{Term: fmt.Sprintf("t%d", (f+d)%4), Freq: 1}}})
				}
				st.b = append(st.b, doc)
			}
			h = append(h, st)
			continue
		case 5:
			if hugeBudget > 0 { // a segment of more than 1 MiB (the builder keeps its output buffer)
				hugeBudget--
				st.kind = "huge"
				for d := 0; d < 2800; d++ { // many small documents: later size estimates stay below the kept capacity
					st.b = append(st.b, zh.Doc{Fields: []zh.Field{zh.IDField(fmt.Sprintf("h%dx%04d", i, d)),
						{Name: "body", Stored: true, Typ: 't', Val: c.R.Bytes(400), Len: 1, Toks: []zh.Tok{{Term: fmt.Sprintf("w%d", d%40), Freq: 1}}}}})
				}
				h = append(h, st)
				continue
			}
			o.NDocs = c.R.Intn(12)
			st.kind = "random"
		case 0: // large, many fields, many terms
			o.NDocs, o.NFields, o.VocabN, o.DVMask, o.FixedFields = 20+c.R.Intn(40), len(zh.FieldNames), len(zh.Vocab), 31, true
			st.kind = "large"
		case 1: // small, few fields
			o.NDocs, o.NFields, o.VocabN, o.DVMask = 1+c.R.Intn(3), 1, 2, 0
			st.kind = "small"
		case 2:
			o.NDocs = 0
			st.kind = "empty"
		case 3:
			o.NDocs = 2 + c.R.Intn(8)
			st.kind = "synonyms"
		case 4:
			o.NDocs = 1 + c.R.Intn(8)
			st.reject = true
			st.kind = "rejected"
		default:
			o.NDocs = c.R.Intn(12)
			st.kind = "random"
		}
		o.Geo = c.R.Chance(3) // geo-shape fields: the builder keeps their encoded shapes in per-document scratch maps
		st.b = zh.GenBatch(c.R, o)
		if st.kind == "synonyms" {
			st.b = zh.AddSynDocs(c.R, st.b, o.IDBase)
		}
		h = append(h, st)
	}
	return h
}

// hugeBudget bounds the number of > 1 MiB builds per run
var hugeBudget = 1

var errRejected = errors.New("rejected by the field validator")

func checkC10(c *ctx) {
	c.Rule = "histories of 2-6 builds in one process with the garbage collector off (so the pooled builder really is reused): large-then-small, many-fields-then-few, synonym batches followed by plain ones, empty batches, batches rejected by the field validator, builds of more than 1 MiB, merges abandoned mid-way between builds; up to two earlier segments of the history are kept and must still answer as they did after every later build; every build is compared with (1) the extracted spec_of_batch of ITS batch alone, (2) the extracted pooled-memory model (BuildReuse.hrun) on the abstracted history, (3) the extracted parser's reading of its bytes incl. footer CRC; then 2-8 goroutines build distinct batches concurrently (race detector on), each compared with its own spec; non-trivial = history with >= 3 builds of different kinds"
	c.Assumptions = append(c.Assumptions, "sync.Pool: Get returns any pooled object or a fresh one (the model's pick); data-race freedom of concurrent builds is observed (race detector), not proved")
	old := debug.SetGCPercent(-1)
	defer debug.SetGCPercent(old)
	savedV := zap.ValidateDocFields
	defer func() { zap.ValidateDocFields = savedV }()
	// synonym fields without definitions are frequent in these histories (a builder that skips an
	// empty thesaurus leaves an address of an earlier build in its tables)
	zh.SynEmptyChance = 3
	defer func() { zh.SynEmptyChance = 9 }()
	if bad := longHistories(c); bad != "" {
		c.Violation("C10 "+bad, false)
		return
	}
	// (three times: the race-instrumented sync.Pool of this binary drops a quarter of the objects put
	// back, so a single pair of builds shares its builder only three times out of four)
	for k := 0; k < 3; k++ {
		if bad := manyPostingsLists(c); bad != "" {
			c.Violation("C10 "+bad, false)
			return
		}
	}
	runtime.GC()
	n := c.n(120, 3000)
	for i := 0; i < n; i++ {
		// the collector is off so that pooled builders survive from build to build; between
		// histories the garbage is released by hand (the race-instrumented binary is memory-hungry)
		if i%20 == 19 {
			runtime.GC()
		}
		h := genHistory(c)
		kinds := map[string]bool{}
		var events []sx.V
		type obsT struct {
			obs  sx.V
			step int
		}
		var observed []obsT
		desc := ""
		type kept struct {
			sb   *zap.SegmentBase
			want string
			step int
		}
		var retained []kept
		for si, st := range h {
			// a merge abandoned in the middle of its term loop before this build (builds and merges
			// may share pooled helpers)
			if si > 0 && len(retained) > 0 && c.R.Chance(4) {
				in := retained[c.R.Intn(len(retained))].sb
				ch := make(chan struct{})
				data, _ := zh.FileBytes(in)
				cl := &closer{k: uint64(c.R.Intn(len(data) + 64)), ch: ch}
				apath := zh.TmpPath("c10a")
				zap.VerifMerge([]segment.Segment{in}, []*roaring.Bitmap{nil}, apath, st.mode, ch, cl)
				os.Remove(apath)
				desc += fmt.Sprintf("  (a merge of build %d's segment abandoned after %d bytes)\n", retained[0].step, cl.k)
				c.Count("abandoned_merges_in_history")
			}
			kinds[st.kind] = true
			c.Count("build_" + st.kind)
			desc += fmt.Sprintf("  build %d (%s, mode %d): %s\n", si, st.kind, st.mode, clip(st.b.Sx().String()))
			if st.reject {
				zap.ValidateDocFields = func(f index.Field) error {
					if f.Name() != "_id" {
						return errRejected
					}
					return nil
				}
			} else {
				zap.ValidateDocFields = savedV
			}
			spec, err := zh.SpecOf(c.M, st.b)
			mustH(err)
			sb, _, berr := zh.Build(st.b, st.mode)
			zap.ValidateDocFields = savedV
			hasOther := false
			for _, d := range st.b {
				if len(d.Fields) > 1 {
					hasOther = true
				}
			}
			if st.reject && hasOther {
				if berr == nil {
					c.Violation("C10 a batch rejected by the field validator was built without error\n"+desc, false)
					return
				}
				ev, _, _ := abstractBatch(st.b, spec)
				ev.L[0] = sx.N(0) // failed build: the builder object is dropped
				events = append(events, ev)
				continue
			}
			if berr != nil {
				c.Violation(fmt.Sprintf("C10 build %d of the history failed: %v\nhistory:\n%s", si, berr, desc), false)
				return
			}
			cont, derr := zh.Dump(sb)
			if derr != nil {
				c.Violation(fmt.Sprintf("C10 build %d of the history cannot be read: %v\nhistory:\n%s", si, derr, desc), false)
				return
			}
			if d := partsDiffer(cont.Sx(), spec, allParts); len(d) > 0 {
				c.Violation(fmt.Sprintf("C10 build %d of the history differs from the build of its batch alone in %v\n%s\nhistory (all builds in this process since the last replay point):\n%s", si, d, describeDiff(cont.Sx(), spec, allParts), desc), false)
				return
			}
			data, _ := zh.FileBytes(sb)
			if bad := footerCheck(c, data, uint64(len(st.b)), st.mode); bad != "" {
				c.Violation(fmt.Sprintf("C10 build %d of the history: %s\nhistory:\n%s", si, bad, desc), false)
				return
			}
			if si%2 == 0 && st.kind != "huge" {
				if bad := parseBytesAgainst(c, data, spec, allParts); bad != "" {
					c.Violation(fmt.Sprintf("C10 build %d of the history, bytes decoded by the extracted parser: %s\nhistory:\n%s", si, bad, desc), false)
					return
				}
			}
			ev, fields, pids := abstractBatch(st.b, spec)
			events = append(events, ev)
			observed = append(observed, obsT{observedReuse(cont, fields, pids), len(events) - 1})
			// segments built earlier in the history are immutable: they still answer as they did
			for _, k := range retained {
				again, err := zh.Dump(k.sb)
				if err != nil || again.Sx().String() != k.want {
					c.Violation(fmt.Sprintf("C10 the segment of build %d no longer answers as it did once build %d has run (err %v): the later build wrote into memory the earlier segment still uses\nhistory:\n%s", k.step, si, err, desc), false)
					return
				}
			}
			if len(retained) < 2 {
				retained = append(retained, kept{sb, cont.Sx().String(), si})
			}
		}
		// the pooled-memory model on the same history
		a := ask(c, sx.L(sx.N(zh.ReqReuse), sx.List(events)))
		if code, bad := sx.IsErr(a); bad {
			mustH(fmt.Errorf("model rejected the reuse history (error %d)", code))
		}
		for _, o := range observed {
			if !sx.Equal(o.obs, a.L[o.step]) {
				c.Violation(fmt.Sprintf("C10 pooled-memory model vs implementation at build %d: %s\n  observed (dv flag per field, documents per postings list): %s\n  model: %s\nhistory:\n%s", o.step, firstDiff(o.obs, a.L[o.step], "out"), clip(o.obs.Pretty()), clip(a.L[o.step].Pretty()), desc), false)
				return
			}
		}
		c.Case(desc, len(h) >= 3 && len(kinds) >= 2)
		if i == 1 {
			c.Sample(map[string]interface{}{"history": clip(desc)})
		}
	}
	// ---------- concurrent builds ----------
	rounds := c.n(12, 200)
	for i := 0; i < rounds; i++ {
		g := []int{2, 4, 8}[c.R.Intn(3)]
		per := 3
		type job struct {
			b    zh.Batch
			mode uint32
			spec sx.V
		}
		jobs := make([][]job, g)
		for j := range jobs {
			for k := 0; k < per; k++ {
				o := zh.RandOpts(c.R, 5+c.R.Intn(60), fmt.Sprintf("g%d_%d", j, k))
				b := zh.GenBatch(c.R, o)
				if c.R.Chance(4) {
					b = zh.AddSynDocs(c.R, b, o.IDBase)
				}
				spec, err := zh.SpecOf(c.M, b)
				mustH(err)
				jobs[j] = append(jobs[j], job{b, randMode(c), spec})
			}
		}
		var wg sync.WaitGroup
		errs := make(chan string, g*per)
		start := make(chan struct{})
		for j := 0; j < g; j++ {
			wg.Add(1)
			mine := jobs[j]
			go func() {
				defer wg.Done()
				<-start
				for _, jb := range mine {
					sb, _, err := zh.Build(jb.b, jb.mode)
					if err != nil {
						errs <- "a concurrent build failed: " + err.Error()
						return
					}
					cont, err := zh.Dump(sb)
					if err != nil {
						errs <- "a concurrently built segment cannot be read: " + err.Error()
						return
					}
					if d := partsDiffer(cont.Sx(), jb.spec, allParts); len(d) > 0 {
						errs <- fmt.Sprintf("a segment built while other goroutines were building differs from the build of its batch alone in %v\n%s\nbatch: %s", d, describeDiff(cont.Sx(), jb.spec, allParts), clip(jb.b.Sx().String()))
						return
					}
				}
			}()
		}
		close(start)
		wg.Wait()
		close(errs)
		c.Case(fmt.Sprintf("concurrent-%d-%d", i, g), true)
		c.Count(fmt.Sprintf("concurrent_goroutines=%d", g))
		for bad := range errs {
			c.Violation(fmt.Sprintf("C10 %d goroutines building concurrently (after %d sequential builds in this process)\n%s", g, n, clip(bad)), false)
			return
		}
	}
}

// manyPostingsLists: two batches with more than 32768 postings lists each, of different shapes, built
// one after the other on one P with the collector off (the second draws the first one's builder):
// 33500 documents with nothing but _id, then 33000 documents with _id and one term of their own in
// field f.  The second segment is checked against its batch by construction.
func manyPostingsLists(c *ctx) string {
	oldP := runtime.GOMAXPROCS(1)
	defer runtime.GOMAXPROCS(oldP)
	var b1, b2 zh.Batch
	for d := 0; d < 33500; d++ {
		b1 = append(b1, zh.Doc{Fields: []zh.Field{zh.IDField(fmt.Sprintf("x%06d", d))}})
	}
	for d := 0; d < 33000; d++ {
		b2 = append(b2, zh.Doc{Fields: []zh.Field{zh.IDField(fmt.Sprintf("y%06d", d)),
			{Name: "f", Len: 1, Toks: []zh.Tok{{Term: fmt.Sprintf("u%06d", 32999-d), Freq: 1}}}}})
	}
	bad := ""
	func() {
		defer func() {
			if r := recover(); r != nil {
				bad = fmt.Sprintf("the second build panics: %v", r)
			}
		}()
		s1, _, err := zh.Build(b1, 1026)
		if err != nil {
			bad = "first build failed: " + err.Error()
			return
		}
		_ = s1
		s2, _, err := zh.Build(b2, 1026)
		if err != nil {
			bad = "second build failed: " + err.Error()
			return
		}
		if s2.Count() != 33000 {
			bad = fmt.Sprintf("second segment counts %d documents", s2.Count())
			return
		}
		dict, err := s2.Dictionary("f")
		if err != nil {
			bad = "Dictionary(f): " + err.Error()
			return
		}
		idd, err := s2.Dictionary("_id")
		if err != nil {
			bad = "Dictionary(_id): " + err.Error()
			return
		}
		for d := 0; d < 33000; d += 1 + d%7 {
			for _, q := range []struct {
				dict segment.TermDictionary
				term string
			}{{dict, fmt.Sprintf("u%06d", 32999-d)}, {idd, fmt.Sprintf("y%06d", d)}} {
				pl, err := q.dict.PostingsList([]byte(q.term), nil, nil)
				if err != nil {
					bad = "PostingsList: " + err.Error()
					return
				}
				it := pl.Iterator(true, true, false, nil)
				p, err := it.Next()
				if err != nil || p == nil || p.Number() != uint64(d) || pl.Count() != 1 {
					bad = fmt.Sprintf("term %q of the second batch must have exactly document %d: count %d, first hit %v (err %v)", q.term, d, pl.Count(), p, err)
					return
				}
			}
		}
		s1.Close()
		s2.Close()
	}()
	c.Case("many-postings-lists", true)
	c.Count("histories_with_more_than_32768_postings_lists")
	if bad != "" {
		return "a batch of 33500 documents (33500 postings lists) followed, on the same pooled builder, by a batch of 33000 documents with 66000 postings lists: " + bad
	}
	return ""
}

// longHistories: a batch W with doc values on its last field, then n tiny batches (n around 255 and
// 510: counters of one byte), then a batch V with the same field names but no doc values on the last
// field - and an empty batch after a large one.  V must be what its batch dictates; the empty
// segment reports zero bytes written like any empty build.
func longHistories(c *ctx) string {
	oldP := runtime.GOMAXPROCS(1)
	defer runtime.GOMAXPROCS(oldP)
	mk := func(id string, dvLast bool) zh.Batch {
		var b zh.Batch
		for d := 0; d < 2; d++ {
			b = append(b, zh.Doc{Fields: []zh.Field{zh.IDField(fmt.Sprintf("%s%02d", id, d)),
				{Name: "a", DV: true, Len: 1, Toks: []zh.Tok{{Term: "apple", Freq: 1}}},
				{Name: "b", DV: dvLast, Len: 1, Toks: []zh.Tok{{Term: "blueberry", Freq: 1}}}}})
		}
		return b
	}
	tiny := zh.Batch{{Fields: []zh.Field{zh.IDField("t00")}}}
	for _, n := range []int{253, 254, 255, 256, 509, 510, 511} {
		w, _, err := zh.Build(mk("w", true), 1026)
		must(err)
		for k := 0; k < n; k++ {
			s, _, err := zh.Build(tiny, 1026)
			must(err)
			s.Close()
		}
		vb := mk("v", false)
		sb, obs, spec, err := buildObs(c, vb, 1026)
		if err != nil {
			return fmt.Sprintf("build after %d tiny builds failed: %v", n, err)
		}
		c.Case(fmt.Sprintf("long-history-%d", n), true)
		c.Count("long_histories")
		if d := partsDiffer(obs, spec, []int{pDVFields, pDV, pDicts, pFields}); len(d) > 0 {
			return fmt.Sprintf("a batch with doc values on fields a and b, then %d batches of one document with nothing but _id, then a batch with doc values on field a only: the last segment differs from its batch in %v\n%s", n, d, describeDiff(obs, spec, []int{pDVFields, pDV, pDicts, pFields}))
		}
		sb.Close()
		w.Close()
	}
	// an empty batch after a large one
	big, _, err := zh.Build(zh.GenBatch(c.R, zh.RandOpts(c.R, 150, "g")), 1026)
	must(err)
	defer big.Close()
	for k := 0; k < 3; k++ {
		e, _, err := zh.Build(nil, 1026)
		must(err)
		if bw, ok := interface{}(e).(interface{ BytesWritten() uint64 }); ok && bw.BytesWritten() != 0 {
			return fmt.Sprintf("an empty batch built after a batch of 150 documents reports BytesWritten() = %d; an empty build writes nothing (a fresh builder reports 0)", bw.BytesWritten())
		}
		if e.Count() != 0 {
			return fmt.Sprintf("an empty batch built after a large one counts %d documents", e.Count())
		}
		e.Close()
	}
	return ""
}
