package main

import (
	"fmt"
	"os"
	"path/filepath"
	"runtime"
	"runtime/debug"
	"strings"
	"sync"
	"sync/atomic"
	"time"

	"github.com/RoaringBitmap/roaring/v2"
	segment "github.com/blevesearch/scorch_segment_api/v2"

	zap "github.com/blevesearch/zapx/v16"

	"zverif/sx"
	"zverif/zh"
)

func init() { register("C20", checkC20) }

type failingWriter struct{}

func (failingWriter) Write(p []byte) (int, error) {
	return 0, fmt.Errorf("destination refuses the write")
}

func mappedAndFd(path string) (mapped bool, fd bool) {
	if b, err := os.ReadFile("/proc/self/maps"); err == nil {
		mapped = strings.Contains(string(b), path)
	}
	ents, _ := os.ReadDir("/proc/self/fd")
	for _, e := range ents {
		if t, err := os.Readlink("/proc/self/fd/" + e.Name()); err == nil && t == path {
			fd = true
		}
	}
	return
}

// all sequences over {AddRef, DecRef} of length n whose running count (from 1) stays positive
// until the end and ends at 0
func refSeqs(n int) [][]uint64 {
	var out [][]uint64
	var rec func(cur []uint64, cnt int)
	rec = func(cur []uint64, cnt int) {
		if len(cur) == n {
			if cnt == 0 {
				out = append(out, append([]uint64(nil), cur...))
			}
			return
		}
		if cnt <= 0 {
			return
		}
		rec(append(cur, 0), cnt+1)
		rec(append(cur, 1), cnt-1)
	}
	rec(nil, 1)
	return out
}

func checkC20(c *ctx) {
	c.Rule = "every AddRef/DecRef(Close) sequence up to the length bound with the count positive until the end (exhaustive); after each step: /proc/self/maps, /proc/self/fd and a full read through the API are compared with the model state (refs, mapped, releases); random histories with readers in between (full read, completed merge, abandoned merge, merge whose output cannot be created); 2-9 concurrent holders with readers; the last 2-4 references dropped at the same instant through a spin barrier (exactly one release, no error); an in-memory segment closed, smaller batches built afterwards on the same P with GC off, the closed segment read again (dictionaries, stored fields, doc values); non-trivial = sequence of length >= 3 containing an AddRef"
	c.Assumptions = append(c.Assumptions,
		"munmap/close are OS behaviour: observed through /proc/self/maps and /proc/self/fd, not modelled",
		"concurrency: each operation is one atomic step under Segment.m (theorem covers all interleavings of atomic steps); data-race freedom is observed with the race detector on sampled schedules only")
	maxLen := c.n(7, 11)
	b := zh.AddSynDocs(c.R, zh.GenBatch(c.R, zh.RandOpts(c.R, 4, "r")), "r")
	sb, _, err := zh.Build(b, 1026)
	must(err)
	want, err := zh.Dump(sb)
	must(err)
	wantS := want.Sx().String()
	path := zh.TmpPath("ref")
	must(zap.PersistSegmentBase(sb, path))
	// the same on a segment file without any document (an empty batch; what a merge in which nothing
	// survives leaves): the mapping and the descriptor follow the count there too
	esb, _, err := zh.Build(nil, 1026)
	must(err)
	epath := zh.TmpPath("refempty")
	must(zap.PersistSegmentBase(esb, epath))
	for n := 1; n <= 5; n += 2 {
		for _, ops := range refSeqs(n) {
			s, err := zh.Plugin.Open(epath)
			must(err)
			seg := s.(*zap.Segment)
			tr := ask(c, sx.L(sx.N(zh.ReqRef), sx.Nums(ops)))
			var names []string
			for i, o := range ops {
				var derr error
				if o == 0 {
					seg.AddRef()
					names = append(names, "AddRef")
				} else if i%2 == 0 {
					derr = seg.DecRef()
					names = append(names, "DecRef")
				} else {
					derr = seg.Close()
					names = append(names, "Close")
				}
				mp, fd := mappedAndFd(epath)
				expMapped := tr.L[i].L[1].N == 1
				if mp != expMapped || fd != expMapped || derr != nil {
					c.Violation(fmt.Sprintf("C20 sequential history on a freshly opened segment WITHOUT documents (refs = 1)\nafter %v: mapped=%v descriptor open=%v (err %v), model says mapped=%v (refs %d)", names, mp, fd, derr, expMapped, tr.L[i].L[0].N), false)
					return
				}
			}
			c.Case(fmt.Sprint("empty", ops), len(ops) >= 3)
			c.Count("empty_segment_histories")
		}
	}
	for n := 1; n <= maxLen; n += 2 {
		for _, ops := range refSeqs(n) {
			// the release operation is DecRef or Close (= DecRef): all-DecRef, all-Close, alternating
			for variant := 0; variant < 6; variant++ {
				// variants 3..5: nothing is read before the first release (a holder that opens, hands
				// out references, drops its own and only then - or never - reads)
				lazy, released := variant >= 3, false
				variant := variant % 3
				s, err := zh.Plugin.Open(path)
				must(err)
				seg := s.(*zap.Segment)
				tr := ask(c, sx.L(sx.N(zh.ReqRef), sx.Nums(ops)))
				adds := 0
				var fail string
				var names []string
				for i, o := range ops {
					if o != 0 {
						released = true
					}
					var derr error
					switch {
					case o == 0:
						seg.AddRef()
						adds++
						names = append(names, "AddRef")
					case variant == 0 || (variant == 2 && i%2 == 0):
						derr = seg.DecRef()
						names = append(names, "DecRef")
					default:
						derr = seg.Close()
						names = append(names, "Close")
					}
					mp, fd := mappedAndFd(path)
					exp := tr.L[i]
					expMapped := exp.L[1].N == 1
					if mp != expMapped || fd != expMapped {
						fail = fmt.Sprintf("after %v: mapped=%v descriptor open=%v, model says mapped=%v (refs %d)", names, mp, fd, expMapped, exp.L[0].N)
					}
					if derr != nil {
						fail = fmt.Sprintf("%v: the last call returned error %v", names, derr)
					}
					if expMapped && fail == "" && (!lazy || released) {
						got, err := zh.Dump(seg)
						if err != nil || got.Sx().String() != wantS {
							fail = fmt.Sprintf("after %v (nothing read before the first release: %v): segment no longer reads back its content (err=%v)", names, lazy, err)
						}
					}
					if fail != "" {
						break
					}
				}
				last := tr.L[len(ops)-1]
				if fail == "" && (last.L[2].N != 1 || last.L[0].N != 0) {
					fail = "model did not end released exactly once (harness generator bug)"
				}
				c.Case(fmt.Sprint(ops, variant, lazy), len(ops) >= 3 && adds > 0)
				c.Count(fmt.Sprintf("len=%d", len(ops)))
				if len(ops) == 5 && variant == 2 {
					c.Sample(map[string]interface{}{"calls": names, "model_trace(refs,mapped,releases)": tr.Pretty()})
				}
				if fail != "" {
					c.Violation("C20 sequential history on a freshly opened segment (refs = 1)\n"+fail, false)
					return
				}
			}
		}
	}
	c.Exhaustive = true
	// histories with readers in between: a full read, a merge taking the segment as input that
	// completes, one that is abandoned (close channel fired) and one whose output cannot be created
	useNames := []string{"Read", "MergeOK", "MergeAbandoned", "MergeBadPath", "MergeAllDeleted", "WriteToFailingWriter"}
	// the second input of the merges in which every document of the held segment is deleted
	other, _, err := zh.Build(zh.GenBatch(c.R, zh.RandOpts(c.R, 3, "o")), 1026)
	must(err)
	hist := c.n(40, 600)
	for k := 0; k < hist; k++ {
		s, err := zh.Plugin.Open(path)
		must(err)
		seg := s.(*zap.Segment)
		var ops []uint64
		var kinds []int
		cnt := 1
		for cnt > 0 && len(ops) < 40 {
			switch x := c.R.Intn(10); {
			case x < 2:
				ops, kinds, cnt = append(ops, 0), append(kinds, 0), cnt+1
			case x < 5 && (cnt > 1 || len(ops) > 4):
				ops, kinds, cnt = append(ops, 1), append(kinds, c.R.Intn(2)), cnt-1
			default:
				ops, kinds = append(ops, 2), append(kinds, c.R.Intn(6))
			}
		}
		for cnt > 0 {
			ops, kinds, cnt = append(ops, 1), append(kinds, c.R.Intn(2)), cnt-1
		}
		tr := ask(c, sx.L(sx.N(zh.ReqRef), sx.Nums(ops)))
		var names []string
		var fail string
		uses := 0
		// a reader object obtained once and used for as long as the segment is held
		var held segment.TermDictionary
		if len(want.Dicts) > 0 {
			held, err = seg.Dictionary(want.Dicts[0].Field)
			must(err)
		}
		useHeld := func() string {
			if held == nil {
				return ""
			}
			for _, th := range want.Dicts[0].Terms {
				hits, cnt, err := zh.ReadPostings(held, []byte(th.Term), nil)
				if err != nil || cnt != uint64(len(th.Hits)) || len(hits) != len(th.Hits) {
					return fmt.Sprintf("a TermDictionary of field %q obtained right after Open no longer answers: term %q gives %d postings, Count %d (err %v), want %d", want.Dicts[0].Field, th.Term, len(hits), cnt, err, len(th.Hits))
				}
			}
			return ""
		}
		for i, o := range ops {
			var derr error
			switch o {
			case 0:
				seg.AddRef()
				names = append(names, "AddRef")
			case 1:
				if kinds[i] == 0 {
					derr = seg.DecRef()
					names = append(names, "DecRef")
				} else {
					derr = seg.Close()
					names = append(names, "Close")
				}
			default:
				uses++
				names = append(names, useNames[kinds[i]])
				switch kinds[i] {
				case 0:
					got, err := zh.Dump(seg)
					if err != nil || got.Sx().String() != wantS {
						fail = fmt.Sprintf("after %v: segment no longer reads back its content (err=%v)", names, err)
					}
				case 1:
					out := zh.TmpPath("refm")
					_, _, err := zh.Plugin.Merge([]segment.Segment{seg}, []*roaring.Bitmap{nil}, out, nil, nil)
					if err != nil {
						fail = fmt.Sprintf("after %v: merge of a held segment failed: %v", names, err)
					}
					os.Remove(out)
				case 2:
					out := zh.TmpPath("refm")
					ch := make(chan struct{})
					close(ch)
					_, _, err := zh.Plugin.Merge([]segment.Segment{seg}, []*roaring.Bitmap{nil}, out, ch, nil)
					if err == nil {
						os.Remove(out)
					}
				case 4:
					out := zh.TmpPath("refm")
					all := roaring.New()
					all.AddRange(0, seg.Count())
					_, _, err := zh.Plugin.Merge([]segment.Segment{seg, other}, []*roaring.Bitmap{all, nil}, out, nil, nil)
					if err != nil {
						fail = fmt.Sprintf("after %v: merge of a held segment with every document deleted failed: %v", names, err)
					}
					os.Remove(out)
				case 5:
					if _, err := seg.WriteTo(failingWriter{}); err == nil {
						fail = fmt.Sprintf("after %v: WriteTo into a writer that fails reported success", names)
					}
				case 3:
					out := filepath.Join(zh.TmpDir(), "no-such-dir", "x.zap")
					_, _, err := zh.Plugin.Merge([]segment.Segment{seg}, []*roaring.Bitmap{nil}, out, nil, nil)
					if err == nil {
						fail = fmt.Sprintf("after %v: merge into a missing directory succeeded", names)
					}
				}
			}
			mp, fd := mappedAndFd(path)
			exp := tr.L[i]
			expMapped := exp.L[1].N == 1
			if fail == "" && (mp != expMapped || fd != expMapped) {
				fail = fmt.Sprintf("after %v: mapped=%v descriptor open=%v, model says mapped=%v (refs %d)", names, mp, fd, expMapped, exp.L[0].N)
			}
			if fail == "" && derr != nil {
				fail = fmt.Sprintf("%v: the last call returned error %v", names, derr)
			}
			if fail == "" && expMapped {
				func() {
					defer func() {
						if r := recover(); r != nil {
							fail = fmt.Sprintf("after %v: using a TermDictionary obtained right after Open panics: %v", names, r)
						}
					}()
					if bad := useHeld(); bad != "" {
						fail = fmt.Sprintf("after %v: %s", names, bad)
					}
				}()
			}
			if fail != "" {
				break
			}
		}
		c.Case(fmt.Sprint("hist", ops, kinds), uses > 0 && len(ops) >= 3)
		c.Count("histories_with_readers")
		if k == 0 {
			c.Sample(map[string]interface{}{"calls": names})
		}
		if fail != "" {
			c.Violation("C20 history with readers on a freshly opened segment (refs = 1)\n"+fail, false)
			return
		}
	}
	// very many holders: 65536, 65537 and 65538 references (a narrow counter would wrap)
	for _, total := range []int{65536, 65537, 65538} {
		s, err := zh.Plugin.Open(path)
		must(err)
		seg := s.(*zap.Segment)
		for k := 1; k < total; k++ {
			seg.AddRef()
		}
		bad := ""
		for k := total; k >= 1 && bad == ""; k-- {
			derr := seg.DecRef()
			if derr != nil {
				bad = fmt.Sprintf("DecRef with %d references held returned %v", k, derr)
			}
			if k == total || k == total-1 || k == 2 || k == 1 {
				mp, fd := mappedAndFd(path)
				if (k > 1) != mp || (k > 1) != fd {
					bad = fmt.Sprintf("after dropping one of %d references (%d were taken in all): mapped=%v descriptor open=%v", k, total, mp, fd)
				}
			}
		}
		c.Case(fmt.Sprintf("holders-%d", total), true)
		c.Count("many_holder_runs")
		if bad != "" {
			c.Violation("C20 a segment held by "+fmt.Sprint(total)+" references\n"+bad, false)
			return
		}
	}
	// in-memory segment: Close is harmless - also for reader objects obtained before it
	var heldTh segment.Thesaurus
	var heldTerm string
	var heldPairs int
	var heldIt segment.SynonymsIterator
	if len(want.Thes) > 0 && len(want.Thes[0].Terms) > 0 {
		heldTh, err = sb.Thesaurus(want.Thes[0].Name)
		must(err)
		heldTerm, heldPairs = want.Thes[0].Terms[0].Term, len(want.Thes[0].Terms[0].Pairs)
		l, err := heldTh.SynonymsList([]byte(heldTerm), nil, nil)
		must(err)
		heldIt = l.Iterator(nil)
		if heldPairs > 1 {
			heldIt.Next() // half read
		}
	}
	if err := sb.Close(); err != nil {
		c.Violation("C20 in-memory Close returned "+err.Error(), false)
	}
	if heldTh != nil {
		bad := ""
		func() {
			defer func() {
				if r := recover(); r != nil {
					bad = fmt.Sprintf("PANIC: %v", r)
				}
			}()
			n := 0
			if heldPairs > 1 {
				n = 1
			}
			for {
				sy, err := heldIt.Next()
				if err != nil {
					bad = "the half-read synonyms iterator: " + err.Error()
					return
				}
				if sy == nil {
					break
				}
				n++
			}
			if n != heldPairs {
				bad = fmt.Sprintf("the half-read synonyms iterator of term %q yields %d pairs in total, the term has %d", heldTerm, n, heldPairs)
				return
			}
			l, err := heldTh.SynonymsList([]byte(heldTerm), nil, nil)
			if err != nil {
				bad = "SynonymsList through the retained thesaurus: " + err.Error()
				return
			}
			it := l.Iterator(nil)
			m := 0
			for {
				sy, err := it.Next()
				if err != nil {
					bad = "a new lookup through the retained thesaurus: " + err.Error()
					return
				}
				if sy == nil {
					break
				}
				m++
			}
			if m != heldPairs {
				bad = fmt.Sprintf("a new lookup of %q through the retained thesaurus yields %d pairs, the term has %d", heldTerm, m, heldPairs)
			}
		}()
		if bad != "" {
			c.Violation("C20 closing an in-memory segment must be harmless for reader objects obtained before the Close (a Thesaurus handle and a half-read synonyms iterator)\n"+bad, false)
			return
		}
		c.Count("retained_thesaurus_after_inmemory_close")
	}
	// a file of several MiB: opened and released at once, with and without reads in between
	if bad := bigFileOpenRelease(c); bad != "" {
		c.Violation("C20 "+bad, false)
		return
	}
	// the data of a closed in-memory segment stays what it was while later, smaller builds run in the
	// same process (a snapshot may still hold the segment): dictionaries, stored fields, doc values
	if bad := closedInMemoryThenBuilds(c); bad != "" {
		c.Violation("C20 closing an in-memory segment must be harmless\n"+bad, false)
		return
	}
	// (thesaurus / vector lookups on an in-memory segment after Close are not part of the statement:
	// Close releases those caches)
	if err := sb.Close(); err != nil {
		c.Violation("C20 second Close of an in-memory segment returned "+err.Error(), false)
	}
	c.Case("inmem-close", true)
	// concurrent holders interleaved with readers
	runs := c.n(20, 500)
	for k := 0; k < runs; k++ {
		s, err := zh.Plugin.Open(path)
		must(err)
		seg := s.(*zap.Segment)
		g := 2 + c.R.Intn(7)
		var wg sync.WaitGroup
		errs := make(chan string, g*4)
		for j := 0; j < g; j++ {
			seg.AddRef()
		}
		for j := 0; j < g; j++ {
			wg.Add(1)
			extra := c.R.Intn(3)
			go func() {
				defer wg.Done()
				defer func() {
					if p := recover(); p != nil {
						errs <- fmt.Sprintf("PANIC in a holder: %v", p)
					}
				}()
				for e := 0; e < extra; e++ {
					seg.AddRef()
				}
				got, err := zh.Dump(seg)
				if err != nil || got.Sx().String() != wantS {
					errs <- fmt.Sprintf("concurrent reader saw wrong content (err=%v)", err)
				}
				for e := 0; e < extra+1; e++ {
					if err := seg.DecRef(); err != nil {
						errs <- "DecRef error " + err.Error()
					}
				}
			}()
		}
		wg.Wait()
		mp, fd := mappedAndFd(path)
		if !mp || !fd {
			errs <- "segment released while the opener's reference is still held"
		}
		if err := seg.Close(); err != nil {
			errs <- "final Close error " + err.Error()
		}
		mp, fd = mappedAndFd(path)
		if mp || fd {
			errs <- "mapping or descriptor still present after the last reference was dropped"
		}
		close(errs)
		c.Case(fmt.Sprintf("conc-%d-%d", k, g), true)
		c.Count("concurrent_runs")
		for e := range errs {
			c.Violation(fmt.Sprintf("C20 concurrent holders: %d goroutines\n%s", g, e), false)
			return
		}
	}
	// the last references dropped at the same instant by different holders: exactly one release
	trials := c.n(1500, 30000)
	for k := 0; k < trials; k++ {
		s, err := zh.Plugin.Open(path)
		must(err)
		seg := s.(*zap.Segment)
		g := 2 + k%3
		for j := 1; j < g; j++ {
			seg.AddRef()
		}
		var ready, gate int32
		var wg sync.WaitGroup
		errc := make(chan error, g)
		for j := 0; j < g; j++ {
			wg.Add(1)
			closeIt := (j+k)%2 == 0
			go func() {
				defer wg.Done()
				defer func() {
					if p := recover(); p != nil {
						errc <- fmt.Errorf("PANIC in a holder: %v", p)
					}
				}()
				atomic.AddInt32(&ready, 1)
				for atomic.LoadInt32(&gate) == 0 {
					runtime.Gosched()
				}
				var err error
				// the holders' first thesaurus lookups arrive at the same instant too
				if len(want.Thes) > 0 {
					if _, terr := zh.DumpThesaurus(seg, want.Thes[0].Name, nil); terr != nil {
						errc <- terr
						return
					}
				}
				if closeIt {
					err = seg.Close()
				} else {
					err = seg.DecRef()
				}
				errc <- err
			}()
		}
		for atomic.LoadInt32(&ready) != int32(g) {
			runtime.Gosched()
		}
		atomic.StoreInt32(&gate, 1)
		finished := make(chan struct{})
		go func() { wg.Wait(); close(finished) }()
		select {
		case <-finished:
		case <-time.After(30 * time.Second):
			c.Violation(fmt.Sprintf("C20 %d holders make their first thesaurus lookup at the same instant and then drop their references (trial %d): after 30 s they have not finished - a lock is never released, so the final release can never run", g, k), false)
			return
		}
		close(errc)
		c.Count("simultaneous_last_drops")
		for e := range errc {
			if e != nil {
				c.Case(fmt.Sprintf("drop-%d", k), true)
				c.Violation(fmt.Sprintf("C20 %d holders drop the last %d references at the same instant (trial %d): a DecRef/Close returned %v (the release ran more than once)", g, g, k, e), false)
				return
			}
		}
		if mp, fd := mappedAndFd(path); k%50 == 0 && (mp || fd) {
			c.Violation(fmt.Sprintf("C20 %d holders dropped all references concurrently: mapping or descriptor still present", g), false)
			return
		}
	}
	c.Case("simultaneous-last-drops", true)
}

func closedInMemoryThenBuilds(c *ctx) string {
	oldGC := debug.SetGCPercent(-1)
	defer debug.SetGCPercent(oldGC)
	oldP := runtime.GOMAXPROCS(1)
	defer runtime.GOMAXPROCS(oldP)
	zh.DumpNoThes = true
	defer func() { zh.DumpNoThes = false }()
	parts := []int{pNDocs, pFields, pDicts, pStored, pDVFields, pDV}
	for round := 0; round < c.n(3, 20); round++ {
		// an earlier build gives the size estimate the later ones start from
		w, _, err := zh.Build(zh.GenBatch(c.R, zh.RandOpts(c.R, 30+c.R.Intn(20), "u")), 1026)
		must(err)
		ba := zh.GenBatch(c.R, zh.RandOpts(c.R, 25+c.R.Intn(20), "a"))
		a, _, spec, err := buildObs(c, ba, 1026)
		must(err)
		if err := a.Close(); err != nil {
			return "Close returned " + err.Error()
		}
		var later []*zap.SegmentBase
		for k := 0; k < 3; k++ {
			sb, _, err := zh.Build(zh.GenBatch(c.R, zh.RandOpts(c.R, 3+c.R.Intn(12), "l")), 1026)
			must(err)
			later = append(later, sb)
		}
		bad := ""
		func() {
			defer func() {
				if r := recover(); r != nil {
					bad = fmt.Sprintf("reading it panics: %v", r)
				}
			}()
			cont, err := zh.Dump(a)
			if err != nil {
				bad = "reading it fails: " + err.Error()
				return
			}
			if d := partsDiffer(cont.Sx(), spec, parts); len(d) > 0 {
				bad = "it differs from its batch in " + fmt.Sprint(d) + "\n" + describeDiff(cont.Sx(), spec, parts)
			}
		}()
		c.Count("closed_inmemory_segments_reread_after_later_builds")
		if bad != "" {
			return fmt.Sprintf("an in-memory segment (%d documents) was closed, three smaller batches were built afterwards (same goroutine, one P, GC off), then the closed segment was read again (dictionaries, postings, stored fields, doc values): %s", len(ba), bad)
		}
		_ = later
		_ = w
	}
	return ""
}

// bigFileOpenRelease: a segment file of about 6 MiB (3000 documents with 2 KiB of incompressible
// stored bytes each); balanced sequences that release the segment immediately after opening it,
// after reference traffic only, or after one read; after each sequence - at once and again a few
// milliseconds later - the mapping and the descriptor must be gone, and the file must open and
// read again.
func bigFileOpenRelease(c *ctx) string {
	var b zh.Batch
	for d := 0; d < 3000; d++ {
		b = append(b, zh.Doc{Fields: []zh.Field{zh.IDField(fmt.Sprintf("big%05d", d)),
			{Name: "blob", Typ: 't', Stored: true, Val: c.R.Bytes(2048)}}})
	}
	sb, _, err := zh.Build(b, 1026)
	must(err)
	path := zh.TmpPath("refbig")
	must(zap.PersistSegmentBase(sb, path))
	sb.Close()
	defer os.Remove(path)
	fi, err := os.Stat(path)
	must(err)
	seqs := [][]string{{"Close"}, {"AddRef", "DecRef", "Close"}, {"AddRef", "Close", "DecRef"}, {"Read", "Close"}, {"AddRef", "Close", "Read", "DecRef"}}
	for round := 0; round < c.n(4, 30); round++ {
		for _, seq := range seqs {
			s, err := zh.Plugin.Open(path)
			if err != nil {
				return fmt.Sprintf("a %d-byte segment file cannot be opened: %v", fi.Size(), err)
			}
			seg := s.(*zap.Segment)
			what := fmt.Sprintf("a segment file of %d bytes, opened, then %v with nothing else in between", fi.Size(), seq)
			for _, op := range seq {
				var oerr error
				switch op {
				case "AddRef":
					seg.AddRef()
				case "DecRef":
					oerr = seg.DecRef()
				case "Close":
					oerr = seg.Close()
				case "Read":
					d := uint64(c.R.Intn(3000))
					id, err := seg.DocID(d)
					if err != nil || string(id) != fmt.Sprintf("big%05d", d) {
						return fmt.Sprintf("%s: DocID(%d) = %q (err %v)", what, d, id, err)
					}
				}
				if oerr != nil {
					return fmt.Sprintf("%s: %s returned %v", what, op, oerr)
				}
			}
			for _, wait := range []time.Duration{0, 3 * time.Millisecond, 20 * time.Millisecond} {
				time.Sleep(wait)
				if mp, fd := mappedAndFd(path); mp || fd {
					return fmt.Sprintf("%s: %v after the last reference was dropped the file is still mapped=%v / its descriptor open=%v", what, wait, mp, fd)
				}
			}
			c.Count("big_file_open_release_sequences")
		}
	}
	// reference operations from inside a stored-field visitor (a holder that pins the segment while it
	// copies a value out), with a deadline
	{
		s, err := zh.Plugin.Open(path)
		if err != nil {
			return "open failed: " + err.Error()
		}
		seg := s.(*zap.Segment)
		done := make(chan string, 1)
		go func() {
			bad := ""
			defer func() {
				if r := recover(); r != nil {
					bad = fmt.Sprintf("PANIC: %v", r)
				}
				done <- bad
			}()
			for d := uint64(0); d < 20 && bad == ""; d++ {
				calls := 0
				err := seg.VisitStoredFields(d, func(field string, typ byte, val []byte, pos []uint64) bool {
					calls++
					seg.AddRef()
					if e := seg.DecRef(); e != nil {
						bad = "DecRef inside the visitor: " + e.Error()
					}
					return true
				})
				if err != nil || calls == 0 {
					bad = fmt.Sprintf("VisitStoredFields(%d) with a visitor that takes and drops a reference: %d callbacks, err %v", d, calls, err)
				}
			}
		}()
		select {
		case bad := <-done:
			if bad != "" {
				seg.Close()
				return bad
			}
		case <-time.After(15 * time.Second):
			return "a stored-field visitor that calls AddRef and DecRef on the segment it is visiting has not returned after 15 s (the reference count never reached zero)"
		}
		if err := seg.Close(); err != nil {
			return "Close after the visits: " + err.Error()
		}
		c.Count("reference_operations_inside_a_visitor")
	}
	// several goroutines open the same big file by path, read, take and drop references and close,
	// all at once: every handle reads correctly until its own last release, which reports no error
	for round := 0; round < c.n(30, 600); round++ {
		var wg sync.WaitGroup
		errs := make(chan string, 8)
		for g := 0; g < 4; g++ {
			wg.Add(1)
			go func(g int) {
				defer wg.Done()
				defer func() {
					if r := recover(); r != nil {
						errs <- fmt.Sprintf("PANIC: %v", r)
					}
				}()
				s, err := zh.Plugin.Open(path)
				if err != nil {
					errs <- "Open: " + err.Error()
					return
				}
				seg := s.(*zap.Segment)
				read := func(when string) bool {
					d := uint64((g*131 + round*17) % 3000)
					id, err := seg.DocID(d)
					if err != nil || string(id) != fmt.Sprintf("big%05d", d) {
						errs <- fmt.Sprintf("%s: DocID(%d) = %q (err %v)", when, d, id, err)
						return false
					}
					return true
				}
				if !read("after Open") {
					return
				}
				seg.AddRef()
				if !read("after AddRef") {
					return
				}
				if err := seg.DecRef(); err != nil {
					errs <- "DecRef: " + err.Error()
					return
				}
				if !read("after DecRef") {
					return
				}
				if err := seg.Close(); err != nil {
					errs <- "final Close: " + err.Error()
				}
			}(g)
		}
		wg.Wait()
		close(errs)
		for e := range errs {
			return fmt.Sprintf("four goroutines each open the same %d-byte file by path, read, AddRef, read, DecRef, read and Close, at the same time (round %d)\n%s", fi.Size(), round, e)
		}
		if mp, fd := mappedAndFd(path); mp || fd {
			return fmt.Sprintf("after four goroutines opened and fully released the same file (round %d) it is still mapped=%v / its descriptor open=%v", round, mp, fd)
		}
		c.Count("concurrent_open_release_rounds")
	}
	// and it still opens and reads
	s, err := zh.Plugin.Open(path)
	if err != nil {
		return "the big file cannot be opened any more: " + err.Error()
	}
	defer s.Close()
	if id, err := s.DocID(2999); err != nil || string(id) != "big02999" {
		return fmt.Sprintf("the big file no longer reads: DocID(2999) = %q (err %v)", id, err)
	}
	return ""
}
