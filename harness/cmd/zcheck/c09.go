package main

import (
	"fmt"
	"os"
	"path/filepath"
	"sort"
	"strconv"
	"strings"

	"github.com/RoaringBitmap/roaring/v2"
	segment "github.com/blevesearch/scorch_segment_api/v2"
	zap "github.com/blevesearch/zapx/v16"

	"zverif/sx"
	"zverif/zh"
)

func init() { register("C09", checkC09) }

// ---------- frozen corpus ----------
// corpus/<name>.zap      a file written by the pinned commit
// corpus/<name>.expect   line 1: "dvchunk=<n> merged=<0|1> <description>", line 2: the content (wire form) it must answer with

type corpusItem struct {
	name    string
	data    []byte
	dvchunk uint32
	merged  bool
	desc    string
	content sx.V
}

func loadCorpus(dir string) ([]corpusItem, error) {
	files, _ := filepath.Glob(filepath.Join(dir, "*.expect"))
	sort.Strings(files)
	var rv []corpusItem
	for _, f := range files {
		b, err := os.ReadFile(f)
		if err != nil {
			return nil, err
		}
		lines := strings.SplitN(string(b), "\n", 3)
		if len(lines) < 2 {
			return nil, fmt.Errorf("%s: malformed", f)
		}
		it := corpusItem{name: strings.TrimSuffix(filepath.Base(f), ".expect")}
		for _, kv := range strings.Fields(lines[0]) {
			if strings.HasPrefix(kv, "dvchunk=") {
				n, _ := strconv.Atoi(kv[8:])
				it.dvchunk = uint32(n)
			} else if kv == "merged=1" {
				it.merged = true
			}
		}
		it.desc = lines[0]
		it.content, err = sx.Parse(strings.TrimSpace(lines[1]))
		if err != nil {
			return nil, fmt.Errorf("%s: %v", f, err)
		}
		it.data, err = os.ReadFile(strings.TrimSuffix(f, ".expect") + ".zap")
		if err != nil {
			return nil, err
		}
		rv = append(rv, it)
	}
	return rv, nil
}

func checkC09(c *ctx) {
	c.Rule = "(b) files written by the CURRENT code (builds incl. synonym documents and all chunk-mode classes, merges and re-merges incl. single-hit and byte-copied entries, boundary cardinalities) are decoded by the frozen, extracted parse_v16 and compared with the extracted spec; (c) every file of the frozen corpus (written by the pinned commit) is opened with the CURRENT reader and its complete dump compared with the recorded content, and decoded by the frozen parser; non-trivial = file with >= 2 documents"
	c.Assumptions = append(c.Assumptions, "vellum/roaring/snappy blob formats are decoded by those libraries in the harness co-process, not by Coq code",
		"the frozen corpus was written by the pinned commit (with the verif hooks only)")
	saved := zap.LegacyChunkMode
	defer func() { zap.LegacyChunkMode = saved }()
	// (c) corpus first: these are the regression files
	items, err := loadCorpus(filepath.Join(c.Root, "corpus"))
	must(err)
	if len(items) == 0 {
		mustH(fmt.Errorf("frozen corpus is empty"))
	}
	for _, it := range items {
		zap.LegacyChunkMode = it.dvchunk
		path := zh.TmpPath("corpus")
		must(os.WriteFile(path, it.data, 0o600))
		c.Case("corpus/"+it.name, it.content.L[pNDocs].N >= 2)
		c.Count("corpus_files")
		bad := func() string {
			s, err := zh.Plugin.Open(path)
			if err != nil {
				return "current Open fails: " + err.Error()
			}
			seg := s.(*zap.Segment)
			defer seg.Close()
			zh.CheckDictCounts = true
			cont, err := zh.Dump(seg)
			zh.CheckDictCounts = false
			if err != nil {
				return "current reader cannot read it: " + err.Error()
			}
			if it.merged {
				cont.NormalizeMerged()
			}
			if d := partsDiffer(cont.Sx(), it.content, allParts); len(d) > 0 {
				return "current reader answers differently from the recorded content in " + fmt.Sprint(d) + "\n" + describeDiff(cont.Sx(), it.content, allParts)
			}
			if p := parseBytesWith(c, it.data, it.content, allParts, it.merged); p != "" {
				return "frozen parser on the frozen file: " + p
			}
			return ""
		}()
		os.Remove(path)
		if bad != "" {
			c.Violation(fmt.Sprintf("C09 frozen corpus file corpus/%s.zap (%s)\n%s", it.name, it.desc, clip(bad)), false)
			return
		}
	}
	zap.LegacyChunkMode = saved
	// (b) current writer -> frozen parser
	n := c.n(90, 2500)
	for i := 0; i < n; i++ {
		zap.LegacyChunkMode = saved
		if c.R.Chance(3) {
			zap.LegacyChunkMode = dvChunkSizes[c.R.Intn(len(dvChunkSizes))]
		}
		o := zh.RandOpts(c.R, c.R.Intn(12), "d")
		o.BigVals = c.R.Chance(20)
		b := zh.GenBatch(c.R, o)
		if c.R.Chance(3) {
			b = zh.AddSynDocs(c.R, b, "d")
		}
		mode := randMode(c)
		sb, _, spec, err := buildObs(c, b, mode)
		c.Case(b.Sx().String(), len(b) >= 2)
		c.Count("built_files")
		if i == 1 {
			c.Sample(map[string]interface{}{"kind": "build", "mode": mode, "batch": clip(b.Sx().Pretty())})
		}
		if err != nil {
			reportBuild(c, "C09 build failed", b, mode, allParts)
			return
		}
		if bad := parseAgainst(c, sb, spec, allParts); bad != "" {
			reportBuild(c, "C09 file written by the current code, decoded by the frozen v16 parser: "+bad, b, mode, allParts)
			return
		}
	}
	zap.LegacyChunkMode = saved
	if !mergeRounds(c, c.n(50, 1500), true, allParts, false, "C09", nil) {
		return
	}
	// boundary cardinalities through the frozen parser
	bigs := []struct {
		nd    int
		cards []int
		mode  uint32
	}{{1030, []int{1023, 1024, 1025}, 1026}, {2060, []int{1024, 2047, 2048, 2049}, 1026}}
	for _, g := range bigs {
		b := zh.GenBoundaryBatch(c.R, g.nd, g.cards, false)
		sb, _, spec, err := buildObs(c, b, g.mode)
		c.Case(fmt.Sprintf("boundary-%d-%v", g.nd, g.cards), true)
		c.Count("boundary_files")
		if err != nil {
			c.Violation("C09 boundary build failed: "+err.Error(), false)
			return
		}
		if bad := parseAgainst(c, sb, spec, []int{pDicts, pDV}); bad != "" {
			c.Violation(fmt.Sprintf("C09 boundary batch (%d docs, term cardinalities %v, mode %d) written by the current code, decoded by the frozen v16 parser\n%s", g.nd, g.cards, g.mode, clip(bad)), false)
			return
		}
	}
	// a merge in which deletions take a term's cardinality across a multiple of 1024: the chunk
	// size recorded nowhere must be derivable from the merged bitmap (frozen parser on the output)
	if !boundaryMerges(c, []int{pDicts, pDV}, "C09", 1) {
		return
	}
	// merges with 127..300 fields (field ids at the one-byte varint edge inside re-encoded locations)
	wideMerges(c, []int{pDicts, pDV}, "C09")
}

// ---------- corpus generation (run once, against the pinned commit) ----------

func genCorpus(c *ctx, dir string) {
	must(os.MkdirAll(dir, 0o755))
	saved := zap.LegacyChunkMode
	defer func() { zap.LegacyChunkMode = saved }()
	seq := 0
	save := func(desc string, data []byte, content sx.V, merged bool) {
		seq++
		name := fmt.Sprintf("%02d", seq)
		m := 0
		if merged {
			m = 1
		}
		must(os.WriteFile(filepath.Join(dir, name+".zap"), data, 0o644))
		must(os.WriteFile(filepath.Join(dir, name+".expect"), []byte(fmt.Sprintf("dvchunk=%d merged=%d %s\n%s\n", zap.LegacyChunkMode, m, desc, content.String())), 0o644))
		fmt.Printf("corpus %s: %d bytes, %d docs: %s\n", name, len(data), content.L[pNDocs].N, desc)
	}
	built := func(desc string, b zh.Batch, mode uint32) *segEnt {
		sb, obs, spec, err := buildObs(c, b, mode)
		must(err)
		if d := partsDiffer(obs, spec, allParts); len(d) > 0 {
			mustH(fmt.Errorf("corpus generation: pinned code disagrees with the spec in %v on %s", d, desc))
		}
		data, err := zh.FileBytes(sb)
		must(err)
		if p := parseBytesAgainst(c, data, spec, allParts); p != "" {
			mustH(fmt.Errorf("corpus generation: parser disagrees on %s: %s", desc, p))
		}
		save(fmt.Sprintf("built mode=%d %s", mode, desc), data, spec, false)
		return &segEnt{seg: sb, spec: spec, n: uint64(len(b)), prov: "built"}
	}
	merged := func(desc string, ins []*segEnt, drops [][]uint64, mode uint32) *segEnt {
		mc := &mergeCase{ins: ins, drops: drops, mode: mode}
		for _, d := range drops {
			mc.nilBM = append(mc.nilBM, d == nil)
		}
		bad, r, spec := mergeVerdict(c, mc, allParts, true)
		if bad != "" {
			mustH(fmt.Errorf("corpus generation: merge %s: %s", desc, bad))
		}
		save(fmt.Sprintf("merged mode=%d %s", mode, desc), r.fileData, spec, true)
		return &segEnt{seg: r.seg, spec: spec, n: spec.L[pNDocs].N, prov: "merged"}
	}
	r := zh.NewRng(20261001)
	for _, mode := range []uint32{1, 2, 3, 1024, 1025, 1026} {
		o := zh.RandOpts(r, 9, "c")
		o.NoLocs, o.Freq1 = false, false
		o.DVMask = 7
		built("random batch", zh.GenBatch(r, o), mode)
	}
	built("1100 docs, terms with 1023/1024/1025 postings", zh.GenBoundaryBatch(r, 1100, []int{1023, 1024, 1025, 600, 1}, true), 1025)
	built("2100 docs, terms with 1023..2049 postings", zh.GenBoundaryBatch(r, 2100, []int{1023, 1024, 1025, 2047, 2048, 2049}, true), 1026)
	o := zh.RandOpts(r, 5, "v")
	o.BigVals = true
	bb := zh.GenBatch(r, o)
	bb[0].Fields = append(bb[0].Fields, zh.Field{Name: "blob", Stored: true, Typ: 't', Val: r.Bytes(70000), Len: 1})
	built("stored value larger than a snappy block", bb, 1026)
	for _, dvc := range []uint32{1, 2, 3} {
		zap.LegacyChunkMode = dvc
		o := zh.RandOpts(r, 9, "w")
		o.DVMask = 31
		built(fmt.Sprintf("doc values in chunks of %d", dvc), zh.GenBatch(r, o), 1026)
	}
	zap.LegacyChunkMode = saved
	built("empty batch", zh.Batch{}, 1026)
	// merges: single-hit entries (frequency 1, no locations), byte-copied entries, re-merges
	mk := func(id string, nd int, nolocs bool, fixed bool) *segEnt {
		o := zh.RandOpts(r, nd, id)
		o.NoLocs, o.Freq1, o.FixedFields, o.NFields, o.VocabN, o.DVMask = nolocs, nolocs, fixed, 3, 7, 3
		b := zh.GenBatch(r, o)
		e, err := newBuilt(c, b, 1026, false)
		must(err)
		return e
	}
	a, b2, c3 := mk("a", 6, true, true), mk("b", 5, true, true), mk("c", 4, false, false)
	m1 := merged("two segments, no deletions, identical field lists (byte copy), single-hit entries", []*segEnt{a, b2}, [][]uint64{nil, nil}, 1026)
	m2 := merged("with deletions and differing field lists", []*segEnt{a, c3, b2}, [][]uint64{{1, 3}, {}, {0}}, 1025)
	merged("re-merge of merged segments", []*segEnt{m1, m2}, [][]uint64{{2}, nil}, 1026)
	merged("re-merge, chunk mode 2", []*segEnt{m2, a}, [][]uint64{nil, {0, 1, 2}}, 2)
	// synonyms
	sb1 := zh.AddSynDocs(r, zh.GenBatch(r, zh.RandOpts(r, 3, "s")), "s")
	sb2 := zh.AddSynDocs(r, zh.GenBatch(r, zh.RandOpts(r, 2, "t")), "t")
	s1 := built("with synonym documents", sb1, 1026)
	s2 := built("with synonym documents (second)", sb2, 1024)
	sm := merged("thesauri merged", []*segEnt{s1, s2}, [][]uint64{nil, {0}}, 1026)
	merged("thesauri re-merged with an ordinary segment", []*segEnt{sm, c3}, [][]uint64{{1}, nil}, 1026)
	_ = roaring.New
	_ = segment.ErrClosed
}
