// zcheck runs the correspondence half of one property's check: it drives the zapx
// implementation (current /repo working tree) and the extracted Coq model on the same
// generated inputs / operation sequences / fault schedules and compares observables.
package main

import (
	"encoding/json"
	"flag"
	"fmt"
	"os"
	"path/filepath"
	"runtime"
	"runtime/debug"
	"sort"
	"strings"
	"sync/atomic"
	"time"

	"zverif/model"
	"zverif/sx"
	"zverif/zh"
)

type checkFn func(c *ctx)

type ctx struct {
	*zh.Run
	M      *model.Client
	R      *zh.Rng
	Quick  bool
	Known  *zh.KnownFindings
	Replay string
}

var checks = map[string]checkFn{}

func register(id string, f checkFn) { checks[id] = f }

func main() {
	prop := flag.String("prop", "", "property id")
	tier := flag.String("tier", "quick", "quick|thorough")
	seed := flag.Uint64("seed", 1, "seed")
	root := flag.String("root", "/verif", "verif root")
	zmodel := flag.String("model", "/verif/ocaml/_build/zmodel", "extracted model binary")
	proof := flag.String("proofstatus", "", "proof status json written by ./check")
	replay := flag.String("replay", "", "replay file")
	gencorpus := flag.String("gencorpus", "", "write the frozen corpus into this directory (run against the pinned commit)")
	flag.Parse()
	// several checks switch the collector off so that sync.Pool contents survive from one operation to
	// the next; a soft memory limit still makes the runtime collect when the heap approaches it (the
	// thorough tiers would otherwise grow past the memory the runs are given)
	debug.SetMemoryLimit(3 << 30)
	if *gencorpus != "" {
		m, err := model.Start(*zmodel, zh.BlobOracle)
		must(err)
		c := &ctx{Run: zh.NewRun("C09", "corpus", 0, *root), M: m, R: zh.NewRng(1), Quick: true, Known: &zh.KnownFindings{}}
		genCorpus(c, *gencorpus)
		m.Close()
		zh.CleanTmp()
		return
	}
	f, ok := checks[*prop]
	if !ok {
		var ids []string
		for k := range checks {
			ids = append(ids, k)
		}
		sort.Strings(ids)
		fmt.Fprintf(os.Stderr, "unknown property %q (have %s)\n", *prop, strings.Join(ids, " "))
		os.Exit(2)
	}
	run := zh.NewRun(*prop, *tier, *seed, *root)
	if *proof != "" {
		if b, err := os.ReadFile(*proof); err == nil {
			var ps zh.ProofStatus
			if json.Unmarshal(b, &ps) == nil {
				run.Proof = &ps
			}
		}
	}
	m, err := model.Start(*zmodel, zh.BlobOracle)
	if err != nil {
		fmt.Fprintln(os.Stderr, "cannot start model:", err)
		os.Exit(2)
	}
	kf, err := zh.LoadKnownFindings(*root + "/known_findings.json")
	if err != nil {
		fmt.Fprintln(os.Stderr, "known_findings.json:", err)
		os.Exit(2)
	}
	c := &ctx{Run: run, M: m, R: zh.NewRng(*seed), Quick: *tier != "thorough", Known: kf, Replay: *replay}
	// a broken proof obligation is reported whether or not a failing input is found
	defer zh.CleanTmp()
	curCtx = c
	go watchdog(c)
	func() {
		// a panic that escapes the code under test inside a step the check does not guard itself
		defer func() {
			if r := recover(); r != nil {
				st := string(debug.Stack())
				if len(st) > 12000 {
					st = st[:12000]
				}
				c.Violation(fmt.Sprintf("PANIC escaping from the code under test: %v\n%s", r, st), false)
			}
		}()
		f(c)
	}()
	curCtx = nil
	reportRaces(c)
	reportProof(c)
	m.Close()
	code := run.Finish()
	zh.CleanTmp()
	os.Exit(code)
}

// reportProof turns a failed proof obligation into a VIOLATION (with no-failing-input-found when
// the correspondence search found nothing).
func reportProof(c *ctx) {
	if c.Proof == nil {
		return
	}
	var bad []string
	for _, t := range append(append([]zh.ProofItem{}, c.Proof.Theorems...), c.Proof.Ties...) {
		if !t.OK {
			bad = append(bad, t.Name+" ("+t.File+")")
		}
	}
	if len(bad) == 0 && c.Proof.BuildOK {
		return
	}
	if len(bad) == 0 {
		return // build failure outside this property's cone
	}
	body := "proof obligation(s) no longer checked: " + strings.Join(bad, ", ") + "\ncoqc: " + c.Proof.Error
	if len(c.Violations) > 0 {
		body += "\nfailing input(s) found by the correspondence search: " + strings.Join(c.Violations, ", ")
		c.Violation(body, false)
	} else {
		c.Violation(body, true)
	}
}

// reportRaces turns data-race reports of the race detector (binary built with -race by ./check
// for the properties that have a concurrency clause) into a violation.
func reportRaces(c *ctx) {
	base := os.Getenv("ZVERIF_RACELOG")
	if base == "" {
		return
	}
	c.Extra["race_detector"] = "on"
	matches, _ := filepath.Glob(base + ".*")
	n := 0
	var first string
	for _, m := range matches {
		b, err := os.ReadFile(m)
		if err != nil {
			continue
		}
		// only races that involve zapx code count; a race confined to the harness is a harness bug
		for _, rep := range strings.Split(string(b), "==================") {
			if !strings.Contains(rep, "WARNING: DATA RACE") {
				continue
			}
			if !strings.Contains(rep, "/repo/") && !strings.Contains(rep, "blevesearch/zapx") {
				fmt.Fprintln(os.Stderr, "harness-only data race (ignored for the verdict):\n"+rep)
				continue
			}
			n++
			if first == "" {
				first = rep
				if len(first) > 6000 {
					first = first[:6000]
				}
			}
		}
	}
	c.Extra["data_races_reported"] = n
	if n > 0 {
		c.Violation(fmt.Sprintf("the race detector reported %d data race(s) during the concurrent part of the check\n%s", n, first), false)
	}
}

// watchdog: a check that stops making progress for three minutes (no case counted, no model
// request) is blocked - in practice goroutines of the code under test waiting for a lock that is
// never released.  That is reported as a violation with the goroutine dump, not left to a timeout.
func watchdog(c *ctx) {
	last, since := int64(-1), time.Now()
	for {
		time.Sleep(2 * time.Second)
		cur := atomic.LoadInt64(&zh.Progress)
		if cur != last {
			last, since = cur, time.Now()
			continue
		}
		if time.Since(since) > 180*time.Second && curCtx != nil {
			buf := make([]byte, 1<<20)
			n := runtime.Stack(buf, true)
			dump := string(buf[:n])
			if len(dump) > 20000 {
				dump = dump[:20000]
			}
			cc := curCtx
			curCtx = nil
			cc.Violation("the check has made no progress for 180 s: the goroutines exercising the code under test are blocked (a lock that is never released, a wait that is never signalled)\n"+dump, false)
			code := cc.Run.Finish()
			os.Exit(code)
		}
	}
}

// proofBroken: the named tie lemma / theorem of this property's cone no longer checks on this tree
// (the check then spends more effort searching for a failing input around what that lemma covers)
func (c *ctx) proofBroken(name string) bool {
	if c.Proof == nil {
		return false
	}
	for _, t := range append(append([]zh.ProofItem{}, c.Proof.Theorems...), c.Proof.Ties...) {
		if !t.OK && (name == "" || t.Name == name) {
			return true
		}
	}
	return false
}

func (c *ctx) n(quick, thorough int) int {
	if c.Quick {
		return quick
	}
	return thorough
}

// mustH: an error of the harness itself or of the extracted model (exit 2).
func mustH(err error) {
	if err != nil {
		fmt.Fprintln(os.Stderr, "harness error:", err)
		zh.CleanTmp()
		os.Exit(2)
	}
}

// curCtx is the running check (nil while the harness itself starts up).
var curCtx *ctx

// must: an error in a step the check takes for granted (building or reading a segment it is about
// to examine, a merge that has to succeed).  On the unchanged tree these never fail; when one does,
// the code under test is the suspect, so it is reported as a violation with the error as evidence
// rather than as a harness failure.
func must(err error) {
	if err == nil {
		return
	}
	if curCtx != nil {
		c := curCtx
		curCtx = nil
		c.Violation("a step the check takes for granted failed: "+err.Error()+"\n"+string(debug.Stack()), false)
		code := c.Run.Finish()
		zh.CleanTmp()
		os.Exit(code)
	}
	fmt.Fprintln(os.Stderr, "harness error:", err)
	zh.CleanTmp()
	os.Exit(2)
}

func ask(c *ctx, req sx.V) sx.V {
	atomic.AddInt64(&zh.Progress, 1)
	a, err := c.M.Ask(req)
	mustH(err)
	return a
}
