//go:build vectors

package main

import (
	"fmt"
	"os"
	"sort"
	"sync"
	"time"

	"github.com/RoaringBitmap/roaring/v2"
	faiss "github.com/blevesearch/go-faiss"
	segment "github.com/blevesearch/scorch_segment_api/v2"
	zap "github.com/blevesearch/zapx/v16"

	"zverif/sx"
	"zverif/zh"
)

// ---------------- C16 ----------------

// cache events: 0/1 = open a handle with exclusion set e0/e1 (and search through it), 2 = close the
// most recently opened handle, 3 = one expiry pass of the cache
func cacheSeqs(n int) [][]int {
	var out [][]int
	var rec func(cur []int, open int)
	rec = func(cur []int, open int) {
		if len(cur) > 0 {
			out = append(out, append([]int(nil), cur...))
		}
		if len(cur) == n {
			return
		}
		for ev := 0; ev < 4; ev++ {
			if ev == 2 && open == 0 {
				continue
			}
			o := open
			if ev < 2 {
				o++
			} else if ev == 2 {
				o--
			}
			rec(append(cur, ev), o)
		}
	}
	rec(nil, 0)
	return out
}

func waitLive(want int) int {
	var live int
	for i := 0; i < 100; i++ {
		faiss.Mu.Lock()
		live = faiss.Live
		faiss.Mu.Unlock()
		if live == want {
			return live
		}
		time.Sleep(time.Millisecond)
	}
	return live
}

func checkC16(c *ctx) {
	c.Rule = "every sequence up to length L (quick 4, thorough 6) over the events {open a handle with exclusion bitmap e0 and search, open with e1 and search, close the most recent handle, run one expiry pass of the cache (verif hook; the 1 s monitor is disabled)} on an opened segment, for pairs of exclusion bitmaps (one of them empty or nil); after every event the number of live native indexes, the presence of a cache entry, double closes and uses after close are compared with the extracted cache machine (VecCache.v, eviction decided by the observed idle bit AND refs <= 0); every search result is compared with the specification of a FRESH segment; finally handles are closed, an expiry pass runs and the segment is closed: nothing may remain; plus concurrent searchers with the expiry pass running (race detector); plus, on a segment with 1200 vectors (clustered index), ten filtered / unfiltered searches (k from 1 to 700, eligible fractions 1/10 to 4/5, exclusions) run in several orders with expiry passes in between - each answer must equal the same search on a freshly opened copy; plus a caller that owns ONE exclusion bitmap and rewrites it in place before each open (sets of equal size with other members); plus a handle kept open over 0..8 idle expiry passes followed by one or two more opens and a pass (the index must stay alive, be released once at the end); plus rounds in which two vector fields are cached and expire in the same pass; plus rounds in which 8 goroutines make the first open of a field at the same instant (spin barrier) and the engine accounting must return to its base after the segment is closed; non-trivial = sequence with >= 2 opens with different bitmaps or an eviction between opens"
	c.Assumptions = append(c.Assumptions, "stand-in engine (see C14); the EWMA numerics of the expiry decision are not modelled: the model takes the observed 'idle' bit as an oracle and decides eviction by it AND by the reference count",
		"data-race freedom observed with the race detector only")
	// set once, before any vector-cache activity in this process, and never written again: the monitor
	// goroutines read this package variable without synchronisation
	zap.VerifSetMonitorFreq(time.Hour)
	L := c.n(4, 6)
	seqs := cacheSeqs(L)
	o := genVecOpts(c)
	o.nVecFs = 1
	nb := c.n(4, 8)
	for bi := 0; bi < nb; bi++ {
		b := genVecBatch(c, 5+c.R.Intn(4), "k", o)
		// make sure there are vectors
		b[0].Fields = append(b[0].Fields, zh.Field{Name: "vec", Typ: 'v', Vec: &zh.VecDef{Dims: o.dims["vec"], Sim: o.sim["vec"], Opt: o.opt["vec"], Data: randVec(c, o.dims["vec"])}})
		if bi%4 == 3 {
			// a sparse vector field: 8 documents, three of them with one vector each
			b = nil
			for d := 0; d < 8; d++ {
				doc := zh.Doc{Fields: []zh.Field{zh.IDField(fmt.Sprintf("k%02d", d)), {Name: "body", Len: 1, Toks: []zh.Tok{{Term: "x", Freq: 1}}}}}
				if d == 1 || d == 4 || d == 6 {
					doc.Fields = append(doc.Fields, zh.Field{Name: "vec", Typ: 'v', Vec: &zh.VecDef{Dims: o.dims["vec"], Sim: o.sim["vec"], Opt: o.opt["vec"], Data: randVec(c, o.dims["vec"])}})
				}
				b = append(b, doc)
			}
		}
		vspec := vecSpec(c, b)
		vf, _ := vfieldOf(vspec, "vec")
		sb, _, err := zh.Build(b, 1026)
		must(err)
		path := zh.TmpPath("c16")
		must(zap.PersistSegmentBase(sb, path))
		sb.Close()
		nd := uint64(len(b))
		e0 := []uint64{0}
		switch bi % 4 {
		case 1:
			e0 = []uint64{1, 2}
		case 2: // every document of the segment excluded
			e0 = nil
			for d := uint64(0); d < nd; d++ {
				e0 = append(e0, d)
			}
		case 3: // at least as many excluded documents as the field has vectors, one vector document not among them
			hasVec := map[uint64]bool{}
			for _, dv := range vf.L[4].L {
				hasVec[dv.L[0].N] = true
			}
			e0 = nil
			spared := false
			for d := uint64(0); d < nd; d++ {
				if hasVec[d] && !spared {
					spared = true
					continue
				}
				e0 = append(e0, d)
			}
		}
		var e1 []uint64 // empty bitmap
		excepts := [][]uint64{e0, e1}
		for si, seq := range seqs {
			waitLive(0)
			baseLive, baseDbl, baseUac := engineCounters()
			s, err := zh.Plugin.Open(path)
			must(err)
			seg := s.(*zap.Segment)
			vs := segment.VectorSegment(seg)
			var handles []segment.VectorIndex
			var events []sx.V
			fail := ""
			names := []string{}
			for _, ev := range seq {
				switch ev {
				case 0, 1:
					ex := excepts[ev]
					filtered := (si+ev)%3 == 0
					vi, err := vs.InterpretVectorIndex("vec", filtered, bitmapOf(ex))
					if err != nil {
						fail = "InterpretVectorIndex error " + err.Error()
						break
					}
					handles = append(handles, vi)
					// a handle opened filter-capable may also serve a plain search (which must still honour the exclusions)
					useFilter := filtered && (si+len(names))%2 == 0
					names = append(names, fmt.Sprintf("open(except=%v, filtering=%v)+search(filtered=%v)", ex, filtered, useFilter))
					q := randVec(c, o.dims["vec"])
					k := int64(1 + c.R.Intn(4))
					var eligible []uint64
					if useFilter {
						isEx := map[uint64]bool{}
						for _, d := range ex {
							isEx[d] = true
						}
						for d := uint64(0); d < nd; d++ {
							if !isEx[d] && c.R.Intn(3) != 0 {
								eligible = append(eligible, d)
							}
						}
					}
					hits, bad := searchHandle(vi, q, k, eligible, useFilter)
					if bad == "" {
						bad = judge(c, hits, candidates(vf, q), ex, eligible, useFilter, k, true)
					}
					if bad != "" {
						sort.Slice(hits, func(i, j int) bool { return hits[i].doc < hits[j].doc })
						fail = fmt.Sprintf("search through the handle just opened (query %v k=%d eligible=%v): %s\nresults: %v", q, k, eligible, bad, hits)
					}
					events = append(events, sx.L(sx.N(0), sx.Nums(ex)))
				case 2:
					h := handles[len(handles)-1]
					handles = handles[:len(handles)-1]
					h.Close()
					names = append(names, "close-handle")
					events = append(events, sx.L(sx.N(1)))
				case 3:
					before := zap.VerifVectorCacheLen(&seg.SegmentBase)
					zap.VerifVectorCacheTick(&seg.SegmentBase)
					after := zap.VerifVectorCacheLen(&seg.SegmentBase)
					names = append(names, "expiry-pass")
					events = append(events, sx.L(sx.N(2), sx.Bool(after < before || before == 0)))
				}
				if fail != "" {
					break
				}
				// compare with the cache machine
				a := ask(c, sx.L(sx.N(zh.ReqVecCache), sx.List(events)))
				st := a.L[len(a.L)-1] // (cached created released handles)
				wantLive := int(st.L[1].N - st.L[2].N)
				live := waitLive(baseLive+wantLive) - baseLive
				cached := zap.VerifVectorCacheLen(&seg.SegmentBase)
				_, dbl, uac := engineCounters()
				switch {
				case live != wantLive:
					fail = fmt.Sprintf("%d native indexes are live, the cache machine says %d (created %d, released %d, open handles %d)", live, wantLive, st.L[1].N, st.L[2].N, st.L[3].N)
				case (cached > 0) != (st.L[0].N == 1):
					fail = fmt.Sprintf("cache holds %d entries, the cache machine says cached=%d", cached, st.L[0].N)
				case dbl != baseDbl:
					fail = "a native index was closed twice"
				case uac != baseUac:
					fail = "a native index was used after it was closed"
				}
				if fail != "" {
					break
				}
			}
			c.Case(fmt.Sprintf("%d-%v", bi, seq), len(seq) >= 3)
			c.Count(fmt.Sprintf("len=%d", len(seq)))
			if bi == 0 && si == len(seqs)/2 {
				c.Sample(map[string]interface{}{"events": names, "exclusion_bitmaps": excepts})
			}
			// wind down: close the remaining handles, expire, close the segment
			if fail == "" {
				for _, h := range handles {
					h.Close()
				}
				zap.VerifVectorCacheTick(&seg.SegmentBase)
				seg.Close()
				if live := waitLive(baseLive); live != baseLive {
					fail = fmt.Sprintf("%d native indexes remain after every handle and the segment were closed", live-baseLive)
				}
				if _, dbl, uac := engineCounters(); dbl != baseDbl || uac != baseUac {
					fail = fmt.Sprintf("after closing everything: %d double closes, %d uses after close", dbl-baseDbl, uac-baseUac)
				}
			} else {
				seg.Close()
			}
			if fail != "" {
				c.Violation(fmt.Sprintf("C16 cache history on an opened segment (%d docs, field \"vec\" with %d vectors)\nevents: %v\n%s\nvectors (doc, float bits): %s", nd, len(vf.L[4].L), names, fail, clip(vf.L[4].Pretty())), false)
				return
			}
		}
		c.Exhaustive = true
		// ---- concurrent searchers with the expiry pass running ----
		s, err := zh.Plugin.Open(path)
		must(err)
		seg := s.(*zap.Segment)
		var wg sync.WaitGroup
		errs := make(chan string, 32)
		stop := make(chan struct{})
		type res struct {
			q    []float32
			ex   []uint64
			hits []vhit
		}
		var results []res
		var mu sync.Mutex
		for g := 0; g < 6; g++ {
			wg.Add(1)
			r := c.R.Fork()
			qs := make([][]float32, 30)
			exs := make([][]uint64, 30)
			for i := range qs {
				qs[i] = randVec(c, o.dims["vec"])
				exs[i] = excepts[r.Intn(2)]
			}
			go func() {
				defer wg.Done()
				for i := range qs {
					hits, bad := runSearch(seg, "vec", qs[i], 3, exs[i], false, nil, false)
					if bad != "" {
						errs <- bad
						return
					}
					mu.Lock()
					results = append(results, res{qs[i], exs[i], hits})
					mu.Unlock()
				}
			}()
		}
		wg.Add(1)
		go func() {
			defer wg.Done()
			for {
				select {
				case <-stop:
					return
				default:
					zap.VerifVectorCacheTick(&seg.SegmentBase)
					time.Sleep(200 * time.Microsecond)
				}
			}
		}()
		time.Sleep(30 * time.Millisecond)
		close(stop)
		wg.Wait()
		close(errs)
		for e := range errs {
			c.Violation("C16 concurrent searchers with the expiry pass running: "+e, false)
			return
		}
		for _, rr := range results {
			if bad := judge(c, rr.hits, candidates(vf, rr.q), rr.ex, nil, false, 3, true); bad != "" {
				c.Violation(fmt.Sprintf("C16 concurrent searchers with the expiry pass running: query %v except %v: %s", rr.q, rr.ex, bad), false)
				return
			}
		}
		c.CountN("concurrent_searches", len(results))
		c.Count("concurrent_rounds")
		zap.VerifVectorCacheTick(&seg.SegmentBase)
		seg.Close()
		if live := waitLive(0); live != 0 {
			c.Violation(fmt.Sprintf("C16 %d native indexes remain after concurrent use and segment close", live), false)
			return
		}
		os.Remove(path)
	}
	if bad := clusteredHistories(c); bad != "" {
		c.Violation("C16 search results must not depend on earlier searches of the same segment\n"+bad, false)
		return
	}
	if bad := expiryRace(c); bad != "" {
		c.Violation("C16 "+bad, false)
		return
	}
	if bad := inPlaceBitmapHistory(c); bad != "" {
		c.Violation("C16 "+bad, false)
		return
	}
	if bad := pinnedAcrossIdlePasses(c); bad != "" {
		c.Violation("C16 "+bad, false)
		return
	}
	if bad := twoFieldsExpireTogether(c); bad != "" {
		c.Violation("C16 index lifetime with two cached vector fields expiring in one pass\n"+bad, false)
		return
	}
	if bad := simultaneousFirstOpens(c); bad != "" {
		c.Violation("C16 index lifetime under simultaneous first opens\n"+bad, false)
		return
	}
}

// ---------------- C19 ----------------

type faultScenario struct {
	name string
	run  func() (err error, path string) // path = "" for builds
	prep func()
}

func checkC19(c *ctx) {
	c.Rule = "fault enumeration through the stand-in engine: for each build and merge scenario (exact index; >= 1000 vectors so that Train / SetDirectMap occur; several vector fields; several input segments; a single contributing segment; fully deleted segments first / around the contributor; memory-efficient fields; an input of 4200 live vectors) the fault-free run records how often each engine operation is called; then the n-th call of each operation (IndexFactory, SetDirectMap, Train, AddWithIDs, WriteIndexIntoBuffer, ReadIndexFromBuffer, ReconstructBatch) is made to fail, for EVERY n; the operation must return an error, a failed merge must leave no file, and the number of live native indexes must return to its value before the operation; outcome compared with the extracted model of the build / merge engine-call program (VecFault.v); non-trivial = a fault in a call other than the first"
	c.Assumptions = append(c.Assumptions, "stand-in engine (see C14): its operations fail exactly where the injection says")
	o := genVecOpts(c)
	o.sim["vec"], o.sim["emb"] = "l2_norm", "dot_product"
	optFor := "recall"
	mkBatch := func(nd, perDoc, fields int, id string) zh.Batch {
		var b zh.Batch
		for d := 0; d < nd; d++ {
			doc := zh.Doc{Fields: []zh.Field{zh.IDField(fmt.Sprintf("%s%05d", id, d)), {Name: "body", Len: 1, Toks: []zh.Tok{{Term: "x", Freq: 1}}}}}
			for fi := 0; fi < fields; fi++ {
				name := vecFieldNames[fi]
				var data []float32
				for j := 0; j < perDoc; j++ {
					data = append(data, randVec(c, o.dims[name])...)
				}
				doc.Fields = append(doc.Fields, zh.Field{Name: name, Typ: 'v', Vec: &zh.VecDef{Dims: o.dims[name], Sim: o.sim[name], Opt: optFor, Data: data}})
			}
			b = append(b, doc)
		}
		return b
	}
	// one field with more than 2^20 floats of vector data in a single build
	var bigBuild zh.Batch
	for d := 0; d < 2100; d++ {
		v := make([]float32, 512)
		for i := range v {
			v[i] = float32((d*31+i*7)%97) / 8
		}
		bigBuild = append(bigBuild, zh.Doc{Fields: []zh.Field{zh.IDField(fmt.Sprintf("B%05d", d)),
			{Name: "vec", Typ: 'v', Vec: &zh.VecDef{Dims: 512, Sim: "l2_norm", Opt: "recall", Data: v}}}})
	}
	type scen struct {
		name   string
		build  zh.Batch   // build scenario
		inputs []zh.Batch // merge scenario
		drops  [][]uint64
		ivf    bool
		fields sx.V // the shape of the engine-call program for the model
	}
	scens := []scen{
		{name: "build, one field, exact index", build: mkBatch(5, 2, 1, "a"), fields: sx.L(sx.Bool(false))},
		{name: "build, two fields, exact index", build: mkBatch(4, 1, 2, "b"), fields: sx.L(sx.Bool(false), sx.Bool(false))},
		{name: "build, >= 1000 vectors (clustered index: SetDirectMap, Train)", build: mkBatch(520, 2, 1, "c"), ivf: true, fields: sx.L(sx.Bool(true))},
		{name: "build, one field with 2100 vectors of 512 dimensions (more than 2^20 floats)", build: bigBuild, ivf: true, fields: sx.L(sx.Bool(true))},
		{name: "merge of two segments, exact index", inputs: []zh.Batch{mkBatch(4, 1, 1, "d"), mkBatch(3, 2, 1, "e")}, drops: [][]uint64{{1}, nil}, fields: sx.L(sx.L(sx.N(2), sx.Bool(false)))},
		{name: "merge of three segments, two fields", inputs: []zh.Batch{mkBatch(3, 1, 2, "f"), mkBatch(3, 1, 2, "g"), mkBatch(2, 1, 1, "h")}, drops: [][]uint64{nil, {0}, nil}, fields: sx.L(sx.L(sx.N(2), sx.Bool(false)), sx.L(sx.N(3), sx.Bool(false)))},
		{name: "merge of one segment with a deletion (a single contributor)", inputs: []zh.Batch{mkBatch(4, 1, 1, "k")}, drops: [][]uint64{{1}}, fields: sx.L(sx.L(sx.N(1), sx.Bool(false)))},
		{name: "merge of three segments, the first one fully deleted", inputs: []zh.Batch{mkBatch(3, 1, 1, "l"), mkBatch(3, 1, 1, "m"), mkBatch(2, 2, 1, "n")}, drops: [][]uint64{{0, 1, 2}, nil, {0}}, fields: sx.L(sx.L(sx.N(2), sx.Bool(false)))},
		{name: "merge of three segments, only the middle one contributes vectors", inputs: []zh.Batch{mkBatch(2, 1, 1, "o"), mkBatch(3, 2, 1, "p"), mkBatch(2, 1, 1, "q")}, drops: [][]uint64{{0, 1}, nil, {0, 1}}, fields: sx.L(sx.L(sx.N(1), sx.Bool(false)))},
		{name: "merge of ten segments, one of them fully deleted (nine source indexes)", inputs: []zh.Batch{mkBatch(2, 1, 1, "t0"), mkBatch(2, 1, 1, "t1"), mkBatch(2, 1, 1, "t2"), mkBatch(2, 1, 1, "t3"), mkBatch(2, 1, 1, "t4"), mkBatch(2, 1, 1, "t5"), mkBatch(2, 1, 1, "t6"), mkBatch(2, 1, 1, "t7"), mkBatch(2, 1, 1, "t8"), mkBatch(2, 1, 1, "t9")},
			drops: [][]uint64{nil, nil, nil, {0, 1}, nil, nil, {0}, nil, nil, nil}, fields: sx.L(sx.L(sx.N(9), sx.Bool(false)))},
		{name: "merge with an input whose own index is clustered (>= 1000 vectors in one input)", inputs: []zh.Batch{mkBatch(520, 2, 1, "r"), mkBatch(3, 1, 1, "s")}, drops: [][]uint64{{5}, nil}, ivf: true, fields: sx.L(sx.L(sx.N(2), sx.Bool(true)))},
		{name: "merge reaching >= 1000 vectors (clustered index)", inputs: []zh.Batch{mkBatch(300, 2, 1, "i"), mkBatch(260, 2, 1, "j")}, drops: [][]uint64{nil, nil}, ivf: true, fields: sx.L(sx.L(sx.N(2), sx.Bool(true)))},
	}
	optFor = "memory-efficient"
	scens = append(scens,
		scen{name: "merge of three segments, field optimized for memory efficiency", inputs: []zh.Batch{mkBatch(3, 1, 1, "ma"), mkBatch(4, 2, 1, "mb"), mkBatch(2, 1, 1, "mc")}, drops: [][]uint64{nil, {2}, nil}, fields: sx.L(sx.L(sx.N(3), sx.Bool(false)))},
		scen{name: "merge with a clustered memory-efficient input", inputs: []zh.Batch{mkBatch(510, 2, 1, "md"), mkBatch(3, 1, 1, "me")}, drops: [][]uint64{{7}, nil}, ivf: true, fields: sx.L(sx.L(sx.N(2), sx.Bool(true)))})
	// two inputs whose serialized indexes exceed 1 MiB each (550 vectors of 512 dimensions)
	mkWide := func(n int, id string) zh.Batch {
		var b zh.Batch
		for d := 0; d < n; d++ {
			v := make([]float32, 512)
			for i := range v {
				v[i] = float32((d*13+i*5+len(id))%89) / 8
			}
			b = append(b, zh.Doc{Fields: []zh.Field{zh.IDField(fmt.Sprintf("%s%05d", id, d)),
				{Name: "vec", Typ: 'v', Vec: &zh.VecDef{Dims: 512, Sim: "l2_norm", Opt: "recall", Data: v}}}})
		}
		return b
	}
	allBut := func(n int, keep ...uint64) []uint64 {
		k := map[uint64]bool{}
		for _, x := range keep {
			k[x] = true
		}
		var rv []uint64
		for d := uint64(0); d < uint64(n); d++ {
			if !k[d] {
				rv = append(rv, d)
			}
		}
		return rv
	}
	optFor = "recall"
	scens = append(scens,
		scen{name: "merge of two inputs whose serialized indexes exceed 1 MiB each", inputs: []zh.Batch{mkWide(550, "wa"), mkWide(560, "wb")}, drops: [][]uint64{{3}, nil}, ivf: true, fields: sx.L(sx.L(sx.N(2), sx.Bool(true)))},
		scen{name: "merge of a clustered input of which 2 documents (4 vectors) survive, and a small input", inputs: []zh.Batch{mkBatch(520, 2, 1, "ka"), mkBatch(3, 1, 1, "kb")}, drops: [][]uint64{allBut(520, 17, 300), nil}, fields: sx.L(sx.L(sx.N(2), sx.Bool(false)))},
		scen{name: "merge with an input of 4200 live vectors", inputs: []zh.Batch{mkBatch(2100, 2, 1, "va"), mkBatch(3, 1, 1, "vb")}, drops: [][]uint64{nil, {1}}, ivf: true, fields: sx.L(sx.L(sx.N(2), sx.Bool(true)))},
		scen{name: "merge of a clustered input without deletions and two fully deleted small segments (a single clustered contributor)", inputs: []zh.Batch{mkBatch(2, 1, 1, "ua"), mkBatch(520, 2, 1, "ub"), mkBatch(2, 1, 1, "uc")}, drops: [][]uint64{{0, 1}, nil, {0, 1}}, ivf: true, fields: sx.L(sx.L(sx.N(1), sx.Bool(true)))})
	{
		// more than 32 MiB of serialized input index data in one field
		scens = append(scens, scen{name: "merge of three inputs with more than 32 MiB of serialized index data", inputs: []zh.Batch{mkWide(6200, "xa"), mkWide(6200, "xb"), mkWide(6200, "xc")}, drops: [][]uint64{nil, {9}, nil}, ivf: true, fields: sx.L(sx.L(sx.N(3), sx.Bool(true)))})
	}
	ops := []string{"IndexFactory", "SetDirectMap", "Train", "AddWithIDs", "WriteIndexIntoBuffer", "ReadIndexFromBuffer", "ReconstructBatch"}
	firstDiffers := ""
	for _, sc := range scens {
		var segs []segment.Segment
		var bitmaps []*roaring.Bitmap
		for i, ib := range sc.inputs {
			sb, _, err := zh.Build(ib, 1026)
			must(err)
			segs = append(segs, sb)
			if sc.drops[i] == nil {
				bitmaps = append(bitmaps, nil)
			} else {
				bitmaps = append(bitmaps, bitmapOf(sc.drops[i]))
			}
		}
		runNo := 0
		run := func() (error, string) {
			if sc.build != nil {
				sb, _, err := zh.Build(sc.build, 1026)
				if err == nil && sb != nil {
					sb.Close()
				}
				return err, ""
			}
			path := zh.TmpPath("c19")
			runNo++
			if runNo%2 == 0 {
				// something already sits at the output path (the remains of an earlier attempt)
				mustH(os.WriteFile(path, make([]byte, 300), 0o600))
			}
			var err error
			func() {
				defer func() {
					if r := recover(); r != nil {
						err = fmt.Errorf("PANIC %v", r)
					}
				}()
				_, _, err = zap.VerifMerge(segs, bitmaps, path, 1026, nil, nil)
			}()
			return err, path
		}
		// fault-free run: call counts
		waitQuiescent()
		faiss.Mu.Lock()
		faiss.Calls = map[string]int{}
		faiss.FailAt = map[string]int{}
		faiss.Mu.Unlock()
		baseLive, baseDbl, baseUac := engineCounters()
		err, path := run()
		if err != nil {
			c.Violation(fmt.Sprintf("C19 scenario %q fails without any injected fault: %v", sc.name, err), false)
			return
		}
		if path != "" {
			os.Remove(path)
		}
		faiss.Mu.Lock()
		counts := map[string]int{}
		for k, v := range faiss.Calls {
			counts[k] = v
		}
		faiss.Mu.Unlock()
		if live := waitLive(baseLive); live != baseLive {
			c.Violation(fmt.Sprintf("C19 scenario %q: %d native indexes leaked by the fault-free run", sc.name, live-baseLive), false)
			return
		}
		// the model of the engine-call program
		var callList []sx.V
		for _, op := range ops {
			callList = append(callList, sx.L(sx.S(op), sx.I(counts[op])))
		}
		c.Sample(map[string]interface{}{"scenario": sc.name, "engine_calls_in_fault_free_run": counts})
		for _, op := range ops {
			for n := 1; n <= counts[op]; n++ {
				if c.Quick && counts[op] > 12 && n > 3 && n < counts[op]-2 && n%7 != 0 {
					continue
				}
				faiss.Mu.Lock()
				faiss.Calls = map[string]int{}
				faiss.FailAt = map[string]int{op: n}
				faiss.Mu.Unlock()
				err, path := run()
				faiss.Mu.Lock()
				reached := faiss.Calls[op] >= n
				callsAfter := map[string]int{}
				for k2, v2 := range faiss.Calls {
					callsAfter[k2] = v2
				}
				faiss.FailAt = map[string]int{}
				faiss.Mu.Unlock()
				c.Case(fmt.Sprintf("%s/%s#%d", sc.name, op, n), n > 1 || op != "IndexFactory")
				c.Count("faults_" + op)
				bad := ""
				kind := uint64(1) // merge
				if sc.build != nil {
					kind = 0
				}
				opIdx := 0
				for i, o2 := range ops {
					if o2 == op {
						opIdx = i
					}
				}
				a := ask(c, sx.L(sx.N(zh.ReqVecFault), sx.N(kind), sc.fields, sx.I(opIdx), sx.I(n)))
				if _, isErr := sx.IsErr(a); isErr {
					mustH(fmt.Errorf("model rejected the fault request"))
				}
				wantErr := a.L[0].N == 1
				faiss.Mu.Lock()
				var gotCalls []uint64
				for _, o2 := range ops {
					gotCalls = append(gotCalls, uint64(callsAfter[o2]))
				}
				faiss.Mu.Unlock()
				// `bad`: the property itself fails on this fault; `differs`: the code no longer runs the
				// engine-call program of the model (VecFault.v) - the enumeration goes on looking for a
				// fault on which the property fails, and the difference is reported if there is none
				differs := ""
				switch {
				case !reached:
					differs = fmt.Sprintf("the %d-th call of %s was not reached although the fault-free run makes %d calls (non-deterministic engine-call program)", n, op, counts[op])
				case err == nil:
					// whatever the model of the call program says: the engine reported a failure (the
					// injected call was reached) and the operation succeeded
					bad = fmt.Sprintf("the engine reported a failure in call #%d of %s but the operation returned no error", n, op)
				case err != nil && path != "" && exists(path):
					bad = "the merge returned an error but left a file at the path"
				case a.L[3].N != 1:
					differs = "model: the engine-call program does not close every index exactly once (model defect)"
				case (err != nil) != wantErr:
					differs = fmt.Sprintf("the operation returned error=%v; the model of the engine-call program says error=%v", err, wantErr)
				case !sx.Equal(sx.Nums(gotCalls), a.L[1]):
					differs = fmt.Sprintf("engine calls made before returning %v = %v, the model of the engine-call program says %s", ops, gotCalls, a.L[1].Pretty())
				}
				if path != "" {
					os.Remove(path)
				}
				if bad == "" && reached {
					if live := waitLive(baseLive); live != baseLive {
						bad = fmt.Sprintf("%d native indexes are still open after the failed operation returned", live-baseLive)
						// later scenarios count from the new level
						baseLive = live
					}
					if _, dbl, uac := engineCounters(); dbl != baseDbl || uac != baseUac {
						bad = fmt.Sprintf("%d double closes / %d uses after close during the failed operation", dbl-baseDbl, uac-baseUac)
					}
				}
				if bad == "" && differs != "" {
					if firstDiffers == "" {
						firstDiffers = fmt.Sprintf("C19 scenario %q with the %d-th call of %s failing (fault-free run: %v)\n%s", sc.name, n, op, counts, differs)
					}
					continue
				}
				if bad != "" {
					if kf := c.Known.Match("C19", "build-error-swallowed"); kf != nil && sc.build != nil && err == nil {
						c.KnownFinding(kf.What)
						continue
					}
					c.Violation(fmt.Sprintf("C19 scenario %q with the %d-th call of %s failing (fault-free run: %v)\n%s", sc.name, n, op, counts, bad), false)
					return
				}
			}
		}
		for _, s := range segs {
			s.(*zap.SegmentBase).Close()
		}
	}
	if firstDiffers != "" {
		c.Violation(firstDiffers+"\n(the correspondence between the code and the model of its engine-call program is broken; no fault was found on which the operation hides the failure, leaves a file or leaks an index)", true)
	}
}
