package main

import (
	"bufio"
	"bytes"
	"errors"
	"fmt"
	"io"
	"os"
	"os/signal"
	"runtime"
	"runtime/debug"
	"sync"
	"syscall"
	"time"

	"github.com/RoaringBitmap/roaring/v2"
	segment "github.com/blevesearch/scorch_segment_api/v2"
	zap "github.com/blevesearch/zapx/v16"

	"zverif/sx"
	"zverif/zh"
)

func init() { register("C17", checkC17); register("C18", checkC18) }

// limitWriter accepts exactly `limit` bytes in total, then fails (partial write + error), and records
// the size of every Write call it sees.
type limitWriter struct {
	limit int // < 0: unlimited
	buf   []byte
	calls []uint64
}

var errSink = errors.New("injected write failure")

func (w *limitWriter) Write(p []byte) (int, error) {
	w.calls = append(w.calls, uint64(len(p)))
	if w.limit >= 0 && len(w.buf)+len(p) > w.limit {
		room := w.limit - len(w.buf)
		w.buf = append(w.buf, p[:room]...)
		return room, errSink
	}
	w.buf = append(w.buf, p...)
	return len(p), nil
}

// flakyWriter fails exactly one Write call (the n-th), completely, and accepts everything else;
// capWriter rejects (completely) every write larger than its capacity.
type flakyWriter struct {
	failAt  int
	calls   int
	buf     []byte
	partial int   // bytes the failing call accepts before it reports its error
	err     error // the error of the failing call (errSink when nil)
}

func (w *flakyWriter) Write(p []byte) (int, error) {
	w.calls++
	if w.calls == w.failAt {
		k := w.partial
		if k > len(p) {
			k = len(p)
		}
		w.buf = append(w.buf, p[:k]...)
		if w.err != nil {
			return k, w.err
		}
		return k, errSink
	}
	w.buf = append(w.buf, p...)
	return len(p), nil
}

type capWriter struct {
	max int
	buf []byte
}

func (w *capWriter) Write(p []byte) (int, error) {
	if len(p) > w.max {
		return 0, errSink
	}
	w.buf = append(w.buf, p...)
	return len(p), nil
}

// sizeRecorder records the sizes of the writes issued to a bufio.Writer-like consumer.
type sizeRecorder struct{ sizes []uint64 }

func (s *sizeRecorder) ReportBytesWritten(n uint64) { s.sizes = append(s.sizes, n) }

var rlimMu sync.Mutex

// withFileSizeLimit runs f while the process may not grow any regular file beyond k bytes.
func withFileSizeLimit(k uint64, f func()) {
	rlimMu.Lock()
	defer rlimMu.Unlock()
	signal.Ignore(syscall.SIGXFSZ)
	var old syscall.Rlimit
	must(syscall.Getrlimit(syscall.RLIMIT_FSIZE, &old))
	must(syscall.Setrlimit(syscall.RLIMIT_FSIZE, &syscall.Rlimit{Cur: k, Max: old.Max}))
	defer func() { must(syscall.Setrlimit(syscall.RLIMIT_FSIZE, &old)) }()
	f()
}

func exists(path string) bool { _, err := os.Stat(path); return err == nil }

// modelIO asks the buffered-writer model for (final flush error, bytes in the sink).
func modelIO(c *ctx, bufSize int, limit int, sizes []uint64) (bool, uint64) {
	lim := sx.L()
	if limit >= 0 {
		lim = sx.L(sx.I(limit))
	}
	a := ask(c, sx.L(sx.N(zh.ReqIO), sx.I(bufSize), lim, sx.Nums(sizes)))
	if _, bad := sx.IsErr(a); bad {
		mustH(fmt.Errorf("model rejected the IO request"))
	}
	return a.L[0].N == 1, a.L[1].N
}

func offsetsToTry(c *ctx, total int, dense bool) []int {
	var ks []int
	if dense {
		for k := 0; k <= total; k++ {
			ks = append(ks, k)
		}
		return ks
	}
	seen := map[int]bool{}
	add := func(k int) {
		if k >= 0 && k <= total && !seen[k] {
			seen[k] = true
			ks = append(ks, k)
		}
	}
	for k := 0; k <= 64 && k <= total; k++ {
		add(k)
	}
	for k := total - 80; k <= total; k++ { // the footer and its flush
		add(k)
	}
	for b := 4096; b <= total; b += 4096 { // bufio flush boundaries of Persist
		for d := -2; d <= 2; d++ {
			add(b + d)
		}
	}
	step := total/c.n(150, 1200) + 1
	for k := c.R.Intn(step); k <= total; k += step {
		add(k)
	}
	return ks
}

func checkC17(c *ctx) {
	c.Rule = "fault enumeration: (A) WriteTo into a writer that accepts exactly k bytes, for EVERY k in [0, length] of each input (quick tier: images above 6000 bytes use the head / footer / flush-boundary / stride offsets), plus transient failures: exactly the n-th write call fails for every n, and destinations rejecting writes above a size; (B) Persist with the process file-size limit (RLIMIT_FSIZE, SIGXFSZ ignored) set to k: every k in the first 64 bytes, the last 80 bytes (footer), around every 4096-byte flush boundary and a stride over the rest; (C) Merge with the merge buffer shrunk to 16-100 bytes and the file-size limit set to k (quick: the footer region, the head and a stride; thorough: every k); plus the no-fault runs (among them images of an exact multiple of 4096 bytes) and (C') the segment API's Merge method on ONE persisted and re-opened segment without deletions under the same limits; (D) Persist / Merge to a destination whose final fsync fails; outcome class (error?, bytes accepted) compared with the extracted buffered-writer model (IO.v) fed with the recorded write sizes; after an error the path must not exist; after success the file is decoded by the extracted parser and compared with the spec; non-trivial = a fault offset strictly inside the output"
	// garbage collector off: what failed operations leave in sync.Pools stays there for the later ones
	oldGC := debug.SetGCPercent(-1)
	defer debug.SetGCPercent(oldGC)
	c.Assumptions = append(c.Assumptions, "a failing fsync is injected through a symbolic link to the null device (Linux answers EINVAL); a failing close is modelled but cannot be injected portably; a write beyond the limit is cut short and fails (what the kernel does under RLIMIT_FSIZE and what the failing writer does)")
	savedBuf := zap.DefaultFileMergerBufferSize
	defer func() { zap.DefaultFileMergerBufferSize = savedBuf }()
	if bad := alignedImages(c); bad != "" {
		c.Violation("C17 "+bad, false)
		return
	}
	if bad := syncFailures(c); bad != "" {
		c.Violation("C17 "+bad, false)
		return
	}
	nIn := c.n(3, 25)
	for i := 0; i < nIn; i++ {
		// the collector is off for the pools' sake; between input sets the garbage of thousands of
		// merges is released by hand (one cycle: pooled objects survive it in the victim cache)
		if i > 0 {
			runtime.GC()
		}
		o := zh.RandOpts(c.R, 3+c.R.Intn(10), "w")
		if i%3 == 1 {
			o.NDocs = 40 + c.R.Intn(30) // an image larger than bufio's 4096-byte buffer (large-write paths)
		}
		b := zh.GenBatch(c.R, o)
		if c.R.Bool() {
			b = zh.AddSynDocs(c.R, b, "w")
		}
		mode := randMode(c)
		sb, _, spec, err := buildObs(c, b, mode)
		must(err)
		full, err := zh.FileBytes(sb)
		must(err)
		total := len(full)
		// ---------- (A) WriteTo, every offset ----------
		rec := &limitWriter{limit: -1}
		_, err = sb.WriteTo(rec)
		must(err)
		// the sizes of the writes WriteTo issues to its bufio.Writer: the image, then the 8 footer fields
		sizes := []uint64{uint64(total - 52), 8, 8, 8, 8, 8, 4, 4, 4}
		wOffsets := offsetsToTry(c, total+1, total <= 6000 || !c.Quick)
		for _, k := range wOffsets {
			lw := &limitWriter{limit: k}
			if k == total+1 {
				lw.limit = -1
			}
			var werr error
			func() {
				defer func() {
					if r := recover(); r != nil {
						werr = fmt.Errorf("PANIC %v", r)
					}
				}()
				_, werr = sb.WriteTo(lw)
			}()
			mErr, mLen := modelIO(c, 4096, lw.limit, sizes)
			c.Case(fmt.Sprintf("writeto-%d-%d", i, k), k > 0 && k < total)
			c.Count("writeto_faults")
			bad := ""
			switch {
			case (werr != nil) != mErr:
				bad = fmt.Sprintf("WriteTo returned error=%v, the buffered-writer model says error=%v", werr, mErr)
			case uint64(len(lw.buf)) != mLen:
				bad = fmt.Sprintf("the sink received %d bytes, the model says %d", len(lw.buf), mLen)
			case werr == nil && string(lw.buf) != string(full):
				bad = "WriteTo reported success but the output is not the complete file"
			case werr == nil && lw.limit >= 0 && k < total:
				bad = "WriteTo reported success although the destination failed"
			}
			if bad != "" {
				c.Violation(fmt.Sprintf("C17 WriteTo into a writer that accepts exactly %d of %d bytes\n%s\nbatch: %s", k, total, bad, clip(b.Sx().String())), false)
				return
			}
		}
		// transient destination failures: one Write call fails (and later ones succeed); or the
		// destination rejects writes above a size.  Any failed write must surface as an error.
		nCalls := len(rec.calls)
		for j := 1; j <= nCalls; j++ {
			fw := &flakyWriter{failAt: j}
			_, werr := sb.WriteTo(fw)
			c.Case(fmt.Sprintf("writeto-oneshot-%d-%d", i, j), true)
			c.Count("writeto_transient_faults")
			if werr == nil {
				c.Violation(fmt.Sprintf("C17 WriteTo: the %d-th of %d writes to the destination failed (once; later writes succeed) but WriteTo reported success with %d of %d bytes delivered\nbatch: %s", j, nCalls, len(fw.buf), total, clip(b.Sx().String())), false)
				return
			}
		}
		// the same with a failing call that accepts part of its bytes and reports one of the errors a
		// caller might be tempted to retry (short write, EAGAIN, EINTR - plain or wrapped)
		for j := 1; j <= nCalls; j++ {
			for ei, e := range []error{io.ErrShortWrite, syscall.EAGAIN, fmt.Errorf("write: %w", syscall.EINTR)} {
				fw := &flakyWriter{failAt: j, partial: 1 + (j+ei)%7, err: e}
				_, werr := sb.WriteTo(fw)
				c.Count("writeto_transient_faults")
				if werr == nil && !bytes.Equal(fw.buf, full) {
					c.Violation(fmt.Sprintf("C17 WriteTo: the %d-th of %d writes to the destination accepted %d bytes and reported %v (once; later writes succeed); WriteTo reported success but the destination holds %d bytes that are not the file (%d bytes)\nbatch: %s", j, nCalls, fw.partial, e, len(fw.buf), total, clip(b.Sx().String())), false)
					return
				}
			}
		}
		for _, mx := range []int{0, 3, 51, 52, 100, 4095, 4096, total - 53, total - 1} {
			if mx < 0 {
				continue
			}
			cw := &capWriter{max: mx}
			_, werr := sb.WriteTo(cw)
			rejected := false
			for _, sz := range rec.calls {
				if int(sz) > mx {
					rejected = true
				}
			}
			c.Case(fmt.Sprintf("writeto-cap-%d-%d", i, mx), true)
			c.Count("writeto_transient_faults")
			if rejected && werr == nil {
				c.Violation(fmt.Sprintf("C17 WriteTo into a destination that rejects writes larger than %d bytes reported success with %d of %d bytes delivered\nbatch: %s", mx, len(cw.buf), total, clip(b.Sx().String())), false)
				return
			}
		}
		if i == 0 {
			c.Sample(map[string]interface{}{"operation": "WriteTo", "output_bytes": total, "fault_offsets": "0.." + fmt.Sprint(total), "write_sizes": sizes})
		}
		// ---------- (B) Persist under a file-size limit ----------
		for ki, k := range offsetsToTry(c, total, false) {
			path := zh.TmpPath("c17p")
			// every third case: something already sits at the destination path (a retried Persist, a leftover)
			preexisting := ki%3 == 1
			if preexisting {
				var old []byte
				switch (ki / 3) % 4 {
				case 0: // a truncated leftover
					old = append(old, full[:len(full)/2]...)
				case 3: // a longer file (the product of an earlier, larger segment)
					old = append(append(old, full...), make([]byte, 777)...)
				case 1: // crash residue of exactly the final size
					old = make([]byte, len(full))
				default: // an earlier output of exactly the final size with one byte different
					old = append(old, full...)
					old[len(old)/3] ^= 0x40
				}
				mustH(os.WriteFile(path, old, 0o600))
			}
			viaMethod := ki%2 == 0 // UnpersistedSegment.Persist or the package function
			var perr error
			withFileSizeLimit(uint64(k), func() {
				func() {
					defer func() {
						if r := recover(); r != nil {
							perr = fmt.Errorf("PANIC %v", r)
						}
					}()
					if viaMethod {
						perr = sb.Persist(path)
					} else {
						perr = zap.PersistSegmentBase(sb, path)
					}
				}()
			})
			mErr, _ := modelIO(c, 4096, k, sizes)
			c.Case(fmt.Sprintf("persist-%d-%d", i, k), k > 0 && k < total)
			c.Count("persist_faults")
			bad := ""
			switch {
			case (perr != nil) != mErr:
				bad = fmt.Sprintf("Persist returned error=%v, the model says error=%v", perr, mErr)
			case perr != nil && exists(path):
				bad = fmt.Sprintf("Persist returned an error (%v) but left a file at the path (a file existed there before the call: %v)", perr, preexisting)
			case perr == nil:
				got, _ := os.ReadFile(path)
				if string(got) != string(full) {
					bad = fmt.Sprintf("Persist reported success but the file has %d of %d bytes / differs", len(got), total)
				} else if p := parseBytesAgainst(c, got, spec, allParts); p != "" {
					bad = "Persist reported success but the file does not decode to the content: " + p
				}
			}
			os.Remove(path)
			if bad != "" {
				c.Violation(fmt.Sprintf("C17 Persist with the file-size limit at %d of %d bytes\n%s\nbatch: %s", k, total, bad, clip(b.Sx().String())), false)
				return
			}
		}
		// no fault at all, but the destination already holds a longer file: success must still mean
		// "the file is this segment"
		for v := 0; v < 2; v++ {
			path := zh.TmpPath("c17l")
			mustH(os.WriteFile(path, append(append([]byte(nil), full...), make([]byte, 777)...), 0o600))
			var perr error
			if v == 0 {
				perr = sb.Persist(path)
			} else {
				perr = zap.PersistSegmentBase(sb, path)
			}
			got, _ := os.ReadFile(path)
			os.Remove(path)
			c.Case(fmt.Sprintf("persist-over-longer-%d-%d", i, v), true)
			c.Count("persist_over_longer_file")
			if perr == nil && string(got) != string(full) {
				if kf := c.Known.Match("C17", "destination-not-truncated"); kf != nil {
					c.KnownFinding(kf.What)
				} else {
					c.Violation(fmt.Sprintf("C17 Persist (no fault injected) onto a path that already holds a longer file (%d bytes): Persist reported success but the file has %d bytes, the segment has %d - it does not end with this segment's footer and does not re-open to the content\nbatch: %s", total+777, len(got), total, clip(b.Sx().String())), false)
					return
				}
			}
		}
		// ---------- (C) Merge under a file-size limit, tiny merge buffer ----------
		b2 := zh.GenBatch(c.R, zh.RandOpts(c.R, 2+c.R.Intn(6), "x"))
		e1 := &segEnt{seg: sb, spec: spec, n: uint64(len(b)), prov: "built"}
		e2, err := newBuilt(c, b2, mode, false)
		must(err)
		mc := &mergeCase{ins: []*segEnt{e1, e2}, drops: [][]uint64{{0}, nil}, nilBM: []bool{false, true}, mode: mergeModes[c.R.Intn(len(mergeModes))]}
		mspec, _ := specMerge(c, mc)
		bufSize := []int{16, 33, 64, 100}[c.R.Intn(4)]
		zap.DefaultFileMergerBufferSize = bufSize
		// fault-free run: total length and the write sizes
		recS := &sizeRecorder{}
		path := zh.TmpPath("c17m")
		_, msize, merr := zap.VerifMerge([]segment.Segment{e1.seg, e2.seg}, mc.bitmaps(), path, mc.mode, nil, recS)
		must(merr)
		good, _ := os.ReadFile(path)
		os.Remove(path)
		if uint64(len(good)) != msize {
			c.Violation(fmt.Sprintf("C17 fault-free merge reported size %d but wrote %d bytes", msize, len(good)), false)
			return
		}
		for _, k := range offsetsToTry(c, len(good), !c.Quick) {
			path := zh.TmpPath("c17m")
			var merr error
			var mmaps [][]uint64
			withFileSizeLimit(uint64(k), func() {
				func() {
					defer func() {
						if r := recover(); r != nil {
							merr = fmt.Errorf("PANIC %v", r)
						}
					}()
					mmaps, _, merr = zap.VerifMerge([]segment.Segment{e1.seg, e2.seg}, mc.bitmaps(), path, mc.mode, nil, nil)
				}()
			})
			mErr, _ := modelIO(c, bufSize, k, recS.sizes)
			c.Case(fmt.Sprintf("merge-%d-%d-%d", i, bufSize, k), k > 0 && k < len(good))
			c.Count("merge_faults")
			bad := ""
			// (the output of a merge with data in several sections varies by a few bytes from run to
			// run - sections are written in map order, offsets are varints - so near the end of the
			// file the recorded write sizes are only approximately those of this run: a success is
			// judged by the file produced, a failure the model does not predict needs a margin)
			switch {
			case merr == nil && mErr && k < len(good)-64:
				bad = fmt.Sprintf("Merge returned error=%v, the model says error=%v", merr, mErr)
			case merr != nil && !mErr && k >= len(good)+64:
				bad = fmt.Sprintf("Merge returned error=%v, the model says error=%v", merr, mErr)
			case merr != nil && exists(path):
				bad = fmt.Sprintf("Merge returned an error (%v) but left a file at the path", merr)
			case merr != nil && mmaps != nil:
				bad = "Merge returned an error together with doc-number maps"
			case merr == nil:
				got, _ := os.ReadFile(path)
				if len(got) > k {
					bad = fmt.Sprintf("Merge reported success with a file of %d bytes above the limit", len(got))
				} else if p := parseMergedAgainst(c, got, mspec, allParts); p != "" {
					bad = "Merge reported success but the file does not decode to the merged content: " + p
				}
			}
			os.Remove(path)
			if bad != "" {
				c.Violation(fmt.Sprintf("C17 Merge (buffer %d bytes) with the file-size limit at %d of %d bytes\n%s\n%s", bufSize, k, len(good), bad, clip(mc.describe())), false)
				return
			}
		}
		// ---------- (C') the public Merge method on one re-opened segment without deletions ----------
		if bad := publicSingleMerge(c, sb, spec, uint64(len(b))); bad != "" {
			c.Violation("C17 "+bad+"\nbatch: "+clip(b.Sx().String()), false)
			return
		}
		if mode != zap.DefaultChunkMode {
			// the same batch built in the default chunk mode (what an application's segments are)
			sbd, _, err := zh.Build(b, zap.DefaultChunkMode)
			must(err)
			bad := publicSingleMerge(c, sbd, spec, uint64(len(b)))
			sbd.Close()
			if bad != "" {
				c.Violation("C17 (segment built in the default chunk mode) "+bad+"\nbatch: "+clip(b.Sx().String()), false)
				return
			}
		}
		// after all those failed merges: merges running side by side must each be complete (whatever
		// the failed ones handed back to shared pools must not be handed out twice)
		{
			var wg sync.WaitGroup
			outs := make([]string, 8)
			for j := range outs {
				wg.Add(1)
				go func(j int) {
					defer wg.Done()
					defer func() {
						if r := recover(); r != nil {
							outs[j] = fmt.Sprintf("using its output panics: %v", r)
						}
					}()
					p := zh.TmpPath(fmt.Sprintf("c17c%d", j))
					defer os.Remove(p)
					_, _, err := zap.VerifMerge([]segment.Segment{e1.seg, e2.seg}, mc.bitmaps(), p, mc.mode, nil, nil)
					if err != nil {
						outs[j] = "error " + err.Error()
						return
					}
					s, err := zh.Plugin.Open(p)
					if err != nil {
						outs[j] = "the output cannot be opened: " + err.Error()
						return
					}
					defer s.Close()
					cont, err := zh.Dump(s)
					if err != nil {
						outs[j] = "the output cannot be read: " + err.Error()
						return
					}
					cont.NormalizeMerged()
					if d := partsDiffer(cont.Sx(), mspec, allParts); len(d) > 0 {
						outs[j] = "the output differs from the merged content in " + fmt.Sprint(d)
					}
				}(j)
			}
			wg.Wait()
			c.Count("concurrent_merges_after_faults")
			for j, o := range outs {
				if o != "" {
					c.Violation(fmt.Sprintf("C17 eight merges of the same inputs running side by side after the fault sweep (no fault injected now): merge %d reported success but %s\n%s", j, o, clip(mc.describe())), false)
					return
				}
			}
		}
		zap.DefaultFileMergerBufferSize = savedBuf
		e2.close()
	}
	_ = bufio.NewWriter
	_ = roaring.New
}

// ---------------- C18 ----------------

// closer closes the channel when the cumulative number of bytes written reaches k.
type closer struct {
	k      uint64
	sum    uint64
	ch     chan struct{}
	closed bool
	sizes  []uint64
	unlink string // a path removed at the moment of the close (the caller abandons the merge and its directory)
}

func (cl *closer) ReportBytesWritten(n uint64) {
	cl.sizes = append(cl.sizes, n)
	cl.sum += n
	if !cl.closed && cl.ch != nil && cl.sum >= cl.k {
		close(cl.ch)
		cl.closed = true
		if cl.unlink != "" {
			os.Remove(cl.unlink)
		}
	}
}

func checkC18(c *ctx) {
	c.Rule = "deterministic cancellation without a hook: the StatsReporter passed to Merge is called on every write; the harness closes the close-channel when the cumulative byte count reaches k, for EVERY write boundary k of the fault-free run (between two polls nothing else can be distinguished), plus closed-before-the-call and never-closed, plus closes by a second goroutine at random moments of the merge, plus a dozen input sets with about 300 fields (over 1024 writes, two thousand of them in the fields section) closed across that section, plus closes at which the caller also unlinks the output path; inputs with several segments, doc values, deletions (every fourth input set: all documents deleted) and thesauri; allowed outcomes: (ErrClosed and no file) or (nil and a file that decodes, through the extracted parser, to the extracted spec_merge); non-trivial = a close strictly inside the merge"
	c.Assumptions = append(c.Assumptions, "the poll points themselves are not observable without editing the merge; the model (Cancel.v) quantifies over every placement of polls and of the close")
	savedBuf := zap.DefaultFileMergerBufferSize
	defer func() { zap.DefaultFileMergerBufferSize = savedBuf }()
	// the segment API's Merge method on ONE persisted and re-opened segment with nothing deleted (the
	// shape of a compaction), channel closed before the call
	for k := 0; k < c.n(3, 20); k++ {
		mode := randMode(c)
		if k%2 == 0 {
			mode = zap.DefaultChunkMode
		}
		sb, _, err := zh.Build(zh.GenBatch(c.R, zh.RandOpts(c.R, 2+c.R.Intn(8), "p")), mode)
		must(err)
		seg, ipath, err := zh.PersistOpen(sb)
		must(err)
		for _, bm := range []*roaring.Bitmap{nil, roaring.New()} {
			for _, capacity := range []int{0, 4} {
				ch := make(chan struct{}, capacity)
				close(ch)
				path := zh.TmpPath("c18pub")
				_, _, merr := zh.Plugin.Merge([]segment.Segment{seg}, []*roaring.Bitmap{bm}, path, ch, nil)
				left := exists(path)
				os.Remove(path)
				c.Case(fmt.Sprintf("pre-public-%d-%v-%d", k, bm == nil, capacity), true)
				c.Count("pre_closed_public_single_merges")
				if merr != segment.ErrClosed || left {
					seg.Close()
					os.Remove(ipath)
					c.Violation(fmt.Sprintf("C18 close channel (capacity %d) closed before the call of the segment API's Merge method on ONE persisted and re-opened segment (deletion bitmap nil=%v, else empty): returned %v, file left=%v; want the closed error and no file", capacity, bm == nil, merr, left), false)
					return
				}
			}
		}
		seg.Close()
		os.Remove(ipath)
		sb.Close()
	}
	wideSets := c.n(12, 60)
	nIn := c.n(5, 80) + wideSets
	for i := 0; i < nIn; i++ {
		pool := genMergeInputs(c, 2+c.R.Intn(2), true)
		mc := genMergeCase(c, pool)
		tailN, tailStep := 12, 1
		wide := i < wideSets
		if wide {
			// a merge with about 300 fields: more than 1024 writes, about two thousand of them in the
			// fields section at the end (whose writes go unchecked); closed at every 37th of the last
			// 2600 write boundaries; the sets differ in their number of writes (a poll every so
			// many writes lands elsewhere in each)
			e1, err := newBuilt(c, wideBatch(300-i%5, "x", true), 1026, false)
			must(err)
			e2, err := newBuilt(c, wideBatch(40+i, "y", i%2 == 0), 1026, true)
			must(err)
			mc = &mergeCase{ins: []*segEnt{e1, e2}, drops: [][]uint64{{1}, nil}, nilBM: []bool{false, true}, mode: 1026}
			tailN, tailStep = 2600, 37
			c.Count("wide_input_sets")
		}
		if i%4 == 3 {
			// every document of every input deleted: the merge has nothing to copy but must
			// still honour the channel
			for j, e := range mc.ins {
				mc.drops[j], mc.nilBM[j] = nil, false
				for d := uint64(0); d < e.n; d++ {
					mc.drops[j] = append(mc.drops[j], d)
				}
			}
			c.Count("inputs_with_no_survivor")
		} else {
			for survivors(mc) == 0 {
				mc = genMergeCase(c, pool)
			}
		}
		mspec, mmaps := specMerge(c, mc)
		segs := make([]segment.Segment, len(mc.ins))
		for j, e := range mc.ins {
			segs[j] = e.seg
		}
		zap.DefaultFileMergerBufferSize = []int{32, 256, savedBuf}[c.R.Intn(3)]
		// fault-free run with a reporter that never closes: the write boundaries
		rec := &closer{}
		path := zh.TmpPath("c18")
		t0 := time.Now()
		_, _, err := zap.VerifMerge(segs, mc.bitmaps(), path, mc.mode, make(chan struct{}), rec)
		mergeTime := time.Since(t0)
		must(err)
		os.Remove(path)
		var bounds []uint64
		var sum uint64
		for _, s := range rec.sizes {
			sum += s
			bounds = append(bounds, sum)
		}
		// model sanity: whatever the placement of polls, the outcome is one of the two classes
		evs := []uint64{0}
		for _, s := range rec.sizes {
			evs = append(evs, s+1, 0)
		}
		tried := map[uint64]bool{}
		runNo := 0
		light, lightN := wide, 0
		chanCap := 0
		closeAfter := false
		unlinkOnClose := false
		var asyncDelay time.Duration = -1 // >= 0: a second goroutine closes the channel after this delay
		run := func(k uint64, pre bool) string {
			ch := make(chan struct{})
			if chanCap > 0 { // a close channel created with a capacity (closing it is what counts, not its queue)
				ch = make(chan struct{}, chanCap)
			}
			cl := &closer{k: k, ch: ch}
			if pre {
				close(ch)
				cl.closed = true
			}
			if asyncDelay >= 0 {
				cl.closed = true // the reporter never closes
				go func(d time.Duration) {
					for t := time.Now(); time.Since(t) < d; {
					}
					close(ch)
				}(asyncDelay)
			}
			path := zh.TmpPath("c18")
			defer os.Remove(path)
			if unlinkOnClose {
				cl.unlink = path
			}
			// every other attempt: something already sits at the output path (a name reserved
			// beforehand, the product of an earlier attempt)
			runNo++
			if runNo%2 == 0 {
				old := []byte("reserved")
				if runNo%4 == 0 {
					old = make([]byte, 5000)
				}
				mustH(os.WriteFile(path, old, 0o600))
				c.Count("output_path_already_exists")
			}
			var merr error
			var maps [][]uint64
			func() {
				defer func() {
					if r := recover(); r != nil {
						merr = fmt.Errorf("PANIC %v", r)
					}
				}()
				maps, _, merr = zap.VerifMerge(segs, mc.bitmaps(), path, mc.mode, ch, cl)
			}()
			if merr == nil && closeAfter {
				// the caller closes the channel only after Merge has reported success (an index being
				// shut down later): the file must stay
				close(ch)
				time.Sleep(3 * time.Millisecond)
				if !exists(path) {
					return "Merge reported success; the close channel was closed afterwards and the file disappeared"
				}
			}
			switch {
			case merr == segment.ErrClosed:
				if exists(path) {
					return "Merge returned the closed error but left a file at the path"
				}
				if maps != nil {
					return "Merge returned the closed error together with doc-number maps"
				}
				c.Count("outcome_cancelled")
			case merr == nil:
				if pre {
					return "the channel was closed before the call but Merge reported success"
				}
				if unlinkOnClose {
					c.Count("outcome_completed")
					return "" // the harness itself removed the file
				}
				got, err := os.ReadFile(path)
				if err != nil {
					return "Merge reported success but there is no file"
				}
				for j := range mc.ins {
					if !sx.Equal(sx.Nums(maps[j]), mmaps.L[j]) {
						return fmt.Sprintf("Merge reported success with a wrong doc-number map for input %d", j)
					}
				}
				lightN++
				if light && lightN%400 != 0 {
					// the wide input set: thousands of completed merges; read back through the
					// segment API (the extracted parser takes a third of a second on 300 fields)
					bad := ""
					func() {
						defer func() {
							if r := recover(); r != nil {
								bad = fmt.Sprintf("opening / reading it panics: %v", r)
							}
						}()
						sg, err := zh.Plugin.Open(path)
						if err != nil {
							bad = "it cannot be opened: " + err.Error()
							return
						}
						defer sg.Close()
						cont, err := zh.Dump(sg)
						if err != nil {
							bad = "it cannot be read: " + err.Error()
							return
						}
						cont.NormalizeMerged()
						if d := partsDiffer(cont.Sx(), mspec, allParts); len(d) > 0 {
							bad = "it differs from the merged content in " + fmt.Sprint(d)
						}
					}()
					if bad != "" {
						return "Merge reported success for a file that is not the merged content: " + bad
					}
				} else if p := parseMergedAgainst(c, got, mspec, allParts); p != "" {
					return "Merge reported success for a file that does not decode to the merged content: " + p
				}
				c.Count("outcome_completed")
			default:
				return fmt.Sprintf("Merge returned an unexpected error: %v (file left: %v)", merr, exists(path))
			}
			return ""
		}
		for _, chanCap = range []int{0, 1, 16} {
			if bad := run(0, true); bad != "" {
				c.Violation(fmt.Sprintf("C18 close channel (capacity %d) closed before the call\n%s\n%s", chanCap, bad, clip(mc.describe())), false)
				return
			}
		}
		chanCap = 0
		// never closed while the merge runs, closed right after it reported success
		closeAfter = true
		for rep := 0; rep < 2; rep++ {
			if bad := run(1<<62, false); bad != "" {
				c.Violation(fmt.Sprintf("C18 close channel closed only after the merge had returned\n%s\n%s", bad, clip(mc.describe())), false)
				return
			}
			c.Count("closes_after_success")
		}
		closeAfter = false
		c.Case(fmt.Sprintf("pre-%d", i), true)
		a := ask(c, sx.L(sx.N(zh.ReqCancel), sx.N(0), sx.Nums(evs)))
		if len(a.L) != 0 {
			mustH(fmt.Errorf("cancel model: closed-before-call did not cancel"))
		}
		stride := 1
		if c.Quick && len(bounds) > 400 {
			stride = len(bounds)/400 + 1
		}
		if wide {
			stride = len(bounds)/25 + 1
		}
		for bi := 0; bi < len(bounds); bi += stride {
			k := bounds[bi]
			if tried[k] {
				continue
			}
			tried[k] = true
			c.Case(fmt.Sprintf("close-%d-%d", i, k), true)
			c.Count("close_points")
			chanCap = []int{0, 0, 1, 16}[bi%4]
			if bad := run(k, false); bad != "" {
				c.Violation(fmt.Sprintf("C18 close channel closed when %d of %d bytes had been written (write boundary %d of %d)\n%s\n%s", k, sum, bi, len(bounds), bad, clip(mc.describe())), false)
				return
			}
		}
		// the last boundaries (fields index, footer) always
		for bi := len(bounds) - tailN; bi < len(bounds); bi += tailStep {
			if bi >= 0 && !tried[bounds[bi]] {
				tried[bounds[bi]] = true
				c.Count("close_points")
				if bad := run(bounds[bi], false); bad != "" {
					c.Violation(fmt.Sprintf("C18 close channel closed when %d of %d bytes had been written (tail of the merge)\n%s\n%s", bounds[bi], sum, bad, clip(mc.describe())), false)
					return
				}
			}
		}
		// the caller gives up on the merge AND removes the output (its directory) at that moment:
		// the outcome is still the closed error, not some other one
		unlinkOnClose = true
		for bi := 0; bi < len(bounds); bi += len(bounds)/40 + 1 {
			c.Count("close_points_with_the_output_unlinked")
			if bad := run(bounds[bi], false); bad != "" {
				c.Violation(fmt.Sprintf("C18 close channel closed, and the output path unlinked by the caller at the same moment, when %d of %d bytes had been written\n%s\n%s", bounds[bi], sum, bad, clip(mc.describe())), false)
				return
			}
		}
		unlinkOnClose = false
		// the channel closed by another goroutine at an arbitrary moment (also between two writes)
		trials := c.n(60, 250)
		if c.proofBroken("tie_poll_discipline") {
			trials = 3000
		}
		if wide {
			trials = trials / 12
		}
		for t := 0; t < trials; t++ {
			asyncDelay = time.Duration(c.R.Intn(int(mergeTime)*5/4 + 1))
			d := asyncDelay
			bad := run(1<<62, false)
			asyncDelay = -1
			c.Count("asynchronous_closes")
			if bad != "" {
				c.Violation(fmt.Sprintf("C18 close channel closed by another goroutine at an arbitrary moment of the merge (trial %d, %v after the call started; the whole merge takes about %v)\n%s\n%s", t, d, mergeTime, bad, clip(mc.describe())), false)
				return
			}
		}
		if i == 0 {
			c.Sample(map[string]interface{}{"merge": clip(mc.describe()), "write_boundaries": len(bounds), "bytes": sum})
		}
		for _, e := range pool {
			e.close()
		}
	}
	zap.DefaultFileMergerBufferSize = savedBuf
}

// alignedImages: segments whose image (everything before the footer) is an exact multiple of the
// 4096-byte write buffer, reached by padding a stored value with incompressible bytes; no fault is
// injected: WriteTo and Persist must produce the complete file.
func alignedImages(c *ctx) string {
	for _, base := range []int{3000, 7000, 4096*3 + 100 + c.R.Intn(3000)} {
		pad := c.R.Bytes(base + 3*4096)
		mk := func(l int) (zh.Batch, *zap.SegmentBase, int) {
			b := zh.Batch{
				{Fields: []zh.Field{zh.IDField("al00"), {Name: "body", Typ: 't', Stored: true, Val: pad[:l], Len: 1, Toks: []zh.Tok{{Term: "pad", Freq: 1}}}}},
				{Fields: []zh.Field{zh.IDField("al01"), {Name: "body", Typ: 't', Stored: true, Val: []byte("second"), Len: 1, Toks: []zh.Tok{{Term: "pad", Freq: 1}}}}},
			}
			sb, _, err := zh.Build(b, 1026)
			must(err)
			mem, _, _, _, _, _ := zap.VerifMem(sb)
			return b, sb, len(mem)
		}
		l := base
		var b zh.Batch
		var sb *zap.SegmentBase
		found := false
		for try := 0; try < 200 && l < len(pad); try++ {
			var n int
			b, sb, n = mk(l)
			if n%4096 == 0 {
				found = true
				break
			}
			sb.Close()
			l += 4096 - n%4096
			if l >= len(pad) {
				l = base + try + 1
			}
		}
		if !found {
			c.Count("aligned_image_not_reached")
			continue
		}
		spec, err := zh.SpecOf(c.M, b)
		mustH(err)
		mem, _, _, _, _, _ := zap.VerifMem(sb)
		c.Case(fmt.Sprintf("aligned-image-%d", len(mem)), true)
		c.Count("images_of_a_multiple_of_4096_bytes")
		what := fmt.Sprintf("a two-document segment whose image before the footer is %d bytes (%d x 4096; stored value of %d incompressible bytes)", len(mem), len(mem)/4096, l)
		var buf bytes.Buffer
		n, err := sb.WriteTo(&buf)
		if err != nil {
			return what + ": WriteTo into a buffer returned " + err.Error()
		}
		if int(n) != buf.Len() || buf.Len() <= len(mem) {
			return fmt.Sprintf("%s: WriteTo reports %d bytes, the destination received %d (image %d bytes + footer expected)", what, n, buf.Len(), len(mem))
		}
		if p := parseBytesAgainst(c, buf.Bytes(), spec, allParts); p != "" {
			return what + ": the bytes WriteTo produced, decoded by the extracted parser: " + p
		}
		seg, path, err := zh.PersistOpen(sb)
		if err != nil {
			os.Remove(path)
			return what + ": Persist, then Open: " + err.Error()
		}
		cont, err := zh.Dump(seg)
		seg.Close()
		os.Remove(path)
		if err != nil {
			return what + ": persisted and opened, reading it back: " + err.Error()
		}
		if d := partsDiffer(cont.Sx(), spec, allParts); len(d) > 0 {
			return what + ": persisted and opened, content differs in " + fmt.Sprint(d) + "\n" + describeDiff(cont.Sx(), spec, allParts)
		}
		sb.Close()
	}
	return ""
}

// syncFailures: the destination accepts every write but the final flush to stable storage fails (the
// path is a symbolic link to the null device, whose fsync answers EINVAL).  Persist and Merge must
// return an error and leave nothing at the path.
func syncFailures(c *ctx) string {
	for i := 0; i < c.n(3, 20); i++ {
		b := zh.GenBatch(c.R, zh.RandOpts(c.R, 2+c.R.Intn(8), "y"))
		sb, _, err := zh.Build(b, randMode(c))
		must(err)
		link := zh.TmpPath("c17sync")
		mustH(os.Symlink(os.DevNull, link))
		gone := func() bool { _, e := os.Lstat(link); return os.IsNotExist(e) }
		err = zap.PersistSegmentBase(sb, link)
		c.Case(fmt.Sprintf("sync-failure-persist-%d", i), true)
		c.Count("sync_failures")
		switch {
		case err == nil:
			os.Remove(link)
			return "Persist to a destination that takes every write but fails the final sync (symbolic link to the null device: fsync answers EINVAL) reports success\nbatch: " + clip(b.Sx().String())
		case !gone():
			os.Remove(link)
			return fmt.Sprintf("Persist to a destination whose final sync fails returned %v but left the path in place\nbatch: %s", err, clip(b.Sx().String()))
		}
		mustH(os.Symlink(os.DevNull, link))
		var merr error
		func() {
			defer func() {
				if r := recover(); r != nil {
					merr = fmt.Errorf("PANIC %v", r)
				}
			}()
			_, _, merr = zap.VerifMerge([]segment.Segment{sb}, []*roaring.Bitmap{nil}, link, 1026, nil, nil)
		}()
		c.Case(fmt.Sprintf("sync-failure-merge-%d", i), true)
		c.Count("sync_failures")
		switch {
		case merr == nil:
			os.Remove(link)
			return "Merge to a destination that takes every write but fails the final sync (symbolic link to the null device: fsync answers EINVAL) reports success\nbatch: " + clip(b.Sx().String())
		case !gone():
			os.Remove(link)
			return fmt.Sprintf("Merge to a destination whose final sync fails returned %v but left the path in place\nbatch: %s", merr, clip(b.Sx().String()))
		}
		sb.Close()
	}
	return ""
}

// publicSingleMerge: the segment API's Merge (the plugin method, default chunk mode) applied to ONE
// segment that was persisted and re-opened, nothing deleted - the shape a compaction of a single
// file has - with the file-size limit at k.  Rule (the property itself): a limit below the output's
// length must give an error and no file, otherwise success and a file that decodes to the content.
func publicSingleMerge(c *ctx, sb *zap.SegmentBase, spec sx.V, n uint64) string {
	seg, ipath, err := zh.PersistOpen(sb)
	must(err)
	defer os.Remove(ipath)
	defer seg.Close()
	e := &segEnt{seg: seg, spec: spec, n: n, prov: "opened"}
	for _, emptyBM := range []bool{false, true} {
		mc := &mergeCase{ins: []*segEnt{e}, drops: [][]uint64{nil}, nilBM: []bool{!emptyBM}, mode: zap.DefaultChunkMode}
		mspec, _ := specMerge(c, mc)
		path := zh.TmpPath("c17p")
		_, size, merr := zh.Plugin.Merge([]segment.Segment{seg}, mc.bitmaps(), path, nil, nil)
		if merr != nil {
			return "fault-free Merge (plugin method) of one re-opened segment failed: " + merr.Error()
		}
		good, _ := os.ReadFile(path)
		os.Remove(path)
		if uint64(len(good)) != size {
			return fmt.Sprintf("fault-free Merge (plugin method) reported size %d but wrote %d bytes", size, len(good))
		}
		for _, k := range offsetsToTry(c, len(good), false) {
			path := zh.TmpPath("c17p")
			var merr error
			withFileSizeLimit(uint64(k), func() {
				func() {
					defer func() {
						if r := recover(); r != nil {
							merr = fmt.Errorf("PANIC %v", r)
						}
					}()
					_, _, merr = zh.Plugin.Merge([]segment.Segment{seg}, mc.bitmaps(), path, nil, nil)
				}()
			})
			c.Case(fmt.Sprintf("public-single-merge-%v-%d", emptyBM, k), k > 0 && k < len(good))
			c.Count("public_single_merge_faults")
			bad := ""
			// (the size of the output varies by a few bytes from run to run when the segment has data in
			// several sections - they are written in map order and offsets are varints - so "the limit
			// is below the fault-free length" does not by itself mean the write must fail: success is
			// judged by the file that was produced, failure by a margin)
			switch {
			case merr != nil && k >= len(good)+64:
				bad = "Merge failed (" + merr.Error() + ") although the destination can hold the output"
			case merr != nil && exists(path):
				bad = fmt.Sprintf("Merge returned an error (%v) but left a file at the path", merr)
			case merr == nil:
				got, _ := os.ReadFile(path)
				if len(got) > k {
					bad = fmt.Sprintf("Merge reported success with a file of %d bytes above the limit", len(got))
				} else if p := parseMergedAgainst(c, got, mspec, allParts); p != "" {
					bad = "Merge reported success but the file does not decode to the merged content: " + p
				}
			}
			os.Remove(path)
			if bad != "" {
				return fmt.Sprintf("Merge through the segment API's plugin method of ONE persisted and re-opened segment (deletion bitmap: empty=%v, else nil) with the file-size limit at %d of %d bytes\n%s", emptyBM, k, len(good), bad)
			}
		}
	}
	return ""
}
