package main

import (
	"bytes"
	"fmt"
	"hash/fnv"
	"os"
	"runtime"
	"runtime/debug"
	"sort"
	"sync"
	"sync/atomic"
	"time"

	"github.com/RoaringBitmap/roaring/v2"
	segment "github.com/blevesearch/scorch_segment_api/v2"
	zap "github.com/blevesearch/zapx/v16"

	"zverif/sx"
	"zverif/zh"
)

func init() { register("C11", checkC11) }

// seqAnswers: the sequential answers every concurrent call is compared with.
type seqAnswers struct {
	content *zh.Content
	wire    sx.V
	docIDs  [][]byte
	// one long, unsorted id list that every reader passes to DocNumbers, and its sequential answer
	sharedIDs  []string
	sharedWant *roaring.Bitmap
	// a doc-value script (one visit state, first a narrow field list, then the full one) and what it
	// reports, call by call, when run alone
	dvScript []uint64
	dvAlone  []string
}

// runDvScript: one private visit state; the first half of the calls ask for the first doc-value
// field only, the second half for all of them.
func runDvScript(seg segment.Segment, a *seqAnswers) ([]string, error) {
	dvv, ok := seg.(segment.DocValueVisitable)
	if !ok || len(a.content.DVFields) == 0 {
		return nil, nil
	}
	var st segment.DocVisitState
	var out []string
	for i, d := range a.dvScript {
		fields := a.content.DVFields
		if i < len(a.dvScript)/2 {
			fields = fields[:1]
		}
		got := map[string][]string{}
		var err error
		st, err = dvv.VisitDocValues(d, fields, func(field string, term []byte) {
			got[field] = append(got[field], string(term))
		}, st)
		if err != nil {
			return nil, err
		}
		var keys []string
		for k := range got {
			sort.Strings(got[k])
			keys = append(keys, k)
		}
		sort.Strings(keys)
		line := fmt.Sprintf("doc %d fields %q:", d, fields)
		for _, k := range keys {
			line += fmt.Sprintf(" %s=%q", k, got[k])
		}
		out = append(out, line)
	}
	return out, nil
}

func sequential(seg segment.Segment) (*seqAnswers, error) {
	cont, err := zh.Dump(seg)
	if err != nil {
		return nil, err
	}
	a := &seqAnswers{content: cont, wire: cont.Sx()}
	for d := uint64(0); d < cont.NDocs; d++ {
		id, err := seg.DocID(d)
		if err != nil {
			return nil, err
		}
		a.docIDs = append(a.docIDs, append([]byte(nil), id...))
	}
	for k := 0; k < 90 || k < int(cont.NDocs); k++ {
		if k < int(cont.NDocs) {
			a.sharedIDs = append(a.sharedIDs, string(a.docIDs[int(cont.NDocs)-1-k]))
		}
		a.sharedIDs = append(a.sharedIDs, fmt.Sprintf("absent-%03d", 997*k%1000), fmt.Sprintf("~beyond-%02d", k%7))
	}
	bm, err := seg.DocNumbers(append([]string(nil), a.sharedIDs...))
	if err != nil {
		return nil, err
	}
	a.sharedWant = bm
	for i := uint64(0); i < 8 && cont.NDocs > 0; i++ {
		a.dvScript = append(a.dvScript, (i*5+3)%cont.NDocs)
	}
	if a.dvAlone, err = runDvScript(seg, a); err != nil {
		return nil, err
	}
	return a, nil
}

// one reader call of a random kind; returns a description of a wrong answer, or "".
func readerCall(r *zh.Rng, seg segment.Segment, a *seqAnswers, rc *zh.Recycled) (kind string, bad string) {
	defer func() {
		if e := recover(); e != nil {
			bad = fmt.Sprintf("PANIC in %s: %v", kind, e)
		}
	}()
	n := a.content.NDocs
	switch r.Intn(8) {
	case 0: // dictionary + postings of one field
		kind = "dictionary+postings"
		if len(a.content.Dicts) == 0 {
			return
		}
		fd := a.content.Dicts[r.Intn(len(a.content.Dicts))]
		d, err := seg.Dictionary(fd.Field)
		if err != nil {
			return kind, err.Error()
		}
		th := fd.Terms[r.Intn(len(fd.Terms))]
		// the reader recycles its own postings list / iterator (prealloc), also after a lookup that missed
		if r.Chance(3) {
			kind = "dictionary+postings(absent term, recycled objects)"
			miss, mcnt, err := zh.ReadPostingsReuse(d, []byte("\xf0zz-no-such-term"), nil, rc)
			if err != nil || mcnt != 0 || len(miss) != 0 {
				return kind, fmt.Sprintf("a term that is not in %s yields %d postings, Count %d (err %v)", fd.Field, len(miss), mcnt, err)
			}
			kind = "dictionary+postings(recycled objects)"
		}
		hits, cnt, err := zh.ReadPostingsReuse(d, []byte(th.Term), nil, rc)
		if err != nil {
			return kind, err.Error()
		}
		c1 := zh.Content{Dicts: []zh.FieldDict{{Field: fd.Field, Terms: []zh.TermHits{{Term: th.Term, Hits: hits}}}}}
		c2 := zh.Content{Dicts: []zh.FieldDict{{Field: fd.Field, Terms: []zh.TermHits{th}}}}
		if cnt != uint64(len(th.Hits)) || c1.DictsSx().String() != c2.DictsSx().String() {
			return kind, fmt.Sprintf("postings of %s/%q differ from the sequential answer", fd.Field, th.Term)
		}
	case 1, 2: // full stored visit, with a stability check of the bytes handed to the visitor
		kind = "VisitStoredFields"
		if n == 0 {
			return
		}
		d := uint64(r.Intn(int(n)))
		var got []zh.SVal
		unstable := ""
		err := seg.VisitStoredFields(d, func(field string, typ byte, value []byte, pos []uint64) bool {
			snap := append([]byte(nil), value...)
			psnap := append([]uint64(nil), pos...)
			runtime.Gosched()
			if !bytes.Equal(snap, value) || fmt.Sprint(psnap) != fmt.Sprint(pos) {
				unstable = fmt.Sprintf("doc %d field %q: the bytes handed to the visitor changed during the callback", d, field)
			}
			var ap []uint64
			if len(psnap) > 0 {
				ap = psnap
			}
			got = append(got, zh.SVal{Field: field, Typ: typ, Val: snap, AP: ap})
			return true
		})
		if err != nil {
			return kind, err.Error()
		}
		if unstable != "" {
			return kind, unstable
		}
		c1 := zh.Content{Stored: [][]zh.SVal{zh.CanonStored(got)}}
		c2 := zh.Content{Stored: [][]zh.SVal{a.content.Stored[d]}}
		if c1.StoredSx().String() != c2.StoredSx().String() {
			return kind, fmt.Sprintf("stored fields of doc %d differ from the sequential answer: got %s want %s", d, c1.StoredSx().Pretty(), c2.StoredSx().Pretty())
		}
	case 3: // visitor that stops after the first field
		kind = "VisitStoredFields(stop after first)"
		if n == 0 {
			return
		}
		d := uint64(r.Intn(int(n)))
		calls := 0
		var first []byte
		err := seg.VisitStoredFields(d, func(field string, typ byte, value []byte, pos []uint64) bool {
			calls++
			first = append([]byte(nil), value...)
			return false
		})
		if err != nil || calls != 1 || !bytes.Equal(first, a.docIDs[d]) {
			return kind, fmt.Sprintf("early-stopped visit of doc %d: %d callbacks, first value %q, want the _id %q (err %v)", d, calls, first, a.docIDs[d], err)
		}
	case 4:
		kind = "DocID"
		if n == 0 {
			return
		}
		d := uint64(r.Intn(int(n)))
		id, err := seg.DocID(d)
		if err != nil || !bytes.Equal(id, a.docIDs[d]) {
			return kind, fmt.Sprintf("DocID(%d) = %q, want %q (err %v)", d, id, a.docIDs[d], err)
		}
	case 5:
		kind = "DocNumbers"
		if n == 0 {
			return
		}
		d := uint64(r.Intn(int(n)))
		if r.Bool() {
			// the batch's id list, handed to every reader as it is (one slice, more than 64 ids, unsorted)
			bm, err := seg.DocNumbers(a.sharedIDs)
			if err != nil || !bm.Equals(a.sharedWant) {
				return kind, fmt.Sprintf("DocNumbers(the shared list of %d ids) = %v (err %v), alone it answers %v", len(a.sharedIDs), bm, err, a.sharedWant)
			}
			return kind, ""
		}
		if r.Chance(3) {
			// ids beyond every id of the segment: the answer is empty, it belongs to the caller (who
			// goes on to accumulate other results into it), and the next such answer is empty again
			miss, err := seg.DocNumbers([]string{"~~beyond-1", "~~beyond-2"})
			if err != nil || miss == nil || !miss.IsEmpty() {
				return kind, fmt.Sprintf("DocNumbers(two ids beyond every id of the segment) = %v (err %v), want the empty set", miss, err)
			}
			miss.Add(uint32(d))
			return kind, ""
		}
		bm, err := seg.DocNumbers([]string{string(a.docIDs[d]), "zzz-absent"})
		if err != nil || !bm.Contains(uint32(d)) {
			return kind, fmt.Sprintf("DocNumbers(id of %d) = %v (err %v)", d, bm, err)
		}
	case 6: // doc values with a private visit state
		kind = "VisitDocValues"
		dvv, ok := seg.(segment.DocValueVisitable)
		if !ok || n == 0 || len(a.content.DVFields) == 0 {
			return
		}
		if r.Chance(3) {
			// the scripted history with one state whose field list widens half-way
			got, err := runDvScript(seg, a)
			if err != nil {
				return kind, err.Error()
			}
			if fmt.Sprint(got) != fmt.Sprint(a.dvAlone) {
				return kind, fmt.Sprintf("a history of doc-value visits with one private state (first the field list %q, then %q) reports\n  %q\nrun alone it reports\n  %q", a.content.DVFields[:1], a.content.DVFields, got, a.dvAlone)
			}
			return kind, ""
		}
		var st segment.DocVisitState
		for k := 0; k < 3; k++ {
			d := uint64(r.Intn(int(n)))
			got := map[string][]string{}
			var err error
			st, err = dvv.VisitDocValues(d, a.content.DVFields, func(field string, term []byte) {
				got[field] = append(got[field], string(term))
			}, st)
			if err != nil {
				return kind, err.Error()
			}
			for _, fdv := range a.content.DV {
				var want []string
				for _, dt := range fdv.Docs {
					if dt.Doc == d {
						want = dt.Terms
					}
				}
				g := got[fdv.Field]
				sort.Strings(g)
				if fmt.Sprint(g) != fmt.Sprint(want) {
					return kind, fmt.Sprintf("doc values of doc %d field %q: got %q want %q", d, fdv.Field, g, want)
				}
			}
		}
	default:
		kind = "Thesaurus"
		ts, ok := seg.(segment.ThesaurusSegment)
		if !ok || len(a.content.Thes) == 0 {
			return
		}
		want := a.content.Thes[r.Intn(len(a.content.Thes))]
		got, err := zh.DumpThesaurus(ts, want.Name, nil)
		if err != nil {
			return kind, err.Error()
		}
		c1, c2 := zh.Content{Thes: []zh.Thes{got}}, zh.Content{Thes: []zh.Thes{want}}
		if c1.ThesSx().String() != c2.ThesSx().String() {
			return kind, fmt.Sprintf("thesaurus %q differs from the sequential answer", want.Name)
		}
	}
	return kind, ""
}

func checkC11(c *ctx) {
	c.Rule = "a shared segment (in memory or mmap-opened; ordinary + synonym documents, stored arrays, doc values in several chunks) is read by 2-16 goroutines issuing random calls (dictionary+postings with each reader recycling its own postings list and iterator as prealloc - also after lookups that missed, full stored visits with a byte-stability check inside the callback, visits stopped after the first field, DocID, DocNumbers, doc-value visits with a private state, thesaurus listings) while 1-2 goroutines merge it; every answer is compared with the sequential answer; the binary is built with the race detector; preceding call histories (early-stopped visits, DocID, merges) are replayed first and the scratch-object pool is probed for duplicate hand-outs against the extracted pool model; non-trivial = schedule with >= 4 goroutines and >= 1 concurrent merge"
	c.Assumptions = append(c.Assumptions, "data-race freedom is observed with the race detector on sampled schedules, not proved (Go memory model is outside the Coq model)",
		"sync.Pool: Get returns any pooled object or a fresh one; every pool operation is atomic")
	old := debug.SetGCPercent(-1) // keep sync.Pool contents alive so that histories shape the pool
	defer debug.SetGCPercent(old)
	saved := zap.LegacyChunkMode
	defer func() { zap.LegacyChunkMode = saved }()
	if bad := sameProcessorMerge(c); bad != "" {
		c.Violation("C11 a merge that re-encodes stored fields (deletions) next to a reader scheduled on the same processor (GOMAXPROCS=1, so both draw the same pooled scratch object)\n"+bad, false)
		return
	}
	if bad := bigDictionaryFirstUse(c); bad != "" {
		c.Violation("C11 "+bad, false)
		return
	}
	if bad := thesaurusFirstUseRace(c); bad != "" {
		c.Violation("C11 "+bad, false)
		return
	}
	rounds := c.n(40, 800)
	for i := 0; i < rounds; i++ {
		zap.LegacyChunkMode = []uint32{2, 3, 1024}[c.R.Intn(3)]
		o := zh.RandOpts(c.R, 6+c.R.Intn(30), "c")
		if o.DVMask == 0 {
			o.DVMask = 3
		}
		b := zh.AddSynDocs(c.R, zh.GenBatch(c.R, o), "c")
		e, err := newBuilt(c, b, randMode(c), c.R.Bool())
		must(err)
		ans, err := sequential(e.seg)
		if err != nil {
			c.Violation(fmt.Sprintf("C11 reading a %s segment sequentially (complete dump, then DocID of every document) before any concurrent use: %v\nbatch: %s", e.prov, err, clip(b.Sx().String())), false)
			return
		}
		// ---- a preceding history that shapes the pool, checked against the pool model ----
		var calls []uint64
		for k := c.R.Intn(6); k > 0; k-- {
			d := uint64(c.R.Intn(int(e.n)))
			switch c.R.Intn(3) {
			case 0:
				e.seg.VisitStoredFields(d, func(string, byte, []byte, []uint64) bool { return false })
			case 1:
				e.seg.DocID(d)
			default:
				e.seg.VisitStoredFields(d, func(string, byte, []byte, []uint64) bool { return true })
			}
			calls = append(calls, 0)
		}
		mx := ask(c, sx.L(sx.N(zh.ReqPool), sx.Nums(calls)))
		dup := zap.VerifPoolProbe()
		if (mx.N > 1) != dup {
			c.Violation(fmt.Sprintf("C11 scratch-object pool after a history of %d reader calls (early-stopped visits, DocID, full visits): the pool hands the same object to two callers = %v, the pool model says at most %d copy of an object exists", len(calls), dup, mx.N), false)
			return
		}
		// ---- concurrent readers + merges ----
		g := 2 + c.R.Intn(15)
		merges := c.R.Intn(3)
		c.Case(fmt.Sprintf("sched-%d-%d-%d", i, g, merges), g >= 4 && merges >= 1)
		c.Count(fmt.Sprintf("goroutines=%d", g))
		c.CountN("concurrent_merges", merges)
		c.Count("segment_" + e.prov)
		if i == 1 {
			c.Sample(map[string]interface{}{"goroutines": g, "concurrent_merges": merges, "segment": e.prov, "docs": e.n, "history_before": len(calls)})
		}
		var wg sync.WaitGroup
		errs := make(chan string, g+merges+8)
		start := make(chan struct{})
		for j := 0; j < g; j++ {
			wg.Add(1)
			r := c.R.Fork()
			go func() {
				defer wg.Done()
				<-start
				rc := &zh.Recycled{}
				for k := 0; k < 40; k++ {
					if kind, bad := readerCall(r, e.seg, ans, rc); bad != "" {
						errs <- kind + ": " + bad
						return
					}
				}
			}()
		}
		// expected merge result, from the model, before the goroutines start
		var drops []uint64
		for d := uint64(0); d < e.n; d++ {
			if c.R.Chance(4) {
				drops = append(drops, d)
			}
		}
		mc := &mergeCase{ins: []*segEnt{e}, drops: [][]uint64{drops}, nilBM: []bool{false}, mode: 1026}
		var e2 *segEnt
		if c.R.Bool() {
			// a second input with another field list (the merged field list differs from the shared segment's)
			o2 := zh.RandOpts(c.R, 1+c.R.Intn(4), "d")
			perm := []int{6, 5, 4, 3, 2, 1, 0}
			o2.NFields = 1 + c.R.Intn(3)
			o2.FieldSel, o2.FixedFields = perm[c.R.Intn(4):], true
			var err error
			e2, err = newBuilt(c, zh.GenBatch(c.R, o2), 1026, false)
			must(err)
			mc = &mergeCase{ins: []*segEnt{e, e2}, drops: [][]uint64{drops, nil}, nilBM: []bool{false, true}, mode: 1026}
			c.Count("merges_with_a_second_input")
		}
		mergeSegs := make([]segment.Segment, len(mc.ins))
		for j, in := range mc.ins {
			mergeSegs[j] = in.seg
		}
		mergeDrops := mc.bitmaps()
		mspec, _ := specMerge(c, mc)
		for j := 0; j < merges; j++ {
			wg.Add(1)
			go func() {
				defer wg.Done()
				<-start
				path := zh.TmpPath("c11m")
				var merr error
				func() {
					defer func() {
						if r := recover(); r != nil {
							merr = fmt.Errorf("PANIC %v", r)
						}
					}()
					_, _, merr = zap.VerifMerge(mergeSegs, mergeDrops, path, 1026, nil, nil)
				}()
				if merr != nil {
					errs <- "concurrent merge failed: " + merr.Error()
					return
				}
				s, err := zh.Plugin.Open(path)
				if err != nil {
					errs <- "concurrent merge output cannot be opened: " + err.Error()
					return
				}
				defer s.Close()
				cont, err := zh.Dump(s)
				if err != nil {
					errs <- "concurrent merge output cannot be read: " + err.Error()
					return
				}
				cont.NormalizeMerged()
				if d := partsDiffer(cont.Sx(), mspec, allParts); len(d) > 0 {
					errs <- "a merge running concurrently with readers produced wrong content in " + fmt.Sprint(d) + "\n" + describeDiff(cont.Sx(), mspec, allParts)
				}
			}()
		}
		// and, half of the time, a merge of the same inputs that is abandoned at a random write
		if c.R.Bool() {
			wg.Add(1)
			total := len(segBytes(e)) + 64
			k := uint64(c.R.Intn(total))
			c.Count("concurrent_abandoned_merges")
			go func() {
				defer wg.Done()
				<-start
				ch := make(chan struct{})
				cl := &closer{k: k, ch: ch}
				path := zh.TmpPath("c11a")
				func() {
					defer func() {
						if r := recover(); r != nil {
							errs <- fmt.Sprintf("a merge abandoned after %d bytes panicked: %v", k, r)
						}
					}()
					zap.VerifMerge(mergeSegs, mergeDrops, path, 1026, ch, cl)
				}()
				os.Remove(path)
			}()
		}
		close(start)
		wg.Wait()
		close(errs)
		for bad := range errs {
			c.Violation(fmt.Sprintf("C11 %d reader goroutines + %d merges on one %s segment (%d docs)\n%s\nbatch: %s", g, merges, e.prov, e.n, clip(bad), clip(b.Sx().String())), false)
			e.close()
			return
		}
		// the segment still answers sequentially as before
		after, err := zh.Dump(e.seg)
		if err != nil || after.Sx().String() != ans.wire.String() {
			c.Violation(fmt.Sprintf("C11 the segment answers differently after concurrent use (err %v)", err), false)
			e.close()
			return
		}
		e.close()
	}
}

// sameProcessorMerge: documents with many equal-sized stored values; a merge with deletions runs
// while a reader on the same P keeps visiting documents; the merged stored fields must be those of
// the surviving input documents and the reader's answers the sequential ones.
func sameProcessorMerge(c *ctx) string {
	nd, nv, merges := c.n(120, 300), c.n(500, 1200), c.n(3, 16)
	var b zh.Batch
	for d := 0; d < nd; d++ {
		doc := zh.Doc{Fields: []zh.Field{zh.IDField(fmt.Sprintf("p%04d", d))}}
		for v := 0; v < nv; v++ {
			doc.Fields = append(doc.Fields, zh.Field{Name: "body", Stored: true, Typ: 't', Val: []byte(fmt.Sprintf("%04d-%04d", d, v)), Len: 1, AP: []uint64{uint64(v)}})
		}
		b = append(b, doc)
	}
	sb, _, err := zh.Build(b, 1026)
	if err != nil {
		return "build failed: " + err.Error()
	}
	seq := make([][]string, nd)
	for d := 0; d < nd; d++ {
		sb.VisitStoredFields(uint64(d), func(field string, typ byte, value []byte, pos []uint64) bool {
			seq[d] = append(seq[d], field+"="+string(value))
			return true
		})
	}
	old := runtime.GOMAXPROCS(1)
	defer runtime.GOMAXPROCS(old)
	stop := make(chan struct{})
	rerr := make(chan string, 1)
	var wg sync.WaitGroup
	wg.Add(1)
	go func() {
		defer wg.Done()
		defer func() {
			if p := recover(); p != nil {
				select {
				case rerr <- fmt.Sprintf("reader: PANIC %v", p):
				default:
				}
			}
		}()
		r := c.R.Fork()
		for {
			select {
			case <-stop:
				return
			default:
			}
			d := r.Intn(nd)
			i := 0
			bad := ""
			sb.VisitStoredFields(uint64(d), func(field string, typ byte, value []byte, pos []uint64) bool {
				if i >= len(seq[d]) || seq[d][i] != field+"="+string(value) {
					bad = fmt.Sprintf("reader: doc %d value %d = %q differs from the sequential answer", d, i, value)
					return false
				}
				i++
				return true
			})
			if bad != "" {
				select {
				case rerr <- bad:
				default:
				}
				return
			}
			runtime.Gosched()
		}
	}()
	result := ""
	for m := 0; m < merges && result == ""; m++ {
		drops := roaring.New()
		for d := 0; d < nd; d += 7 + m {
			drops.Add(uint32(d))
		}
		path := zh.TmpPath("c11p")
		_, _, err := zap.VerifMerge([]segment.Segment{sb}, []*roaring.Bitmap{drops}, path, 1026, nil, nil)
		if err != nil {
			result = "merge failed: " + err.Error()
			break
		}
		s, err := zh.Plugin.Open(path)
		if err != nil {
			result = "merge output cannot be opened: " + err.Error()
			break
		}
		nn := uint64(0)
		for d := 0; d < nd && result == ""; d++ {
			if drops.Contains(uint32(d)) {
				continue
			}
			i := 0
			s.VisitStoredFields(nn, func(field string, typ byte, value []byte, pos []uint64) bool {
				if result == "" && (i >= len(seq[d]) || seq[d][i] != field+"="+string(value)) {
					result = fmt.Sprintf("merge %d: merged document %d (input document %d) stored value %d = %q, the input document has %q", m, nn, d, i, value, seq[d][min(i, len(seq[d])-1)])
				}
				i++
				return true
			})
			if result == "" && i != len(seq[d]) {
				result = fmt.Sprintf("merge %d: merged document %d has %d stored values, input document %d has %d", m, nn, i, d, len(seq[d]))
			}
			nn++
		}
		s.Close()
		os.Remove(path)
		c.Count("same_processor_merges")
	}
	close(stop)
	wg.Wait()
	select {
	case bad := <-rerr:
		if result == "" {
			result = bad
		}
	default:
	}
	c.Case("same-processor-merge", true)
	if result != "" {
		result += fmt.Sprintf("\n(%d documents x %d stored values of equal size, every (7+m)-th document deleted)", nd, nv)
	}
	return result
}

// thesaurusFirstUseRace: a segment with three thesauri; one of them has been used already, six readers
// keep listing it while two other goroutines use the other two for the first time.  Every listing must
// equal the listing obtained alone, and everybody must come back.
func thesaurusFirstUseRace(c *ctx) string {
	names := []string{"syn1", "syn2", "thesaurus"}
	var b zh.Batch
	for d := 0; d < 3; d++ {
		doc := zh.Doc{Fields: []zh.Field{zh.IDField(fmt.Sprintf("t%02d", d))}}
		for ni, n := range names {
			doc.Fields = append(doc.Fields, zh.Field{Name: n, Typ: 's', Syn: []zh.SynDef{
				{Term: "big", Syns: []string{"large", zh.SynVocab[(d+ni)%5]}},
				{Term: []string{"cat", "x", "glad"}[d], Syns: []string{"huge"}}}})
		}
		b = append(b, doc)
	}
	sb, _, err := zh.Build(b, 1026)
	must(err)
	defer sb.Close()
	path := zh.TmpPath("c11thes")
	must(zap.PersistSegmentBase(sb, path))
	defer os.Remove(path)
	want := map[string]string{}
	for _, n := range names {
		t, err := zh.DumpThesaurus(sb, n, nil)
		must(err)
		want[n] = fmt.Sprint(t)
	}
	reps := c.n(60, 1500)
	for rep := 0; rep < reps; rep++ {
		seg, err := zh.Plugin.Open(path)
		must(err)
		ts := seg.(segment.ThesaurusSegment)
		if t, err := zh.DumpThesaurus(ts, "syn1", nil); err != nil || fmt.Sprint(t) != want["syn1"] {
			seg.Close()
			return fmt.Sprintf("thesaurus syn1 of a freshly opened segment lists %v (err %v), the built segment lists %s", t, err, want["syn1"])
		}
		errs := make(chan string, 16)
		var wg sync.WaitGroup
		start := make(chan struct{})
		list := func(n string, times int) {
			defer wg.Done()
			defer func() {
				if r := recover(); r != nil {
					errs <- fmt.Sprintf("PANIC while listing thesaurus %q: %v", n, r)
				}
			}()
			<-start
			for k := 0; k < times; k++ {
				t, err := zh.DumpThesaurus(ts, n, nil)
				if err != nil || fmt.Sprint(t) != want[n] {
					errs <- fmt.Sprintf("thesaurus %q lists %v (err %v) while other goroutines use the segment; alone it lists %s", n, t, err, want[n])
					return
				}
			}
		}
		for g := 0; g < 6; g++ {
			wg.Add(1)
			go list("syn1", 60)
		}
		wg.Add(2)
		go list("syn2", 1)
		go list("thesaurus", 1)
		done := make(chan struct{})
		go func() { wg.Wait(); close(done) }()
		close(start)
		select {
		case <-done:
		case <-time.After(20 * time.Second):
			buf := make([]byte, 1<<16)
			buf = buf[:runtime.Stack(buf, true)]
			return fmt.Sprintf("a segment with three thesauri (syn1 used once before): 6 goroutines list syn1 60 times each while two goroutines use syn2 and thesaurus for the first time; after 20 s they have not all returned (repetition %d)\n%s", rep, clip(string(buf)))
		}
		close(errs)
		for e := range errs {
			seg.Close()
			return fmt.Sprintf("a segment with three thesauri (syn1 used once before), 6 goroutines listing syn1 while two goroutines use syn2 and thesaurus for the first time (repetition %d)\n%s", rep, e)
		}
		must(seg.Close())
		c.Count("thesaurus_first_use_races")
	}
	return ""
}

// bigDictionaryFirstUse: a segment whose term dictionaries are larger than 64 KiB (9000 documents,
// each with a term of its own; 9000 ids); freshly opened (or freshly built) copies are used for the
// first time by eight goroutines at the same instant - DocNumbers, postings of a term, an occasional
// merge - and every answer must be the one the documents dictate.
// bigName: names without common prefixes (a dictionary of them does not compress)
func bigName(kind string, d interface{}) string {
	h := fnv.New64a()
	fmt.Fprint(h, kind, d)
	x := h.Sum64()
	return fmt.Sprintf("%016x%s", x*0x9e3779b97f4a7c15, kind[:1])
}

func bigDictionaryFirstUse(c *ctx) string {
	const nd = 9000
	var b zh.Batch
	for d := 0; d < nd; d++ {
		b = append(b, zh.Doc{Fields: []zh.Field{zh.IDField(bigName("id", d)),
			{Name: "body", Len: 1, Toks: []zh.Tok{{Term: bigName("term", d), Freq: 1}}}}})
	}
	sb, _, err := zh.Build(b, 1026)
	must(err)
	path := zh.TmpPath("c11big")
	must(zap.PersistSegmentBase(sb, path))
	sb.Close()
	defer os.Remove(path)
	for trial := 0; trial < c.n(40, 600); trial++ {
		s, err := zh.Plugin.Open(path)
		must(err)
		var ready, gate int32
		var wg sync.WaitGroup
		errs := make(chan string, 16)
		for g := 0; g < 8; g++ {
			wg.Add(1)
			go func(g int) {
				defer wg.Done()
				defer func() {
					if r := recover(); r != nil {
						errs <- fmt.Sprintf("PANIC: %v", r)
					}
				}()
				d := uint64((g*1117 + trial*31) % nd)
				atomic.AddInt32(&ready, 1)
				for atomic.LoadInt32(&gate) == 0 {
				}
				if g%2 == 0 {
					bm, err := s.DocNumbers([]string{bigName("id", d)})
					if err != nil || bm.GetCardinality() != 1 || !bm.Contains(uint32(d)) {
						errs <- fmt.Sprintf("DocNumbers(id of document %d) = %v (err %v)", d, bm, err)
					}
					return
				}
				dict, err := s.Dictionary("body")
				if err != nil {
					errs <- "Dictionary(body): " + err.Error()
					return
				}
				pl, err := dict.PostingsList([]byte(bigName("term", d)), nil, nil)
				if err != nil {
					errs <- "PostingsList: " + err.Error()
					return
				}
				p, err := pl.Iterator(false, false, false, nil).Next()
				if err != nil || p == nil || p.Number() != d || pl.Count() != 1 {
					errs <- fmt.Sprintf("the term of document %d has Count %d and first hit %v (err %v)", d, pl.Count(), p, err)
				}
			}(g)
		}
		for atomic.LoadInt32(&ready) != 8 {
			runtime.Gosched()
		}
		atomic.StoreInt32(&gate, 1)
		wg.Wait()
		close(errs)
		s.Close()
		c.Count("simultaneous_first_uses_of_a_big_dictionary")
		for e := range errs {
			return fmt.Sprintf("a segment of %d documents whose dictionaries exceed 64 KiB, freshly opened and used for the first time by eight goroutines at the same instant (trial %d)\n%s", nd, trial, e)
		}
	}
	return ""
}
