//go:build vectors

package main

import (
	"fmt"
	"os"
	"runtime"
	"sort"
	"sync"
	"sync/atomic"

	"github.com/RoaringBitmap/roaring/v2"
	segment "github.com/blevesearch/scorch_segment_api/v2"
	zap "github.com/blevesearch/zapx/v16"

	"zverif/zh"
)

// C16, clustered index class: the answer of a search on a segment that has already served other
// searches must be the answer of the same search on a freshly opened copy of the file.
type c16Search struct {
	q        []float32
	k        int64
	except   []uint64
	eligible []uint64
	filtered bool
}

func (s c16Search) String() string {
	return fmt.Sprintf("query %v k=%d filtered=%v |eligible|=%d except=%v", s.q, s.k, s.filtered, len(s.eligible), s.except)
}

func hitKey(h []vhit) string {
	hs := append([]vhit(nil), h...)
	sort.Slice(hs, func(i, j int) bool {
		if hs[i].doc != hs[j].doc {
			return hs[i].doc < hs[j].doc
		}
		return hs[i].bits < hs[j].bits
	})
	return fmt.Sprint(hs)
}

func clusteredHistories(c *ctx) string {
	o := genVecOpts(c)
	o.nVecFs = 1
	dims := o.dims["vec"]
	nd := 1200
	var b zh.Batch
	for d := 0; d < nd; d++ {
		doc := zh.Doc{Fields: []zh.Field{zh.IDField(fmt.Sprintf("H%04d", d))}}
		doc.Fields = append(doc.Fields, zh.Field{Name: "vec", Typ: 'v', Vec: &zh.VecDef{Dims: dims, Sim: o.sim["vec"], Opt: o.opt["vec"], Data: randVec(c, dims)}})
		b = append(b, doc)
	}
	sb, _, err := zh.Build(b, 1026)
	if err != nil {
		return "build failed: " + err.Error()
	}
	path := zh.TmpPath("c16h")
	if err := zap.PersistSegmentBase(sb, path); err != nil {
		return "persist failed: " + err.Error()
	}
	sb.Close()
	defer os.Remove(path)
	var searches []c16Search
	for i := 0; i < 10; i++ {
		s := c16Search{q: randVec(c, dims), filtered: i%5 != 4}
		switch i % 4 {
		case 0:
			s.k = int64(1 + c.R.Intn(4))
		case 1:
			s.k = int64(20 + c.R.Intn(40))
		case 2:
			s.k = int64(200 + c.R.Intn(500))
		default:
			s.k = int64(5 + c.R.Intn(10))
		}
		if i%3 == 0 {
			for d := 0; d < nd; d += 97 + i {
				s.except = append(s.except, uint64(d))
			}
		}
		if s.filtered {
			isEx := map[uint64]bool{}
			for _, d := range s.except {
				isEx[d] = true
			}
			// eligible fraction below and above one half
			den := []int{10, 4, 2, 1}[c.R.Intn(4)]
			for d := 0; d < nd; d++ {
				if !isEx[uint64(d)] && (den == 1 && c.R.Intn(5) != 0 || den > 1 && c.R.Intn(den) == 0) {
					s.eligible = append(s.eligible, uint64(d))
				}
			}
		}
		searches = append(searches, s)
	}
	// two filtered searches with large k whose eligible sets both exceed one half and differ in
	// either direction (all but the multiples of 5, then all but the multiples of 3)
	for _, m := range []int{5, 3} {
		s := c16Search{q: randVec(c, dims), filtered: true, k: 400}
		for d := 0; d < nd; d++ {
			if d%m != 0 {
				s.eligible = append(s.eligible, uint64(d))
			}
		}
		searches = append(searches, s)
	}
	run := func(seg segment.Segment, s c16Search) ([]vhit, string) {
		return runSearch(seg.(segment.VectorSegment), "vec", s.q, s.k, s.except, s.except == nil, s.eligible, s.filtered)
	}
	// reference: every search on its own freshly opened segment
	ref := make([]string, len(searches))
	for i, s := range searches {
		seg, err := zh.Plugin.Open(path)
		if err != nil {
			return "open failed: " + err.Error()
		}
		hits, bad := run(seg, s)
		seg.Close()
		if bad != "" {
			return "fresh segment: " + s.String() + ": " + bad
		}
		ref[i] = hitKey(hits)
	}
	orders := c.n(5, 40)
	for oi := 0; oi < orders; oi++ {
		seg, err := zh.Plugin.Open(path)
		if err != nil {
			return "open failed: " + err.Error()
		}
		perm := make([]int, len(searches))
		for i := range perm {
			perm[i] = i
		}
		if oi == 1 { // largest k first
			sort.Slice(perm, func(a, b int) bool { return searches[perm[a]].k > searches[perm[b]].k })
		} else if oi > 1 {
			for i := range perm {
				j := i + c.R.Intn(len(perm)-i)
				perm[i], perm[j] = perm[j], perm[i]
			}
		}
		var trail []string
		// every search without an exclusion bitmap goes through ONE handle kept open for the whole
		// history (a searcher keeps its handle across queries)
		ownBM := roaring.New()
		var shared segment.VectorIndex
		if oi%2 == 0 {
			shared, err = seg.(segment.VectorSegment).InterpretVectorIndex("vec", true, nil)
			if err != nil {
				seg.Close()
				return "InterpretVectorIndex error: " + err.Error()
			}
		}
		runOne := func(i int) ([]vhit, string) {
			s := searches[i]
			if shared != nil && s.except == nil {
				return searchHandle(shared, s.q, s.k, s.eligible, s.filtered)
			}
			if oi%3 != 1 {
				// this history's caller owns one exclusion bitmap and rewrites it before every open
				callerBitmap = ownBM
				defer func() { callerBitmap = nil }()
			}
			return run(seg, s)
		}
		for _, i := range perm {
			if oi > 2 && c.R.Chance(4) {
				zap.VerifVectorCacheTick(&seg.(*zap.Segment).SegmentBase)
				trail = append(trail, "expiry-pass")
			}
			hits, bad := runOne(i)
			trail = append(trail, fmt.Sprintf("#%d(%s)", i, searches[i]))
			if bad == "" && hitKey(hits) != ref[i] {
				bad = fmt.Sprintf("the search returns %d pairs that differ from the %s the same search returns on a freshly opened copy of the file", len(hits), "answer")
			}
			if bad != "" {
				if shared != nil {
					shared.Close()
				}
				seg.Close()
				return fmt.Sprintf("segment with %d vectors (clustered index), searches in this order on one opened segment (those without an exclusion bitmap through one handle kept open: %v):\n  %s\nlast one: %s", nd, shared != nil, fmt.Sprint(trail), bad)
			}
			c.Count("clustered_history_searches")
		}
		if shared != nil {
			shared.Close()
		}
		seg.Close()
		c.Case(fmt.Sprintf("clustered-order-%d", oi), true)
	}
	if live := waitLive(0); live != 0 {
		return fmt.Sprintf("%d native indexes remain after the clustered histories", live)
	}
	return ""
}

// C16: the very first opens of a field arrive at the same instant from several goroutines.
func simultaneousFirstOpens(c *ctx) string {
	o := genVecOpts(c)
	o.nVecFs = 1
	dims := o.dims["vec"]
	var b zh.Batch
	for d := 0; d < 40; d++ {
		doc := zh.Doc{Fields: []zh.Field{zh.IDField(fmt.Sprintf("F%04d", d))}}
		doc.Fields = append(doc.Fields, zh.Field{Name: "vec", Typ: 'v', Vec: &zh.VecDef{Dims: dims, Sim: o.sim["vec"], Opt: o.opt["vec"], Data: randVec(c, dims)}})
		b = append(b, doc)
	}
	sb, _, err := zh.Build(b, 1026)
	if err != nil {
		return "build failed: " + err.Error()
	}
	path := zh.TmpPath("c16f")
	if err := zap.PersistSegmentBase(sb, path); err != nil {
		return "persist failed: " + err.Error()
	}
	sb.Close()
	defer os.Remove(path)
	waitLive(0)
	rounds := c.n(250, 4000)
	g := 8
	if runtime.GOMAXPROCS(0) < g {
		g = runtime.GOMAXPROCS(0)
	}
	if g < 2 {
		g = 2
	}
	for r := 0; r < rounds; r++ {
		baseLive, baseDbl, baseUac := engineCounters()
		s, err := zh.Plugin.Open(path)
		if err != nil {
			return "open failed: " + err.Error()
		}
		seg := s.(*zap.Segment)
		var ready, gate int32
		var wg sync.WaitGroup
		errs := make(chan string, g)
		q := randVec(c, dims)
		// the filter-capable callers search with a partial eligible set; the answer is the one a
		// freshly opened copy gives to the same search made alone
		var eligible []uint64
		for d := uint64(0); d < 40; d++ {
			if (d+uint64(r))%3 != 0 {
				eligible = append(eligible, d)
			}
		}
		wantKey := ""
		{
			fs, err := zh.Plugin.Open(path)
			if err != nil {
				seg.Close()
				return "open failed: " + err.Error()
			}
			want, bad := runSearch(fs.(segment.VectorSegment), "vec", q, 5, nil, true, eligible, true)
			fs.Close()
			if bad != "" {
				seg.Close()
				return "reference search: " + bad
			}
			wantKey = hitKey(want)
			waitLive(baseLive)
		}
		for j := 0; j < g; j++ {
			wg.Add(1)
			go func(j int) {
				defer wg.Done()
				defer func() {
					if p := recover(); p != nil {
						errs <- fmt.Sprintf("PANIC: %v", p)
					}
				}()
				atomic.AddInt32(&ready, 1)
				for atomic.LoadInt32(&gate) == 0 {
				}
				vi, err := segment.VectorSegment(seg).InterpretVectorIndex("vec", j%2 == 0, nil)
				if err != nil {
					errs <- err.Error()
					return
				}
				if j%2 == 0 {
					got, bad := searchHandle(vi, q, 5, eligible, true)
					if bad == "" && hitKey(got) != wantKey {
						bad = fmt.Sprintf("a filtered search (27 of 40 documents eligible, k=5) made by one of the simultaneous first users returns %v, the same search made alone on a freshly opened copy returns %s", got, wantKey)
					}
					if bad != "" {
						errs <- bad
					}
				} else if _, bad := searchHandle(vi, q, 3, nil, false); bad != "" {
					errs <- bad
				}
				vi.Close()
			}(j)
		}
		for atomic.LoadInt32(&ready) != int32(g) {
			runtime.Gosched()
		}
		atomic.StoreInt32(&gate, 1)
		wg.Wait()
		close(errs)
		for e := range errs {
			seg.Close()
			return fmt.Sprintf("round %d: %s", r, e)
		}
		seg.Close()
		live := waitLive(baseLive)
		_, dbl, uac := engineCounters()
		c.Count("simultaneous_first_open_rounds")
		if live != baseLive || dbl != baseDbl || uac != baseUac {
			return fmt.Sprintf("round %d: %d goroutines open the field's index for the first time at the same instant, search, close their handles; the segment is then closed: %d native indexes remain live, %d double closes, %d uses after close",
				r, g, live-baseLive, dbl-baseDbl, uac-baseUac)
		}
	}
	c.Case("simultaneous-first-opens", true)
	return ""
}

// C16: several vector fields of one segment cached at once and expiring in the same pass.
func twoFieldsExpireTogether(c *ctx) string {
	o := genVecOpts(c)
	o.nVecFs = 2
	var b zh.Batch
	for d := 0; d < 12; d++ {
		doc := zh.Doc{Fields: []zh.Field{zh.IDField(fmt.Sprintf("T%04d", d))}}
		for _, f := range vecFieldNames[:2] {
			doc.Fields = append(doc.Fields, zh.Field{Name: f, Typ: 'v', Vec: &zh.VecDef{Dims: o.dims[f], Sim: o.sim[f], Opt: o.opt[f], Data: randVec(c, o.dims[f])}})
		}
		b = append(b, doc)
	}
	sb, _, err := zh.Build(b, 1026)
	if err != nil {
		return "build failed: " + err.Error()
	}
	path := zh.TmpPath("c16t")
	if err := zap.PersistSegmentBase(sb, path); err != nil {
		return "persist failed: " + err.Error()
	}
	sb.Close()
	defer os.Remove(path)
	rounds := c.n(12, 200)
	for r := 0; r < rounds; r++ {
		waitLive(0)
		baseLive, baseDbl, baseUac := engineCounters()
		s, err := zh.Plugin.Open(path)
		if err != nil {
			return "open failed: " + err.Error()
		}
		seg := s.(*zap.Segment)
		for _, f := range vecFieldNames[:2] {
			if _, bad := runSearch(seg, f, randVec(c, o.dims[f]), 3, nil, true, nil, false); bad != "" {
				seg.Close()
				return bad
			}
		}
		if live := waitLive(baseLive + 2); live != baseLive+2 {
			seg.Close()
			return fmt.Sprintf("after searching both vector fields %d native indexes are live, want 2 (one per cached field)", live-baseLive)
		}
		// both entries are idle and unreferenced: expiry passes until they are gone
		for k := 0; k < 200 && zap.VerifVectorCacheLen(&seg.SegmentBase) > 0; k++ {
			zap.VerifVectorCacheTick(&seg.SegmentBase)
		}
		cached := zap.VerifVectorCacheLen(&seg.SegmentBase)
		live := waitLive(baseLive + cached)
		_, dbl, uac := engineCounters()
		c.Count("two_field_expiry_rounds")
		if live != baseLive+cached || dbl != baseDbl || uac != baseUac {
			seg.Close()
			return fmt.Sprintf("two vector fields were cached and searched, their handles closed, expiry passes run until the cache holds %d entries: %d native indexes are live (want %d), %d double closes, %d uses after close", cached, live-baseLive, cached, dbl-baseDbl, uac-baseUac)
		}
		seg.Close()
		if live := waitLive(baseLive); live != baseLive {
			return fmt.Sprintf("%d native indexes remain after the segment was closed", live-baseLive)
		}
	}
	c.Case("two-fields-expire-together", true)
	return ""
}

// C16: one caller-owned exclusion bitmap rewritten in place between the opens of a segment (sets of
// equal and of different size); every search is compared with the same search on a freshly opened
// copy that is given a fresh bitmap.
func inPlaceBitmapHistory(c *ctx) string {
	const nd, dims = 30, 3
	var b zh.Batch
	for d := 0; d < nd; d++ {
		b = append(b, zh.Doc{Fields: []zh.Field{zh.IDField(fmt.Sprintf("B%04d", d)),
			{Name: "vec", Typ: 'v', Vec: &zh.VecDef{Dims: dims, Sim: "l2_norm", Opt: "recall", Data: randVec(c, dims)}}}})
	}
	sb, _, err := zh.Build(b, 1026)
	if err != nil {
		return "build failed: " + err.Error()
	}
	path := zh.TmpPath("c16b")
	if err := zap.PersistSegmentBase(sb, path); err != nil {
		return "persist failed: " + err.Error()
	}
	sb.Close()
	defer os.Remove(path)
	steps := [][]uint64{{1, 4}, {0, 4}, {0, 5}, {2, 5}, {2, 5, 7}, {3, 5, 7}, {3, 6, 7}, {9}, {8}, {1, 4}}
	for round := 0; round < c.n(3, 40); round++ {
		s, err := zh.Plugin.Open(path)
		if err != nil {
			return "open failed: " + err.Error()
		}
		own := roaring.New()
		var trail []string
		for si, ex := range steps {
			if round > 0 {
				ex = nil
				for len(ex) < 2+si%2 {
					ex = append(ex, uint64(c.R.Intn(nd)))
				}
			}
			for _, k := range []int64{1, 3, nd} {
				q := randVec(c, dims)
				filtered := c.R.Chance(3)
				var eligible []uint64
				if filtered {
					isEx := map[uint64]bool{}
					for _, d := range ex {
						isEx[d] = true
					}
					for d := uint64(0); d < nd; d++ {
						if !isEx[d] {
							eligible = append(eligible, d)
						}
					}
				}
				fresh, err := zh.Plugin.Open(path)
				if err != nil {
					s.Close()
					return "open failed: " + err.Error()
				}
				want, bad := runSearch(fresh.(segment.VectorSegment), "vec", q, k, ex, false, eligible, filtered)
				fresh.Close()
				if bad != "" {
					s.Close()
					return "reference search on a freshly opened copy: " + bad
				}
				callerBitmap = own
				got, bad := runSearch(s.(segment.VectorSegment), "vec", q, k, ex, false, eligible, filtered)
				callerBitmap = nil
				trail = append(trail, fmt.Sprintf("except=%v k=%d filtered=%v", ex, k, filtered))
				if bad == "" && hitKey(got) != hitKey(want) {
					bad = fmt.Sprintf("got (doc, score bits) %v, the freshly opened copy answers %v", got, want)
				}
				if bad != "" {
					s.Close()
					return fmt.Sprintf("a caller that owns ONE exclusion bitmap and rewrites it in place before each open; segment of %d vectors; history %v\nlast search: %s", nd, trail, bad)
				}
				c.Count("searches_with_a_bitmap_rewritten_in_place")
			}
		}
		s.Close()
	}
	return ""
}

// C16: a handle stays open over several idle expiry passes, then the field is opened once or twice
// more, another pass runs: the cached index must stay alive as long as a handle is open, searches
// through the old handle must work, and after everything is closed the index is released once.
func pinnedAcrossIdlePasses(c *ctx) string {
	const nd, dims = 20, 3
	var b zh.Batch
	for d := 0; d < nd; d++ {
		b = append(b, zh.Doc{Fields: []zh.Field{zh.IDField(fmt.Sprintf("P%04d", d)),
			{Name: "vec", Typ: 'v', Vec: &zh.VecDef{Dims: dims, Sim: "l2_norm", Opt: "recall", Data: randVec(c, dims)}}}})
	}
	sb, _, err := zh.Build(b, 1026)
	if err != nil {
		return "build failed: " + err.Error()
	}
	path := zh.TmpPath("c16p")
	if err := zap.PersistSegmentBase(sb, path); err != nil {
		return "persist failed: " + err.Error()
	}
	sb.Close()
	defer os.Remove(path)
	for idle := 0; idle <= 8; idle++ {
		for extra := 1; extra <= 2; extra++ {
			for _, closeFirst := range []bool{false, true} {
				waitLive(0)
				baseLive, baseDbl, baseUac := engineCounters()
				s, err := zh.Plugin.Open(path)
				if err != nil {
					return "open failed: " + err.Error()
				}
				seg := s.(*zap.Segment)
				what := fmt.Sprintf("handle H1 opened and searched; %d expiry passes without any use; %d more open(s) of the field (each searched and closed); one more expiry pass", idle, extra)
				h1, err := seg.InterpretVectorIndex("vec", false, nil)
				if err != nil {
					seg.Close()
					return "InterpretVectorIndex error: " + err.Error()
				}
				q := randVec(c, dims)
				want, bad := searchHandle(h1, q, nd, nil, false)
				for i := 0; i < idle && bad == ""; i++ {
					zap.VerifVectorCacheTick(&seg.SegmentBase)
				}
				for e := 0; e < extra && bad == ""; e++ {
					_, bad = runSearch(seg, "vec", randVec(c, dims), 3, nil, true, nil, false)
				}
				if bad == "" {
					zap.VerifVectorCacheTick(&seg.SegmentBase)
					if live, _, _ := engineCounters(); live < baseLive+1 {
						bad = "the native index has been released although handle H1 is still open"
					}
				}
				if bad == "" {
					var got []vhit
					got, bad = searchHandle(h1, q, nd, nil, false)
					if bad == "" && hitKey(got) != hitKey(want) {
						bad = "the same search through H1 answers differently than before"
					}
				}
				if bad == "" && closeFirst {
					h1.Close()
					h1 = nil
					_, bad = runSearch(seg, "vec", q, 3, nil, true, nil, false)
				}
				if h1 != nil {
					h1.Close()
				}
				seg.Close()
				live := waitLive(baseLive)
				_, dbl, uac := engineCounters()
				c.Count("pinned_handle_histories")
				if bad == "" && (live != baseLive || dbl != baseDbl || uac != baseUac) {
					bad = fmt.Sprintf("after closing every handle and the segment: %d native indexes live (want 0), %d double closes, %d uses after close", live-baseLive, dbl-baseDbl, uac-baseUac)
				}
				if bad != "" {
					return what + "\n" + bad
				}
			}
		}
	}
	return ""
}

// C16: expiry passes running back to back on one goroutine while another opens, searches and closes
// a handle in a loop (the entry is evicted and re-created thousands of times; an open may fall
// between a pass's decision and its eviction).  Every search must give the answer of a fresh copy;
// no index may be used after its release, released twice, or left over.
func expiryRace(c *ctx) string {
	const nd, dims = 24, 3
	var b zh.Batch
	for d := 0; d < nd; d++ {
		b = append(b, zh.Doc{Fields: []zh.Field{zh.IDField(fmt.Sprintf("E%04d", d)),
			{Name: "vec", Typ: 'v', Vec: &zh.VecDef{Dims: dims, Sim: "l2_norm", Opt: "recall", Data: randVec(c, dims)}}}})
	}
	sb, _, err := zh.Build(b, 1026)
	if err != nil {
		return "build failed: " + err.Error()
	}
	path := zh.TmpPath("c16e")
	if err := zap.PersistSegmentBase(sb, path); err != nil {
		return "persist failed: " + err.Error()
	}
	sb.Close()
	defer os.Remove(path)
	q := randVec(c, dims)
	fs, err := zh.Plugin.Open(path)
	if err != nil {
		return "open failed: " + err.Error()
	}
	want, bad := runSearch(fs.(segment.VectorSegment), "vec", q, 5, nil, true, nil, false)
	fs.Close()
	if bad != "" {
		return "reference search: " + bad
	}
	waitLive(0)
	baseLive, baseDbl, baseUac := engineCounters()
	s, err := zh.Plugin.Open(path)
	if err != nil {
		return "open failed: " + err.Error()
	}
	seg := s.(*zap.Segment)
	stop := make(chan struct{})
	var wg sync.WaitGroup
	wg.Add(1)
	go func() {
		defer wg.Done()
		defer func() { recover() }()
		for {
			select {
			case <-stop:
				return
			default:
				zap.VerifVectorCacheTick(&seg.SegmentBase)
			}
		}
	}()
	iters := c.n(4000, 60000)
	for i := 0; i < iters && bad == ""; i++ {
		var got []vhit
		got, bad = runSearch(seg, "vec", q, 5, nil, true, nil, false)
		if bad == "" && hitKey(got) != hitKey(want) {
			bad = fmt.Sprintf("search %d returns %v, a freshly opened copy returns %v", i, got, want)
		}
		if _, dbl, uac := engineCounters(); bad == "" && (dbl != baseDbl || uac != baseUac) {
			bad = fmt.Sprintf("after search %d: %d double closes, %d uses of a released index", i, dbl-baseDbl, uac-baseUac)
		}
	}
	close(stop)
	wg.Wait()
	seg.Close()
	live := waitLive(baseLive)
	_, dbl, uac := engineCounters()
	c.CountN("searches_racing_with_expiry_passes", iters)
	if bad == "" && (live != baseLive || dbl != baseDbl || uac != baseUac) {
		bad = fmt.Sprintf("after closing the segment: %d native indexes live, %d double closes, %d uses after release", live-baseLive, dbl-baseDbl, uac-baseUac)
	}
	if bad != "" {
		return "expiry passes running back to back on one goroutine while another opens the field, searches and closes the handle in a loop\n" + bad
	}
	return ""
}
