package main

import (
	"fmt"
	"sort"

	zap "github.com/blevesearch/zapx/v16"

	"zverif/sx"
	"zverif/zh"
)

// enumeratorCorrespondence: the merge enumerator of /repo (verif hook VerifEnumerate, real vellum
// FSTs and iterators) against the extracted Enum.enumerate on the same sorted lists.
func enumeratorCorrespondence(c *ctx, rounds int) string {
	alphabet := []string{"", "a", "ab", "abc", "b", "ba", "c", "\xff", "a\x00", "日"}
	for r := 0; r < rounds; r++ {
		k := 1 + c.R.Intn(5)
		var lists [][]zap.VerifKV
		var wire []sx.V
		zero := c.R.Chance(10) // the ("", 0) corner: taken for an exhausted iterator by the Go code
		for j := 0; j < k; j++ {
			var keys []string
			for _, a := range alphabet {
				if c.R.Intn(3) == 0 {
					keys = append(keys, a)
				}
			}
			sort.Strings(keys)
			if len(keys) == 0 {
				continue // an empty dictionary yields no iterator (merge code: itr == nil)
			}
			var l []zap.VerifKV
			var wl []sx.V
			for _, key := range keys {
				v := uint64(1 + c.R.Intn(1000))
				if c.R.Chance(4) {
					v = 1<<63 | uint64(c.R.Intn(1<<20))<<31 | uint64(c.R.Intn(1000)) // a single-hit code
				}
				if zero && key == "" {
					v = 0
				}
				l = append(l, zap.VerifKV{K: []byte(key), V: v})
				wl = append(wl, sx.L(sx.B([]byte(key)), sx.N(v)))
			}
			lists = append(lists, l)
			wire = append(wire, sx.List(wl))
		}
		got, err := zap.VerifEnumerate(lists)
		if err != nil {
			return fmt.Sprintf("enumerator over %v: error %v", lists, err)
		}
		var gs []sx.V
		for _, t := range got {
			gs = append(gs, sx.L(sx.B(t.K), sx.N(uint64(t.I)), sx.N(t.V)))
		}
		want := ask(c, sx.L(sx.N(zh.ReqEnum), sx.List(wire)))
		if _, isErr := sx.IsErr(want); isErr {
			mustH(fmt.Errorf("model rejected the enumerator request"))
		}
		c.Count("enumerator_runs")
		if zero {
			c.Count("enumerator_runs_with_zero_valued_empty_key")
		}
		if !sx.Equal(sx.List(gs), want) {
			return fmt.Sprintf("the merge enumerator over %d sorted iterators yields a different (key, iterator, value) sequence than Enum.enumerate\n  input:    %s\n  observed: %s\n  expected: %s",
				len(lists), sx.List(wire).Pretty(), sx.List(gs).Pretty(), want.Pretty())
		}
	}
	return ""
}
