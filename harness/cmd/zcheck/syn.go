package main

import (
	"fmt"
	"os"
	"sort"
	"strings"

	"github.com/RoaringBitmap/roaring/v2"
	segment "github.com/blevesearch/scorch_segment_api/v2"

	"zverif/sx"
	"zverif/zh"
)

func init() { register("C12", checkC12); register("C13", checkC13) }

// thesWithExcept derives from a content the expected listing of a thesaurus under an exclusion set:
// every left-hand term stays listed, pairs of excluded documents disappear.
func thesWithExcept(spec sx.V, name string, except map[uint64]bool) sx.V {
	for _, t := range spec.L[pThes].L {
		if string(t.L[0].B) != name {
			continue
		}
		var terms []sx.V
		for _, te := range t.L[1].L {
			var ps []sx.V
			for _, p := range te.L[1].L {
				if !except[p.L[1].N] {
					ps = append(ps, p)
				}
			}
			terms = append(terms, sx.L(te.L[0], sx.List(ps)))
		}
		return sx.L(sx.S(name), sx.List(terms))
	}
	return sx.L(sx.S(name), sx.L())
}

func thesSx(t zh.Thes) sx.V {
	c := zh.Content{Thes: []zh.Thes{t}}
	return c.ThesSx().L[0]
}

// thesaurusQueries checks every thesaurus of a segment under all exclusion bitmaps over its defining
// documents (up to 5 of them), plus unknown names and terms.
func thesaurusQueries(c *ctx, seg segment.Segment, spec sx.V) (bad string) {
	defer func() {
		if r := recover(); r != nil {
			bad = fmt.Sprintf("PANIC in thesaurus API: %v", r)
		}
	}()
	ts, ok := seg.(segment.ThesaurusSegment)
	if !ok {
		return "segment does not implement ThesaurusSegment"
	}
	// every thesaurus is opened before any is queried (the reader keeps per-thesaurus state in one cache)
	for _, t := range spec.L[pThes].L {
		if _, err := ts.Thesaurus(string(t.L[0].B)); err != nil {
			return "Thesaurus(" + string(t.L[0].B) + ") error " + err.Error()
		}
	}
	for _, t := range spec.L[pThes].L {
		name := string(t.L[0].B)
		docs := map[uint64]bool{}
		for _, te := range t.L[1].L {
			for _, p := range te.L[1].L {
				docs[p.L[1].N] = true
			}
		}
		var dl []uint64
		for d := range docs {
			dl = append(dl, d)
		}
		// deterministic order
		for i := range dl {
			for j := i + 1; j < len(dl); j++ {
				if dl[j] < dl[i] {
					dl[i], dl[j] = dl[j], dl[i]
				}
			}
		}
		if len(dl) > 5 {
			dl = dl[:5]
		}
		for mask := 0; mask < 1<<len(dl); mask++ {
			ex := map[uint64]bool{}
			bm := roaring.New()
			for i, d := range dl {
				if mask&(1<<i) != 0 {
					ex[d] = true
					bm.Add(uint32(d))
				}
			}
			if mask%3 == 2 {
				// the caller's bitmap also names numbers that are no documents of this segment (a
				// bitmap shared by several segments): they exclude nothing here
				nd := uint32(spec.L[pNDocs].N)
				for k := uint32(0); k < nd+2; k++ {
					bm.Add(nd + 7 + 3*k)
				}
				bm.Add(1 << 20)
			}
			got, err := zh.DumpThesaurus(ts, name, bm)
			if err != nil {
				return fmt.Sprintf("thesaurus %q with exclusion %v: error %v", name, bm.ToArray(), err)
			}
			want := thesWithExcept(spec, name, ex)
			if !sx.Equal(thesSx(got), want) {
				return fmt.Sprintf("thesaurus %q with exclusion %v: %s\n  observed: %s\n  expected: %s", name, bm.ToArray(),
					firstDiff(thesSx(got), want, name), clip(thesSx(got).Pretty()), clip(want.Pretty()))
			}
			c.Count("thesaurus_listings")
		}
		th, err := ts.Thesaurus(name)
		if err != nil {
			return err.Error()
		}
		// ranged listings [start, end) with start < end taken from the thesaurus' own terms (the
		// first, the greatest, neighbours) or just beside them; end may be absent
		if nt := len(t.L[1].L); nt > 0 {
			var all []string
			for _, te := range t.L[1].L {
				all = append(all, string(te.L[0].B))
			}
			for q := 0; q < 4; q++ {
				si := c.R.Intn(nt)
				if q == 0 {
					si = nt - 1 // the greatest term
				}
				start := all[si]
				if c.R.Chance(4) {
					start += "\x00" // just above an existing term
				}
				var end []byte
				endD := "absent"
				if si+1 < nt && c.R.Bool() {
					e := all[si+1+c.R.Intn(nt-si-1)]
					if e > start {
						end, endD = []byte(e), fmt.Sprintf("%q", e)
					}
				}
				var want []string
				for _, k := range all {
					if k >= start && (end == nil || k < string(end)) {
						want = append(want, k)
					}
				}
				var got []string
				it := th.AutomatonIterator(nil, []byte(start), end)
				for {
					e, err := it.Next()
					if err != nil {
						return fmt.Sprintf("thesaurus %q: listing the range [%q, %s): error %v", name, start, endD, err)
					}
					if e == nil {
						break
					}
					got = append(got, e.Term)
				}
				if fmt.Sprint(got) != fmt.Sprint(want) {
					return fmt.Sprintf("thesaurus %q with terms %q: listing the range [%q, %s) yields %q, want %q", name, all, start, endD, got, want)
				}
				c.Count("thesaurus_range_listings")
			}
		}
		// two listings of the same Thesaurus object read alternately, a third one opened in between
		if nt := len(t.L[1].L); nt >= 2 {
			var all []string
			for _, te := range t.L[1].L {
				all = append(all, string(te.L[0].B))
			}
			i1, i2 := th.AutomatonIterator(nil, nil, nil), th.AutomatonIterator(nil, nil, nil)
			for k := 0; k <= nt; k++ {
				if k == 1 {
					th.AutomatonIterator(nil, []byte(all[nt-1]), nil).Next()
				}
				e1, err1 := i1.Next()
				e2, err2 := i2.Next()
				if err1 != nil || err2 != nil {
					return fmt.Sprintf("thesaurus %q: two listings read alternately: errors %v / %v", name, err1, err2)
				}
				if k == nt {
					if e1 != nil || e2 != nil {
						return fmt.Sprintf("thesaurus %q: two listings read alternately yield entries beyond the %d terms", name, nt)
					}
					break
				}
				if e1 == nil || e2 == nil || e1.Term != all[k] || e2.Term != all[k] {
					return fmt.Sprintf("thesaurus %q with terms %q: two listings of one Thesaurus object read alternately (a third, ranged one opened after the first step): step %d yields %v and %v, want %q twice", name, all, k, e1, e2, all[k])
				}
			}
			c.Count("interleaved_thesaurus_listings")
		}
		// unknown term
		sl, err := th.SynonymsList([]byte("\x01no-such-term"), nil, nil)
		if err != nil {
			return "SynonymsList(unknown term) error " + err.Error()
		}
		if s, err := sl.Iterator(nil).Next(); err != nil || s != nil {
			return fmt.Sprintf("unknown term of thesaurus %q yields a synonym (%v, %v)", name, s, err)
		}
		// a caller that recycles the list and iterator of its previous lookup (prealloc arguments):
		// defined terms, an unknown term and an unknown thesaurus in random order
		var preL segment.SynonymsList
		var preI segment.SynonymsIterator
		var trail []string
		var keybuf []byte
		for q := 0; q < 14; q++ {
			tgt, term := th, []string{"\x01no-such-term", "\x01bc", "\x01bcd", "\x01bcde", "\x01"}[c.R.Intn(5)]
			var want []zh.SynPair
			switch k := c.R.Intn(4); {
			case k == 0:
				trail = append(trail, "unknown term")
			case k == 1:
				other, err := ts.Thesaurus("no-such-thesaurus")
				if err != nil {
					return "Thesaurus(unknown name) error " + err.Error()
				}
				tgt, term = other, "happy"
				trail = append(trail, "unknown thesaurus")
			default:
				if len(t.L[1].L) == 0 {
					continue
				}
				te := t.L[1].L[c.R.Intn(len(t.L[1].L))]
				term = string(te.L[0].B)
				for _, p := range te.L[1].L {
					want = append(want, zh.SynPair{Syn: string(p.L[0].B), Doc: p.L[1].N})
				}
				trail = append(trail, fmt.Sprintf("%q", term))
			}
			// the caller keeps one key buffer and overwrites it in place for every lookup
			if len(keybuf) != len(term) {
				keybuf = make([]byte, len(term))
			}
			copy(keybuf, term)
			l, err := tgt.SynonymsList(keybuf, nil, preL)
			if err != nil {
				return fmt.Sprintf("thesaurus %q, lookups %v each recycling the previous list: error %v", name, trail, err)
			}
			preL = l
			it := l.Iterator(preI)
			preI = it
			if c.R.Chance(3) {
				// the caller looks at the first pair only and moves on to its next lookup
				sy, err := it.Next()
				if err != nil {
					return fmt.Sprintf("thesaurus %q, lookups %v each recycling the previous list: error %v", name, trail, err)
				}
				ok := sy == nil && len(want) == 0
				for _, w := range want {
					if sy != nil && w.Syn == sy.Term() && w.Doc == uint64(sy.Number()) {
						ok = true
					}
				}
				if !ok {
					return fmt.Sprintf("thesaurus %q, lookups %v each recycling the previous lookup's list and iterator: the first pair of the last one is %v, want one of %v", name, trail, sy, want)
				}
				trail[len(trail)-1] += " (abandoned after the first pair)"
				c.Count("recycled_lookups_abandoned_early")
				continue
			}
			var got []zh.SynPair
			for {
				sy, err := it.Next()
				if err != nil {
					return fmt.Sprintf("thesaurus %q, lookups %v each recycling the previous list: error %v", name, trail, err)
				}
				if sy == nil {
					break
				}
				got = append(got, zh.SynPair{Syn: sy.Term(), Doc: uint64(sy.Number())})
			}
			canon := func(ps []zh.SynPair) string {
				sort.Slice(ps, func(a, b int) bool {
					if ps[a].Syn != ps[b].Syn {
						return ps[a].Syn < ps[b].Syn
					}
					return ps[a].Doc < ps[b].Doc
				})
				return fmt.Sprint(ps)
			}
			if canon(got) != canon(want) {
				return fmt.Sprintf("thesaurus %q, lookups %v each recycling the previous lookup's list and iterator: the last one yields (synonym doc) pairs %v, want %v", name, trail, got, want)
			}
			c.Count("recycled_lookups")
		}
	}
	// names of ordinary fields (and of _id) that define no thesaurus yield empty results too
	isThes := map[string]bool{}
	for _, t := range spec.L[pThes].L {
		isThes[string(t.L[0].B)] = true
	}
	for _, f := range spec.L[pFields].L {
		if name := string(f.B); !isThes[name] {
			got, err := zh.DumpThesaurus(ts, name, nil)
			if err != nil || len(got.Terms) != 0 {
				return fmt.Sprintf("field %q defines no thesaurus but Thesaurus(%q) lists %d terms (err %v)", name, name, len(got.Terms), err)
			}
		}
	}
	got, err := zh.DumpThesaurus(ts, "no-such-thesaurus", nil)
	if err != nil || len(got.Terms) != 0 {
		return fmt.Sprintf("unknown thesaurus lists %d terms (err %v)", len(got.Terms), err)
	}
	return ""
}

func checkC12(c *ctx) {
	c.Rule = "batches mixing ordinary documents with synonym documents (1-3 thesauri interleaved in the batch, shared and distinct synonyms, the same term defined by several documents); observed: each thesaurus' term list, and (synonym, document) pairs under ALL exclusion bitmaps over up to 5 defining documents, unknown thesaurus / term, ranged listings [start, end) from the greatest / any term, lookup histories in which the caller recycles the previous list and iterator (prealloc) and abandons some iterations after the first pair, lists carried from one same-shaped segment to the next, ordinary dictionaries; in memory and after persist+open; files decoded by the extracted parser; expected = extracted spec_of_batch; non-trivial = >= 2 synonym documents"
	c.Assumptions = append(c.Assumptions, "input domain W6 (>= 1 synonym per definition, non-empty strings); thesauri may be named like ordinary fields")
	if bad := crossSegmentRecycling(c, c.n(20, 300)); bad != "" {
		c.Violation("C12 "+bad, false)
		return
	}
	n := c.n(160, 4000)
	parts := []int{pThes, pDicts, pFields}
	for i := 0; i < n; i++ {
		o := zh.RandOpts(c.R, c.R.Intn(6), "d")
		b := zh.AddSynDocs(c.R, zh.GenBatch(c.R, o), "d")
		if c.R.Chance(2) {
			b = zh.AddSynDocs(c.R, b, "e")
		}
		mode := randMode(c)
		sb, obs, spec, err := buildObs(c, b, mode)
		nsyn := 0
		for _, d := range b {
			for _, f := range d.Fields {
				if len(f.Syn) > 0 {
					nsyn++
					break
				}
			}
		}
		c.Case(b.Sx().String(), nsyn >= 2)
		c.CountN("synonym_docs", nsyn)
		c.CountN("docs", len(b))
		if i == 1 {
			c.Sample(map[string]interface{}{"mode": mode, "batch": clip(b.Sx().Pretty())})
		}
		if err != nil || len(partsDiffer(obs, spec, parts)) > 0 {
			reportBuild(c, "C12 built segment vs spec_of_batch (thesauri, dictionaries)", b, mode, parts)
			return
		}
		fails := func(nb zh.Batch) string {
			s2, _, sp2, e := buildObs(c, nb, mode)
			if e != nil {
				return "build failed: " + e.Error()
			}
			if bad := thesaurusQueries(c, s2, sp2); bad != "" {
				return "in-memory segment: " + bad
			}
			seg, _, e := zh.PersistOpen(s2)
			if e != nil {
				return "persist/open failed: " + e.Error()
			}
			defer seg.Close()
			if bad := thesaurusQueries(c, seg, sp2); bad != "" {
				return "persisted and re-opened segment: " + bad
			}
			return ""
		}
		_ = sb
		if bad := fails(b); bad != "" {
			small := zh.ShrinkBatch(b, func(nb zh.Batch) bool { return fails(nb) != "" })
			c.Violation(fmt.Sprintf("C12 thesaurus lookups\n%s\nchunkMode=%d\nbatch (shrunk): %s\nreadable: %s", fails(small), mode, small.Sx().String(), clip(small.Sx().Pretty())), false)
			return
		}
		if bad := parseAgainst(c, sb, spec, parts); bad != "" {
			reportBuild(c, "C12/C09 parsed bytes differ from the spec: "+bad, b, mode, parts)
			return
		}
	}
}

func checkC13(c *ctx) {
	c.Rule = "the merge-chain generator (depth <= 3; built / opened / merged inputs; nil / empty / random / full deletion bitmaps) over segments with synonym documents: thesauri present in only some inputs, the same synonym word in several thesauri and segments (different internal ids), terms losing all their definitions; observed: complete thesaurus listing of the re-opened output (+ all exclusion bitmaps) and the extracted parser's reading of the file; expected = extracted spec_merge; plus the merge enumerator (verif hook VerifEnumerate) against the extracted Enum.enumerate; non-trivial = >= 2 inputs and >= 2 survivors"
	parts := []int{pThes}
	if bad := enumeratorCorrespondence(c, c.n(300, 10000)); bad != "" {
		c.Violation("C13 "+bad, false)
		return
	}
	if bad := wideThesaurusMerge(c); bad != "" {
		c.Violation("C13 "+bad, false)
		return
	}
	if bad := idOrderDeletions(c); bad != "" {
		c.Violation("C13 "+bad, false)
		return
	}
	if bad := sameShapedThesMerges(c, c.n(24, 400)); bad != "" {
		c.Violation("C13 "+bad, false)
		return
	}
	mergeRounds(c, c.n(100, 3000), true, parts, false, "C13", func(mc *mergeCase, r *mergeResult, spec sx.V) string {
		return thesaurusQueries(c, r.seg, spec)
	})
}

// sameShapedThesMerges: the inputs of a merge have the same shape (as many documents, ids and words of
// the same lengths, the same terms defined) and differ only in the synonyms; mostly without deletions.
// (Segments written one after the other by the same indexing loop look like this.)
func sameShapedThesMerges(c *ctx, rounds int) string {
	words := []string{"glad", "huge", "vast", "tiny", "bold", "calm", "warm", "keen"}
	terms := []string{"big", "cat", "dog"}
	for i := 0; i < rounds; i++ {
		nseg, nd, nt := 2+c.R.Intn(2), 1+c.R.Intn(3), 1+c.R.Intn(3)
		mc := &mergeCase{mode: 1026}
		for si := 0; si < nseg; si++ {
			var b zh.Batch
			for d := 0; d < nd; d++ {
				f := zh.Field{Name: "syn1", Typ: 's'}
				for _, t := range terms[:nt] {
					w := c.R.Intn(len(words))
					f.Syn = append(f.Syn, zh.SynDef{Term: t, Syns: []string{words[w], words[(w+1+c.R.Intn(len(words)-1))%len(words)]}})
				}
				b = append(b, zh.Doc{Fields: []zh.Field{zh.IDField(fmt.Sprintf("%c%02d", 'a'+si, d)), f}})
			}
			e, err := newBuilt(c, b, 1026, c.R.Bool())
			must(err)
			mc.ins = append(mc.ins, e)
			if c.R.Chance(4) {
				d, isNil := genDrops(c, e.n)
				mc.drops, mc.nilBM = append(mc.drops, d), append(mc.nilBM, isNil)
			} else {
				mc.drops, mc.nilBM = append(mc.drops, nil), append(mc.nilBM, true)
			}
		}
		c.Case(fmt.Sprintf("same-shaped-%d-%d-%d", nseg, nd, nt), true)
		c.Count("merges_of_same_shaped_thesaurus_segments")
		bad, r, spec := mergeVerdict(c, mc, []int{pThes}, false)
		if bad == "" && r.seg != nil {
			bad = thesaurusQueries(c, r.seg, spec)
		}
		if r != nil && r.seg != nil {
			r.seg.Close()
		}
		for _, e := range mc.ins {
			e.close()
		}
		if bad != "" {
			return fmt.Sprintf("merge of %d segments of the same shape (%d synonym documents each, the same %d terms defined in every document, synonyms of equal length)\n%s\n%s", nseg, nd, nt, clip(bad), clip(mc.describe()))
		}
	}
	return ""
}

// crossSegmentRecycling: a reader walks over several segments of the same shape and hands the list and
// iterator it got from one segment to the next one as prealloc arguments (what a multi-segment reader
// does); each lookup must yield the pairs of the segment it was addressed to.
func crossSegmentRecycling(c *ctx, rounds int) string {
	words := []string{"glad", "huge", "vast", "tiny", "bold", "calm", "warm", "keen"}
	terms := []string{"big", "cat", "dog"}
	for i := 0; i < rounds; i++ {
		nseg, nd, nt := 2+c.R.Intn(2), 1+c.R.Intn(3), 1+c.R.Intn(3)
		var segs []segment.Segment
		var specs []sx.V
		closeAll := func() {
			for _, s := range segs {
				s.Close()
			}
		}
		for si := 0; si < nseg; si++ {
			var b zh.Batch
			for d := 0; d < nd; d++ {
				f := zh.Field{Name: "syn1", Typ: 's'}
				for _, t := range terms[:nt] {
					w := c.R.Intn(len(words))
					f.Syn = append(f.Syn, zh.SynDef{Term: t, Syns: []string{words[w], words[(w+1+c.R.Intn(len(words)-1))%len(words)]}})
				}
				b = append(b, zh.Doc{Fields: []zh.Field{zh.IDField(fmt.Sprintf("%c%02d", 'a'+si, d)), f}})
			}
			sb, _, spec, err := buildObs(c, b, 1026)
			must(err)
			var seg segment.Segment = sb
			if c.R.Bool() {
				o, _, err := zh.PersistOpen(sb)
				must(err)
				seg = o
			}
			segs, specs = append(segs, seg), append(specs, spec)
		}
		var preL segment.SynonymsList
		var preI segment.SynonymsIterator
		var trail []string
		for q := 0; q < 10; q++ {
			si := q % nseg
			if c.R.Chance(4) {
				si = c.R.Intn(nseg)
			}
			term := terms[c.R.Intn(nt)]
			if q%nseg != 0 && c.R.Bool() && len(trail) > 0 {
				term = terms[(q/nseg)%nt] // the same term in one segment after the other
			}
			trail = append(trail, fmt.Sprintf("segment %d %q", si, term))
			var want []zh.SynPair
			for _, t := range specs[si].L[pThes].L {
				if string(t.L[0].B) != "syn1" {
					continue
				}
				for _, te := range t.L[1].L {
					if string(te.L[0].B) == term {
						for _, p := range te.L[1].L {
							want = append(want, zh.SynPair{Syn: string(p.L[0].B), Doc: p.L[1].N})
						}
					}
				}
			}
			th, err := segs[si].(segment.ThesaurusSegment).Thesaurus("syn1")
			if err != nil {
				closeAll()
				return "Thesaurus error: " + err.Error()
			}
			l, err := th.SynonymsList([]byte(term), nil, preL)
			if err != nil {
				closeAll()
				return fmt.Sprintf("lookups %v each recycling the previous list: error %v", trail, err)
			}
			preL = l
			it := l.Iterator(preI)
			preI = it
			var got []zh.SynPair
			for {
				sy, err := it.Next()
				if err != nil {
					closeAll()
					return fmt.Sprintf("lookups %v each recycling the previous list: error %v", trail, err)
				}
				if sy == nil {
					break
				}
				got = append(got, zh.SynPair{Syn: sy.Term(), Doc: uint64(sy.Number())})
			}
			canon := func(ps []zh.SynPair) string {
				sort.Slice(ps, func(a, b int) bool {
					if ps[a].Syn != ps[b].Syn {
						return ps[a].Syn < ps[b].Syn
					}
					return ps[a].Doc < ps[b].Doc
				})
				return fmt.Sprint(ps)
			}
			if canon(got) != canon(want) {
				closeAll()
				return fmt.Sprintf("%d segments of the same shape (%d synonym documents each defining the same %d terms, synonyms of equal length); lookups in thesaurus \"syn1\" %v, each recycling the previous lookup's list and iterator: the last one yields (synonym doc) pairs %v, want %v", nseg, nd, nt, trail, got, want)
			}
			c.Count("cross_segment_recycled_lookups")
		}
		closeAll()
	}
	return ""
}

// idOrderDeletions: within one thesaurus the synonyms get their internal ids in the order p, q, r
// (documents 0 and 1 define other terms with p and q); document 2 defines tango with p and r - the
// lowest and the highest id of tango's list - and document 3 defines tango with q; each single
// document is deleted in turn (and pairs of them): the pairs of the surviving documents must remain.
func idOrderDeletions(c *ctx) string {
	def := func(id, term string, syns ...string) zh.Doc {
		return zh.Doc{Fields: []zh.Field{zh.IDField(id), {Name: "syn1", Typ: 's', Syn: []zh.SynDef{{Term: term, Syns: syns}}}}}
	}
	b := zh.Batch{def("i00", "xray", "p"), def("i01", "yoke", "q"), def("i02", "tango", "p", "r"), def("i03", "tango", "q"), def("i04", "tango", "r", "p")}
	other := zh.Batch{def("j00", "tango", "z"), def("j01", "alpha", "q")}
	for mask := 1; mask < 1<<5-1; mask++ {
		if mask&(mask-1) != 0 && mask != 0b10100 && mask != 0b00101 && mask != 0b01100 {
			continue // single deletions, and three pairs
		}
		for _, two := range []bool{false, true} {
			e1, err := newBuilt(c, b, 1026, mask%2 == 0)
			must(err)
			var drops []uint64
			for d := 0; d < 5; d++ {
				if mask&(1<<d) != 0 {
					drops = append(drops, uint64(d))
				}
			}
			mc := &mergeCase{ins: []*segEnt{e1}, drops: [][]uint64{drops}, nilBM: []bool{false}, mode: 1026}
			if two {
				e2, err := newBuilt(c, other, 1026, false)
				must(err)
				mc.ins, mc.drops, mc.nilBM = append(mc.ins, e2), append(mc.drops, nil), append(mc.nilBM, true)
			}
			c.Case(fmt.Sprintf("id-order-deletion-%05b-%v", mask, two), true)
			c.Count("merges_deleting_the_holder_of_the_lowest_and_highest_synonym_id")
			bad, r, spec := mergeVerdict(c, mc, []int{pThes}, false)
			if bad == "" && r.seg != nil {
				bad = thesaurusQueries(c, r.seg, spec)
			}
			if r != nil && r.seg != nil {
				r.seg.Close()
			}
			for _, e := range mc.ins {
				e.close()
			}
			if bad != "" {
				return fmt.Sprintf("documents %v deleted from a segment in which term tango is defined by document 2 with synonyms p, r (lowest and highest internal id), document 3 with q and document 4 with r, p; second input: %v\n%s\n%s", drops, two, clip(bad), clip(mc.describe()))
			}
		}
	}
	return ""
}

// wideThesaurusMerge: a thesaurus with more than 16384 distinct synonyms (internal ids needing three
// varint bytes), among them synonyms of 251, 252, 253 and 300 bytes that come last; merged with a
// small segment and merged again.  Expectation by construction (the extracted specification would
// take minutes on lists of this size).
func wideThesaurusMerge(c *ctx) string {
	var syns []string
	for i := 0; i < 16390; i++ {
		syns = append(syns, fmt.Sprintf("s%05d", i))
	}
	for _, n := range []int{251, 252, 253, 300} {
		syns = append(syns, "z"+fmt.Sprint(n)+strings.Repeat("w", n-1-len(fmt.Sprint(n))))
	}
	a := zh.Batch{{Fields: []zh.Field{zh.IDField("wide0"), {Name: "syn1", Typ: 's', Syn: []zh.SynDef{{Term: "big", Syns: syns}}}}}}
	bsmall := zh.Batch{{Fields: []zh.Field{zh.IDField("small0"), {Name: "syn1", Typ: 's', Syn: []zh.SynDef{{Term: "cat", Syns: []string{"feline", syns[len(syns)-3]}}}}}}}
	sa, _, err := zh.Build(a, 1026)
	must(err)
	sbb, _, err := zh.Build(bsmall, 1026)
	must(err)
	defer sa.Close()
	defer sbb.Close()
	verify := func(seg segment.Segment, bigDoc, catDoc uint64, what string) string {
		th, err := zh.DumpThesaurus(seg.(segment.ThesaurusSegment), "syn1", nil)
		if err != nil {
			return what + ": " + err.Error()
		}
		want := map[string]map[string]uint64{"big": {}, "cat": {"feline": catDoc, syns[len(syns)-3]: catDoc}}
		for _, sy := range syns {
			want["big"][sy] = bigDoc
		}
		if len(th.Terms) != 2 {
			return fmt.Sprintf("%s: the thesaurus lists %d terms, want big and cat", what, len(th.Terms))
		}
		for _, t := range th.Terms {
			w := want[t.Term]
			if len(t.Pairs) != len(w) {
				return fmt.Sprintf("%s: term %q has %d pairs, want %d", what, t.Term, len(t.Pairs), len(w))
			}
			for _, p := range t.Pairs {
				if d, ok := w[p.Syn]; !ok || d != p.Doc {
					return fmt.Sprintf("%s: term %q yields the pair (%q, document %d), which the input does not define (synonyms of 251, 252, 253 and 300 bytes are defined for document %d)", what, t.Term, clip(p.Syn), p.Doc, bigDoc)
				}
			}
		}
		return ""
	}
	segs := []segment.Segment{sa, sbb}
	maps, _, path, err := zh.Merge(segs, []*roaring.Bitmap{nil, nil}, 1026)
	if err != nil {
		return "merge of a thesaurus with 16394 synonyms failed: " + err.Error()
	}
	defer os.Remove(path)
	m1, err := zh.Plugin.Open(path)
	if err != nil {
		return "the merged file cannot be opened: " + err.Error()
	}
	defer m1.Close()
	c.Case("wide-thesaurus-merge", true)
	c.Count("merges_of_a_thesaurus_with_more_than_16384_synonyms")
	if bad := verify(m1, maps[0][0], maps[1][0], "merge of a thesaurus with 16394 distinct synonyms (the last four of 251, 252, 253 and 300 bytes) with a small one"); bad != "" {
		return bad
	}
	maps2, _, path2, err := zh.Merge([]segment.Segment{m1}, []*roaring.Bitmap{nil}, 1026)
	if err != nil {
		return "second-generation merge failed: " + err.Error()
	}
	defer os.Remove(path2)
	m2, err := zh.Plugin.Open(path2)
	if err != nil {
		return "the second-generation file cannot be opened: " + err.Error()
	}
	defer m2.Close()
	return verify(m2, maps2[0][maps[0][0]], maps2[0][maps[1][0]], "the same merged again on its own")
}
