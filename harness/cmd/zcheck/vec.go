//go:build vectors

package main

import (
	"fmt"
	"math"
	"os"
	"sort"
	"sync"
	"time"

	"github.com/RoaringBitmap/roaring/v2"
	faiss "github.com/blevesearch/go-faiss"
	segment "github.com/blevesearch/scorch_segment_api/v2"
	zap "github.com/blevesearch/zapx/v16"

	"zverif/sx"
	"zverif/zh"
)

func init() {
	register("C14", checkC14)
	register("C15", checkC15)
	register("C16", checkC16)
	register("C19", checkC19)
}

var vecFieldNames = []string{"vec", "emb"}
var sims = []string{"l2_norm", "dot_product", "cosine"}

type vecOpts struct {
	dims   map[string]int
	sim    map[string]string
	opt    map[string]string
	nVecFs int
}

func genVecOpts(c *ctx) vecOpts {
	o := vecOpts{dims: map[string]int{}, sim: map[string]string{}, opt: map[string]string{}, nVecFs: 1 + c.R.Intn(2)}
	for _, f := range vecFieldNames {
		o.dims[f] = 2 + c.R.Intn(3)
		o.sim[f] = sims[c.R.Intn(3)]
		o.opt[f] = []string{"recall", "latency", "memory-efficient"}[c.R.Intn(3)]
	}
	return o
}

func randVec(c *ctx, n int) []float32 {
	v := make([]float32, n)
	for i := range v {
		v[i] = float32(c.R.Intn(41)-20) / 4
	}
	return v
}

// addVectors gives documents 0-2 vector fields with 1-3 sub-vectors each; sometimes duplicates a vector
// of an earlier document.
func addVectors(c *ctx, b zh.Batch, o vecOpts, density int) zh.Batch {
	var pool [][]float32
	for i := range b {
		for fi := 0; fi < o.nVecFs; fi++ {
			if c.R.Intn(density) == 0 {
				continue
			}
			name := vecFieldNames[fi]
			d := o.dims[name]
			k := 1 + c.R.Intn(3)
			var data []float32
			for j := 0; j < k; j++ {
				if len(pool) > 0 && c.R.Chance(6) {
					p := pool[c.R.Intn(len(pool))]
					if len(p) == d {
						data = append(data, p...)
						continue
					}
				}
				v := randVec(c, d)
				pool = append(pool, v)
				data = append(data, v...)
			}
			b[i].Fields = append(b[i].Fields, zh.Field{Name: name, Typ: 'v', Vec: &zh.VecDef{Dims: d, Sim: o.sim[name], Opt: o.opt[name], Data: data}})
		}
	}
	return b
}

// orderKey maps a score to an integer that orders like "better first" for the metric.
func orderKey(sim string, score float32) uint64 {
	bits := math.Float32bits(score)
	var asc uint32 // ascending with the float value
	if bits&0x80000000 != 0 {
		asc = ^bits
	} else {
		asc = bits | 0x80000000
	}
	if sim == "l2_norm" {
		return uint64(asc) // smaller distance is better
	}
	return uint64(^asc) // larger similarity is better
}

func metricOf(sim string) int {
	if sim == "l2_norm" {
		return faiss.MetricL2
	}
	return faiss.MetricInnerProduct
}

// candidates computes, with the engine's own float expression, the score of every indexed vector.
func candidates(vf sx.V, q []float32) sx.V {
	sim := string(vf.L[2].B)
	var cs []sx.V
	for _, dv := range vf.L[4].L {
		v := make([]float32, len(dv.L[1].L))
		for i, x := range dv.L[1].L {
			v[i] = math.Float32frombits(uint32(x.N))
		}
		s := faiss.Score(metricOf(sim), q, v)
		cs = append(cs, sx.L(dv.L[0], sx.N(orderKey(sim, s)), sx.N(uint64(math.Float32bits(s)))))
	}
	return sx.List(cs)
}

type vhit struct {
	doc  uint64
	bits uint32
}

// capableOnly: open the handle as filter-capable (requiresFiltering=true) but run an unfiltered Search
var capableOnly bool

// callerBitmap, when set, is the one exclusion bitmap object a caller reuses for all its opens
var callerBitmap *roaring.Bitmap

func runSearch(vs segment.VectorSegment, field string, q []float32, k int64, except []uint64, exceptNil bool, eligible []uint64, filtered bool) (hits []vhit, bad string) {
	defer func() {
		if r := recover(); r != nil {
			bad = fmt.Sprintf("PANIC: %v", r)
		}
	}()
	var ex *roaring.Bitmap
	if !exceptNil {
		ex = bitmapOf(except)
		if callerBitmap != nil {
			// the caller keeps ONE bitmap object and updates it in place between its opens
			callerBitmap.Clear()
			callerBitmap.AddMany(ex.ToArray())
			ex = callerBitmap
		}
	}
	vi, err := vs.InterpretVectorIndex(field, filtered || capableOnly, ex)
	if err != nil {
		return nil, "InterpretVectorIndex error: " + err.Error()
	}
	defer vi.Close()
	return searchHandle(vi, q, k, eligible, filtered)
}

func searchHandle(vi segment.VectorIndex, q []float32, k int64, eligible []uint64, filtered bool) (hits []vhit, bad string) {
	var pl segment.VecPostingsList
	var err error
	if filtered {
		pl, err = vi.SearchWithFilter(q, k, eligible, nil)
	} else {
		pl, err = vi.Search(q, k, nil)
	}
	if err != nil {
		return nil, "search error: " + err.Error()
	}
	// with vecReuse on (sequential checks only) the caller recycles the iterator of its previous
	// search, which it had left half read
	var prev segment.VecPostingsIterator
	if vecReuse {
		prev = halfReadIt
	}
	it := pl.Iterator(prev)
	for {
		p, err := it.Next()
		if err != nil {
			return nil, "iterator error: " + err.Error()
		}
		if p == nil {
			break
		}
		hits = append(hits, vhit{p.Number(), math.Float32bits(p.Score())})
	}
	if vecReuse {
		halfReadIt = pl.Iterator(nil)
		if len(hits) > 1 {
			halfReadIt.Next()
		}
	}
	return hits, ""
}

var (
	vecReuse   bool
	halfReadIt segment.VecPostingsIterator
)

// judge compares a result with the specification, tolerating only what the statement leaves open
// (which of several equally scored vectors make the cut).
func judge(c *ctx, hits []vhit, cands sx.V, except []uint64, eligible []uint64, filtered bool, k int64, exact bool) string {
	el := sx.L()
	if filtered {
		el = sx.L(sx.Nums(eligible))
	}
	a := ask(c, sx.L(sx.N(zh.ReqVecSearch), cands, sx.Nums(except), el, sx.N(uint64(k))))
	if _, bad := sx.IsErr(a); bad {
		mustH(fmt.Errorf("model rejected the search request"))
	}
	adm := a.L[1].L // all admissible candidates, best first: (doc key bits)
	type code struct {
		doc  uint64
		bits uint64
	}
	admSet := map[code]uint64{} // code -> key
	for _, x := range adm {
		admSet[code{x.L[0].N, x.L[2].N}] = x.L[1].N
	}
	if int64(len(hits)) > k {
		return fmt.Sprintf("%d results for k=%d", len(hits), k)
	}
	for _, h := range hits {
		if _, ok := admSet[code{h.doc, uint64(h.bits)}]; !ok {
			return fmt.Sprintf("result (doc %d, score bits %#x) is not the score of an admissible (non-excluded%s) vector of that document", h.doc, h.bits, map[bool]string{true: ", eligible", false: ""}[filtered])
		}
	}
	if !exact {
		return ""
	}
	// exact index: the k best
	kk := int(k)
	if kk > len(adm) {
		kk = len(adm)
	}
	if kk == 0 {
		if len(hits) != 0 {
			return "results although no vector is admissible"
		}
		return ""
	}
	cut := adm[kk-1].L[1].N // key of the k-th best
	got := map[code]bool{}
	for _, h := range hits {
		got[code{h.doc, uint64(h.bits)}] = true
		if admSet[code{h.doc, uint64(h.bits)}] > cut {
			return fmt.Sprintf("result (doc %d, score bits %#x) is worse than the %d-th best admissible vector", h.doc, h.bits, kk)
		}
	}
	distinctTop := map[code]bool{}
	for i, x := range adm {
		if x.L[1].N < cut {
			if !got[code{x.L[0].N, x.L[2].N}] {
				return fmt.Sprintf("the %d-th best admissible vector (doc %d, score bits %#x) is missing from the top-%d", i+1, x.L[0].N, x.L[2].N, k)
			}
		}
		if i < kk {
			distinctTop[code{x.L[0].N, x.L[2].N}] = true
		}
	}
	// without ties at the cut the result is exactly the k best
	tie := kk < len(adm) && adm[kk].L[1].N == cut
	if !tie && len(got) != len(distinctTop) {
		return fmt.Sprintf("%d distinct results, the %d best admissible vectors give %d", len(got), kk, len(distinctTop))
	}
	return ""
}

func vecSpec(c *ctx, b zh.Batch) sx.V {
	a := ask(c, sx.L(sx.N(zh.ReqSpecVec), b.Sx()))
	if _, bad := sx.IsErr(a); bad {
		mustH(fmt.Errorf("model rejected the vector spec request"))
	}
	return a
}

func vfieldOf(vspec sx.V, name string) (sx.V, bool) {
	for _, v := range vspec.L {
		if string(v.L[0].B) == name {
			return v, true
		}
	}
	return sx.V{}, false
}

type statsSink map[string]map[string]uint64

func (s statsSink) Store(stat, field string, v uint64) {
	if s[stat] == nil {
		s[stat] = map[string]uint64{}
	}
	s[stat][field] = v
}
func (s statsSink) Aggregate(segment.FieldStats)        {}
func (s statsSink) Fetch() map[string]map[string]uint64 { return s }

// vectorQueries runs a set of searches on one segment against the spec.
func vectorQueries(c *ctx, seg segment.Segment, vspec sx.V, ndocs uint64, o vecOpts, nq int, what string) string {
	return vectorQueriesOn(c, seg, vspec, ndocs, o, nq, what, "")
}

// vectorQueriesOn: as vectorQueries; a non-empty `only` makes most queries address that field (whether
// or not the segment has vectors for it)
func vectorQueriesOn(c *ctx, seg segment.Segment, vspec sx.V, ndocs uint64, o vecOpts, nq int, what string, only string) string {
	vecReuse, halfReadIt = true, nil
	defer func() { vecReuse, halfReadIt = false, nil }()
	vs, ok := seg.(segment.VectorSegment)
	if !ok {
		return "segment does not implement VectorSegment"
	}
	// per-field vector count statistic
	if fsr, ok := seg.(interface{ UpdateFieldStats(segment.FieldStats) }); ok {
		st := statsSink{}
		fsr.UpdateFieldStats(st)
		for _, v := range vspec.L {
			if got := st["num_vectors"][string(v.L[0].B)]; got != uint64(len(v.L[4].L)) {
				return fmt.Sprintf("num_vectors statistic of field %q is %d, %d vectors were indexed", v.L[0].B, got, len(v.L[4].L))
			}
		}
	}
	for qi := 0; qi < nq; qi++ {
		field := vecFieldNames[c.R.Intn(len(vecFieldNames))]
		if len(vspec.L) > 0 && !c.R.Chance(8) {
			field = string(vspec.L[c.R.Intn(len(vspec.L))].L[0].B) // mostly fields that have vectors
		}
		if c.R.Chance(14) {
			field = "body"
		}
		if only != "" && !c.R.Chance(6) {
			field = only
		}
		vf, has := vfieldOf(vspec, field)
		dims := o.dims[field]
		if dims == 0 {
			dims = 3
		}
		if c.R.Chance(14) {
			dims++ // wrong dimension
		}
		q := randVec(c, dims)
		if has && len(vf.L[4].L) > 0 && int(vf.L[1].N) == dims && c.R.Chance(4) {
			// the query IS one of the indexed vectors, bit for bit (a score of exactly 0 under l2) -
			// mostly the first vector of the lowest document
			dv := vf.L[4].L[0]
			if c.R.Chance(3) {
				dv = vf.L[4].L[c.R.Intn(len(vf.L[4].L))]
			}
			q = make([]float32, len(dv.L[1].L))
			for i, x := range dv.L[1].L {
				q[i] = math.Float32frombits(uint32(x.N))
			}
		}
		k := int64(1 + c.R.Intn(6))
		if c.R.Chance(5) {
			k = int64(ndocs*3 + 5)
		}
		var except, eligible []uint64
		exceptNil := c.R.Chance(3)
		if !exceptNil {
			for d := uint64(0); d < ndocs; d++ {
				if c.R.Chance(4) {
					except = append(except, d)
				}
			}
		}
		filtered := c.R.Bool()
		if filtered {
			isEx := map[uint64]bool{}
			for _, d := range except {
				isEx[d] = true
			}
			switch c.R.Intn(4) {
			case 0: // empty
			case 1: // all live documents
				for d := uint64(0); d < ndocs; d++ {
					if !isEx[d] {
						eligible = append(eligible, d)
					}
				}
			default:
				for d := uint64(0); d < ndocs; d++ {
					if !isEx[d] && c.R.Intn(3) != 0 {
						eligible = append(eligible, d)
					}
				}
			}
		}
		capableOnly = !filtered && c.R.Chance(3)
		hits, bad := runSearch(vs, field, q, k, except, exceptNil, eligible, filtered)
		desc := fmt.Sprintf("%s: field %q query %v k=%d except=%v (nil=%v) filtered=%v (handle opened filter-capable=%v) eligible=%v", what, field, q, k, except, exceptNil, filtered, filtered || capableOnly, eligible)
		capableOnly = false
		if bad != "" {
			return desc + "\n" + bad
		}
		c.Count("searches")
		if filtered {
			c.Count("filtered_searches")
		}
		if !has || int(vf.L[1].N) != len(q) {
			if len(hits) != 0 {
				return desc + fmt.Sprintf("\n%d results for a field without vectors / a query of the wrong dimension", len(hits))
			}
			c.Count("empty_by_dimension_or_field")
			continue
		}
		exact := len(vf.L[4].L) < 1000
		if bad := judge(c, hits, candidates(vf, q), except, eligible, filtered, k, exact); bad != "" {
			sort.Slice(hits, func(i, j int) bool { return hits[i].doc < hits[j].doc })
			return desc + "\n" + bad + fmt.Sprintf("\nresults (doc, score bits): %v\nvectors of the field (doc, float bits): %s", hits, clip(vf.L[4].Pretty()))
		}
	}
	return ""
}

func waitQuiescent() {
	// evicted / cleared indexes are closed on a separate goroutine
	for i := 0; i < 50; i++ {
		faiss.Mu.Lock()
		live := faiss.Live
		faiss.Mu.Unlock()
		if live == 0 {
			return
		}
		time.Sleep(2 * time.Millisecond)
	}
}

func engineCounters() (live, dbl, uac int) {
	faiss.Mu.Lock()
	defer faiss.Mu.Unlock()
	return faiss.Live, faiss.DoubleClose, faiss.UseAfterClose
}

func genVecBatch(c *ctx, nd int, id string, o vecOpts) zh.Batch {
	bo := zh.RandOpts(c.R, nd, id)
	bo.NFields = 2
	b := addVectors(c, zh.GenBatch(c.R, bo), o, 4)
	if mixedVecText && c.R.Chance(3) {
		// the name of a vector field is an ordinary text field with doc values in documents that
		// carry no vector under it (a field name has data in two sections)
		for i := range b {
			has := false
			for _, f := range b[i].Fields {
				if f.Name == "vec" {
					has = true
				}
			}
			if !has && c.R.Bool() {
				b[i].Fields = append(b[i].Fields, zh.Field{Name: "vec", DV: true, Len: 1, Toks: []zh.Tok{{Term: "txt", Freq: 1}}})
			}
		}
	}
	return b
}

// mixedVecText: see genVecBatch
var mixedVecText = true

// ---------------- C14 ----------------

func checkC14(c *ctx) {
	c.Rule = "batches with vector fields (0-2 vector fields per document, 1-3 sub-vectors each, duplicate vectors across documents, L2 / dot-product / cosine, all three optimisation settings) built against the stand-in engine; searches x exclusion bitmaps (nil / random) x k (1-6 and larger than the number of vectors) x eligible sets (none, empty, all live documents, partial) x wrong dimension / fields without vectors; every result iterator recycles the previous search's half-read iterator; in memory and after persist+open; plus one field with >= 1000 vectors (clustered index: soundness only); every result pair must be the true score (engine's float expression) of an admissible vector of that document, at most k pairs, and for exact indexes precisely the k best (ties at the cut tolerated) as computed by the extracted spec_search; num_vectors statistic; non-trivial = field with >= 3 vectors and k < number of admissible vectors"
	c.Assumptions = append(c.Assumptions, "the vector engine is the pure-Go stand-in fakefaiss (real FAISS is not installable here): exact brute-force search, 'IVF' emulated; nothing is claimed about FAISS numerics or recall",
		"eligible document sets do not contain excluded documents (the filter of a kNN query only yields live documents)")
	n := c.n(50, 1500)
	for i := 0; i < n; i++ {
		o := genVecOpts(c)
		b := genVecBatch(c, 2+c.R.Intn(14), "v", o)
		vspec := vecSpec(c, b)
		sb, _, err := zh.Build(b, randMode(c))
		if err != nil {
			c.Violation("C14 build failed: "+err.Error()+"\nbatch: "+clip(b.Sx().String()), false)
			return
		}
		nv := 0
		for _, v := range vspec.L {
			nv += len(v.L[4].L)
		}
		c.Case(b.Sx().String(), nv >= 3)
		c.CountN("vectors", nv)
		if i == 1 {
			c.Sample(map[string]interface{}{"vector_fields": clip(vspec.Pretty()), "docs": len(b)})
		}
		if bad := vectorQueries(c, sb, vspec, uint64(len(b)), o, 6, "in-memory segment"); bad != "" {
			c.Violation("C14 "+bad+"\nbatch: "+clip(b.Sx().String()), false)
			return
		}
		seg, _, err := zh.PersistOpen(sb)
		must(err)
		bad := vectorQueries(c, seg, vspec, uint64(len(b)), o, 4, "persisted and re-opened segment")
		seg.Close()
		sb.Close()
		if bad != "" {
			c.Violation("C14 "+bad+"\nbatch: "+clip(b.Sx().String()), false)
			return
		}
	}
	// clustered index class: >= 1000 vectors
	o := genVecOpts(c)
	o.nVecFs = 1
	var b zh.Batch
	for d := 0; d < 620; d++ {
		doc := zh.Doc{Fields: []zh.Field{zh.IDField(fmt.Sprintf("L%04d", d))}}
		dims := o.dims["vec"]
		doc.Fields = append(doc.Fields, zh.Field{Name: "vec", Typ: 'v', Vec: &zh.VecDef{Dims: dims, Sim: o.sim["vec"], Opt: o.opt["vec"], Data: append(randVec(c, dims), randVec(c, dims)...)}})
		b = append(b, doc)
	}
	vspec := vecSpec(c, b)
	sb, _, err := zh.Build(b, 1026)
	if err != nil {
		c.Violation("C14 build of the clustered-index batch failed: "+err.Error(), false)
		return
	}
	c.Case("clustered-1240-vectors", true)
	c.Count("clustered_index_batches")
	if bad := vectorQueries(c, sb, vspec, uint64(len(b)), o, c.n(25, 300), "in-memory segment with 1240 vectors (clustered index class)"); bad != "" {
		c.Violation("C14 "+bad, false)
	}
	sb.Close()
	waitQuiescent()
	if live, dbl, uac := engineCounters(); live != 0 || dbl != 0 || uac != 0 {
		c.Violation(fmt.Sprintf("C14 engine accounting after all segments were closed: %d live indexes, %d double closes, %d uses after close", live, dbl, uac), false)
	}
}

// largeVectorMerge: a merge whose output has >= 1000 surviving vectors (the rebuilt index is of the
// clustered class): every result must still be the true score of a vector of the document it names.
func largeVectorMerge(c *ctx) string {
	if bad := largeVectorMergeP(c, 600, 600, 5, 5, "", "", false); bad != "" {
		return bad
	}
	// inputs holding >= 1000 vectors of which fewer than 1000 survive: the output's index is exact
	if bad := largeVectorMergeP(c, 700, 500, 400, 0, "", "", false); bad != "" {
		return bad
	}
	// a second generation: the >= 1000-vector output (vectors not of unit length, compressed index
	// class) is merged again; its vectors must come through unchanged
	return largeVectorMergeP(c, 620, 590, 7, 3, "dot_product", "memory-efficient", true)
}

// namedVectorMerge: vector fields with unusual but legal names (leading underscore, dots, upper
// case, digits first) merged and merged again.
func namedVectorMerge(c *ctx) string {
	for _, name := range []string{"_vec", "_emb.v1", "Vec", "0vec", "vec_2"} {
		o := genVecOpts(c)
		o.nVecFs = 0
		o.dims[name], o.sim[name], o.opt[name] = 3, "l2_norm", "recall"
		dup := randVec(c, 3) // one vector that occurs, bit for bit, in a document of each input (and twice in the first)
		mk := func(id string, n int) (*segEnt, sx.V, error) {
			var b zh.Batch
			for d := 0; d < n; d++ {
				data := randVec(c, 3)
				if d == 2 || (d == 4 && id == "p") {
					data = append([]float32(nil), dup...)
				}
				b = append(b, zh.Doc{Fields: []zh.Field{zh.IDField(fmt.Sprintf("%s%02d", id, d)),
					{Name: name, Typ: 'v', Vec: &zh.VecDef{Dims: 3, Sim: "l2_norm", Opt: "recall", Data: data}}}})
			}
			e, err := newBuilt(c, b, 1026, c.R.Bool())
			if err != nil {
				return nil, sx.V{}, err
			}
			return e, vecSpec(c, b), nil
		}
		e1, v1, err := mk("p", 5)
		must(err)
		e2, v2, err := mk("q", 4)
		must(err)
		mc := &mergeCase{ins: []*segEnt{e1, e2}, drops: [][]uint64{{1}, nil}, nilBM: []bool{false, true}, mode: 1026}
		spec, maps := specMerge(c, mc)
		mv := ask(c, sx.L(sx.N(zh.ReqMergeVec), sx.L(v1, v2), maps))
		if _, bad := sx.IsErr(mv); bad {
			mustH(fmt.Errorf("model rejected merge_vfields"))
		}
		r := runMerge(c, mc)
		if r.err != nil || r.seg == nil {
			return fmt.Sprintf("merge of two segments with a vector field named %q failed: %v", name, r.err)
		}
		c.Case("named-vector-merge-"+name, true)
		c.Count("merges_of_vector_fields_with_unusual_names")
		what := fmt.Sprintf("merge of 5 + 4 documents with a vector field named %q, one deletion, re-opened", name)
		bad := vectorQueriesOn(c, r.seg, mv, spec.L[pNDocs].N, o, 10, what, name)
		if bad == "" {
			e3 := &segEnt{seg: r.seg, spec: spec, n: spec.L[pNDocs].N, prov: "merged", depth: 1}
			mc2 := &mergeCase{ins: []*segEnt{e3}, drops: [][]uint64{{0}}, nilBM: []bool{false}, mode: 1026}
			spec2, maps2 := specMerge(c, mc2)
			mv2 := ask(c, sx.L(sx.N(zh.ReqMergeVec), sx.L(mv), maps2))
			r2 := runMerge(c, mc2)
			if r2.err != nil || r2.seg == nil {
				bad = fmt.Sprintf("second-generation merge failed: %v", r2.err)
			} else {
				bad = vectorQueriesOn(c, r2.seg, mv2, spec2.L[pNDocs].N, o, 10, what+", merged again with one more deletion", name)
				r2.seg.Close()
			}
		}
		r.seg.Close()
		e1.close()
		e2.close()
		if bad != "" {
			return bad
		}
	}
	return ""
}

func largeVectorMergeP(c *ctx, n1, n2, nd1, nd2 int, sim, opt string, remerge bool) string {
	o := genVecOpts(c)
	o.nVecFs = 1
	if sim != "" {
		o.sim["vec"] = sim
	}
	if opt != "" {
		o.opt["vec"] = opt
	}
	dims := o.dims["vec"]
	mk := func(id string, n int) (*segEnt, sx.V, error) {
		var b zh.Batch
		for d := 0; d < n; d++ {
			doc := zh.Doc{Fields: []zh.Field{zh.IDField(fmt.Sprintf("%s%04d", id, d))}}
			doc.Fields = append(doc.Fields, zh.Field{Name: "vec", Typ: 'v', Vec: &zh.VecDef{Dims: dims, Sim: o.sim["vec"], Opt: o.opt["vec"], Data: randVec(c, dims)}})
			b = append(b, doc)
		}
		e, err := newBuilt(c, b, 1026, false)
		if err != nil {
			return nil, sx.V{}, err
		}
		return e, vecSpec(c, b), nil
	}
	pick := func(n, k int) []uint64 {
		var rv []uint64
		seen := map[int]bool{}
		for len(rv) < k {
			if i := c.R.Intn(n); !seen[i] {
				seen[i] = true
				rv = append(rv, uint64(i))
			}
		}
		sort.Slice(rv, func(i, j int) bool { return rv[i] < rv[j] })
		return rv
	}
	e1, v1, err := mk("m", n1)
	if err != nil {
		return "build failed: " + err.Error()
	}
	e2, v2, err := mk("n", n2)
	if err != nil {
		return "build failed: " + err.Error()
	}
	mc := &mergeCase{ins: []*segEnt{e1, e2}, drops: [][]uint64{pick(n1, nd1), pick(n2, nd2)}, nilBM: []bool{false, nd2 == 0}, mode: 1026}
	spec, maps := specMerge(c, mc)
	mv := ask(c, sx.L(sx.N(zh.ReqMergeVec), sx.L(v1, v2), maps))
	if _, bad := sx.IsErr(mv); bad {
		mustH(fmt.Errorf("model rejected merge_vfields"))
	}
	r := runMerge(c, mc)
	if r.err != nil || r.seg == nil {
		return fmt.Sprintf("merge failed: %v", r.err)
	}
	defer r.seg.Close()
	surv := n1 + n2 - nd1 - nd2
	c.Case("large-vector-merge", true)
	if surv >= 1000 {
		c.Count("merges_with_1000_or_more_surviving_vectors")
	} else {
		c.Count("merges_of_1000_or_more_vectors_with_fewer_than_1000_survivors")
	}
	what := fmt.Sprintf("merge of %d + %d documents (one vector each, field options %s/%s) with %d + %d deletions (%d surviving vectors), re-opened", n1, n2, o.sim["vec"], o.opt["vec"], nd1, nd2, surv)
	if bad := vectorQueries(c, r.seg, mv, spec.L[pNDocs].N, o, c.n(12, 100), what); bad != "" {
		return bad
	}
	if remerge {
		e3 := &segEnt{seg: r.seg, spec: spec, n: spec.L[pNDocs].N, prov: "merged", depth: 1}
		mc2 := &mergeCase{ins: []*segEnt{e3}, drops: [][]uint64{pick(surv, 4)}, nilBM: []bool{false}, mode: 1026}
		spec2, maps2 := specMerge(c, mc2)
		mv2 := ask(c, sx.L(sx.N(zh.ReqMergeVec), sx.L(mv), maps2))
		if _, bad := sx.IsErr(mv2); bad {
			mustH(fmt.Errorf("model rejected merge_vfields"))
		}
		r2 := runMerge(c, mc2)
		if r2.err != nil || r2.seg == nil {
			return fmt.Sprintf("second-generation merge failed: %v", r2.err)
		}
		defer r2.seg.Close()
		c.Count("second_generation_merges_of_1000_or_more_vectors")
		if bad := vectorQueries(c, r2.seg, mv2, spec2.L[pNDocs].N, o, c.n(12, 100), what+", that output merged again on its own with 4 deletions"); bad != "" {
			return bad
		}
	}
	for _, e := range []*segEnt{e1, e2} {
		if sbb, ok := e.seg.(*zap.SegmentBase); ok {
			sbb.Close()
		}
	}
	return ""
}

// hugeVectorMerge: more than 2^18 floats of surviving vector data in one field of one merge (2190
// vectors of 128 dimensions); every survivor must be found by a search for its own vector.  The
// expectation follows from the construction (l2 distance 0), the extracted model is not consulted.
func hugeVectorMerge(c *ctx) string {
	const dims, per = 128, 1100
	mk := func(id string) (*zap.SegmentBase, [][]float32, error) {
		var b zh.Batch
		var vecs [][]float32
		for d := 0; d < per; d++ {
			v := make([]float32, dims)
			for i := range v {
				v[i] = float32(c.R.Intn(201)-100) / 8
			}
			vecs = append(vecs, v)
			b = append(b, zh.Doc{Fields: []zh.Field{zh.IDField(fmt.Sprintf("%s%04d", id, d)),
				{Name: "vec", Typ: 'v', Vec: &zh.VecDef{Dims: dims, Sim: "l2_norm", Opt: "recall", Data: v}}}})
		}
		sb, _, err := zh.Build(b, 1026)
		return sb, vecs, err
	}
	s1, v1, err := mk("u")
	if err != nil {
		return "build failed: " + err.Error()
	}
	s2, v2, err := mk("w")
	if err != nil {
		return "build failed: " + err.Error()
	}
	defer s1.Close()
	defer s2.Close()
	d1, d2 := []uint32{3, 500, 777, 1000, 1099}, []uint32{0, 1, 600, 900, 1098}
	bm1, bm2 := roaring.BitmapOf(d1...), roaring.BitmapOf(d2...)
	path := zh.TmpPath("c15huge")
	defer os.Remove(path)
	if _, _, err := zap.VerifMerge([]segment.Segment{s1, s2}, []*roaring.Bitmap{bm1, bm2}, path, 1026, nil, nil); err != nil {
		return "merge failed: " + err.Error()
	}
	seg, err := zh.Plugin.Open(path)
	if err != nil {
		return "merged file cannot be opened: " + err.Error()
	}
	defer seg.Close()
	// new number of every survivor and its vector
	type surv struct {
		doc uint64
		v   []float32
	}
	var all []surv
	nn := uint64(0)
	for d := 0; d < per; d++ {
		if !bm1.Contains(uint32(d)) {
			all = append(all, surv{nn, v1[d]})
			nn++
		}
	}
	for d := 0; d < per; d++ {
		if !bm2.Contains(uint32(d)) {
			all = append(all, surv{nn, v2[d]})
			nn++
		}
	}
	c.Case("huge-vector-merge", true)
	c.CountN("huge_merge_surviving_vectors", len(all))
	probe := func(s surv) string {
		hits, bad := runSearch(seg.(segment.VectorSegment), "vec", s.v, 1, nil, true, nil, false)
		if bad != "" {
			return bad
		}
		if len(hits) != 1 || hits[0].doc != s.doc || hits[0].bits != 0 {
			return fmt.Sprintf("a search for the vector of merged document %d (k=1) returns %v; that document's own vector is at distance 0", s.doc, hits)
		}
		return ""
	}
	for i := 0; i < 40; i++ {
		if bad := probe(all[c.R.Intn(len(all))]); bad != "" {
			return bad
		}
	}
	for i := len(all) - 150; i < len(all); i += 3 { // the tail of the merged data
		if bad := probe(all[i]); bad != "" {
			return bad
		}
	}
	return ""
}

// ---------------- C15 ----------------

// failedMergeBefore: a merge of two throw-away segments (other documents, other vectors) that fails
// because the engine reports an error; the verified merge that follows must not be affected by it.
// Returns a description for the replay ("" when the merge did not fail).
func failedMergeBefore(c *ctx, o vecOpts) string {
	var segs []segment.Segment
	for _, p := range []string{"y", "z"} {
		sb, _, err := zh.Build(genVecBatch(c, 3+c.R.Intn(6), p, o), 1026)
		must(err)
		segs = append(segs, sb)
	}
	defer func() {
		for _, s := range segs {
			s.(*zap.SegmentBase).Close()
		}
	}()
	ops := []string{"ReconstructBatch", "AddWithIDs", "WriteIndexIntoBuffer", "IndexFactory", "ReadIndexFromBuffer"}
	op, n := ops[c.R.Intn(len(ops))], 1+c.R.Intn(2)
	faiss.Mu.Lock()
	faiss.FailAt = map[string]int{op: n}
	faiss.Calls = map[string]int{}
	faiss.Mu.Unlock()
	path := zh.TmpPath("c15f")
	var err error
	func() {
		defer func() {
			if r := recover(); r != nil {
				err = fmt.Errorf("PANIC %v", r)
			}
		}()
		_, _, err = zap.VerifMerge(segs, []*roaring.Bitmap{nil, nil}, path, 1026, nil, nil)
	}()
	faiss.Mu.Lock()
	faiss.FailAt = map[string]int{}
	faiss.Mu.Unlock()
	os.Remove(path)
	if err == nil {
		return ""
	}
	c.Count("verified_merges_preceded_by_a_failed_merge")
	return fmt.Sprintf("\nimmediately before it: a merge of two other freshly built segments (3..8 documents each, same field options) in which call #%d of %s of the engine fails; it returned %v", n, op, err)
}

func checkC15(c *ctx) {
	c.Rule = "merge chains (depth <= 3) over segments with vector fields (fields present in only some inputs, inputs whose vectors are all deleted, as many deleted documents as the field has vectors, built / opened / merged inputs; merges of 600+600 documents with 1190 survivors, of 700+500 documents with 800 survivors (inputs above, output below the exact-index limit of 1000), and a dot_product/memory-efficient 620+590 merge whose output is merged again) x deletion bitmaps {nil, empty, random, all}; the merged, re-opened segment is searched (exhaustive k and small k, with exclusions and filters) against the extracted merge_vfields (survivors' vectors under the new numbering); num_vectors statistic; a field whose vectors all died must have no index; engine accounting (every index created is released); non-trivial = >= 2 inputs with vectors and >= 2 surviving vectors"
	c.Assumptions = append(c.Assumptions, "stand-in engine (see C14)")
	if bad := largeVectorMerge(c); bad != "" {
		c.Violation("C15 "+bad, false)
		return
	}
	if bad := namedVectorMerge(c); bad != "" {
		c.Violation("C15 "+bad, false)
		return
	}
	if bad := manyInputVectorMerge(c); bad != "" {
		c.Violation("C15 "+bad, false)
		return
	}
	if bad := concurrentVectorMerges(c); bad != "" {
		c.Violation("C15 "+bad, false)
		return
	}
	if bad := hugeVectorMerge(c); bad != "" {
		c.Violation("C15 merge of 1100 + 1100 documents with 128-dimensional vectors, 10 deletions (2190 surviving vectors, more than 2^18 floats)\n"+bad, false)
		return
	}
	waitQuiescent()
	rounds := c.n(45, 1200)
	for i := 0; i < rounds; i++ {
		o := genVecOpts(c)
		type vent struct {
			*segEnt
			v sx.V
		}
		var pool, retired []*vent
		for j := 0; j < 2+c.R.Intn(4); j++ {
			oo := o
			if c.R.Chance(4) {
				oo.nVecFs = 0 // a segment without vectors
			} else if c.R.Chance(3) {
				oo.nVecFs = 1 // the second vector field only exists in some inputs
			}
			b := genVecBatch(c, 1+c.R.Intn(9), string(rune('a'+j)), oo)
			e, err := newBuilt(c, b, randMode(c), c.R.Bool())
			if err != nil {
				c.Violation("C15 build failed: "+err.Error(), false)
				return
			}
			pool = append(pool, &vent{e, vecSpec(c, b)})
		}
		for s := 0; s < 1+c.R.Intn(3) && len(pool) > 0; s++ {
			// as in a real merge history every segment is consumed by at most one merge (vector ids are
			// unique per build; a segment merged twice, or together with its own merge output, is not an input
			// the index ever produces)
			k := 1 + c.R.Intn(3)
			if k > len(pool) {
				k = len(pool)
			}
			mc := &mergeCase{mode: mergeModes[c.R.Intn(len(mergeModes))]}
			var vs []sx.V
			var consumed []*vent
			for q := 0; q < k; q++ {
				j := c.R.Intn(len(pool))
				e := pool[j]
				pool = append(pool[:j], pool[j+1:]...)
				consumed = append(consumed, e)
				mc.ins = append(mc.ins, e.segEnt)
				d, isNil := genDrops(c, e.n)
				mc.drops = append(mc.drops, d)
				mc.nilBM = append(mc.nilBM, isNil)
				vs = append(vs, e.v)
			}
			retired = append(retired, consumed...)
			if c.R.Chance(3) {
				// as many deleted documents as the field has vectors in that input, while a document
				// with a vector survives (documents without the field, or with several vectors, exist)
				q := c.R.Intn(len(consumed))
				e := consumed[q]
				if vf, has := vfieldOf(e.v, "vec"); has {
					nv := uint64(len(vf.L[4].L))
					hasVec := map[uint64]bool{}
					for _, dv := range vf.L[4].L {
						hasVec[dv.L[0].N] = true
					}
					if nv > 0 && nv < e.n {
						var without, with []uint64
						for d := uint64(0); d < e.n; d++ {
							if hasVec[d] {
								with = append(with, d)
							} else {
								without = append(without, d)
							}
						}
						for j := range without {
							x := j + c.R.Intn(len(without)-j)
							without[j], without[x] = without[x], without[j]
						}
						for j := range with {
							x := j + c.R.Intn(len(with)-j)
							with[j], with[x] = with[x], with[j]
						}
						cand := append(without, with[:len(with)-1]...) // one document with a vector always survives
						if uint64(len(cand)) >= nv {
							dr := append([]uint64(nil), cand[:nv]...)
							sort.Slice(dr, func(a, b int) bool { return dr[a] < dr[b] })
							mc.drops[q], mc.nilBM[q] = dr, false
							c.Count("deleted_docs_equal_vector_count_cases")
						}
					}
				}
			} else if c.R.Chance(3) {
				// delete every document that carries one of the vector fields, in every input
				victim := vecFieldNames[c.R.Intn(len(vecFieldNames))]
				for q, e := range consumed {
					if vf, has := vfieldOf(e.v, victim); has {
						seen := map[uint64]bool{}
						var dr []uint64
						for _, d := range mc.drops[q] {
							seen[d] = true
							dr = append(dr, d)
						}
						for _, dv := range vf.L[4].L {
							if !seen[dv.L[0].N] {
								seen[dv.L[0].N] = true
								dr = append(dr, dv.L[0].N)
							}
						}
						sort.Slice(dr, func(a, b int) bool { return dr[a] < dr[b] })
						mc.drops[q], mc.nilBM[q] = dr, false
					}
				}
				c.Count("field_fully_deleted_cases")
			}
			spec, maps := specMerge(c, mc)
			mv := ask(c, sx.L(sx.N(zh.ReqMergeVec), sx.List(vs), maps))
			if _, bad := sx.IsErr(mv); bad {
				mustH(fmt.Errorf("model rejected merge_vfields"))
			}
			nv := 0
			for _, v := range mv.L {
				nv += len(v.L[4].L)
			}
			c.Case(mc.describe(), len(mc.ins) >= 2 && nv >= 2)
			c.CountN("surviving_vectors", nv)
			c.Count(fmt.Sprintf("inputs=%d", len(mc.ins)))
			failedFirst := ""
			if c.R.Chance(3) {
				failedFirst = failedMergeBefore(c, o)
			}
			r := runMerge(c, mc)
			if r.err != nil || r.seg == nil {
				c.Violation(fmt.Sprintf("C15 merge failed: %v\n%s%s", r.err, clip(mc.describe()), failedFirst), false)
				return
			}
			if i == 1 && s == 0 {
				c.Sample(map[string]interface{}{"merge": clip(mc.describe()), "merged_vector_fields": clip(mv.Pretty())})
			}
			if bad := vectorQueries(c, r.seg, mv, spec.L[pNDocs].N, o, 8, "merged and re-opened segment"); bad != "" {
				c.Violation("C15 "+bad+"\nexpected vector fields of the merged segment: "+clip(mv.Pretty())+"\n"+clip(mc.describe())+failedFirst, false)
				return
			}
			// a field all of whose vectors died carries no index: a search with huge k finds nothing
			for _, f := range vecFieldNames {
				if _, has := vfieldOf(mv, f); !has {
					hits, bad := runSearch(r.seg, f, randVec(c, o.dims[f]), 1000, nil, true, nil, false)
					if bad != "" || len(hits) != 0 {
						c.Violation(fmt.Sprintf("C15 field %q has no surviving vector but a search returns %d results (%s)\n%s", f, len(hits), bad, clip(mc.describe())), false)
						return
					}
				}
			}
			pool = append(pool, &vent{&segEnt{seg: r.seg, spec: spec, n: spec.L[pNDocs].N, prov: "merged"}, mv})
		}
		for _, e := range append(pool, retired...) {
			e.close()
			if sbb, ok := e.seg.(*zap.SegmentBase); ok {
				sbb.Close()
			}
		}
		waitQuiescent()
		if live, dbl, uac := engineCounters(); live != 0 || dbl != 0 || uac != 0 {
			c.Violation(fmt.Sprintf("C15 engine accounting after the merges and after closing every segment: %d live indexes, %d double closes, %d uses after close", live, dbl, uac), false)
			return
		}
	}
}

// manyInputVectorMerge: one merge call with 70 inputs (most of one document; the first ones without a
// vector field), vectors surviving in inputs beyond the 64th.
func manyInputVectorMerge(c *ctx) string {
	o := genVecOpts(c)
	o.nVecFs = 0
	o.dims["vec"], o.sim["vec"], o.opt["vec"] = 3, "l2_norm", "recall"
	var ins []*segEnt
	var vs []sx.V
	var drops [][]uint64
	var nilBM []bool
	for i := 0; i < 70; i++ {
		var b zh.Batch
		for d := 0; d < 1+i%2; d++ {
			doc := zh.Doc{Fields: []zh.Field{zh.IDField(fmt.Sprintf("m%02d%d", i, d))}}
			if i >= 3 {
				doc.Fields = append(doc.Fields, zh.Field{Name: "vec", Typ: 'v', Vec: &zh.VecDef{Dims: 3, Sim: "l2_norm", Opt: "recall", Data: randVec(c, 3)}})
			} else {
				doc.Fields = append(doc.Fields, zh.Field{Name: "body", Len: 1, Toks: []zh.Tok{{Term: "x", Freq: 1}}})
			}
			b = append(b, doc)
		}
		e, err := newBuilt(c, b, 1026, i%5 == 0)
		must(err)
		ins, vs = append(ins, e), append(vs, vecSpec(c, b))
		if i%9 == 4 && len(b) == 2 {
			drops, nilBM = append(drops, []uint64{0}), append(nilBM, false)
		} else {
			drops, nilBM = append(drops, nil), append(nilBM, true)
		}
	}
	mc := &mergeCase{ins: ins, drops: drops, nilBM: nilBM, mode: 1026}
	spec, maps := specMerge(c, mc)
	mv := ask(c, sx.L(sx.N(zh.ReqMergeVec), sx.List(vs), maps))
	if _, bad := sx.IsErr(mv); bad {
		mustH(fmt.Errorf("model rejected merge_vfields"))
	}
	r := runMerge(c, mc)
	if r.err != nil || r.seg == nil {
		return fmt.Sprintf("merge of 70 inputs failed: %v", r.err)
	}
	defer r.seg.Close()
	c.Case("vector-merge-70-inputs", true)
	c.Count("vector_merges_with_70_inputs")
	bad := vectorQueriesOn(c, r.seg, mv, spec.L[pNDocs].N, o, 12, "one merge call with 70 inputs (the first three without the vector field), re-opened", "vec")
	for _, e := range ins {
		e.close()
	}
	return bad
}

// concurrentVectorMerges: six independent merges (their own inputs, their own outputs) in flight at
// the same time; each output must be what its inputs dictate.
func concurrentVectorMerges(c *ctx) string {
	o := genVecOpts(c)
	o.nVecFs = 0
	o.dims["vec"], o.sim["vec"], o.opt["vec"] = 4, "l2_norm", "recall"
	type task struct {
		mc   *mergeCase
		mv   sx.V
		spec sx.V
		r    *mergeResult
	}
	for round := 0; round < c.n(6, 60); round++ {
		var tasks []*task
		for t := 0; t < 6; t++ {
			mk := func(id string, n int) (*segEnt, sx.V) {
				var b zh.Batch
				for d := 0; d < n; d++ {
					b = append(b, zh.Doc{Fields: []zh.Field{zh.IDField(fmt.Sprintf("%s%d%02d", id, t, d)),
						{Name: "vec", Typ: 'v', Vec: &zh.VecDef{Dims: 4, Sim: "l2_norm", Opt: "recall", Data: randVec(c, 4)}}}})
				}
				e, err := newBuilt(c, b, 1026, false)
				must(err)
				return e, vecSpec(c, b)
			}
			e1, v1 := mk("c", 300+30*t)
			e2, v2 := mk("d", 250+10*t)
			mc := &mergeCase{ins: []*segEnt{e1, e2}, drops: [][]uint64{{1}, nil}, nilBM: []bool{false, true}, mode: 1026}
			spec, maps := specMerge(c, mc)
			mv := ask(c, sx.L(sx.N(zh.ReqMergeVec), sx.L(v1, v2), maps))
			if _, bad := sx.IsErr(mv); bad {
				mustH(fmt.Errorf("model rejected merge_vfields"))
			}
			tasks = append(tasks, &task{mc: mc, mv: mv, spec: spec})
		}
		var wg sync.WaitGroup
		for _, tk := range tasks {
			wg.Add(1)
			go func(tk *task) {
				defer wg.Done()
				defer func() {
					if p := recover(); p != nil {
						tk.r = &mergeResult{err: fmt.Errorf("PANIC %v", p)}
					}
				}()
				tk.r = runMerge(c, tk.mc)
			}(tk)
		}
		wg.Wait()
		c.Count("rounds_of_six_concurrent_vector_merges")
		bad := ""
		for ti, tk := range tasks {
			if tk.r == nil || tk.r.err != nil || tk.r.seg == nil {
				bad = fmt.Sprintf("merge %d of six concurrent ones failed: %v", ti, tk.r.err)
			} else if bad == "" {
				if b := vectorQueriesOn(c, tk.r.seg, tk.mv, tk.spec.L[pNDocs].N, o, 6, fmt.Sprintf("six independent vector merges in flight at the same time (round %d); output of merge %d, re-opened", round, ti), "vec"); b != "" {
					bad = b
				}
			}
			if tk.r != nil && tk.r.seg != nil {
				tk.r.seg.Close()
			}
			for _, e := range tk.mc.ins {
				e.close()
				if sbb, ok := e.seg.(*zap.SegmentBase); ok {
					sbb.Close()
				}
			}
		}
		if bad != "" {
			return bad
		}
	}
	return ""
}
